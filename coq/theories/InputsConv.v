(* InputsConv.v — get_run_func and run() place adaptive input samples on different durations; when they coincide. *)
From Coq Require Import List ZArith QArith Qcanon Bool Arith Lia.
From PV Require Import History Solver Interp Inputs.
Import ListNotations.

(* the two conventions of the code for the duration covered by an adaptive input: get_run_func uses N * step_size,
   run() uses simulation_time.  They give the same vector field whenever every (normalised) input array has
   N * step_size = simulation_time, i.e. one sample per step - the case of every input in the pinned test suite. *)
Lemma delivered_ext (f g : arr -> src -> option Qc) inp i :
  (forall s, f (normalise (fst inp)) s = g (normalise (fst inp)) s) -> delivered f inp i = delivered g inp i.
Proof.
  intro H. unfold delivered. cbn zeta.
  induction (wiring (normalise (fst inp)) (snd inp)) as [|e l IH]; [reflexivity|].
  cbn [fold_right]. rewrite IH, H. reflexivity.
Qed.

Lemma forcing_ext (f g : arr -> src -> option Qc) inputs i :
  (forall inp, In inp inputs -> forall s, f (normalise (fst inp)) s = g (normalise (fst inp)) s) ->
  forcing f inputs i = forcing g inputs i.
Proof.
  unfold forcing. induction inputs as [|inp inputs IH]; intro H; [reflexivity|].
  cbn [fold_right]. rewrite IH by (intros inp' Hin; apply H; right; exact Hin).
  rewrite (delivered_ext f g inp i) by (apply H; left; reflexivity). reflexivity.
Qed.

Theorem adaptive_conventions_agree dt T udef W inputs t x :
  (forall inp, In inp inputs -> (nq (alen (normalise (fst inp))) * dt)%Qc = T) ->
  vf_adaptive dt udef W inputs t x = vf_adaptive_run T udef W inputs t x.
Proof.
  intro H. unfold vf_adaptive, vf_adaptive_run.
  assert (E : forall i, forcing (fun a s => sample_adaptive a (nq (alen a) * dt)%Qc t s) inputs i =
                        forcing (fun a s => sample_adaptive a T t s) inputs i).
  { intro i. apply forcing_ext. intros inp Hin s. cbn beta. rewrite (H inp Hin). reflexivity. }
  assert (M : map (fun i => oadd (forcing (fun a s => sample_adaptive a (nq (alen a) * dt)%Qc t s) inputs i)
                                 (Some (base udef W inputs i + dot (nth i W []) x)%Qc)) (seq 0 (length x)) =
              map (fun i => oadd (forcing (fun a s => sample_adaptive a T t s) inputs i)
                                 (Some (base udef W inputs i + dot (nth i W []) x)%Qc)) (seq 0 (length x))).
  { apply map_ext. intro i. rewrite E. reflexivity. }
  cbn zeta. rewrite M. reflexivity.
Qed.
