(* Heap.v — a small object store for the template layer of PyRates (frontend/template/*.py).

   Python objects with identity are entries of a list; an id is a position.  Several names may hold the SAME id
   (shared OperatorTemplate / NodeTemplate / CircuitTemplate objects).  Allocation appends (fresh ids are >= the old
   length), `hset` overwrites one entry (attribute assignment on that object), `copy_node` / `copy_circ` are
   `copy.deepcopy` restricted to what these objects reach:

     OperatorTemplate  : name, equations, variables (the defaults dict)                          -> OOp
     NodeTemplate      : operators = { OperatorTemplate object -> variations dict }              -> ONode
     CircuitTemplate   : nodes / circuits = { name -> NodeTemplate | CircuitTemplate object },
                         edges = [(source var, target var, attribute dict)]                      -> OCirc

   Python dicts are insertion-ordered association lists with first-match lookup (`dget`), replace-or-append
   assignment (`dset`) and `dict.update` (`dupdate`).  Definitions and the generic store lemmas only. *)
From Coq Require Import List String Arith Bool QArith Qcanon Lia.
Import ListNotations.
Open Scope nat_scope.

Definition mkq (num : Z) (den : positive) : Qc := Q2Qc (num # den).
Definition Qc_eqb (a b : Qc) : bool := Qeq_bool (this a) (this b).

Definition id := nat.
(* Sc / Arr: a number / a 1-d array; ScI: a default declared by a bare integer (`tau: 10`, dtype 'int');
   Ref: a string-valued edge attribute holding a variable path (`edge_op/var: node/op/var`) *)
Inductive val := Sc (q : Qc) | Arr (l : list Qc) | ScI (z : Z) | Ref (p : string).
Definition vars := list (string * val).
Definition edge := (string * string * vars)%type.

Inductive obj :=
| OOp (name : string) (eqs : list string) (defs : vars)
| ONode (ops : list (id * vars))
| OCirc (children : list (string * id)) (edges : list edge).

Definition heap := list obj.
Definition lookup (h : heap) (i : id) : option obj := nth_error h i.
Definition alloc (h : heap) (o : obj) : heap * id := (h ++ [o], List.length h).
Fixpoint set_at {A} (l : list A) (i : nat) (x : A) : list A :=
  match l, i with
  | [], _ => []
  | _ :: t, O => x :: t
  | y :: t, S j => y :: set_at t j x
  end.
Definition hset (h : heap) (i : id) (o : obj) : heap := set_at h i o.

Definition is_circ (o : obj) : bool := match o with OCirc _ _ => true | _ => false end.

(* ---- dictionaries ---- *)
Fixpoint dget {V} (k : string) (l : list (string * V)) : option V :=
  match l with
  | [] => None
  | (k', v) :: t => if String.eqb k k' then Some v else dget k t
  end.
Fixpoint dset {V} (k : string) (v : V) (l : list (string * V)) : list (string * V) :=
  match l with
  | [] => [(k, v)]
  | (k', v') :: t => if String.eqb k k' then (k, v) :: t else (k', v') :: dset k v t
  end.
Definition dhas {V} (k : string) (l : list (string * V)) : bool :=
  match dget k l with Some _ => true | None => false end.
Definition dupdate {V} (l upd : list (string * V)) : list (string * V) :=
  fold_left (fun acc kv => dset (fst kv) (snd kv) acc) upd l.

Fixpoint mapM {A B} (f : A -> option B) (l : list A) : option (list B) :=
  match l with
  | [] => Some []
  | x :: t => match f x, mapM f t with Some y, Some r => Some (y :: r) | _, _ => None end
  end.

(* ---- deepcopy ---- *)
(* deepcopy(NodeTemplate): the operators dict is keyed by the OperatorTemplate objects, which are copied as well
   (one fresh object per key, variations dicts copied by value). *)
Fixpoint copy_ops (h : heap) (ops : list (id * vars)) : option (heap * list (id * vars)) :=
  match ops with
  | [] => Some (h, [])
  | (oid, vs) :: r =>
    match lookup h oid with
    | Some (OOp n e d) =>
      match copy_ops (h ++ [OOp n e d]) r with
      | Some (h2, r') => Some (h2, (List.length h, vs) :: r')
      | None => None
      end
    | _ => None
    end
  end.
Definition copy_node (h : heap) (nid : id) : option (heap * id) :=
  match lookup h nid with
  | Some (ONode ops) =>
    match copy_ops h ops with
    | Some (h2, ops') => Some (alloc h2 (ONode ops'))
    | None => None
    end
  | _ => None
  end.

(* deepcopy(CircuitTemplate) with the memo dictionary of copy.deepcopy (old id -> new id): an object reached twice is
   copied once, so sharing inside the copied sub-graph is preserved.  `d` = hierarchy depth of the circuit
   (`CircuitTemplate._depth`): children of a depth-0 circuit are nodes, of a depth-(d+1) circuit depth-d circuits. *)
Definition memo := list (id * id).
Fixpoint mget (i : id) (m : memo) : option id :=
  match m with [] => None | (a, b) :: t => if Nat.eqb i a then Some b else mget i t end.

Fixpoint copy_ops_m (h : heap) (m : memo) (ops : list (id * vars)) : option (heap * memo * list (id * vars)) :=
  match ops with
  | [] => Some (h, m, [])
  | (oid, vs) :: r =>
    match mget oid m with
    | Some oid' =>
      match copy_ops_m h m r with Some (h2, m2, r') => Some (h2, m2, (oid', vs) :: r') | None => None end
    | None =>
      match lookup h oid with
      | Some (OOp n e d) =>
        match copy_ops_m (h ++ [OOp n e d]) ((oid, List.length h) :: m) r with
        | Some (h2, m2, r') => Some (h2, m2, (List.length h, vs) :: r')
        | None => None
        end
      | _ => None
      end
    end
  end.
Definition copy_node_m (h : heap) (m : memo) (nid : id) : option (heap * memo * id) :=
  match mget nid m with
  | Some nid' => Some (h, m, nid')
  | None =>
    match lookup h nid with
    | Some (ONode ops) =>
      match copy_ops_m h m ops with
      | Some (h2, m2, ops') => Some (h2 ++ [ONode ops'], (nid, List.length h2) :: m2, List.length h2)
      | None => None
      end
    | _ => None
    end
  end.
Fixpoint copy_children (f : heap -> memo -> id -> option (heap * memo * id)) (h : heap) (m : memo)
         (ch : list (string * id)) : option (heap * memo * list (string * id)) :=
  match ch with
  | [] => Some (h, m, [])
  | (n, c) :: r =>
    match f h m c with
    | Some (h1, m1, c') =>
      match copy_children f h1 m1 r with Some (h2, m2, r') => Some (h2, m2, (n, c') :: r') | None => None end
    | None => None
    end
  end.
Fixpoint copy_circ (d : nat) (h : heap) (m : memo) (c : id) : option (heap * memo * id) :=
  match mget c m with
  | Some c' => Some (h, m, c')
  | None =>
    match lookup h c with
    | Some (OCirc ch es) =>
      match copy_children (match d with O => copy_node_m | S d' => copy_circ d' end) h m ch with
      | Some (h2, m2, ch') => Some (h2 ++ [OCirc ch' es], (c, List.length h2) :: m2, List.length h2)
      | None => None
      end
    | _ => None
    end
  end.

(* ---- store lemmas ---- *)
Definition extends (h h' : heap) : Prop := exists ext, h' = h ++ ext.

Lemma extends_refl h : extends h h.
Proof. exists []. now rewrite app_nil_r. Qed.
Lemma extends_trans a b c : extends a b -> extends b c -> extends a c.
Proof. intros [x ->] [y ->]. exists (x ++ y). now rewrite app_assoc. Qed.
Lemma extends_app h e : extends h (h ++ e).
Proof. now exists e. Qed.
Lemma extends_lookup h h' i o : extends h h' -> lookup h i = Some o -> lookup h' i = Some o.
Proof.
  intros [e ->] H. unfold lookup in *. rewrite nth_error_app1; [assumption|].
  apply nth_error_Some. congruence.
Qed.
Lemma extends_length h h' : extends h h' -> List.length h <= List.length h'.
Proof. intros [e ->]. rewrite app_length. lia. Qed.
Lemma lookup_lt h i o : lookup h i = Some o -> i < List.length h.
Proof. intros H. apply nth_error_Some. unfold lookup in H. congruence. Qed.
Lemma lookup_alloc_new h o : lookup (h ++ [o]) (List.length h) = Some o.
Proof. unfold lookup. rewrite nth_error_app2 by lia. now rewrite Nat.sub_diag. Qed.

Lemma set_at_length {A} (l : list A) i x : List.length (set_at l i x) = List.length l.
Proof. revert i; induction l; intros [|i]; cbn; auto. Qed.
Lemma set_at_same {A} (l : list A) i x : i < List.length l -> nth_error (set_at l i x) i = Some x.
Proof. revert i; induction l; intros [|i] H; cbn in *; try lia; auto. apply IHl. lia. Qed.
Lemma set_at_other {A} (l : list A) i j x : i <> j -> nth_error (set_at l i x) j = nth_error l j.
Proof. revert i j; induction l; intros [|i] [|j] H; cbn; auto; try congruence. Qed.
Lemma hset_same h i o : i < List.length h -> lookup (hset h i o) i = Some o.
Proof. apply set_at_same. Qed.
Lemma hset_other h i j o : i <> j -> lookup (hset h i o) j = lookup h j.
Proof. apply set_at_other. Qed.
