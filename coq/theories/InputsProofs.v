(* InputsProofs.v — proofs about Inputs.v and Interp.v. *)
From Coq Require Import List ZArith QArith Qcanon Bool Arith Lia ZifyBool.
From PV Require Import History HistoryProofs Solver SolverProofs Interp Inputs.
Import ListNotations.
Local Open Scope nat_scope.

(* ------------------------------------------------------------------------------------------------ *)
(* shape rule: an (N,1) array is the (N,) array of its entries *)
Lemma column0_singletons l : column 0 (map (fun v => [v]) l) = l.
Proof. unfold column. rewrite map_map. cbn. apply map_id. Qed.

Theorem shape_rule l : l <> [] -> normalise (A2 (map (fun v => [v]) l)) = A1 l.
Proof.
  destruct l as [|v l]; [congruence|]. intros _.
  change (normalise (A2 (map (fun v => [v]) (v :: l)))) with (A1 (column 0 (map (fun v => [v]) (v :: l)))).
  now rewrite column0_singletons.
Qed.

Theorem delivered_shape sample l tg i : l <> [] ->
  delivered sample (A2 (map (fun v => [v]) l), tg) i = delivered sample (A1 l, tg) i.
Proof. intros H. unfold delivered. cbn [fst snd]. rewrite shape_rule by assumption. reflexivity. Qed.

(* wiring rule *)
Theorem wiring_columns a tg : ncols a = length tg -> 1 < ncols a ->
  wiring a tg = combine tg (map Col (seq 0 (length tg))).
Proof.
  intros H1 H2. unfold wiring. rewrite H1, Nat.eqb_refl. cbn [andb].
  destruct (1 <? length tg) eqn:E; [reflexivity|lia].
Qed.

Theorem wiring_broadcast a tg : ncols a <> length tg \/ ncols a <= 1 ->
  wiring a tg = map (fun t => (t, Whole)) tg.
Proof.
  intros H. unfold wiring.
  destruct ((ncols a =? length tg) && (1 <? ncols a)) eqn:E; [|reflexivity].
  apply andb_prop in E as [E1 E2]. lia.
Qed.

Corollary wiring_1d l tg : wiring (A1 l) tg = map (fun t => (t, Whole)) tg.
Proof. apply wiring_broadcast. right. cbn. lia. Qed.

(* ------------------------------------------------------------------------------------------------ *)
(* the value a 1-D input delivers to unit i at step k: inp[k] if i is addressed, nothing otherwise *)
Lemma NoDupb_cons x l : NoDupb (x :: l) = true -> existsb (Nat.eqb x) l = false /\ NoDupb l = true.
Proof. cbn. intros H. apply andb_prop in H as [H1 H2]. split; [now apply negb_true_iff|exact H2]. Qed.

Lemma index_of_none i l : existsb (Nat.eqb i) l = false -> index_of i l = None.
Proof.
  induction l as [|j l IH]; cbn; [reflexivity|]. intros H. apply orb_false_elim in H as [H1 H2].
  rewrite Nat.eqb_sym in H1. rewrite H1. now rewrite IH.
Qed.

Lemma fold_broadcast (g : src -> option Qc) (v : Qc) i tg : g Whole = Some v -> NoDupb tg = true ->
  fold_right (fun e acc => if (fst e =? i) then oadd (g (snd e)) acc else acc) (Some 0%Qc) (map (fun t => (t, Whole)) tg) =
  Some (match index_of i tg with Some _ => v | None => 0%Qc end).
Proof.
  intros Hg. induction tg as [|j tg IH]; intros Hnd; [reflexivity|].
  apply NoDupb_cons in Hnd as [Hj Hnd]. cbn [map fold_right fst snd index_of]. rewrite IH by assumption.
  destruct (j =? i) eqn:E.
  - apply Nat.eqb_eq in E. subst j. rewrite index_of_none by assumption. rewrite Hg. cbn. f_equal. ring.
  - destruct (index_of i tg); reflexivity.
Qed.

Theorem delivered_1d l tg i k : NoDupb tg = true -> k < length l ->
  delivered (fun a s => sample_fixed a k s) (A1 l, tg) i = Some (spec_value (A1 l, tg) i k).
Proof.
  intros Hnd Hk. unfold delivered, spec_value. cbn [fst snd normalise]. rewrite wiring_1d.
  assert (Hs : nth_error l k = Some (nth k l 0%Qc)) by (now apply nth_error_nth').
  rewrite (fold_broadcast (fun s => sample_fixed (A1 l) k s) (nth k l 0%Qc)) by assumption. reflexivity.
Qed.

Theorem delivered_column l tg i k : l <> [] -> NoDupb tg = true -> k < length l ->
  delivered (fun a s => sample_fixed a k s) (A2 (map (fun v => [v]) l), tg) i = Some (spec_value (A1 l, tg) i k).
Proof. intros Hl Hnd Hk. rewrite delivered_shape by assumption. now apply delivered_1d. Qed.

(* the per-column form: with n = #targets > 1 the p-th target receives column p *)
Lemma fold_columns (r : list row) k i : forall tg s, NoDupb tg = true -> k < length r ->
  fold_right (fun e acc => if (fst e =? i) then oadd (sample_fixed (A2 r) k (snd e)) acc else acc) (Some 0%Qc)
             (combine tg (map Col (seq s (length tg)))) =
  Some (match index_of i tg with Some p => nth (s + p) (nth k r []) 0%Qc | None => 0%Qc end).
Proof.
  induction tg as [|j tg IH]; intros s Hnd Hk; [reflexivity|].
  apply NoDupb_cons in Hnd as [Hj Hnd]. cbn [length seq map combine fold_right fst snd index_of].
  rewrite (IH (S s)) by assumption.
  destruct (j =? i) eqn:E.
  - apply Nat.eqb_eq in E. subst j. rewrite index_of_none by assumption.
    cbn [sample_fixed]. rewrite (nth_error_nth' r [] Hk). cbn [option_map oadd]. f_equal.
    replace (s + 0) with s by lia. ring.
  - destruct (index_of i tg) as [p|]; cbn [option_map]; [|reflexivity]. now replace (S s + p) with (s + S p) by lia.
Qed.

Theorem delivered_2d r tg i k : length (hd [] r) = length tg -> 1 < length tg -> NoDupb tg = true -> k < length r ->
  delivered (fun a s => sample_fixed a k s) (A2 r, tg) i = Some (spec_value (A2 r, tg) i k).
Proof.
  intros Hn H1 Hnd Hk. unfold delivered, spec_value. cbn [fst snd normalise].
  destruct (length (hd [] r) =? 1) eqn:E; [lia|].
  rewrite wiring_columns by (cbn [ncols]; lia).
  rewrite (fold_columns r k i tg 0) by assumption. reflexivity.
Qed.

(* several inputs on one unit add *)
Theorem forcing_cons sample inp inputs i :
  forcing sample (inp :: inputs) i = oadd (delivered sample inp i) (forcing sample inputs i).
Proof. reflexivity. Qed.

Theorem spec_u_cons inp inputs i k : spec_u (inp :: inputs) i k = (spec_value inp i k + spec_u inputs i k)%Qc.
Proof. reflexivity. Qed.

(* ------------------------------------------------------------------------------------------------ *)
(* right time: in step k (counted from 0) both solvers evaluate the inputs at sample k; Heun in both stages *)
Theorem input_at_step_euler udef W inputs dt k x :
  fst (euler_step (net_rhs udef W inputs) dt tt k x) = vadd x (vscale dt (fst (net_rhs udef W inputs tt k x))).
Proof. reflexivity. Qed.

Theorem input_at_step_heun udef W inputs dt k x :
  fst (heun_step (net_rhs udef W inputs) dt tt k x) =
  let r1 := fst (net_rhs udef W inputs tt k x) in
  vadd x (vscale (dt / Q2Qc 2)%Qc (vadd r1 (fst (net_rhs udef W inputs tt k (vadd x (vscale dt r1)))))).
Proof. reflexivity. Qed.

(* composition with the integrator x' = u: x_k = x_0 + dt * (u_0 + ... + u_{k-1}), Euler and Heun *)
Fixpoint usum (u : nat -> Qc) (k : nat) : Qc := match k with O => 0%Qc | S k' => (usum u k' + u k')%Qc end.
Definition integrator (u : nat -> Qc) (c : unit) (t : nat) (y : row) : row * unit := ([u t], c).

Theorem euler_integrator u dt x0 k :
  fst (traj (euler_step (integrator u) dt) 0 0 [x0] tt k) = [(x0 + dt * usum u k)%Qc].
Proof.
  induction k as [|k IH].
  - cbn. f_equal. ring.
  - rewrite traj_S. destruct (traj (euler_step (integrator u) dt) 0 0 [x0] tt k) as [y1 c1]. cbn [fst] in IH. subst y1.
    destruct c1. cbn. f_equal. replace (k + 0) with k by lia. ring.
Qed.

Lemma Q2Qc_two : Q2Qc 2 = (1 + 1)%Qc.
Proof. apply Qc_is_canon. reflexivity. Qed.
Lemma half_double (dt a : Qc) : (dt / Q2Qc 2 * (a + a) = dt * a)%Qc.
Proof. rewrite Q2Qc_two. field. intros H. apply (f_equal this) in H. discriminate. Qed.

Theorem heun_integrator u dt x0 k :
  fst (traj (heun_step (integrator u) dt) 0 0 [x0] tt k) = [(x0 + dt * usum u k)%Qc].
Proof.
  induction k as [|k IH].
  - cbn. f_equal. ring.
  - rewrite traj_S. destruct (traj (heun_step (integrator u) dt) 0 0 [x0] tt k) as [y1 c1]. cbn [fst] in IH. subst y1.
    destruct c1. cbn. f_equal. replace (k + 0) with k by lia. rewrite half_double. ring.
Qed.

(* ------------------------------------------------------------------------------------------------ *)
(* regression of fix D89 (was refuted_depth2: AttributeError for any input at hierarchy depth >= 2) *)
Lemma depth2_after_D89 :
  outcome_eqb (run_inputs Euler true 2 (mkq 1 1) (mkq 1 4) None (mkq 0 1) (mkq 0 1) [[mkq 0 1]] [(A1 [mkq 1 1; mkq 2 1; mkq 4 1; mkq 8 1], [0])] [mkq 1 2])
              (Rows [[mkq 0 1; mkq 1 2]; [mkq 1 4; mkq 3 4]; [mkq 1 2; mkq 5 4]; [mkq 3 4; mkq 9 4]]) = true.
Proof. vm_compute. reflexivity. Qed.

Theorem run_inputs_depth_irrelevant s vectorize depth T dt dts cutoff udef W inputs x0 :
  run_inputs s vectorize depth T dt dts cutoff udef W inputs x0 = run_inputs s vectorize 0 T dt dts cutoff udef W inputs x0.
Proof. reflexivity. Qed.

(* ------------------------------------------------------------------------------------------------ *)
(* numpy.interp on an increasing grid: clamp outside, the line through the two neighbouring samples inside *)
Section InterpProofs.
Local Open Scope Qc_scope.

Lemma qleb_true a b : qleb a b = true <-> a <= b.
Proof. unfold qleb. rewrite Qle_bool_iff. reflexivity. Qed.
Lemma qltb_true a b : qltb a b = true <-> a < b.
Proof.
  unfold qltb. rewrite negb_true_iff. split; intros H.
  - apply Qcnot_le_lt. intros Hc. apply qleb_true in Hc. unfold qleb in Hc. congruence.
  - destruct (Qle_bool b a) eqn:E; [|reflexivity]. apply qleb_true in E. exfalso. apply (Qclt_not_le _ _ H). exact E.
Qed.
Lemma qltb_false a b : qltb a b = false <-> b <= a.
Proof.
  unfold qltb. rewrite negb_false_iff. apply qleb_true.
Qed.

Lemma increasing_tail a l : increasing (a :: l) -> increasing l.
Proof. cbn. tauto. Qed.

Lemma increasing_head_le_nth : forall l a i, increasing (a :: l) -> (i < length (a :: l))%nat -> a <= nth i (a :: l) 0.
Proof.
  induction l as [|b l IH]; intros a i Hinc Hi.
  - destruct i as [|[|i]]; cbn in *; try apply Qcle_refl; lia.
  - destruct i as [|i]; [apply Qcle_refl|].
    destruct Hinc as [Hab Hinc]. apply Qcle_trans with b; [now apply Qclt_le_weak|].
    change (nth (S i) (a :: b :: l) 0) with (nth i (b :: l) 0). apply IH; [exact Hinc|cbn in *; lia].
Qed.

Lemma increasing_head_le_last l a : increasing (a :: l) -> a <= last (a :: l) 0.
Proof.
  intros H. rewrite last_is_nth. apply increasing_head_le_nth; [exact H|cbn; lia].
Qed.

Theorem interp_np_below x xp fp x0 y0 rest : combine xp fp = (x0, y0) :: rest -> x <= x0 -> interp_np x xp fp = y0.
Proof. intros Hc Hx. unfold interp_np. rewrite Hc. apply qleb_true in Hx. now rewrite Hx. Qed.

Lemma interp_from_right : forall rest xa ya x, increasing (xa :: map fst rest) -> last (xa :: map fst rest) 0 <= x ->
  interp_from xa ya rest x = last (ya :: map snd rest) 0.
Proof.
  induction rest as [|[xb yb] rest IH]; intros xa ya x Hinc Hx; [reflexivity|].
  cbn [interp_from]. cbn [map fst snd] in *.
  assert (Hb : xb <= x).
  { apply Qcle_trans with (last (xb :: map fst rest) 0); [apply increasing_head_le_last; now apply increasing_tail in Hinc|exact Hx]. }
  apply qltb_false in Hb. rewrite Hb. apply IH; [now apply increasing_tail in Hinc|exact Hx].
Qed.

(* at or right of the last grid point: the last sample *)
Theorem interp_np_right x xp fp : length xp = length fp -> xp <> [] -> increasing xp -> last xp 0 <= x ->
  interp_np x xp fp = last fp 0.
Proof.
  intros Hl Hne Hinc Hx. unfold interp_np. destruct xp as [|x0 xp]; [congruence|]. destruct fp as [|y0 fp]; [discriminate|].
  cbn [combine]. cbn [length] in Hl. injection Hl as Hl.
  assert (Hf : map fst (combine xp fp) = xp) by (clear -Hl; revert fp Hl; induction xp; intros [|? ?] H; cbn in *; try discriminate; [reflexivity|f_equal; auto]).
  assert (Hs : map snd (combine xp fp) = fp) by (clear -Hl; revert fp Hl; induction xp; intros [|? ?] H; cbn in *; try discriminate; [reflexivity|f_equal; auto]).
  destruct (qleb x x0) eqn:E.
  - apply qleb_true in E. pose proof (increasing_head_le_last _ _ Hinc) as H0.
    assert (Heq : x0 = last (x0 :: xp) 0) by (apply Qcle_antisym; [exact H0|apply Qcle_trans with x; assumption]).
    destruct xp as [|x1 xp].
    + destruct fp; [reflexivity|discriminate].
    + exfalso. destruct Hinc as [H01 Hinc]. pose proof (increasing_head_le_last _ _ Hinc) as H1.
      change (last (x0 :: x1 :: xp) 0) with (last (x1 :: xp) 0) in Heq. rewrite <- Heq in H1.
      apply (Qclt_not_le _ _ H01 H1).
  - rewrite interp_from_right; rewrite ?Hf, ?Hs; try assumption. reflexivity.
Qed.

Lemma interp_from_segment : forall rest xa ya i x, increasing (xa :: map fst rest) -> (i < length rest)%nat ->
  nth i (xa :: map fst rest) 0 <= x -> x < nth (S i) (xa :: map fst rest) 0 ->
  interp_from xa ya rest x =
  lin (nth i (xa :: map fst rest) 0) (nth i (ya :: map snd rest) 0) (nth (S i) (xa :: map fst rest) 0) (nth (S i) (ya :: map snd rest) 0) x.
Proof.
  induction rest as [|[xb yb] rest IH]; intros xa ya i x Hinc Hi Hlo Hhi; [cbn in Hi; lia|].
  cbn [interp_from]. cbn [map fst snd] in *. destruct i as [|i].
  - cbn [nth] in *. apply qltb_true in Hhi. now rewrite Hhi.
  - assert (Hb : xb <= x).
    { apply Qcle_trans with (nth i (xb :: map fst rest) 0); [|exact Hlo].
      apply increasing_head_le_nth; [now apply increasing_tail in Hinc|cbn in *; rewrite map_length; lia]. }
    apply qltb_false in Hb. rewrite Hb.
    apply (IH xb yb i x); [now apply increasing_tail in Hinc|cbn in Hi; lia|exact Hlo|exact Hhi].
Qed.

(* strictly inside the grid: the line through the neighbouring samples (numpy's slope formula) *)
Theorem interp_np_between x xp fp i : length xp = length fp -> increasing xp -> (S i < length xp)%nat ->
  nth i xp 0 <= x -> x < nth (S i) xp 0 -> nth 0 xp 0 < x ->
  interp_np x xp fp = lin (nth i xp 0) (nth i fp 0) (nth (S i) xp 0) (nth (S i) fp 0) x.
Proof.
  intros Hl Hinc Hi Hlo Hhi H0. unfold interp_np. destruct xp as [|x0 xp]; [cbn in Hi; lia|]. destruct fp as [|y0 fp]; [discriminate|].
  cbn [combine]. cbn [length] in Hl. injection Hl as Hl.
  assert (Hf : map fst (combine xp fp) = xp) by (clear -Hl; revert fp Hl; induction xp; intros [|? ?] H; cbn in *; try discriminate; [reflexivity|f_equal; auto]).
  assert (Hs : map snd (combine xp fp) = fp) by (clear -Hl; revert fp Hl; induction xp; intros [|? ?] H; cbn in *; try discriminate; [reflexivity|f_equal; auto]).
  cbn [nth] in H0. assert (E : qleb x x0 = false).
  { destruct (qleb x x0) eqn:E; [|reflexivity]. apply qleb_true in E. exfalso. apply (Qclt_not_le _ _ H0 E). }
  rewrite E. pose proof (interp_from_segment (combine xp fp) x0 y0 i x) as HS. rewrite Hf, Hs in HS.
  apply HS; [assumption| |assumption|assumption]. rewrite combine_length. cbn in Hi. lia.
Qed.

(* on a sample point the line gives the sample *)
Theorem lin_at_left xa ya xb yb : lin xa ya xb yb xa = ya.
Proof. unfold lin. ring. Qed.

(* the grid of create_input_node: N points from 0 to T, the k-th at k*T/(N-1) *)
Theorem linspace_nth a b n k : (2 <= n)%nat -> (k < n)%nat -> nth k (linspace a b n) 0 = a + nq k * ((b - a) / nq (n - 1)).
Proof.
  intros Hn Hk. unfold linspace. destruct n as [|[|n]]; try lia.
  set (g := fun k => a + nq k * ((b - a) / nq (S (S n) - 1))).
  rewrite (nth_indep _ 0 (g 0%nat)) by (now rewrite map_length, seq_length).
  rewrite map_nth. now rewrite seq_nth by assumption.
Qed.

Theorem linspace_length a b n : length (linspace a b n) = n.
Proof. unfold linspace. destruct n as [|[|n]]; try reflexivity. now rewrite map_length, seq_length. Qed.
End InterpProofs.

(* ------------------------------------------------------------------------------------------------ *)
(* lifting the pointwise theorems to whole runs *)
Lemma delivered_normalise sample a tg i : delivered sample (a, tg) i = delivered sample (normalise a, tg) i.
Proof.
  assert (Hn : normalise (normalise a) = normalise a).
  { destruct a as [l|r]; [reflexivity|]. cbn [normalise]. destruct (length (hd [] r) =? 1) eqn:E; [reflexivity|].
    cbn [normalise]. now rewrite E. }
  unfold delivered. cbn [fst snd]. now rewrite Hn.
Qed.

Lemma nth_column0 r k : nth k (column 0 r) 0%Qc = nth 0 (nth k r []) 0%Qc.
Proof.
  unfold column. exact (map_nth (fun row : row => nth 0 row 0%Qc) r [] k).
Qed.

(* every accepted input delivers to every unit at every step below `steps` what the specification says *)
Theorem delivered_spec vectorize steps inp i k : input_ok vectorize steps inp = true -> k < steps ->
  delivered (fun a s => sample_fixed a k s) inp i = Some (spec_value inp i k).
Proof.
  intros Hok Hk. destruct inp as [a tg]. unfold input_ok in Hok. cbn [fst snd] in Hok.
  apply andb_prop in Hok as [Hok _]. apply andb_prop in Hok as [Hok Hnd]. apply andb_prop in Hok as [Hacc Hlen].
  destruct a as [l|r].
  - apply delivered_1d; [exact Hnd|cbn [alen] in Hlen]. apply Nat.leb_le in Hlen. lia.
  - cbn [alen] in Hlen. apply Nat.leb_le in Hlen. destruct (length (hd [] r) =? 1) eqn:E1.
    + rewrite delivered_normalise. cbn [normalise]. rewrite E1.
      rewrite delivered_1d; [|exact Hnd|unfold column; rewrite map_length; unfold row in *; lia].
      unfold spec_value. cbn [fst snd]. rewrite E1. destruct (index_of i tg); [|reflexivity]. now rewrite nth_column0.
    + unfold accepted in Hacc. cbn [fst snd normalise] in Hacc. rewrite E1 in Hacc. cbn [is2d negb orb ncols] in Hacc.
      apply andb_prop in Hacc as [Hn _].
      destruct (1 <? length tg) eqn:E2.
      * apply delivered_2d; try assumption; unfold row in *; lia.
      * assert (Htg : tg = []) by (destruct tg as [|? [|? ?]]; cbn in *; [reflexivity|lia|lia]). subst tg. unfold row in *.
        unfold delivered, spec_value. cbn [fst snd normalise]. rewrite E1. unfold wiring. cbn [ncols length].
        destruct ((length (hd [] r) =? 0) && (1 <? length (hd [] r))) eqn:E3; [lia|]. reflexivity.
Qed.

Theorem forcing_spec vectorize steps inputs i k : forallb (input_ok vectorize steps) inputs = true -> k < steps ->
  forcing (fun a s => sample_fixed a k s) inputs i = Some (spec_u inputs i k).
Proof.
  intros Hall Hk. induction inputs as [|inp inputs IH]; [reflexivity|].
  cbn [forallb] in Hall. apply andb_prop in Hall as [H1 H2].
  rewrite forcing_cons, spec_u_cons, (delivered_spec vectorize steps) by assumption. rewrite IH by assumption. reflexivity.
Qed.

Theorem net_rhs_spec vectorize steps udef W inputs c k x : forallb (input_ok vectorize steps) inputs = true -> k < steps ->
  net_rhs udef W inputs c k x = spec_rhs udef W inputs c k x.
Proof.
  intros Hall Hk. unfold net_rhs, spec_rhs. f_equal. apply map_ext. intros i.
  now rewrite (forcing_spec vectorize steps) by assumption.
Qed.

Lemma step_of_ext {C} (f1 f2 : C -> nat -> row -> row * C) s dt t :
  (forall c y, f1 c t y = f2 c t y) -> forall c y, step_of f1 s dt c t y = step_of f2 s dt c t y.
Proof.
  intros H c y. destruct s; cbn [step_of]; unfold euler_step, heun_step; rewrite H.
  - reflexivity.
  - destruct (f2 c t y) as [r1 c1]. now rewrite H.
Qed.

Lemma traj_ext {Y C} (st1 st2 : C -> nat -> Y -> Y * C) t0 bound :
  (forall t, t < bound -> forall c y, st1 c (t + t0) y = st2 c (t + t0) y) ->
  forall j i y c, i + j <= bound -> traj st1 t0 i y c j = traj st2 t0 i y c j.
Proof.
  intros H. induction j as [|j IH]; intros i y c Hb; [reflexivity|].
  cbn [traj]. rewrite H by lia. destruct (st2 c (i + t0) y) as [y' c']. apply IH. lia.
Qed.

Lemma cdiv_mul_lt k n ss : 1 <= ss -> k < cdiv n ss -> k * ss < n.
Proof.
  intros Hss Hk. rewrite cdiv_spec in Hk by lia.
  pose proof (Nat.div_mod n ss ltac:(lia)) as Hdm. pose proof (Nat.mod_upper_bound n ss ltac:(lia)) as Hub.
  destruct (n mod ss =? 0) eqn:E; nia.
Qed.

(* C08, whole runs: any network of integrators with edges, any inputs in an accepted form, any number of steps *)
Theorem run_inputs_core_full s vectorize depth T dt dts cutoff udef W inputs x0 :
  let d := match dts with Some d => d | None => dt end in
  inputs_guard vectorize T dt inputs = true -> rows_fit T dt d = true -> frame_ok T d = true ->
  run_inputs_core s vectorize depth T dt dts cutoff udef W inputs x0 = Rows (spec_run_inputs s T dt dts cutoff udef W inputs x0).
Proof.
  intros d Hall Hfit Hok. unfold inputs_guard in Hall.
  unfold run_inputs_core.
  assert (E2 : forallb (accepted vectorize) inputs = true).
  { rewrite forallb_forall in *. intros inp Hin. specialize (Hall inp Hin). unfold input_ok in Hall.
    apply andb_prop in Hall as [Hall _]. apply andb_prop in Hall as [Hall _]. now apply andb_prop in Hall as [Hall _]. }
  rewrite E2. cbn [negb].
  assert (E3 : existsb (fun inp => alen (fst inp) <? rnd (T / dt)) inputs = false).
  { apply not_true_is_false. intros He. apply existsb_exists in He as [inp [Hin Hlt]].
    rewrite forallb_forall in Hall. specialize (Hall inp Hin). unfold input_ok in Hall.
    apply andb_prop in Hall as [Hall _]. apply andb_prop in Hall as [Hall _]. apply andb_prop in Hall as [_ Hall]. lia. }
  rewrite E3.
  pose proof (run_partial unit (net_rhs udef W inputs) s T dt dts cutoff (seq 0 (length x0)) x0 tt) as HR. cbn zeta in HR.
  fold d in HR. rewrite HR by assumption. f_equal.
  unfold spec_run_inputs, spec_run. fold d. apply map_ext_in. intros k Hk. apply filter_In in Hk as [Hk _]. apply in_seq in Hk.
  apply rows_fit_true in Hfit as [Hss Hc].
  assert (Hlt : k * rnd (d / dt) < rnd (T / dt)) by (apply cdiv_mul_lt; [exact Hss|rewrite Hc; lia]).
  f_equal. f_equal. f_equal.
  apply (traj_ext _ _ 0 (rnd (T / dt))); [|lia].
  intros t Ht c y. apply step_of_ext. intros c' y'. replace (t + 0) with t by lia.
  now apply (net_rhs_spec vectorize (rnd (T / dt))).
Qed.

Lemma alen_normalise a : alen (normalise a) = alen a.
Proof.
  destruct a as [l|r]; [reflexivity|]. cbn [normalise]. destruct (length (hd [] r) =? 1); [|reflexivity].
  cbn [alen]. unfold column. now rewrite map_length.
Qed.

Lemma squeeze_single_multi vectorize inp : 2 <= alen (fst inp) -> squeeze_single vectorize inp = inr inp.
Proof.
  intros H. unfold squeeze_single. rewrite <- alen_normalise in H.
  destruct (normalise (fst inp)) as [[|a [|b l]]|[|a [|b r]]]; cbn in H; try lia; reflexivity.
Qed.

Lemma squeeze_all_multi vectorize inputs : multi_sample inputs = true -> squeeze_all vectorize inputs = inr inputs.
Proof.
  induction inputs as [|inp rest IH]; intros H; [reflexivity|].
  cbn [multi_sample forallb] in H. apply andb_prop in H as [H1 H2]. cbn [squeeze_all].
  rewrite squeeze_single_multi by lia. now rewrite (IH H2).
Qed.

Theorem run_inputs_full s vectorize depth T dt dts cutoff udef W inputs x0 :
  let d := match dts with Some d => d | None => dt end in
  multi_sample inputs = true -> inputs_guard vectorize T dt inputs = true -> rows_fit T dt d = true -> frame_ok T d = true ->
  run_inputs s vectorize depth T dt dts cutoff udef W inputs x0 = Rows (spec_run_inputs s T dt dts cutoff udef W inputs x0).
Proof.
  intros d Hm Hg Hfit Hok. unfold run_inputs. rewrite squeeze_all_multi by assumption.
  now apply run_inputs_core_full.
Qed.

(* the single-sample class: one step, one sample (inside the contract), loud *)
Lemma refuted_single_sample :
  run_inputs Euler true 0 (mkq 1 4) (mkq 1 4) None (mkq 0 1) (mkq 0 1) [[mkq 0 1]] [(A1 [mkq 3 1], [0])] [mkq 1 2] = ErrIndex /\
  multi_sample [(A1 [mkq 3 1], [0])] = false /\
  inputs_guard true (mkq 1 4) (mkq 1 4) [(A1 [mkq 3 1], [0])] = true /\
  outcome_eqb (Rows (spec_run_inputs Euler (mkq 1 4) (mkq 1 4) None (mkq 0 1) (mkq 0 1) [[mkq 0 1]] [(A1 [mkq 3 1], [0])] [mkq 1 2]))
              (Rows [[mkq 0 1; mkq 1 2]]) = true.
Proof. repeat split; vm_compute; reflexivity. Qed.


(* default rule: a unit without any source keeps the declared default of u; any source replaces it *)
Theorem base_uncovered udef W inputs i : covered W inputs i = false -> base udef W inputs i = udef.
Proof. unfold base. now intros ->. Qed.
Theorem base_covered udef W inputs i : covered W inputs i = true -> base udef W inputs i = 0%Qc.
Proof. unfold base. now intros ->. Qed.
Theorem covered_by_input W inp inputs i : In inp inputs -> In i (snd inp) -> covered W inputs i = true.
Proof.
  intros H1 H2. unfold covered. apply orb_true_intro. left. apply existsb_exists. exists inp. split; [exact H1|].
  apply existsb_exists. exists i. split; [exact H2|apply Nat.eqb_refl].
Qed.
