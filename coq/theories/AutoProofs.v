(* AutoProofs.v — C18: the emission model of Auto.v refines its specification (same slot everywhere), for every
   well-formed model: any number of parameters, any order of first use, any registration history after the
   declaration-order pre-registration. *)
From Coq Require Import ZArith List Bool String QArith Qcanon Lia Sorted Permutation.
From PV Require Import PyLib Auto AutoImpl AutoEquiv.
From PVG Require Import Gen_auto_param_indices.
Import ListNotations.
Open Scope Z_scope.

Lemma mem_In x l : mem x l = true <-> In x l.
Proof. apply py_in_str_In. Qed.
Lemma mem_false x l : mem x l = false <-> ~ In x l.
Proof. rewrite <- mem_In. destruct (mem x l); split; congruence. Qed.

(* ------------------------------------------------------------------------------------------------ register *)
Lemma register_app d a b : register d (a ++ b) = register (register d a) b.
Proof. revert d. induction a as [|x a IH]; intros d; cbn; [reflexivity|apply IH]. Qed.

Lemma register_nodup_id : forall vs d, NoDup (d ++ vs) -> register d vs = (d ++ vs)%list.
Proof.
  induction vs as [|v vs IH]; intros d H; cbn; [now rewrite app_nil_r|].
  assert (Hv : mem v d = false).
  { apply mem_false. intros Hin. apply NoDup_remove_2 in H. apply H. apply in_or_app. now left. }
  rewrite Hv. rewrite IH; rewrite <- app_assoc; cbn; [reflexivity|exact H].
Qed.

Lemma NoDup_snoc (d : list string) v : NoDup d -> ~ In v d -> NoDup (d ++ [v]).
Proof.
  induction 1 as [|x l Hx Hl IH]; cbn; intros Hv; [repeat constructor; intros []|].
  constructor; [|apply IH; tauto]. intros Hin. apply in_app_or in Hin as [Hin|[<-|[]]]; tauto.
Qed.

Lemma register_ext : forall vs d, NoDup d ->
  exists ext, register d vs = (d ++ ext)%list /\ NoDup (d ++ ext) /\ (forall x, In x ext -> In x vs) /\
              (forall x, In x vs -> In x (d ++ ext)).
Proof.
  induction vs as [|v vs IH]; intros d Hd; cbn.
  - exists []. rewrite app_nil_r. repeat split; auto. intros x [].
  - destruct (mem v d) eqn:E.
    + destruct (IH d Hd) as (ext & -> & H1 & H2 & H3). exists ext. repeat split; auto.
      intros x [<-|Hx]; [apply in_or_app; left; now apply mem_In|auto].
    + assert (Hd' : NoDup (d ++ [v])).
      { apply NoDup_snoc; [exact Hd|now apply mem_false]. }
      destruct (IH _ Hd') as (ext & -> & H1 & H2 & H3). exists (v :: ext).
      rewrite <- app_assoc in *. cbn in *. repeat split; auto.
      * intros x [<-|Hx]; auto.
      * intros x [<-|Hx]; [apply in_or_app; right; now left|auto].
Qed.

Lemma dedupe_spec l : NoDup (dedupe l) /\ (forall x, In x (dedupe l) <-> In x l).
Proof.
  unfold dedupe. destruct (register_ext l [] (NoDup_nil _)) as (ext & -> & H1 & H2 & H3). cbn in *.
  split; [exact H1|]. intros x. split; auto.
Qed.

(* ------------------------------------------------------------------------------------------------ small list facts *)
Lemma nodupb_NoDup l : nodupb l = true -> NoDup l.
Proof.
  induction l as [|x l IH]; cbn; [constructor|]. intros H. apply andb_true_iff in H as [H1 H2].
  constructor; [|auto]. apply negb_true_iff in H1. now apply mem_false.
Qed.
Lemma prefixb_app a b : prefixb a b = true -> exists more, b = (a ++ more)%list.
Proof.
  revert b. induction a as [|x a IH]; intros b H; cbn in *; [now exists b|].
  destruct b as [|y b]; [discriminate|]. apply andb_true_iff in H as [H1 H2]. apply String.eqb_eq in H1 as ->.
  destruct (IH _ H2) as [more ->]. now exists more.
Qed.
Lemma filter_none {A} (f : A -> bool) l : (forall x, In x l -> f x = false) -> filter f l = [].
Proof.
  induction l as [|x l IH]; cbn; intros H; [reflexivity|]. rewrite (H x) by now left. apply IH. intros y Hy. apply H. now right.
Qed.
Lemma filter_all {A} (f : A -> bool) l : (forall x, In x l -> f x = true) -> filter f l = l.
Proof.
  induction l as [|x l IH]; cbn; intros H; [reflexivity|]. rewrite (H x) by now left. f_equal. apply IH. intros y Hy. apply H. now right.
Qed.
Lemma NoDup_filter {A} (f : A -> bool) l : NoDup l -> NoDup (filter f l).
Proof.
  induction 1 as [|x l Hx Hl IH]; cbn; [constructor|]. destruct (f x); [constructor|]; auto.
  intros Hin. apply filter_In in Hin. tauto.
Qed.
Lemma combine_map_self {A B} (f : A -> B) l : combine (map f l) l = map (fun p => (f p, p)) l.
Proof. induction l as [|x l IH]; cbn; [reflexivity|now rewrite IH]. Qed.
Lemma lookup_last_map (f : string -> Z) l p :
  lookup_last (combine l (map f l)) p = if mem p l then Some (f p) else None.
Proof.
  induction l as [|x l IH]; [reflexivity|]. cbn [combine map lookup_last]. rewrite IH. unfold mem. cbn [py_in_str].
  destruct (String.eqb_spec x p) as [->|N]; destruct (py_in_str p l); reflexivity.
Qed.

Lemma index_of_app_notin x pre l : ~ In x pre -> index_of x (pre ++ x :: l) = Some (List.length pre).
Proof.
  induction pre as [|y pre IH]; cbn; intros H; [now rewrite String.eqb_refl|].
  destruct (String.eqb_spec y x) as [->|N]; [tauto|]. rewrite IH by tauto. reflexivity.
Qed.
Lemma index_of_nth x l k : index_of x l = Some k -> nth k l ""%string = x /\ (k < List.length l)%nat.
Proof.
  revert k. induction l as [|y l IH]; cbn; intros k H; [discriminate|].
  destruct (String.eqb_spec y x) as [->|N]; [injection H as <-; split; [reflexivity|lia]|].
  destruct (index_of x l) as [j|]; [|discriminate]. injection H as <-. destruct (IH j eq_refl). split; [assumption|lia].
Qed.
Lemma index_of_none x l : index_of x l = None -> ~ In x l.
Proof.
  induction l as [|y l IH]; cbn; [tauto|]. destruct (String.eqb_spec y x) as [->|N]; [discriminate|].
  destruct (index_of x l); [discriminate|]. intros _ [E|E]; [contradiction|now apply IH].
Qed.

(* one slot per declared parameter, in declaration order: the closed form of AutoEquiv *)
Lemma map_slot_of_from : forall l pre, NoDup (pre ++ l) ->
  map (slot_of (pre ++ l)) l = map (fun k => slot (Z.of_nat k)) (seq (List.length pre) (List.length l)).
Proof.
  induction l as [|x l IH]; intros pre H; [reflexivity|]. cbn [map List.length seq]. f_equal.
  - unfold slot_of. rewrite index_of_app_notin; [reflexivity|]. apply NoDup_remove_2 in H. intros Hin. apply H.
    apply in_or_app. now left.
  - replace (pre ++ x :: l)%list with ((pre ++ [x]) ++ l)%list by (rewrite <- app_assoc; reflexivity).
    rewrite IH by (rewrite <- app_assoc; exact H). rewrite app_length. cbn. now rewrite Nat.add_1_r.
Qed.
Lemma map_slot_of ps : NoDup ps -> map (slot_of ps) ps = slots (List.length ps).
Proof. intros H. apply (map_slot_of_from ps []). exact H. Qed.

Lemma NoDup_app_disj (a b : list string) : NoDup a -> NoDup b -> (forall x, In x a -> ~ In x b) -> NoDup (a ++ b).
Proof.
  induction 1 as [|x a Hx Ha IH]; cbn; intros Hb Hd; [exact Hb|].
  constructor; [|apply IH; [exact Hb|intros y Hy; apply Hd; now right]].
  intros Hin. apply in_app_or in Hin as [Hin|Hin]; [contradiction|]. apply (Hd x); [now left|exact Hin].
Qed.
Lemma map_slot_of_prefix ps xs : NoDup (ps ++ xs) -> map (slot_of (ps ++ xs)) ps = slots (List.length ps).
Proof.
  intros H. pose proof (map_slot_of _ H) as E. apply (f_equal (firstn (List.length ps))) in E.
  rewrite map_app, firstn_app, map_length, Nat.sub_diag in E. cbn [firstn] in E. rewrite app_nil_r in E.
  rewrite firstn_all2 in E by (rewrite map_length; lia). rewrite E, app_length. apply slots_prefix. lia.
Qed.

(* ------------------------------------------------------------------------------------------------ the pipeline *)
Section Pipeline.
  Variable vars : list string.
  Variable m : model.
  Hypothesis WF : wf vars m = true.
  Let ret := m_ret m.
  Let args := m_args m.
  Let ps := spec_params vars args ret.
  Let decl := register (register [] (m_events m)) args.

  Lemma wf_bvp : forall p, In p (m_bvp m) -> In p vars.
  Proof.
    unfold wf in WF. apply andb_true_iff in WF as [_ H]. rewrite forallb_forall in H.
    intros p Hp. now apply mem_In, H.
  Qed.
  Lemma wf_parts : NoDup vars /\ (exists more, m_events m = (vars ++ more)%list) /\ In ret args /\ ~ In ret vars /\
                   (forall a, In a args -> a = ret \/ In a vars).
  Proof.
    pose proof WF as WF0. unfold wf in WF0. apply andb_true_iff in WF0 as [WF0 _]. rename WF0 into WF1.
    repeat (apply andb_true_iff in WF1 as [WF1 ?]).
    repeat split.
    - now apply nodupb_NoDup.
    - now apply prefixb_app.
    - now apply mem_In.
    - apply mem_false. now apply negb_true_iff.
    - intros a Ha. rewrite forallb_forall in H. specialize (H a Ha). apply orb_true_iff in H as [H|H].
      + left. now apply String.eqb_eq.
      + right. now apply mem_In.
  Qed.

  Lemma decl_shape : exists ext, decl = (vars ++ ext)%list /\ NoDup decl /\ (forall x, In x ext -> ~ In x vars) /\
                                 (forall a, In a args -> In a decl).
  Proof.
    destruct wf_parts as (Hnd & (more & Hev) & _).
    unfold decl. rewrite Hev, register_app. rewrite (register_nodup_id vars []) by exact Hnd. cbn [app].
    destruct (register_ext more vars Hnd) as (e1 & -> & N1 & _ & _).
    destruct (register_ext args _ N1) as (e2 & -> & N2 & _ & I2).
    exists (e1 ++ e2)%list. rewrite <- app_assoc in *. repeat split; auto.
    intros x Hx Hv.
    revert Hv Hx. clear -N2. revert N2. generalize (e1 ++ e2)%list as e. intros e N2 Hv Hx.
    induction vars as [|v vs IHv]; [destruct Hv|]. cbn in N2. inversion N2 as [|? ? Hn Hr]; subst.
    destruct Hv as [->|Hv]; [apply Hn; apply in_or_app; now right|auto].
  Qed.

  Lemma ps_pred a : In a vars -> (mem a args && negb (String.eqb a ret)) = true <-> In a ps.
  Proof. intros Ha. unfold ps, spec_params. rewrite filter_In. tauto. Qed.
  Lemma ps_NoDup : NoDup ps.
  Proof. apply NoDup_filter. apply wf_parts. Qed.
  Lemma ps_in a : In a ps <-> In a args /\ a <> ret.
  Proof.
    unfold ps, spec_params. rewrite filter_In, andb_true_iff, mem_In, negb_true_iff, String.eqb_neq.
    destruct wf_parts as (_ & _ & _ & _ & Hsub). split; [tauto|]. intros [H1 H2]. destruct (Hsub a H1); tauto.
  Qed.

  Lemma head_args_eq : head_args decl ret args = ret :: ps.
  Proof.
    destruct wf_parts as (Hnd & _ & Hret & Hnv & Hsub).
    destruct decl_shape as (ext & Hd & Hdn & Hext & Hin).
    destruct (dedupe_spec args) as (HA & HAin).
    unfold head_args.
    assert (Hp : forall n, mem n (filter (fun n => negb (String.eqb n ret)) (dedupe args)) = true <-> In n ps).
    { intros n. rewrite mem_In, filter_In, HAin, negb_true_iff, String.eqb_neq. symmetry. apply ps_in. }
    assert (Hdeclared : filter (fun n => mem n (filter (fun n => negb (String.eqb n ret)) (dedupe args))) decl = ps).
    { rewrite Hd, filter_app. rewrite (filter_none _ ext).
      - rewrite app_nil_r. unfold ps, spec_params. apply filter_ext_in. intros a Ha.
        destruct (mem a (filter _ (dedupe args))) eqn:E.
        + apply Hp in E. symmetry. now apply ps_pred.
        + destruct (mem a args && negb (String.eqb a ret)) eqn:E2; [|reflexivity].
          apply ps_pred in E2; [|exact Ha]. apply Hp in E2. congruence.
      - intros x Hx. apply mem_false. intros Hm. apply mem_In, Hp, ps_in in Hm as [H1 H2].
        destruct (Hsub x H1); [contradiction|]. now apply (Hext x). }
    destruct decl as [|d0 dl] eqn:Ed.
    { exfalso. specialize (Hin _ Hret). destruct Hin. }
    destruct (dedupe args) as [|a0 al] eqn:Ea.
    { exfalso. apply HAin in Hret. destruct Hret. }
    cbv zeta. rewrite Hdeclared.
    assert (Hm : mem ret (a0 :: al) = true) by (apply mem_In, HAin, Hret). rewrite Hm. f_equal.
    rewrite filter_none; [apply app_nil_r|].
    intros x Hx. apply negb_false_iff. apply mem_In. apply Hp. now apply mem_In.
  Qed.

  Lemma auto_order_eq : auto_order decl ps = ps.
  Proof.
    destruct wf_parts as (Hnd & _). destruct decl_shape as (ext & Hd & _ & Hext & _).
    unfold auto_order. destruct ps as [|p0 pl] eqn:Eps; [reflexivity|]. rewrite <- Eps.
    assert (Hf : filter (fun a => mem a ps) decl = ps).
    { rewrite Hd, filter_app, (filter_none _ ext).
      - rewrite app_nil_r. unfold ps at 2, spec_params. apply filter_ext_in. intros a Ha.
        destruct (mem a ps) eqn:E.
        + apply mem_In in E. symmetry. now apply ps_pred.
        + destruct (mem a args && negb (String.eqb a ret)) eqn:E2; [|reflexivity].
          apply ps_pred in E2; [|exact Ha]. apply mem_In in E2. congruence.
      - intros x Hx. apply mem_false. intros Hm. unfold ps, spec_params in Hm. apply filter_In in Hm as [Hv _].
        now apply (Hext x). }
    rewrite Hf. rewrite filter_none; [apply app_nil_r|].
    intros x Hx. apply negb_false_iff. now apply mem_In.
  Qed.

  (* generate_func_head: the reordering is a permutation of the (deduplicated) arguments that keeps the return
     variable in front, so that to_func can peel off [t, y, dy] *)
  Theorem head_reorder_permutation :
    Permutation (head_args decl ret args) (dedupe args) /\ hd ""%string (head_args decl ret args) = ret.
  Proof.
    rewrite head_args_eq. split; [|reflexivity].
    destruct wf_parts as (_ & _ & Hret & _). destruct (dedupe_spec args) as (HA & HAin).
    apply NoDup_Permutation; [constructor; [|apply ps_NoDup]|exact HA|].
    - intros Hin. apply ps_in in Hin. tauto.
    - intros x. rewrite HAin. split.
      + intros [<-|Hx]; [exact Hret|]. now apply ps_in in Hx.
      + intros Hx. destruct (string_dec x ret) as [->|N]; [now left|right]. apply ps_in. tauto.
  Qed.

  Let xs := spec_extras vars ps (m_bvp m).
  Lemma extras_eq : filter (fun p => mem p decl && negb (mem p ps)) (dedupe (m_bvp m)) = xs.
  Proof.
    destruct decl_shape as (ext & Hd & _ & _ & _). destruct (dedupe_spec (m_bvp m)) as (_ & Hin).
    unfold xs, spec_extras. apply filter_ext_in. intros p Hp. apply Hin, wf_bvp in Hp. f_equal.
    assert (H1 : mem p vars = true) by now apply mem_In.
    assert (H2 : mem p decl = true) by (apply mem_In; rewrite Hd; apply in_or_app; now left).
    now rewrite H1, H2.
  Qed.
  Lemma all_NoDup : NoDup (ps ++ xs).
  Proof.
    apply NoDup_app_disj; [apply ps_NoDup|apply NoDup_filter, dedupe_spec|].
    intros x Hx Hin. unfold xs, spec_extras in Hin. apply filter_In in Hin as [_ H]. apply andb_true_iff in H as [_ H].
    apply negb_true_iff, mem_false in H. contradiction.
  Qed.

  (* Impl = Spec *)
  Theorem emit_refines : emit m = spec_emit vars m.
  Proof.
    unfold emit, emit_with, spec_emit, spec_all. fold ret args decl ps. rewrite head_args_eq. cbn [skipn]. rewrite auto_order_eq.
    rewrite extras_eq. fold xs.
    rewrite gen_equiv. rewrite <- (map_slot_of _ all_NoDup).
    replace (firstn (List.length ps) (map (slot_of (ps ++ xs)) (ps ++ xs))) with (map (slot_of (ps ++ xs)) ps)
      by (rewrite map_app, firstn_app, map_length, Nat.sub_diag; cbn [firstn]; rewrite app_nil_r; symmetry; apply firstn_all2; rewrite map_length; lia).
    rewrite combine_map_self. rewrite !map_map. cbn [fst snd].
    f_equal.
    - apply flat_map_ext. intros [r p]. cbn [fst snd]. rewrite lookup_last_map. destruct (mem p (ps ++ xs)); reflexivity.
    - apply flat_map_ext. intros p. rewrite lookup_last_map. destruct (mem p (ps ++ xs)); reflexivity.
    - destruct (ps ++ xs)%list; reflexivity.
  Qed.
End Pipeline.

(* ------------------------------------------------------------------------------------------------ consequences *)
(* every view addresses parameter p through the one slot `slot_of ps p`; the slots are the closed form over the
   declaration order: strictly increasing, pairwise distinct, positive, outside 10..14; NPAR is the last of them *)
Theorem same_slot_everywhere vars m : wf vars m = true ->
  let e := emit m in
  let ps := spec_params vars (m_args m) (m_ret m) in
  let all := spec_all vars m in
  let s := slot_of all in
  e_sig e = "t"%string :: "y"%string :: m_ret m :: ps /\
  e_call e = map s ps /\
  e_parnames e = map (fun p => (s p, p)) all /\
  e_stpnt e = map (fun p => (s p, lookupq (m_val m) p, p)) all /\
  (forall r p, In (r, p) (m_dfdp m) -> In p all -> In (Z.of_nat r + 1, s p) (e_dfdp e)) /\
  (forall rc, In rc (e_dfdp e) -> exists r p, In (r, p) (m_dfdp m) /\ In p all /\ rc = (Z.of_nat r + 1, s p)) /\
  (forall p, In p (m_bvp m) -> In p all /\ In (s p) (e_bvp e)) /\
  (forall c, In c (e_bvp e) -> exists p, In p (m_bvp m) /\ c = s p) /\
  map s ps = slots (List.length ps) /\
  map s all = slots (List.length all) /\
  StronglySorted Z.lt (map s all) /\ NoDup (map s all) /\
  Forall (fun x => ~ (10 <= x <= 14)) (map s all) /\ Forall (fun x => 1 <= x) (map s all) /\
  e_ndim e = Z.of_nat (List.length (m_states m)) /\
  e_npar e = match all with [] => 1 | _ => slot (Z.of_nat (List.length all) - 1) end.
Proof.
  intros WF e ps all s. unfold e. rewrite (emit_refines vars m WF).
  cbn [spec_emit e_sig e_call e_parnames e_stpnt e_dfdp e_bvp e_ndim e_npar]. fold ps all s.
  pose proof (all_NoDup vars m WF) as Hnd. fold ps in Hnd.
  assert (Hall : all = (ps ++ spec_extras vars ps (m_bvp m))%list) by reflexivity.
  assert (Hs : map s all = slots (List.length all)) by (unfold s; rewrite Hall; apply map_slot_of, Hnd).
  assert (Hps : map s ps = slots (List.length ps)) by (unfold s; rewrite Hall; apply map_slot_of_prefix, Hnd).
  assert (Hin : forall p, In p (m_bvp m) -> In p all).
  { intros p Hp. rewrite Hall. apply in_or_app. destruct (mem p ps) eqn:E; [left; now apply mem_In|right].
    unfold spec_extras. apply filter_In. split; [now apply dedupe_spec|].
    rewrite E. cbn. rewrite andb_true_r. apply mem_In. now apply (wf_bvp vars m WF). }
  repeat split; try reflexivity.
  - intros r p Hi Hp. apply in_flat_map. exists (r, p). split; [exact Hi|]. cbn [fst snd].
    apply mem_In in Hp. rewrite Hp. now left.
  - intros rc Hrc. apply in_flat_map in Hrc as ([r p] & Hi & Hx). cbn [fst snd] in Hx.
    destruct (mem p all) eqn:E; [|destruct Hx]. destruct Hx as [<-|[]]. exists r, p. repeat split; auto. now apply mem_In.
  - now apply Hin.
  - apply in_flat_map. exists p. split; [assumption|]. apply Hin, mem_In in H. rewrite H. now left.
  - intros c Hc. apply in_flat_map in Hc as (p & Hp & Hx). destruct (mem p all); [|destruct Hx].
    destruct Hx as [<-|[]]. now exists p.
  - exact Hps.
  - exact Hs.
  - rewrite Hs. apply slots_sorted.
  - rewrite Hs. apply slots_NoDup.
  - rewrite Hs. apply slots_avoid_reserved.
  - rewrite Hs. apply slots_positive.
  - rewrite Hs. generalize all as l. intros [|p0 pl]; [reflexivity|]. cbn [List.length].
    unfold max_list. rewrite slots_max. f_equal. lia.
Qed.

(* the order in which the equations first use the parameters (and duplicates among the arguments) is irrelevant *)
Theorem first_use_order_irrelevant vars m m' : wf vars m = true -> wf vars m' = true ->
  (forall a, In a (m_args m) <-> In a (m_args m')) -> m_ret m = m_ret m' -> m_states m = m_states m' ->
  m_val m = m_val m' -> m_dfdp m = m_dfdp m' -> m_bvp m = m_bvp m' -> emit m = emit m'.
Proof.
  intros W W' Hargs Hret Hst Hval Hd Hb. rewrite (emit_refines _ _ W), (emit_refines _ _ W').
  unfold spec_emit, spec_all. rewrite <- Hret, <- Hst, <- Hval, <- Hd, <- Hb.
  assert (E : spec_params vars (m_args m) (m_ret m) = spec_params vars (m_args m') (m_ret m)).
  { unfold spec_params. apply filter_ext. intros a. f_equal.
    destruct (mem a (m_args m)) eqn:E1; destruct (mem a (m_args m')) eqn:E2; try reflexivity.
    - apply mem_In, Hargs, mem_In in E1. congruence.
    - apply mem_In, Hargs, mem_In in E2. congruence. }
  now rewrite E.
Qed.

(* the forwarding call binds every formal parameter of the vector-field routine to its own PAR slot (also when
   constraint-only parameters occupy further slots), so the exported vector field is the model's evaluated on the PAR array *)
Lemma vfield_ext pv pv' y eqs : (forall p, pv p = pv' p) -> vfield pv y eqs = vfield pv' y eqs.
Proof.
  intros H. unfold vfield. apply map_ext. intros ts. f_equal. apply map_ext. intros [[c qs] ys]. cbn.
  f_equal. f_equal. apply map_ext. exact H.
Qed.
Theorem exported_vf_spec vars m par y eqs : wf vars m = true ->
  exported_vf (emit m) par y eqs = spec_vf (spec_params vars (m_args m) (m_ret m)) (spec_all vars m) par y eqs.
Proof.
  intros WF. rewrite (emit_refines _ _ WF). unfold exported_vf, spec_vf. apply vfield_ext. intros p.
  unfold exported_pv, spec_emit. cbn [e_sig e_call skipn]. set (ps := spec_params _ _ _). set (all := spec_all vars m).
  destruct (index_of p ps) as [k|] eqn:E.
  - destruct (index_of_nth _ _ _ E) as [Hn Hk].
    assert (Hm : mem p ps = true) by (apply mem_In; rewrite <- Hn; now apply nth_In).
    rewrite Hm. rewrite nth_indep with (d' := slot_of all ""%string) by (now rewrite map_length).
    now rewrite map_nth, Hn.
  - apply index_of_none, mem_false in E. now rewrite E.
Qed.

(* STPNT as compiled: exact when every value survives rounding to binary32 (guard), wrong otherwise *)
Lemma f32_exact_eq q : f32_exact q = true -> f32_round q = q.
Proof. unfold f32_exact. intros H. apply Qc_is_canon. now apply Qeq_bool_iff. Qed.
Lemma lookupq_exact env k : forallb (fun kv => f32_exact (snd kv)) env = true -> f32_round (lookupq env k) = lookupq env k.
Proof.
  induction env as [|[k' v] env IH]; cbn; intros H; [reflexivity|].
  apply andb_true_iff in H as [H1 H2]. destruct (String.eqb k' k); [now apply f32_exact_eq|auto].
Qed.
Theorem stpnt_partial vars m : wf vars m = true -> all_values_f32_exact m = true ->
  compiled_stpnt (emit m) = spec_stpnt (emit m).
Proof.
  intros WF G. rewrite (emit_refines _ _ WF). unfold compiled_stpnt, spec_stpnt, spec_emit. cbn [e_stpnt e_stpnt_y].
  rewrite !map_map. cbn [fst snd]. unfold stpnt_value.
  destruct fixed_stpnt; [reflexivity|]. f_equal; apply map_ext; intros a; now rewrite lookupq_exact.
Qed.

(* with the repair (model switch on) the full statement holds: no guard *)
Theorem stpnt_full_if_fixed : fixed_stpnt = true ->
  forall vars m, wf vars m = true -> compiled_stpnt (emit m) = spec_stpnt (emit m).
Proof.
  intros F vars m _. unfold compiled_stpnt, spec_stpnt, stpnt_value. rewrite F.
  f_equal; apply map_ext; intros [[i q] n]; reflexivity.
Qed.

Definition stpnt_witness : model :=
  {| m_events := ["x"; "p1"]%string; m_args := ["dy"; "p1"]%string; m_ret := "dy"%string; m_states := ["x"%string];
     m_val := [("x"%string, mkq 1 2); ("p1"%string, mkq 1 10)]; m_dfdp := []; m_over := []; m_bvp := [] |}.
(* as the code is (model switch off) it is false: 1/10 comes back as 13421773/134217728 *)
Theorem stpnt_refuted_if_unfixed : fixed_stpnt = false ->
  exists vars m, wf vars m = true /\ compiled_stpnt (emit m) <> spec_stpnt (emit m).
Proof.
  intros F. exists ["x"; "p1"]%string, stpnt_witness. split; [vm_compute; reflexivity|]. intros H.
  unfold compiled_stpnt, stpnt_value in H. rewrite F in H.
  apply (f_equal (fun s => match fst s with (_, q) :: _ => Qnum (this q) | _ => 0 end)) in H.
  vm_compute in H. discriminate.
Qed.
