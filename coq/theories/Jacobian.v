(* Jacobian.v — executable model of ComputeGraph.get_jacobian_func (pyrates/backend/computegraph.py:547-763,
   _get_symbolic_rhs 765-829, _extract_past_terms 973-996, _resolve_derivatives 998-1038) for models with scalar
   state variables (vectorize=False), and the specification "J is the derivative of the vector field".
   Definitions only; proofs are in JacobianProofs.v (algebra, any commutative ring).  The real-analysis instance (K := R, Coquelicot
   is_derive for exp/sin/cos/tanh/sigmoid) is JacobianReal.v.

   What the code does (Impl, `jac_sym` / `jac_impl`):
     1. f_i := right-hand side of the i-th differential equation with every algebraic intermediate (non-DE variable,
        edge input) substituted by its defining expression (`_expand_non_de`), every `past(v, d)` call replaced by a
        fresh symbol (`_extract_past_terms`; here: the atom `AP v d`);
     2. J0_entries[(i_row, j_col)] = diff(f_i, y_j) when it is not 0, rows/columns counted by running counters;
        per distinct delay symbol d a dictionary J_hist[d][(i_row, fj_idx)] = diff(f_i, fresh symbol of (v, d)) with
        fj_idx = position of v in the state vector (after fix D08; before: position inside the delay group);
     3. every matrix is `zeros((n, n))` followed by one assignment per dictionary entry; the entry is printed with state
        symbols -> y[idx] and (history matrices only) fresh past symbols -> _yhist_d[idx].  An instantaneous entry is
        printed WITHOUT the past-symbol table: a J0 entry that still contains a delayed factor names an undefined
        Python variable and the call raises NameError (defect D08b, not repaired; `name_error`).
   Spec (`spec_J0`, `spec_Jd`): forward-mode (dual-number) derivative of the vector field as get_run_func evaluates it:
   algebraic intermediates are computed one after the other, then the right-hand sides. *)
From Coq Require Import List ZArith QArith Qcanon Bool Arith.
Import ListNotations.
Local Open Scope nat_scope.

(* ---------------------------------------------------------------------------------------------- expressions *)
Inductive fn := FId | FSig | FAbs | FSign | FExp | FSin | FCos | FTanh.
(* binary functions: maxi(a, b), mini(a, b) (compiled to the calls maximum / minimum) *)
Inductive fn2 := FMax | FMin.

(* what one can differentiate with respect to: a variable now, or the state variable v delayed by delay symbol d *)
Inductive atom := AV (v : nat) | AP (v d : nat).

Definition atom_eqb (a b : atom) : bool :=
  match a, b with
  | AV v, AV w => v =? w
  | AP v d, AP w e => (v =? w) && (d =? e)
  | _, _ => false
  end.

(* The expression language: + - * neg, natural powers, the unary functions `fn` and max/min.  There is NO division, no
   non-integer power, no sqrt/log: `x/tau` and the quotient rule are outside every theorem (and outside the exact stream). *)
Inductive expr (K : Type) :=
| Cst (c : K)
| At (a : atom)
| Add (a b : expr K)
| Sub (a b : expr K)
| Mul (a b : expr K)
| Neg (a : expr K)
| PowN (a : expr K) (k : nat)
| Fn (f : fn) (a : expr K)
| Fn2 (g : fn2) (a b : expr K).
Arguments Cst {K}. Arguments At {K}. Arguments Add {K}. Arguments Sub {K}. Arguments Mul {K}. Arguments Neg {K}.
Arguments PowN {K}. Arguments Fn {K}. Arguments Fn2 {K}.

Record ops (T : Type) := mkops {
  o0 : T; o1 : T; oadd : T -> T -> T; osub : T -> T -> T; omul : T -> T -> T; oopp : T -> T;
  ofn : fn -> T -> T;
  ofn2 : fn2 -> T -> T -> T;
  ohalf : T }.        (* the constant 1/2 of the max/min rule; no law is assumed about it *)
Arguments o0 {T}. Arguments o1 {T}. Arguments oadd {T}. Arguments osub {T}. Arguments omul {T}. Arguments oopp {T}.
Arguments ofn {T}. Arguments ofn2 {T}. Arguments ohalf {T}.

Fixpoint kpow {T} (O : ops T) (x : T) (k : nat) : T :=
  match k with 0 => o1 O | S k' => omul O x (kpow O x k') end.
Fixpoint ofnat {T} (O : ops T) (k : nat) : T :=
  match k with 0 => o0 O | S k' => oadd O (o1 O) (ofnat O k') end.

(* constants live in K, values in T (T = K, or dual numbers over K) *)
Fixpoint eval {K T} (O : ops T) (inj : K -> T) (r : atom -> T) (e : expr K) : T :=
  match e with
  | Cst c => inj c
  | At a => r a
  | Add a b => oadd O (eval O inj r a) (eval O inj r b)
  | Sub a b => osub O (eval O inj r a) (eval O inj r b)
  | Mul a b => omul O (eval O inj r a) (eval O inj r b)
  | Neg a => oopp O (eval O inj r a)
  | PowN a k => kpow O (eval O inj r a) k
  | Fn f a => ofn O f (eval O inj r a)
  | Fn2 g a b => ofn2 O g (eval O inj r a) (eval O inj r b)
  end.

Fixpoint occurs {K} (x : atom) (e : expr K) : bool :=
  match e with
  | Cst _ => false
  | At a => atom_eqb a x
  | Add a b | Sub a b | Mul a b | Fn2 _ a b => occurs x a || occurs x b
  | Neg a | PowN a _ | Fn _ a => occurs x a
  end.

Fixpoint has_past {K} (e : expr K) : bool :=
  match e with
  | Cst _ => false
  | At (AV _) => false
  | At (AP _ _) => true
  | Add a b | Sub a b | Mul a b | Fn2 _ a b => has_past a || has_past b
  | Neg a | PowN a _ | Fn _ a => has_past a
  end.

(* no function calls: the fragment on which the derivative is pure algebra *)
Fixpoint polyb {K} (e : expr K) : bool :=
  match e with
  | Cst _ | At _ => true
  | Add a b | Sub a b | Mul a b => polyb a && polyb b
  | Neg a | PowN a _ => polyb a
  | Fn _ _ | Fn2 _ _ _ => false
  end.

(* absv, before fix D51: `_node_to_expr` renames the call to `abs`, `_resolve_derivatives` looked for the name `absv` only: the
   derivative of an absv call stayed an unevaluated Derivative(...), `_expr_to_jac_str` returned None and the WHOLE entry was
   left 0 (a comment in the generated source; nothing raised).  `unresolved x e`: diff(e, x) keeps such a node.  Since D51 the
   rule absv -> sign applies and no entry is skipped (`noskip`); the old behaviour is kept as `jac_impl_preD51`. *)
Fixpoint has_abs {K} (e : expr K) : bool :=
  match e with
  | Cst _ | At _ => false
  | Add a b | Sub a b | Mul a b | Fn2 _ a b => has_abs a || has_abs b
  | Neg a | PowN a _ => has_abs a
  | Fn f a => match f with FAbs => true | _ => has_abs a end
  end.
Fixpoint unresolved {K} (x : atom) (e : expr K) : bool :=
  if occurs x e then
    match e with
    | Cst _ | At _ => false
    | Add a b | Sub a b | Mul a b | Fn2 _ a b => unresolved x a || unresolved x b
    | Neg a => unresolved x a
    | PowN a k => match k with 0 => false | S _ => unresolved x a end
    | Fn f a => match f with FAbs => true | _ => unresolved x a end
    end
  else false.

Definition noskip {K} (x : atom) (e : expr K) : bool := false.

(* ---------------------------------------------------------------------------------------------- derivative *)
(* derivative of the function f at argument a, as PyRates/sympy write it: identity -> 1, sigmoid -> s(1-s),
   absv -> sign (the three hand rules of _resolve_derivatives), the others are sympy's own rules *)
Definition dfn {K} (O : ops K) (f : fn) (a : expr K) : expr K :=
  match f with
  | FId => Cst (o1 O)
  | FSig => Mul (Fn FSig a) (Sub (Cst (o1 O)) (Fn FSig a))
  | FAbs => Fn FSign a
  | FSign => Cst (o0 O)
  | FExp => Fn FExp a
  | FSin => Fn FCos a
  | FCos => Neg (Fn FSin a)
  | FTanh => Sub (Cst (o1 O)) (PowN (Fn FTanh a) 2)
  end.

(* the same rule on values *)
Definition dfnI {K} (O : ops K) (f : fn) (v : K) : K :=
  match f with
  | FId => o1 O
  | FSig => omul O (ofn O FSig v) (osub O (o1 O) (ofn O FSig v))
  | FAbs => ofn O FSign v
  | FSign => o0 O
  | FExp => ofn O FExp v
  | FSin => ofn O FCos v
  | FCos => oopp O (ofn O FSin v)
  | FTanh => osub O (o1 O) (kpow O (ofn O FTanh v) 2)
  end.

(* maxi / mini (fix D112): d/da max(a, b) = [a > b], d/db max(a, b) = [b > a], d/da min(a, b) = [a < b], d/db min(a, b) = [b < a],
   written as 1/2 * sign(difference) + 1/2: value 1/2 at a tie a = b (the symmetric sub-gradient).  `first` selects the argument. *)
Definition step_of {K} (O : ops K) (d : expr K) : expr K := Add (Mul (Cst (ohalf O)) (Fn FSign d)) (Cst (ohalf O)).
Definition dfn2 {K} (O : ops K) (g : fn2) (first : bool) (a b : expr K) : expr K :=
  match g, first with
  | FMax, true => step_of O (Sub a b)
  | FMax, false => step_of O (Sub b a)
  | FMin, true => step_of O (Sub b a)
  | FMin, false => step_of O (Sub a b)
  end.
Definition stepI {K} (O : ops K) (d : K) : K := oadd O (omul O (ohalf O) (ofn O FSign d)) (ohalf O).
Definition dfn2I {K} (O : ops K) (g : fn2) (first : bool) (u v : K) : K :=
  match g, first with
  | FMax, true => stepI O (osub O u v)
  | FMax, false => stepI O (osub O v u)
  | FMin, true => stepI O (osub O v u)
  | FMin, false => stepI O (osub O u v)
  end.

(* symbolic derivative with respect to the atom x.  `occurs x e = false -> 0` mirrors sympy returning the literal 0
   for an expression free of x (which is what `if d != 0` tests before an entry is stored); likewise a factor free of x is
   carried along undifferentiated, so that `has_past (D e x)` says whether the printed entry still names a past symbol. *)
Fixpoint D {K} (O : ops K) (e : expr K) (x : atom) : expr K :=
  if occurs x e then
    match e with
    | Cst _ => Cst (o0 O)
    | At _ => Cst (o1 O)
    | Add a b => Add (D O a x) (D O b x)
    | Sub a b => Sub (D O a x) (D O b x)
    | Mul a b => if occurs x a then (if occurs x b then Add (Mul (D O a x) b) (Mul a (D O b x)) else Mul (D O a x) b)
                 else Mul a (D O b x)
    | Neg a => Neg (D O a x)
    | PowN a k => match k with
                  | 0 => Cst (o0 O)
                  | S k' => Mul (Mul (Cst (ofnat O k)) (PowN a k')) (D O a x)
                  end
    | Fn f a => Mul (dfn O f a) (D O a x)
    | Fn2 g a b => if occurs x a then (if occurs x b then Add (Mul (dfn2 O g true a b) (D O a x)) (Mul (dfn2 O g false a b) (D O b x))
                                      else Mul (dfn2 O g true a b) (D O a x))
                   else Mul (dfn2 O g false a b) (D O b x)
    end
  else Cst (o0 O).

(* ---------------------------------------------------------------------------------------------- dual numbers *)
Definition dual_ops {K} (O : ops K) : ops (K * K) :=
  {| o0 := (o0 O, o0 O);
     o1 := (o1 O, o0 O);
     oadd := fun p q => (oadd O (fst p) (fst q), oadd O (snd p) (snd q));
     osub := fun p q => (osub O (fst p) (fst q), osub O (snd p) (snd q));
     omul := fun p q => (omul O (fst p) (fst q), oadd O (omul O (snd p) (fst q)) (omul O (fst p) (snd q)));
     oopp := fun p => (oopp O (fst p), oopp O (snd p));
     ofn := fun f p => (ofn O f (fst p), omul O (dfnI O f (fst p)) (snd p));
     ofn2 := fun g p q => (ofn2 O g (fst p) (fst q),
                           oadd O (omul O (dfn2I O g true (fst p) (fst q)) (snd p)) (omul O (dfn2I O g false (fst p) (fst q)) (snd q)));
     ohalf := (ohalf O, o0 O) |}.
Definition dinj {K} (O : ops K) (c : K) : K * K := (c, o0 O).
(* the point r with tangent direction "x" *)
Definition seed {K} (O : ops K) (r : atom -> K) (x : atom) : atom -> K * K :=
  fun a => (r a, if atom_eqb a x then o1 O else o0 O).

(* ---------------------------------------------------------------------------------------------- systems *)
Record sys (K : Type) := mksys {
  states : list nat;                (* state variables in state-vector order (slot j holds the j-th) *)
  rhs : list (expr K);              (* right-hand side of each differential equation, same order *)
  algs : list (nat * expr K) }.     (* algebraic intermediates / edge inputs in the order they are evaluated *)
Arguments states {K}. Arguments rhs {K}. Arguments algs {K}. Arguments mksys {K}.

Definition upd {T} (r : atom -> T) (x : atom) (v : T) : atom -> T := fun a => if atom_eqb a x then v else r a.

(* the vector field as the function from get_run_func computes it *)
Fixpoint run_algs {K T} (O : ops T) (inj : K -> T) (l : list (nat * expr K)) (r : atom -> T) : atom -> T :=
  match l with
  | [] => r
  | (m, a) :: l' => run_algs O inj l' (upd r (AV m) (eval O inj r a))
  end.
Definition vf {K T} (O : ops T) (inj : K -> T) (s : sys K) (r : atom -> T) : list T :=
  map (eval O inj (run_algs O inj (algs s) r)) (rhs s).

(* ---- Spec: partial derivatives of vf by dual numbers *)
Definition partials {K} (O : ops K) (s : sys K) (r : atom -> K) (x : atom) : list K :=
  map snd (vf (dual_ops O) (dinj O) s (seed O r x)).
Definition spec_mat {K} (O : ops K) (s : sys K) (r : atom -> K) (mk : nat -> atom) : list (list K) :=
  map (fun i => map (fun j => nth i (partials O s r (mk (nth j (states s) 0))) (o0 O)) (seq 0 (length (states s))))
      (seq 0 (length (states s))).
Definition spec_J0 {K} (O : ops K) (s : sys K) (r : atom -> K) : list (list K) := spec_mat O s r AV.
Definition spec_Jd {K} (O : ops K) (s : sys K) (r : atom -> K) (d : nat) : list (list K) :=
  spec_mat O s r (fun v => AP v d).

(* ---- Impl *)
Fixpoint subst {K} (e : expr K) (m : nat) (a : expr K) : expr K :=
  match e with
  | Cst c => Cst c
  | At (AV v) => if v =? m then a else At (AV v)
  | At (AP v d) => At (AP v d)
  | Add p q => Add (subst p m a) (subst q m a)
  | Sub p q => Sub (subst p m a) (subst q m a)
  | Mul p q => Mul (subst p m a) (subst q m a)
  | Neg p => Neg (subst p m a)
  | PowN p k => PowN (subst p m a) k
  | Fn f p => Fn f (subst p m a)
  | Fn2 g p q => Fn2 g (subst p m a) (subst q m a)
  end.
(* _expand_non_de: all intermediates replaced by their definitions (later ones first, so that one pass suffices) *)
Fixpoint expand {K} (l : list (nat * expr K)) (e : expr K) : expr K :=
  match l with
  | [] => e
  | (m, a) :: l' => subst (expand l' e) m a
  end.
Definition fexprs {K} (s : sys K) : list (expr K) := map (expand (algs s)) (rhs s).

Fixpoint past_atoms {K} (e : expr K) : list (nat * nat) :=
  match e with
  | Cst _ => []
  | At (AV _) => []
  | At (AP v d) => [(v, d)]
  | Add a b | Sub a b | Mul a b | Fn2 _ a b => past_atoms a ++ past_atoms b
  | Neg a | PowN a _ | Fn _ a => past_atoms a
  end.
Definition pair_eqb (p q : nat * nat) : bool := (fst p =? fst q) && (snd p =? snd q).
Fixpoint memb {A} (eqb : A -> A -> bool) (x : A) (l : list A) : bool :=
  match l with [] => false | y :: l' => eqb x y || memb eqb x l' end.
Fixpoint dedup {A} (eqb : A -> A -> bool) (l : list A) : list A :=    (* keeps first occurrences, in order *)
  match l with
  | [] => []
  | x :: l' => x :: filter (fun y => negb (eqb y x)) (dedup eqb l')
  end.
(* past_map: (variable, delay) pairs in order of first appearance; delay groups in order of first appearance *)
Definition past_map {K} (fs : list (expr K)) : list (nat * nat) := dedup pair_eqb (flat_map past_atoms fs).
Definition delays {K} (fs : list (expr K)) : list nat := dedup Nat.eqb (map snd (past_map fs)).
Definition group {K} (fs : list (expr K)) (d : nat) : list (nat * nat) := filter (fun p => snd p =? d) (past_map fs).

Fixpoint pos (v : nat) (l : list nat) : option nat :=
  match l with
  | [] => None
  | y :: l' => if y =? v then Some 0 else option_map S (pos v l')
  end.

Definition enumerate {A} (l : list A) : list (nat * A) := combine (seq 0 (length l)) l.

Definition entries K := list ((nat * nat) * expr K).
(* J0_entries[(i_row, j_col)] = d  if d != 0; `skip x f`: the entry is not printable (unresolved Derivative, before D51) *)
Definition j0_entries {K} (O : ops K) (skip : atom -> expr K -> bool) (st : list nat) (fs : list (expr K)) : entries K :=
  flat_map (fun '(i, f) =>
    flat_map (fun '(j, y) => if occurs (AV y) f && negb (skip (AV y) f) then [((i, j), D O f (AV y))] else [])
             (enumerate st)) (enumerate fs).
(* J_hist[d][(i_row, col)] = d  if d != 0;  col = fj_idx (state index; fixed = true, the code after fix D08) or the
   running counter inside the delay group (fixed = false, the code before) *)
Definition hist_entries {K} (O : ops K) (fixed : bool) (skip : atom -> expr K -> bool) (st : list nat) (fs : list (expr K)) (d : nat)
  : entries K :=
  flat_map (fun '(i, f) =>
    flat_map (fun '(c, (v, d')) =>
      match pos v st with
      | Some vidx => if occurs (AP v d') f && negb (skip (AP v d') f)
                     then [((i, if fixed then vidx else c), D O f (AP v d'))] else []
      | None => []
      end) (enumerate (filter (fun p => match pos (fst p) st with Some _ => true | None => false end) (group fs d))))
    (enumerate fs).

(* dictionary lookup: a later assignment to the same key wins *)
Fixpoint lookup {K} (k : nat * nat) (l : entries K) : option (expr K) :=
  match l with
  | [] => None
  | (k', e) :: l' => match lookup k l' with
                     | Some x => Some x
                     | None => if pair_eqb k k' then Some e else None
                     end
  end.
(* zeros((n, n)) then one assignment per entry *)
Definition matr {K} (O : ops K) (nrows ncols : nat) (es : entries K) : list (list (expr K)) :=
  map (fun r => map (fun c => match lookup (r, c) es with Some e => e | None => Cst (o0 O) end) (seq 0 ncols)) (seq 0 nrows).
Definition mat {K} (O : ops K) (size : nat) (es : entries K) : list (list (expr K)) := matr O size size es.

Inductive result (M : Type) := NameErr | Ok (J0 : M) (hs : list (nat * M)).
Arguments NameErr {M}. Arguments Ok {M}.

(* MODEL SWITCH (read by harness/c12.py as well): false = the code as it is now (an instantaneous entry is printed without the
   table of past symbols: any past symbol left in it is an undefined name, defect D08b); true = the code with the repair
   D64 = /verif/fixes/fix_D64.diff (J0 entries are printed with the table of past symbols, like the history entries); in /repo since d28043d. *)
Definition fixed_D08b : bool := true.

Definition name_error {K} (O : ops K) (skip : atom -> expr K -> bool) (s : sys K) : bool :=
  existsb (fun ke => has_past (snd ke)) (j0_entries O skip (states s) (fexprs s)).
Definition no_delayed_factor_in_j0 {K} (O : ops K) (s : sys K) : bool := negb (name_error O noskip s).

Definition jac_sym {K} (O : ops K) (fixed : bool) (skip : atom -> expr K -> bool) (pastJ0 : bool) (s : sys K)
  : result (list (list (expr K))) :=
  let fs := fexprs s in
  let size := length (states s) in
  if negb pastJ0 && name_error O skip s then NameErr
  else Ok (mat O size (j0_entries O skip (states s) fs))
          (map (fun d => (d, mat O size (hist_entries O fixed skip (states s) fs d))) (delays fs)).

Definition eval_mat {K} (O : ops K) (r : atom -> K) (m : list (list (expr K))) : list (list K) :=
  map (map (eval O (fun c => c) r)) m.
Definition jac_impl_gen {K} (O : ops K) (fixed : bool) (skip : atom -> expr K -> bool) (pastJ0 : bool) (s : sys K) (r : atom -> K)
  : result (list (list K)) :=
  match jac_sym O fixed skip pastJ0 s with
  | NameErr => NameErr
  | Ok j0 hs => Ok (eval_mat O r j0) (map (fun dm => (fst dm, eval_mat O r (snd dm))) hs)
  end.
Definition jac_impl {K} (O : ops K) := @jac_impl_gen K O true noskip fixed_D08b.     (* the code selected by the switch *)
Definition jac_impl_D08b_open {K} (O : ops K) := @jac_impl_gen K O true noskip false. (* J0 printed without the past table *)
Definition jac_impl_preD08 {K} (O : ops K) := @jac_impl_gen K O false noskip true.    (* the code before fix D08 (column) *)
Definition jac_impl_preD51 {K} (O : ops K) := @jac_impl_gen K O true unresolved true. (* the code before fix D51 (absv) *)

(* ---- the parameter Jacobian of the auto-07p export (_compute_symbolic_jacobian / _emit_auto_jacobian_block):
   dfdu[(i_row, j_col)] = diff(f_i, y_j), dfdp[(i_row, name)] = diff(f_i, p_name) when not 0, for the parameters in the order of
   the argument list; the Fortran block writes dfdu(i+1, j+1) and dfdp(i+1, slot(name)).  Only models without delays.
   The columns of `dfdp_mat` are the parameters in argument order; which PAR slot a column lands in is C18's slot function. *)
Definition dfdp_mat {K} (O : ops K) (params : list nat) (s : sys K) : list (list (expr K)) :=
  matr O (length (fexprs s)) (length params) (j0_entries O noskip params (fexprs s)).
Definition dfdu_mat {K} (O : ops K) (s : sys K) : list (list (expr K)) :=
  matr O (length (fexprs s)) (length (states s)) (j0_entries O noskip (states s) (fexprs s)).
Definition spec_rect {K} (O : ops K) (s : sys K) (r : atom -> K) (cols : list nat) : list (list K) :=
  map (fun i => map (fun j => nth i (partials O s r (AV (nth j cols 0))) (o0 O)) (seq 0 (length cols))) (seq 0 (length (rhs s))).

(* the whole specification as one value *)
Definition jac_spec {K} (O : ops K) (s : sys K) (r : atom -> K) : result (list (list K)) :=
  Ok (spec_J0 O s r) (map (fun d => (d, spec_Jd O s r d)) (delays (fexprs s))).

(* well-formedness of a model description *)
Definition past_vars_are_states {K} (s : sys K) : bool :=
  forallb (fun p => match pos (fst p) (states s) with Some _ => true | None => false end) (past_map (fexprs s)).
Fixpoint nodupb (l : list nat) : bool :=
  match l with [] => true | x :: l' => negb (memb Nat.eqb x l') && nodupb l' end.
Definition no_absv {K} (s : sys K) : bool :=
  forallb (fun e => negb (has_abs e)) (rhs s) && forallb (fun ma => negb (has_abs (snd ma))) (algs s).
Definition wf {K} (s : sys K) : bool :=
  nodupb (states s) && (length (rhs s) =? length (states s)) && past_vars_are_states s.

(* ---------------------------------------------------------------------------------------------- K := Qc (executable) *)
Definition mkq (num : Z) (den : positive) : Qc := Q2Qc (num # den).
Definition Qc_sign (v : Qc) : Qc :=
  if Qle_bool (this v) 0%Q then (if Qle_bool 0%Q (this v) then 0%Qc else (- (1))%Qc) else 1%Qc.
Definition Qc_abs (v : Qc) : Qc := if Qle_bool 0%Q (this v) then v else (- v)%Qc.
(* identity, absv and sign are computed exactly.  The transcendental functions cannot be evaluated in Qc: in the exact
   correspondence stream the harness replaces the functions `sigmoid, exp, sin, cos, tanh` of the generated modules (run
   function and Jacobian function alike) by the polynomial stand-ins below, so that what is compared exactly is the structure
   the code emits (which rule is applied to which call, chain rule, placement); that the rules are the derivatives of the
   real functions is JacobianReal.v (fn_derive, D_correct).  The stand-ins of sin/tanh are odd and the one of cos is even (sympy rewrites
   sin(-u) -> -sin(u), cos(-u) -> cos(u) when it builds the expression); exp has the stand-in 2^v on integral arguments (Qc_exp2). *)
(* stand-in of exp: 2^v for integral v (exact in float64 and in Qc, and a homomorphism like exp: sympy merges exp(u)*exp(v) into
   exp(u+v) and exp(u)^2 into exp(2u)); the generator only produces integral arguments (4 * a variable that is a multiple of 1/4) *)
Definition Qc_exp2 (v : Qc) : Qc :=
  match Qden (this v) with
  | xH => match Qnum (this v) with
          | Z0 => 1%Qc
          | Zpos p => Qcpower (mkq 2 1) (Pos.to_nat p)
          | Zneg p => (/ Qcpower (mkq 2 1) (Pos.to_nat p))%Qc
          end
  | _ => 0%Qc
  end.
Definition Qc_fn (f : fn) (v : Qc) : Qc :=
  match f with
  | FId => v
  | FAbs => Qc_abs v
  | FSign => Qc_sign v
  | FSig => (v * v * mkq 1 4 + mkq 1 4)%Qc
  | FExp => Qc_exp2 v
  | FSin => (v * mkq 1 2)%Qc
  | FCos => (1 - v * v * mkq 1 2)%Qc
  | FTanh => (v * mkq 1 4)%Qc
  end.
Definition Qc_fn2 (g : fn2) (u v : Qc) : Qc :=
  match g with
  | FMax => if Qle_bool (this u) (this v) then v else u
  | FMin => if Qle_bool (this u) (this v) then u else v
  end.
Definition QcO : ops Qc := mkops Qc 0%Qc 1%Qc Qcplus Qcminus Qcmult Qcopp Qc_fn Qc_fn2 (mkq 1 2).

(* everything is executable with the stand-ins (kept as a guard of the correspondence run) *)
Fixpoint execb {K} (e : expr K) : bool :=
  match e with
  | Cst _ | At _ => true
  | Add a b | Sub a b | Mul a b | Fn2 _ a b => execb a && execb b
  | Neg a | PowN a _ => execb a
  | Fn f a => execb a
  end.

(* environment from association lists: variables, and for each delay symbol the vector hist(t - delay) *)
Fixpoint assoc (k : nat) (l : list (nat * Qc)) : Qc :=
  match l with [] => 0%Qc | (k', v) :: l' => if k =? k' then v else assoc k l' end.
Fixpoint assocl (k : nat) (l : list (nat * list Qc)) : list Qc :=
  match l with [] => [] | (k', v) :: l' => if k =? k' then v else assocl k l' end.
Definition env (st : list nat) (vars : list (nat * Qc)) (hist : list (nat * list Qc)) : atom -> Qc :=
  fun a => match a with
           | AV v => assoc v vars
           | AP v d => match pos v st with Some i => nth i (assocl d hist) 0%Qc | None => 0%Qc end
           end.

Definition qrow_eqb (a b : list Qc) : bool :=
  (length a =? length b)%nat && forallb (fun p => Qeq_bool (this (fst p)) (this (snd p))) (combine a b).
Definition qmat_eqb (a b : list (list Qc)) : bool :=
  (length a =? length b)%nat && forallb (fun p => qrow_eqb (fst p) (snd p)) (combine a b).
Fixpoint find_mat (d : nat) (hs : list (nat * list (list Qc))) : option (list (list Qc)) :=
  match hs with [] => None | (d', m) :: hs' => if d =? d' then Some m else find_mat d hs' end.
Definition qmat_zero (a : list (list Qc)) : bool := forallb (forallb (fun x => Qeq_bool (this x) 0%Q)) a.
(* equality of results.  The order of the history matrices is not compared (the list returned by the generated function
   carries no labels; the harness reads the labels from the generated source), and a delay that is missing on one side
   counts as the zero matrix (sympy cancels terms such as s - s before PyRates looks for past() calls; the derivative
   with respect to a delayed state that does not occur is 0). *)
Definition hs_sub (hs hs' : list (nat * list (list Qc))) : bool :=
  forallb (fun dm => match find_mat (fst dm) hs' with Some m => qmat_eqb (snd dm) m | None => qmat_zero (snd dm) end) hs.
Definition result_eqb (a b : result (list (list Qc))) : bool :=
  match a, b with
  | NameErr, NameErr => true
  | Ok j0 hs, Ok j0' hs' =>
      qmat_eqb j0 j0' && nodupb (map fst hs) && nodupb (map fst hs') && hs_sub hs hs' && hs_sub hs' hs
  | _, _ => false
  end.
