(* YamlProofs.v — proofs about the template-store model (Yaml.v). *)
From Coq Require Import List Ascii Bool Arith ZArith Lia.
From PV Require Import Replace ReplaceProofs Yaml.
Import ListNotations.
