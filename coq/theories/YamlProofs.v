(* YamlProofs.v — proofs about the template-store model (Yaml.v). *)
From Coq Require Import List Ascii Bool Arith ZArith Lia.
From PV Require Import Replace ReplaceProofs Yaml.
Import ListNotations.

(* ---------- dictionaries ---------- *)
Lemma assoc_set {V} : forall (m : list (str * V)) k k' v, assoc k (set_assoc k' v m) = if str_eqb k k' then Some v else assoc k m.
Proof.
  induction m as [|[k0 v0] m IH]; intros k k' v; cbn [set_assoc assoc]; [reflexivity|].
  destruct (str_eqb k' k0) eqn:E0; cbn [assoc].
  - apply str_eqb_eq in E0. subst k0. destruct (str_eqb k k'); reflexivity.
  - rewrite IH. destruct (str_eqb k k') eqn:E; [|reflexivity]. apply str_eqb_eq in E. subst k'. now rewrite E0.
Qed.

(* ---------- syntactic equality tests decide equality ---------- *)
Lemma list_eqb_eq {A} (e : A -> A -> bool) (He : forall x y, e x y = true -> x = y) : forall a b, list_eqb e a b = true -> a = b.
Proof.
  induction a as [|x a IH]; intros [|y b] H; cbn in H; try discriminate; [reflexivity|].
  apply andb_prop in H as [H1 H2]. f_equal; auto.
Qed.
Lemma list_eqb_refl {A} (e : A -> A -> bool) (He : forall x, e x x = true) : forall a, list_eqb e a a = true.
Proof. induction a as [|x a IH]; cbn; [reflexivity|]. now rewrite He, IH. Qed.
Lemma str_eqb_true a b : str_eqb a b = true -> a = b.
Proof. apply str_eqb_eq. Qed.
Lemma pair_eqb_eq {A B} ea eb (Ha : forall x y : A, ea x y = true -> x = y) (Hb : forall x y : B, eb x y = true -> x = y) :
  forall p q, pair_eqb ea eb p q = true -> p = q.
Proof. intros [a b] [a' b'] H. unfold pair_eqb in H. cbn in H. apply andb_prop in H as [H1 H2]. f_equal; auto. Qed.
Lemma pair_eqb_refl {A B} (ea : A -> A -> bool) (eb : B -> B -> bool) (Ha : forall x, ea x x = true) (Hb : forall x, eb x x = true) :
  forall p, pair_eqb ea eb p p = true.
Proof. intros [a b]. unfold pair_eqb. cbn. now rewrite Ha, Hb. Qed.
Lemma vspec_eqb_eq a b : vspec_eqb a b = true -> a = b.
Proof.
  destruct a as [t x], b as [t' x']. unfold vspec_eqb. cbn. intro H. apply andb_prop in H as [H1 H2].
  apply Z.eqb_eq in H2. subst. destruct t, t'; cbn in H1; congruence.
Qed.
Lemma vspec_eqb_refl a : vspec_eqb a a = true.
Proof. destruct a as [t x]. unfold vspec_eqb. cbn. rewrite Z.eqb_refl. now destruct t. Qed.
Lemma opt_eqb_eq {A} (e : A -> A -> bool) (He : forall x y, e x y = true -> x = y) a b : opt_eqb e a b = true -> a = b.
Proof. destruct a, b; cbn; intro H; try discriminate; [f_equal; auto|reflexivity]. Qed.
Lemma opt_eqb_refl {A} (e : A -> A -> bool) (He : forall x, e x x = true) a : opt_eqb e a a = true.
Proof. destruct a; cbn; auto. Qed.
Lemma zpair_eq p q : pair_eqb str_eqb Z.eqb p q = true -> p = q.
Proof. apply pair_eqb_eq; [apply str_eqb_true|]. intros x y H. now apply Z.eqb_eq. Qed.
Lemma sedge_eqs_eq a b : sedge_eqs a b = true -> a = b.
Proof.
  destruct a as [[[s1 t1] k1] a1], b as [[[s2 t2] k2] a2]. cbn. intro H.
  apply andb_prop in H as [H H4]. apply andb_prop in H as [H H3]. apply andb_prop in H as [H1 H2].
  apply str_eqb_true in H1, H2. apply (opt_eqb_eq _ str_eqb_true) in H3. apply (list_eqb_eq _ zpair_eq) in H4. now subst.
Qed.
Lemma sedge_eqs_refl a : sedge_eqs a a = true.
Proof.
  destruct a as [[[s1 t1] k1] a1]. cbn. rewrite !str_eqb_refl, (opt_eqb_refl _ str_eqb_refl). cbn.
  apply list_eqb_refl. apply pair_eqb_refl; [apply str_eqb_refl|apply Z.eqb_refl].
Qed.
Lemma entry_eqs_eq a b : entry_eqs a b = true -> a = b.
Proof.
  destruct a, b; cbn; intro H; try discriminate.
  - apply andb_prop in H as [H1 H2]. apply (list_eqb_eq _ str_eqb_true) in H1.
    apply (list_eqb_eq _ (pair_eqb_eq _ _ str_eqb_true vspec_eqb_eq)) in H2. now subst.
  - apply andb_prop in H as [H1 H2]. apply Bool.eqb_prop in H1.
    apply (list_eqb_eq _ (pair_eqb_eq _ _ str_eqb_true (list_eqb_eq _ zpair_eq))) in H2. now subst.
  - apply andb_prop in H as [H H3]. apply andb_prop in H as [H1 H2].
    apply (list_eqb_eq _ (pair_eqb_eq _ _ str_eqb_true str_eqb_true)) in H1, H2. apply (list_eqb_eq _ sedge_eqs_eq) in H3. now subst.
Qed.
Lemma entry_eqs_refl a : entry_eqs a a = true.
Proof.
  destruct a; cbn.
  - rewrite (list_eqb_refl _ str_eqb_refl). cbn. apply list_eqb_refl. apply pair_eqb_refl; [apply str_eqb_refl|apply vspec_eqb_refl].
  - rewrite Bool.eqb_reflx. cbn. apply list_eqb_refl. apply pair_eqb_refl; [apply str_eqb_refl|].
    apply list_eqb_refl. apply pair_eqb_refl; [apply str_eqb_refl|apply Z.eqb_refl].
  - rewrite !(list_eqb_refl _ (pair_eqb_refl _ _ str_eqb_refl str_eqb_refl)). cbn. apply list_eqb_refl, sedge_eqs_refl.
Qed.

(* ---------- the store under the no-rename guard ---------- *)
Definition consistentP (E : list (str * entry)) : Prop := forall k d d', In (k, d) E -> In (k, d') E -> d = d'.
Lemma consistent_P E : consistent E = true -> consistentP E.
Proof.
  unfold consistent. intros H k d d' H1 H2. rewrite forallb_forall in H. specialize (H _ H1). rewrite forallb_forall in H.
  specialize (H _ H2). cbn [fst snd] in H. rewrite str_eqb_refl in H. cbn in H. now apply entry_eqs_eq.
Qed.

Definition Inv (st : store) (E : list (str * entry)) : Prop := forall k d, assoc k st = Some d -> In (k, d) E.
Definition ext (st st' : store) : Prop := forall k x, assoc k st = Some x -> assoc k st' = Some x.
Definition holds (st : store) (es : list (str * entry)) : Prop := forall k d, In (k, d) es -> assoc k st = Some d.

Lemma ext_refl st : ext st st. Proof. intros k x H; exact H. Qed.
Lemma ext_trans a b c : ext a b -> ext b c -> ext a c. Proof. intros H1 H2 k x H. auto. Qed.
Lemma holds_ext st st' es : holds st es -> ext st st' -> holds st' es. Proof. intros H He k d Hi. auto. Qed.
Lemma holds_app st a b : holds st a -> holds st b -> holds st (a ++ b).
Proof. intros Ha Hb k d Hi. apply in_app_or in Hi as [Hi|Hi]; auto. Qed.
Lemma holds_nil st : holds st []. Proof. intros k d []. Qed.

Section Guarded.
  Variable E : list (str * entry).
  Hypothesis HE : consistentP E.

  Lemma add_ok name d st : Inv st E -> In (name, d) E ->
    exists st', add_to_dict name d st = (name, st') /\ Inv st' E /\ ext st st' /\ assoc name st' = Some d.
  Proof.
    intros HI Hin. exists (set_assoc name d st). split; [|split; [|split]].
    - unfold add_to_dict. cbn [free_key key_k]. destruct (assoc name st) as [d'|] eqn:Ea; [|reflexivity].
      rewrite (HE _ _ _ (HI _ _ Ea) Hin), entry_eqs_refl. reflexivity.
    - intros k x. rewrite assoc_set. destruct (str_eqb k name) eqn:Ek; [|apply HI].
      apply str_eqb_eq in Ek. subst k. intro H. injection H as <-. exact Hin.
    - intros k x H. rewrite assoc_set. destruct (str_eqb k name) eqn:Ek; [|exact H].
      apply str_eqb_eq in Ek. subst k. f_equal. exact (HE _ _ _ Hin (HI _ _ H)).
    - rewrite assoc_set, str_eqb_refl. reflexivity.
  Qed.

  Definition ops_entries (l : list (opT * upd)) : list (str * entry) := map (fun ou => (o_name (fst ou), op_entry (fst ou) (snd ou))) l.

  Lemma dump_ops_ok : forall l st, Inv st E -> incl (ops_entries l) E ->
    exists st', dump_ops l st = (map (fun ou => (o_name (fst ou), snd ou)) l, st') /\ Inv st' E /\ ext st st' /\ holds st' (ops_entries l).
  Proof.
    induction l as [|[op u] l IH]; intros st HI Hin.
    - exists st. repeat split; auto using ext_refl, holds_nil.
    - cbn [dump_ops]. unfold dump_op.
      destruct (add_ok (o_name op) (op_entry op u) st HI) as (st1 & E1 & I1 & X1 & A1); [apply Hin; now left|].
      rewrite E1. destruct (IH st1 I1) as (st2 & E2 & I2 & X2 & H2); [intros x Hx; apply Hin; now right|].
      rewrite E2. exists st2. repeat split; auto.
      + eapply ext_trans; eassumption.
      + intros k d [Hk|Hk]; [injection Hk as <- <-; now apply X2|now apply H2].
  Qed.

  Lemma dump_node_ok b nd st : Inv st E -> incl (node_entries b nd) E ->
    exists st', dump_node b nd st = (n_name nd, st') /\ Inv st' E /\ ext st st' /\ holds st' (node_entries b nd).
  Proof.
    intros HI Hin. unfold dump_node, node_entries in *.
    destruct (dump_ops_ok (n_ops nd) st HI) as (st1 & E1 & I1 & X1 & H1); [intros x Hx; apply Hin, in_or_app; now left|].
    rewrite E1.
    destruct (add_ok (n_name nd) (ENode b (map (fun ou => (o_name (fst ou), snd ou)) (n_ops nd))) st1 I1) as (st2 & E2 & I2 & X2 & A2);
      [apply Hin, in_or_app; right; now left|].
    rewrite E2. exists st2. repeat split; auto.
    - eapply ext_trans; eassumption.
    - apply holds_app; [eapply holds_ext; eassumption|]. intros k d [Hk|[]]. now injection Hk as <- <-.
  Qed.

  Definition nodes_entries (l : list (str * nodeT)) := flat_map (fun kn => node_entries false (snd kn)) l.

  Lemma dump_nodes_ok : forall l st, Inv st E -> incl (nodes_entries l) E ->
    exists st', dump_nodes l st = (keyed_names n_name l, st') /\ Inv st' E /\ ext st st' /\ holds st' (nodes_entries l).
  Proof.
    induction l as [|[key nd] l IH]; intros st HI Hin.
    - exists st. repeat split; auto using ext_refl, holds_nil.
    - cbn [dump_nodes]. unfold nodes_entries in *. cbn [flat_map snd] in *.
      destruct (dump_node_ok false nd st HI) as (st1 & E1 & I1 & X1 & H1); [intros x Hx; apply Hin, in_or_app; now left|].
      rewrite E1. destruct (IH st1 I1) as (st2 & E2 & I2 & X2 & H2); [intros x Hx; apply Hin, in_or_app; now right|].
      rewrite E2. exists st2. repeat split; auto.
      + eapply ext_trans; eassumption.
      + apply holds_app; [eapply holds_ext; eassumption|exact H2].
  Qed.

  Lemma dump_edge_ok e st : Inv st E -> incl (edge_entries e) E ->
    exists st', dump_edge e st = (pure_edge e, st') /\ Inv st' E /\ ext st st' /\ holds st' (edge_entries e).
  Proof.
    intros HI Hin. unfold dump_edge, pure_edge, edge_entries in *. destruct (ed_tpl e) as [t|].
    - destruct (dump_node_ok true t st HI Hin) as (st1 & E1 & I1 & X1 & H1). rewrite E1. exists st1. repeat split; auto.
    - exists st. repeat split; auto using ext_refl, holds_nil.
  Qed.

  Lemma dump_edges_ok : forall l st, Inv st E -> incl (flat_map edge_entries l) E ->
    exists st', dump_edges l st = (map pure_edge l, st') /\ Inv st' E /\ ext st st' /\ holds st' (flat_map edge_entries l).
  Proof.
    induction l as [|e l IH]; intros st HI Hin.
    - exists st. repeat split; auto using ext_refl, holds_nil.
    - cbn [dump_edges flat_map map] in *.
      destruct (dump_edge_ok e st HI) as (st1 & E1 & I1 & X1 & H1); [intros x Hx; apply Hin, in_or_app; now left|].
      rewrite E1. destruct (IH st1 I1) as (st2 & E2 & I2 & X2 & H2); [intros x Hx; apply Hin, in_or_app; now right|].
      rewrite E2. exists st2. repeat split; auto.
      + eapply ext_trans; eassumption.
      + apply holds_app; [eapply holds_ext; eassumption|exact H2].
  Qed.

  Lemma dump_flat_ok f st : Inv st E -> incl (flat_entries f) E ->
    exists st', dump_flat f st = (f_name f, st') /\ Inv st' E /\ ext st st' /\ holds st' (flat_entries f).
  Proof.
    intros HI Hin. unfold dump_flat, flat_entries in *.
    destruct (dump_nodes_ok (f_nodes f) st HI) as (st1 & E1 & I1 & X1 & H1); [intros x Hx; apply Hin, in_or_app; now left|].
    rewrite E1.
    destruct (dump_edges_ok (f_edges f) st1 I1) as (st2 & E2 & I2 & X2 & H2); [intros x Hx; apply Hin, in_or_app; right; apply in_or_app; now left|].
    rewrite E2.
    destruct (add_ok (f_name f) (ECirc [] (keyed_names n_name (f_nodes f)) (map pure_edge (f_edges f))) st2 I2) as (st3 & E3 & I3 & X3 & A3);
      [apply Hin, in_or_app; right; apply in_or_app; right; now left|].
    rewrite E3. exists st3. repeat split; auto.
    - eapply ext_trans; [eassumption|]. eapply ext_trans; eassumption.
    - apply holds_app; [eapply holds_ext; [exact H1|eapply ext_trans; eassumption]|].
      apply holds_app; [eapply holds_ext; eassumption|]. intros k d [Hk|[]]. now injection Hk as <- <-.
  Qed.

  Lemma dump_subs_ok : forall l st, Inv st E -> incl (flat_map (fun kf => flat_entries (snd kf)) l) E ->
    exists st', dump_subs l st = (keyed_names f_name l, st') /\ Inv st' E /\ ext st st' /\ holds st' (flat_map (fun kf => flat_entries (snd kf)) l).
  Proof.
    induction l as [|[key f] l IH]; intros st HI Hin.
    - exists st. repeat split; auto using ext_refl, holds_nil.
    - cbn [dump_subs flat_map snd] in *.
      destruct (dump_flat_ok f st HI) as (st1 & E1 & I1 & X1 & H1); [intros x Hx; apply Hin, in_or_app; now left|].
      rewrite E1. destruct (IH st1 I1) as (st2 & E2 & I2 & X2 & H2); [intros x Hx; apply Hin, in_or_app; now right|].
      rewrite E2. exists st2. repeat split; auto.
      + eapply ext_trans; eassumption.
      + apply holds_app; [eapply holds_ext; eassumption|exact H2].
  Qed.
End Guarded.

Theorem dump_pure c : no_rename c = true ->
  exists st, dump c = (c_name c, st) /\ holds st (circ_entries c).
Proof.
  intro Hc. apply consistent_P in Hc. set (E := circ_entries c) in *.
  assert (HI : Inv [] E) by (intros k d H; discriminate).
  unfold dump, dump_circ.
  assert (Hall : incl (circ_entries c) E) by apply incl_refl. unfold circ_entries in Hall.
  destruct (dump_subs_ok E Hc (c_subs c) [] HI) as (st1 & E1 & I1 & X1 & H1); [intros x Hx; apply Hall, in_or_app; now left|].
  rewrite E1.
  assert (Hn : exists st2, (match c_subs c with [] => dump_nodes (c_nodes c) st1 | _ => ([], st1) end) = (keyed_names n_name (own_nodes c), st2)
            /\ Inv st2 E /\ ext st1 st2 /\ holds st2 (nodes_entries (own_nodes c))).
  { unfold own_nodes in *. destruct (c_subs c).
    - apply dump_nodes_ok; auto. intros x Hx. apply Hall, in_or_app. right. apply in_or_app. now left.
    - exists st1. repeat split; auto using ext_refl, holds_nil. }
  destruct Hn as (st2 & E2 & I2 & X2 & H2). rewrite E2.
  destruct (dump_edges_ok E Hc (c_edges c) st2 I2) as (st3 & E3 & I3 & X3 & H3);
    [intros x Hx; apply Hall, in_or_app; right; apply in_or_app; right; apply in_or_app; now left|].
  rewrite E3.
  destruct (add_ok E Hc (c_name c) (ECirc (keyed_names f_name (c_subs c)) (keyed_names n_name (own_nodes c)) (map pure_edge (c_edges c))) st3 I3)
    as (st4 & E4 & I4 & X4 & A4); [apply Hall, in_or_app; right; apply in_or_app; right; apply in_or_app; right; now left|].
  rewrite E4. exists st4. split; [reflexivity|].
  unfold circ_entries. apply holds_app; [eapply holds_ext; [exact H1|]; eauto using ext_trans|].
  apply holds_app; [eapply holds_ext; [exact H2|]; eauto using ext_trans|].
  apply holds_app; [eapply holds_ext; eassumption|]. intros k d [Hk|[]]. now injection Hk as <- <-.
Qed.

Definition G (nd : nodeT) : Prop := True.

(* ---------- load ---------- *)
Section Loaded.
  Variable st : store.

  Definition mk_loaded (ou : opT * upd) : opT * upd := (mkOp (o_name (fst ou)) (o_eqs (fst ou)) (o_vars (fst ou)), snd ou).

  Lemma load_ops_ok : forall l, holds st (map (fun ou => (o_name (fst ou), op_entry (fst ou) (snd ou))) l) ->
    mapM (fun ku => obind (load_op st (fst ku)) (fun o => Some (o, snd ku))) (map (fun ou => (o_name (fst ou), snd ou)) l) = Some (map mk_loaded l).
  Proof.
    induction l as [|ou l IH]; intro H; [reflexivity|]. cbn [map mapM fst snd].
    unfold load_op at 1. rewrite (H _ _ (or_introl eq_refl)). unfold op_entry. cbn [obind].
    rewrite IH by (intros k d Hi; apply H; now right). reflexivity.
  Qed.

  Lemma load_node_ok b nd : holds st (node_entries b nd) -> G nd ->
    exists nd', load_node b st (n_name nd) = Some nd' /\ denote_node nd' = denote_node nd.
  Proof.
    intros H _. unfold node_entries in H. unfold load_node.
    assert (Hk : assoc (n_name nd) st = Some (ENode b (map (fun ou => (o_name (fst ou), snd ou)) (n_ops nd)))) by (apply H, in_or_app; right; now left).
    rewrite Hk.
    rewrite Bool.eqb_reflx. rewrite load_ops_ok by (intros k d Hi; apply H, in_or_app; now left). cbn [obind].
    eexists. split; [reflexivity|]. unfold denote_node. cbn [n_ops]. rewrite !map_map.
    apply map_ext. intros [[nm eqs vars] u]. reflexivity.
  Qed.

  Lemma load_nodes_ok : forall l, holds st (flat_map (fun kn => node_entries false (snd kn)) l) -> (forall kn, In kn l -> G (snd kn)) ->
    exists l', load_keyed (load_node false st) (keyed_names n_name l) = Some l' /\ forall pre, denote_nodes pre l' = denote_nodes pre l.
  Proof.
    induction l as [|[key nd] l IH]; intros H HG.
    - exists []. split; reflexivity.
    - cbn [flat_map snd] in H. unfold load_keyed, keyed_names in *. cbn [map mapM fst snd].
      destruct (load_node_ok false nd) as (nd' & E1 & D1); [intros k d Hi; apply H, in_or_app; now left|apply (HG (key, nd)); now left|].
      rewrite E1. cbn [obind].
      destruct IH as (l' & E2 & D2); [intros k d Hi; apply H, in_or_app; now right|intros kn Hk; apply HG; now right|].
      rewrite E2. cbn [obind]. eexists. split; [reflexivity|]. intro pre. unfold denote_nodes in *. cbn [map fst snd]. now rewrite D1, D2.
  Qed.

  Lemma load_edges_ok : forall l, holds st (flat_map edge_entries l) -> (forall e t, In e l -> ed_tpl e = Some t -> G t) ->
    exists l', mapM (load_edge st) (map pure_edge l) = Some l' /\ forall pre, map (denote_edge pre) l' = map (denote_edge pre) l.
  Proof.
    induction l as [|e l IH]; intros H HG.
    - exists []. split; reflexivity.
    - cbn [flat_map map mapM] in *.
      destruct IH as (l' & E2 & D2); [intros k d Hi; apply H, in_or_app; now right|intros e' t Hi; apply HG; now right|].
      assert (Hhd : holds st (edge_entries e)) by (intros k d Hi; apply H, in_or_app; now left).
      unfold edge_entries in Hhd. unfold load_edge at 1. unfold pure_edge at 1.
      destruct (ed_tpl e) as [t|] eqn:Et; cbn [option_map].
      + destruct (load_node_ok true t) as (nd' & E1 & D1); [exact Hhd|apply (HG e t); [now left|exact Et]|].
        rewrite E1. cbn [obind]. rewrite E2. cbn [obind]. eexists. split; [reflexivity|]. intro pre. cbn [map]. rewrite D2. f_equal.
        unfold denote_edge. cbn [ed_src ed_tgt ed_tpl ed_attrs option_map]. now rewrite Et, D1.
      + cbn [obind]. rewrite E2. cbn [obind]. eexists. split; [reflexivity|]. intro pre. cbn [map]. rewrite D2. f_equal.
        unfold denote_edge. cbn [ed_src ed_tgt ed_tpl ed_attrs option_map]. now rewrite Et.
  Qed.

  Definition Gflat (f : flatC) : Prop := (forall kn, In kn (f_nodes f) -> G (snd kn)) /\ (forall e t, In e (f_edges f) -> ed_tpl e = Some t -> G t).

  Lemma load_flat_ok f : holds st (flat_entries f) -> Gflat f ->
    exists f', load_flat st (f_name f) = Some f' /\ forall pre, denote_flat pre f' = denote_flat pre f.
  Proof.
    intros H [Gn Ge]. unfold flat_entries in H. unfold load_flat.
    assert (Hk : assoc (f_name f) st = Some (ECirc [] (keyed_names n_name (f_nodes f)) (map pure_edge (f_edges f))))
      by (apply H, in_or_app; right; apply in_or_app; right; now left).
    rewrite Hk.
    destruct (load_nodes_ok (f_nodes f)) as (ns & E1 & D1); [intros k d Hi; apply H, in_or_app; now left|exact Gn|].
    destruct (load_edges_ok (f_edges f)) as (es & E2 & D2); [intros k d Hi; apply H, in_or_app; right; apply in_or_app; now left|exact Ge|].
    rewrite E1. cbn [obind]. rewrite E2. cbn [obind]. eexists. split; [reflexivity|]. intro pre. unfold denote_flat. cbn [f_nodes f_edges].
    now rewrite D1, D2.
  Qed.

  Lemma load_subs_ok : forall l, holds st (flat_map (fun kf => flat_entries (snd kf)) l) -> (forall kf, In kf l -> Gflat (snd kf)) ->
    exists l', load_keyed (load_flat st) (keyed_names f_name l) = Some l' /\
               map (fun kf => denote_flat (fst kf ++ slash) (snd kf)) l' = map (fun kf => denote_flat (fst kf ++ slash) (snd kf)) l /\
               (l' = [] <-> l = []).
  Proof.
    induction l as [|[key f] l IH]; intros H HG.
    - exists []. repeat split; auto.
    - cbn [flat_map snd] in H. unfold load_keyed, keyed_names in *. cbn [map mapM fst snd].
      destruct (load_flat_ok f) as (f' & E1 & D1); [intros k d Hi; apply H, in_or_app; now left|apply (HG (key, f)); now left|].
      rewrite E1. cbn [obind].
      destruct IH as (l' & E2 & D2 & _); [intros k d Hi; apply H, in_or_app; now right|intros kn Hk; apply HG; now right|].
      rewrite E2. cbn [obind]. eexists. split; [reflexivity|]. split; [cbn [map fst snd]; now rewrite D1, D2|]. split; discriminate.
  Qed.
End Loaded.

(* ---------- the round trip ---------- *)
Lemma G_all c : forall nd, In nd (all_nodes c) -> G nd.
Proof. intros; exact I. Qed.

Lemma tpl_in e t l : In e l -> ed_tpl e = Some t -> In t (flat_map (fun e => match ed_tpl e with Some t => [t] | None => [] end) l).
Proof. intros Hi Et. apply in_flat_map. exists e. split; [exact Hi|]. rewrite Et. now left. Qed.

Theorem load_dump c : WFy c = true -> option_map denote (roundtrip c) = Some (denote c).
Proof.
  unfold WFy. intro Hr.
  pose proof (G_all c) as HG.
  destruct (dump_pure c Hr) as (st & Ed & Hh). unfold roundtrip. rewrite Ed. cbn [snd].
  unfold circ_entries in Hh. unfold load_circ.
  assert (Hk : assoc (c_name c) st = Some (ECirc (keyed_names f_name (c_subs c)) (keyed_names n_name (own_nodes c)) (map pure_edge (c_edges c))))
    by (apply Hh, in_or_app; right; apply in_or_app; right; apply in_or_app; right; now left).
  rewrite Hk.
  destruct (load_subs_ok st (c_subs c)) as (ss & E1 & D1 & N1).
  { intros k d Hi. apply Hh, in_or_app. now left. }
  { intros [key f] Hkf. split.
    - intros kn Hkn. apply HG. unfold all_nodes. apply in_or_app. left. apply in_flat_map. exists (key, f). split; [exact Hkf|].
      cbn [snd]. apply in_or_app. left. now apply in_map.
    - intros e t Hi Et. apply HG. unfold all_nodes. apply in_or_app. left. apply in_flat_map. exists (key, f). split; [exact Hkf|].
      cbn [snd]. apply in_or_app. right. eapply tpl_in; eassumption. }
  destruct (load_nodes_ok st (own_nodes c)) as (ns & E2 & D2).
  { intros k d Hi. apply Hh, in_or_app. right. apply in_or_app. now left. }
  { intros kn Hkn. apply HG. unfold all_nodes. apply in_or_app. right. apply in_or_app. left. now apply in_map. }
  destruct (load_edges_ok st (c_edges c)) as (es & E3 & D3).
  { intros k d Hi. apply Hh, in_or_app. right. apply in_or_app. right. apply in_or_app. now left. }
  { intros e t Hi Et. apply HG. unfold all_nodes. apply in_or_app. right. apply in_or_app. right. eapply tpl_in; eassumption. }
  rewrite E1. cbn [obind]. rewrite E2. cbn [obind]. rewrite E3. cbn [obind option_map]. f_equal.
  unfold denote. cbn [c_subs c_nodes c_edges]. unfold own_nodes in D2.
  destruct (c_subs c) as [|kf l] eqn:Es.
  - destruct ss as [|x ss]; [|destruct N1 as [_ N1]; specialize (N1 eq_refl); discriminate]. now rewrite D2, D3.
  - destruct ss as [|x ss]; [destruct N1 as [N1 _]; specialize (N1 eq_refl); discriminate|]. now rewrite D1, D3.
Qed.

(* the inverse direction of the guards, by computation: each guard is needed *)
Definition S := Coq.Strings.String.list_ascii_of_string.
Section Witnesses.
  Import Coq.Strings.String.
  Local Open Scope string_scope.
  Definition w_opa : opT := mkOp (S "opa") [S "d/dt * r = -k*r + r_in"] [(S "r", (VOut, 4%Z)); (S "k", (VConst, 16%Z)); (S "r_in", (VIn, 0%Z))].
  Definition w_opb : opT := mkOp (S "opb") [S "d/dt * v = r*c - v"; S "m = 3*v"]
    [(S "v", (VState, 2%Z)); (S "c", (VConst, 12%Z)); (S "r", (VIn, 0%Z)); (S "m", (VOut, 0%Z))].
  Definition w_node (k : Z) : nodeT := mkNode (S "n") [(w_opa, [(S "k", k)])].
  (* D10c: two variants of one name *)
  Definition w_rename : circ := mkCirc (S "net") [] [(S "a", w_node 24); (S "b", w_node 40)]
    [mkEdge (S "a/opa/r") (S "b/opa/r_in") None [(S "weight", 16%Z)]].
  Definition w_opa2 : opT := mkOp (S "opa") [S "d/dt * r = -k*r + r_in"] [(S "r", (VOut, 4%Z)); (S "k", (VConst, 40%Z)); (S "r_in", (VIn, 0%Z))].
  Definition w_rename2 : circ := mkCirc (S "net") [] [(S "a", mkNode (S "n") [(w_opa, [])]); (S "b", mkNode (S "n") [(w_opa2, [])])] [].
  (* D33: three variants *)
  Definition w_three : circ := mkCirc (S "net") [] [(S "a", w_node 24); (S "b", w_node 40); (S "c", w_node 16)] [].
  (* D10d: override of an output variable *)
  Definition w_kind : circ := mkCirc (S "net") [] [(S "a", mkNode (S "n") [(w_opa, [(S "r", 2%Z)]); (w_opb, [])])] [].
  (* inside all guards: shared operator, the same override on both nodes, hierarchy, edge template *)
  Definition w_eop : opT := mkOp (S "eop") [S "m_out = g*x_in*x_in"] [(S "m_out", (VOut, 0%Z)); (S "x_in", (VIn, 0%Z)); (S "g", (VConst, 16%Z))].
  Definition w_et : nodeT := mkNode (S "et") [(w_eop, [(S "g", 4%Z)])].
  Definition w_flat : flatC := mkFlat (S "sub") [(S "a", w_node 24); (S "b", w_node 24)]
    [mkEdge (S "a/opa/r") (S "b/opa/r_in") (Some w_et) [(S "weight", 8%Z)]].
  Definition w_ok : circ := mkCirc (S "top") [(S "s1", w_flat); (S "s2", w_flat)] []
    [mkEdge (S "s1/a/opa/r") (S "s2/b/opa/r_in") None [(S "weight", 2%Z)]].
End Witnesses.

Definition load_dump_statement (c : circ) : Prop := option_map denote (roundtrip c) = Some (denote c).

Lemma den_eqb_eq a b : den_eqb a b = true -> a = b.
Proof.
  destruct a as [n1 e1], b as [n2 e2]. unfold den_eqb. cbn [fst snd]. intro H. apply andb_prop in H as [H1 H2].
  assert (Hdv : forall x y, dvar_eqb x y = true -> x = y) by (apply pair_eqb_eq; [apply str_eqb_true|apply vspec_eqb_eq]).
  assert (Hdo : forall x y, dop_eqb x y = true -> x = y).
  { intros [[a1 b1] c1] [[a2 b2] c2] H. cbn in H. apply andb_prop in H as [H H3]. apply andb_prop in H as [Ha Hb].
    apply str_eqb_true in Ha. apply (list_eqb_eq _ str_eqb_true) in Hb. apply (list_eqb_eq _ Hdv) in H3. now subst. }
  assert (Hdn : forall x y, dnode_eqb x y = true -> x = y) by (apply list_eqb_eq; exact Hdo).
  assert (Hde : forall x y, dedge_eqb x y = true -> x = y).
  { intros [[[s1 t1] k1] a1] [[[s2 t2] k2] a2] H. cbn in H. apply andb_prop in H as [H H4]. apply andb_prop in H as [H H3].
    apply andb_prop in H as [Ha Hb]. apply str_eqb_true in Ha, Hb. apply (opt_eqb_eq _ Hdn) in H3. apply (list_eqb_eq _ zpair_eq) in H4. now subst. }
  apply (list_eqb_eq _ (pair_eqb_eq _ _ str_eqb_true Hdn)) in H1. apply (list_eqb_eq _ Hde) in H2. now subst.
Qed.

Lemma roundtrip_ok_false c : roundtrip_ok c = false -> ~ load_dump_statement c.
Proof.
  unfold roundtrip_ok, load_dump_statement. destruct (roundtrip c) as [c'|]; cbn [option_map]; [|discriminate].
  intros H E. injection E as E. rewrite E in H.
  assert (R : den_eqb (denote c) (denote c) = true).
  { clear. assert (Hdv : forall x, dvar_eqb x x = true) by (apply pair_eqb_refl; [apply str_eqb_refl|apply vspec_eqb_refl]).
    assert (Hdo : forall x, dop_eqb x x = true).
    { intros [[a b] v]. cbn. rewrite str_eqb_refl, (list_eqb_refl _ str_eqb_refl). cbn. now apply list_eqb_refl. }
    assert (Hdn : forall x, dnode_eqb x x = true) by (apply list_eqb_refl; exact Hdo).
    assert (Hde : forall x, dedge_eqb x x = true).
    { intros [[[s t] k] a]. cbn. rewrite !str_eqb_refl, (opt_eqb_refl _ Hdn). cbn. apply list_eqb_refl, pair_eqb_refl; [apply str_eqb_refl|apply Z.eqb_refl]. }
    unfold den_eqb. rewrite (list_eqb_refl _ (pair_eqb_refl _ _ str_eqb_refl Hdn)). cbn. now apply list_eqb_refl. }
  congruence.
Qed.

(* the shared operator with different per-node values now round-trips (one operator dict, values at the nodes) *)
Theorem load_dump_shared_operator_variants : roundtrip_ok w_rename = true /\ roundtrip_ok w_three = true.
Proof. repeat split; vm_compute; reflexivity. Qed.
(* what remains outside the guard: two DIFFERENT operator templates of one name in one circuit *)
Theorem load_dump_refuted_rename : exists c, dicts_wf c = true /\ no_rename c = false /\ no_critical_rename c = false /\ ~ load_dump_statement c.
Proof. exists w_rename2. repeat split; try (vm_compute; reflexivity). apply roundtrip_ok_false. vm_compute. reflexivity. Qed.
(* between the proved guard no_rename and the finding's guard no_critical_rename: circuits in which only node / circuit
   templates are renamed.  NOT covered by load_dump; these two computed witnesses (and the correspondence runs) are all there is *)
Theorem load_dump_between_guards : 
  (no_rename w_rename = false /\ no_critical_rename w_rename = true /\ roundtrip_ok w_rename = true) /\
  (no_rename w_three = false /\ no_critical_rename w_three = true /\ roundtrip_ok w_three = true).
Proof. repeat split; vm_compute; reflexivity. Qed.
Theorem load_dump_nonvacuous : WFy w_ok = true /\ roundtrip_ok w_ok = true /\ List.length (fst (denote w_ok)) = 4.
Proof. repeat split; vm_compute; reflexivity. Qed.


(* ---------- template sets over several files: every reference is resolved on its own ---------- *)
(* the template loaded for a node / sub-circuit key depends on the referencing file and on ITS reference only, not on the
   references next to it (CircuitTemplate.__init__ completes every path against self.path) *)
Theorem mload_keyed_pointwise {A} (f : ref -> option A) : forall l l', mload_keyed f l = Some l' ->
  Forall2 (fun kr kx => fst kr = fst kx /\ f (snd kr) = Some (snd kx)) l l'.
Proof.
  unfold mload_keyed. induction l as [|[k r] l IH]; intros l' H; cbn [mapM] in H.
  - injection H as <-. constructor.
  - cbn [fst snd] in H. destruct (f r) as [x|] eqn:Ef; cbn [obind] in H; [|discriminate].
    destruct (mapM _ l) as [xs|] eqn:Em; cbn [obind] in H; [|discriminate]. injection H as <-.
    constructor; [split; [reflexivity|exact Ef]|]. now apply IH.
Qed.
Theorem resolve_bare cur n : resolve cur (RBare n) = (cur, n).
Proof. reflexivity. Qed.

Print Assumptions load_dump.
Print Assumptions load_dump_refuted_rename.
