From Coq Require Import List ZArith QArith Qcanon Bool Arith Lia.
From PV Require Import Vectorize.
Import ListNotations.
Lemma placeholder_true : True. Proof. exact I. Qed.
