(* VectorizeProofs.v — lemmas about the model in Vectorize.v (C04).  All statements are for lists of any length
   (any number of classes, units, edges); no computation-only sweeps. *)
From Coq Require Import List ZArith QArith Qcanon Bool Arith Lia.
From PV Require Import Vectorize.
Import ListNotations.
Open Scope Qc_scope.

(* ------------------------------------------------------------------------------------------ small facts *)
Lemma Qc_eqb_eq : forall a b, Qc_eqb a b = true -> a = b.
Proof.
  intros a b H. unfold Qc_eqb in H. apply Qeq_bool_iff in H. apply Qc_is_canon. exact H.
Qed.

Lemma Qc_eqb_refl : forall a, Qc_eqb a a = true.
Proof. intros a. unfold Qc_eqb. apply Qeq_bool_iff. reflexivity. Qed.

Lemma mem_In : forall x l, mem x l = true <-> In x l.
Proof.
  induction l as [|y l IH]; cbn [mem In]; [split; [discriminate|tauto]|].
  rewrite orb_true_iff, IH, Nat.eqb_eq. split; intros [H|H]; auto.
Qed.

Lemma mem_false : forall x l, mem x l = false <-> ~ In x l.
Proof. intros. rewrite <- mem_In. destruct (mem x l); split; congruence. Qed.

Lemma nodupb_NoDup : forall l, nodupb l = true -> NoDup l.
Proof.
  induction l as [|x l IH]; cbn [nodupb]; intros H; [constructor|].
  apply andb_true_iff in H as [H1 H2]. constructor; [|auto].
  apply negb_true_iff in H1. apply mem_false. exact H1.
Qed.

Lemma NoDup_nodupb : forall l, NoDup l -> nodupb l = true.
Proof.
  induction 1 as [|x l Hn Hd IH]; cbn [nodupb]; [reflexivity|].
  rewrite IH, andb_true_r. apply negb_true_iff, mem_false. exact Hn.
Qed.

(* ------------------------------------------------------------------------------------------ 1. cache_func *)
Definition preserved (vn vn' : list vnode) : Prop :=
  forall j i, (i < length (members vn j))%nat ->
    (i < length (members vn' j))%nat /\ nth i (members vn' j) 0%nat = nth i (members vn j) 0%nat.

Lemma preserved_refl : forall vn, preserved vn vn.
Proof. intros vn j i H; auto. Qed.

Lemma preserved_trans : forall a b c, preserved a b -> preserved b c -> preserved a c.
Proof.
  intros a b c H1 H2 j i H. destruct (H1 j i H) as [H3 H4]. destruct (H2 j i H3) as [H5 H6].
  split; [exact H5|congruence].
Qed.

Lemma members_cons_S : forall v vn j, members (v :: vn) (S j) = members vn j.
Proof. reflexivity. Qed.

Lemma members_nil : forall j, members [] j = [].
Proof. intros [|j]; reflexivity. Qed.

Lemma extend_spec : forall vn key n j0 vn' j a b,
  extend vn key n j0 = (vn', (j, (a, b))) ->
  b = S a /\ (j0 <= j)%nat /\ (a < length (members vn' (j - j0)))%nat /\
  nth a (members vn' (j - j0)) 0%nat = n /\ preserved vn vn'.
Proof.
  induction vn as [|[k l] rest IH]; intros key n j0 vn' j a b H; cbn [extend] in H.
  - inversion H; subst. rewrite Nat.sub_diag. unfold members at 1 2. cbn [nth snd length].
    refine (conj _ (conj _ (conj _ (conj _ _)))); try lia; try reflexivity.
    intros j' i' Hi. rewrite members_nil in Hi. cbn in Hi. lia.
  - destruct (k =? key).
    + inversion H; subst. rewrite Nat.sub_diag. unfold members at 1 2. cbn [nth snd].
      rewrite app_length. cbn [length].
      refine (conj _ (conj _ (conj _ (conj _ _)))); try lia.
      * rewrite app_nth2 by lia. rewrite Nat.sub_diag. reflexivity.
      * intros j' i' Hi. destruct j' as [|j'].
        -- unfold members in *. cbn [nth snd] in *. rewrite app_length. split; [lia|].
           apply app_nth1. exact Hi.
        -- rewrite !members_cons_S in *. auto.
    + destruct (extend rest key n (S j0)) as [rest' r] eqn:E. inversion H; subst.
      destruct (IH _ _ _ _ _ _ _ E) as (Hb & Hj & Ha & Hn & Hp).
      replace (j - j0)%nat with (S (j - S j0)) by lia. rewrite members_cons_S.
      refine (conj _ (conj _ (conj _ (conj _ _)))); try lia; try assumption.
      intros j' i' Hi. destruct j' as [|j']; [unfold members in *; cbn [nth snd] in *; auto|].
      rewrite !members_cons_S in *. auto.
Qed.

Definition rng_default : nat * (nat * nat) := (0, (0, 0))%nat.

Lemma cache_all_spec : forall ks vn n0 vn' rs,
  cache_all vn ks n0 = (vn', rs) ->
  length rs = length ks /\ preserved vn vn' /\
  forall m, (m < length ks)%nat ->
    let r := nth m rs rng_default in
    snd (snd r) = S (fst (snd r)) /\
    (fst (snd r) < length (members vn' (fst r)))%nat /\
    nth (fst (snd r)) (members vn' (fst r)) 0%nat = (n0 + m)%nat.
Proof.
  induction ks as [|key ks IH]; intros vn n0 vn' rs H; cbn [cache_all] in H.
  - inversion H; subst. cbn [length]. refine (conj eq_refl (conj (preserved_refl _) _)). intros; lia.
  - destruct (extend vn key n0 0) as [vn1 r] eqn:E1.
    destruct (cache_all vn1 ks (S n0)) as [vn2 rs2] eqn:E2. inversion H; subst.
    destruct r as [j [a b]]. destruct (extend_spec _ _ _ _ _ _ _ _ E1) as (Hb & _ & Ha & Hn & Hp).
    rewrite Nat.sub_0_r in Ha, Hn.
    destruct (IH _ _ _ _ E2) as (Hl & Hp2 & Hm). cbn [length].
    refine (conj _ (conj _ _)).
    + lia.
    + eapply preserved_trans; eauto.
    + intros m Hlt. destruct m as [|m]; cbn [nth fst snd].
      * destruct (Hp2 j a Ha) as [Hy Hx]. refine (conj Hb (conj Hy _)). rewrite Hx, Hn. lia.
      * destruct (Hm m ltac:(lia)) as (Hx1 & Hx2 & Hx3). cbn zeta in Hx1, Hx2, Hx3.
        refine (conj Hx1 (conj Hx2 _)). rewrite Hx3. lia.
Qed.

(* every frontend node finds itself at the (vector node, index) that cache_func handed out *)
Theorem member_at_index : forall ks vn rs n, cache_all [] ks 0 = (vn, rs) -> (n < length ks)%nat ->
  (snd (idx_of rs n) < length (members vn (fst (idx_of rs n))))%nat /\
  nth (snd (idx_of rs n)) (members vn (fst (idx_of rs n))) 0%nat = n.
Proof.
  intros ks vn rs n H Hn. destruct (cache_all_spec _ _ _ _ _ H) as (_ & _ & Hm).
  destruct (Hm n Hn) as (_ & H1 & H2). unfold idx_of. cbn [fst snd]. split; [exact H1|exact H2].
Qed.

(* two frontend nodes never share (vector node, index) *)
Theorem index_map_injective : forall ks vn rs n1 n2, cache_all [] ks 0 = (vn, rs) ->
  (n1 < length ks)%nat -> (n2 < length ks)%nat -> idx_of rs n1 = idx_of rs n2 -> n1 = n2.
Proof.
  intros ks vn rs n1 n2 H H1 H2 E.
  destruct (member_at_index _ _ _ _ H H1) as [_ A]. destruct (member_at_index _ _ _ _ H H2) as [_ B].
  rewrite E in A. congruence.
Qed.

(* the returned ranges have length one: (old_len, old_len + 1) *)
Theorem ranges_unit : forall ks vn rs n, cache_all [] ks 0 = (vn, rs) -> (n < length ks)%nat ->
  snd (snd (nth n rs rng_default)) = S (fst (snd (nth n rs rng_default))).
Proof.
  intros ks vn rs n H Hn. destruct (cache_all_spec _ _ _ _ _ H) as (_ & _ & Hm). apply (Hm n Hn).
Qed.

(* ------------------------------------------------------------------------------------------ 2. _group_edges *)
Definition gtriples (g : grp) : list triple := zip3 (gw g) (gs g) (gt g).
Definition aligned (g : grp) : Prop := length (gw g) = length (gs g) /\ length (gs g) = length (gt g).
Definition etriple (ix : nat -> nat * nat) (e : edge) : triple := (ew e, snd (ix (esrc e)), snd (ix (etgt e))).
Definition find_group (key : gkey) (l : list grp) : option grp := find (fun g => gkey_eqb (gk g) key) l.
Definition content (l : list grp) (key : gkey) : list triple :=
  match find_group key l with Some g => gtriples g | None => [] end.

Lemma gkey_eqb_eq : forall a b, gkey_eqb a b = true <-> a = b.
Proof.
  intros [[a1 a2] a3] [[b1 b2] b3]. unfold gkey_eqb.
  rewrite !andb_true_iff, !Nat.eqb_eq, eqb_true_iff. split.
  - intros [[-> ->] ->]. reflexivity.
  - intros H. inversion H. auto.
Qed.

Lemma gkey_eqb_refl : forall a, gkey_eqb a a = true.
Proof. intros. apply gkey_eqb_eq. reflexivity. Qed.

Lemma zip3_snoc : forall w s t a b c, length w = length s -> length s = length t ->
  zip3 (w ++ [a]) (s ++ [b]) (t ++ [c]) = zip3 w s t ++ [(a, b, c)].
Proof.
  induction w as [|x w IH]; intros [|y s] [|z t] a b c H1 H2; cbn in *; try discriminate; [reflexivity|].
  f_equal. apply IH; lia.
Qed.

Lemma add_group_aligned : forall l key w s t, Forall aligned l -> Forall aligned (add_group l key w s t).
Proof.
  induction l as [|g l IH]; intros key w s t H; cbn [add_group].
  - constructor; [|constructor]. split; reflexivity.
  - inversion H as [|? ? Hg Hl]; subst. destruct (gkey_eqb (gk g) key).
    + constructor; [|exact Hl]. destruct Hg as [A B]. split; cbn [gw gs gt]; rewrite !app_length; cbn; lia.
    + constructor; [exact Hg|apply IH; exact Hl].
Qed.

Lemma add_group_content : forall l key w s t key', Forall aligned l ->
  content (add_group l key w s t) key' =
  if gkey_eqb key key' then content l key' ++ [(w, s, t)] else content l key'.
Proof.
  induction l as [|g l IH]; intros key w s t key' H; unfold content, find_group; cbn [add_group find].
  - cbn [gk]. destruct (gkey_eqb key key'); reflexivity.
  - inversion H as [|? ? Hg Hl]; subst.
    destruct (gkey_eqb (gk g) key) eqn:E1.
    + apply gkey_eqb_eq in E1. subst key. cbn [find gk].
      destruct (gkey_eqb (gk g) key') eqn:E2; [|reflexivity].
      unfold gtriples. cbn [gw gs gt]. destruct Hg as [A B]. apply zip3_snoc; assumption.
    + cbn [find]. destruct (gkey_eqb (gk g) key') eqn:E2.
      * apply gkey_eqb_eq in E2. subst key'. destruct (gkey_eqb key (gk g)) eqn:E3; [|reflexivity].
        apply gkey_eqb_eq in E3. subst key. rewrite gkey_eqb_refl in E1. discriminate.
      * apply (IH key w s t key' Hl).
Qed.

Lemma group_fold_content : forall ix es l key, Forall aligned l ->
  Forall aligned (fold_left (group_step ix) es l) /\
  content (fold_left (group_step ix) es l) key =
  content l key ++ map (etriple ix) (filter (fun e => gkey_eqb (ekey ix e) key) es).
Proof.
  induction es as [|e es IH]; intros l key H; cbn [fold_left filter map].
  - split; [exact H|]. rewrite app_nil_r. reflexivity.
  - assert (H' : Forall aligned (group_step ix l e)) by (apply add_group_aligned; exact H).
    destruct (IH (group_step ix l e) key H') as [A B]. split; [exact A|]. rewrite B.
    unfold group_step at 1. rewrite add_group_content by exact H.
    destruct (gkey_eqb (ekey ix e) key); cbn [map]; [|reflexivity].
    rewrite <- app_assoc. reflexivity.
Qed.

(* the three lists of every group have equal lengths, and the k-th entries of the group with a given key are
   the weight / source index / target index of the k-th edge (in edge-list order) that has this key *)
Theorem group_edges_aligned : forall ix es, Forall aligned (group_edges ix es).
Proof. intros. apply (group_fold_content ix es [] (0%nat, false, 0%nat)). constructor. Qed.

Theorem group_edges_content : forall ix es key,
  content (group_edges ix es) key = map (etriple ix) (filter (fun e => gkey_eqb (ekey ix e) key) es).
Proof. intros. apply (group_fold_content ix es [] key). constructor. Qed.

(* D46: the alignment rests on every edge carrying every grouped key.  Without the setdefault the fold keeps the
   lists aligned exactly when every edge has a weight entry; the repaired code is the raw fold after set_default. *)
Lemma add_group_raw_some : forall l key w s t, add_group_raw l key (Some w) s t = add_group l key w s t.
Proof.
  induction l as [|g l IH]; intros; cbn [add_group_raw add_group olist]; [reflexivity|].
  destruct (gkey_eqb (gk g) key); [reflexivity|]. rewrite IH. reflexivity.
Qed.

Lemma group_raw_fold : forall ix es l, (forall e, In e es -> ewo e <> None) ->
  fold_left (group_step_raw ix) es l = fold_left (group_step ix) es l.
Proof.
  induction es as [|e es IH]; intros l H; cbn [fold_left]; [reflexivity|].
  assert (E : group_step_raw ix l e = group_step ix l e).
  { unfold group_step_raw, group_step, ew. destruct (ewo e) as [w|] eqn:W.
    - apply add_group_raw_some.
    - exfalso. apply (H e); [left; reflexivity|exact W]. }
  rewrite E. apply IH. intros e' He'. apply H. right. exact He'.
Qed.

Theorem group_raw_aligned : forall ix es, (forall e, In e es -> ewo e <> None) -> Forall aligned (group_edges_raw ix es).
Proof.
  intros ix es H. unfold group_edges_raw. rewrite group_raw_fold by exact H. apply group_edges_aligned.
Qed.

Theorem group_edges_is_raw_after_setdefault : forall ix es,
  group_edges ix es = group_edges_raw ix (map set_default es).
Proof.
  intros ix es. unfold group_edges_raw. rewrite group_raw_fold.
  - unfold group_edges. generalize (@nil grp). induction es as [|e es IH]; intros l; cbn [map fold_left]; [reflexivity|].
    rewrite <- IH. f_equal.
  - intros e He. apply in_map_iff in He as (e0 & <- & _). cbn. discriminate.
Qed.

(* without the hypothesis the lists get out of step: a weighted edge followed by a weightless one in the same group *)
Lemma group_raw_unaligned_witness : exists ix es, ~ Forall aligned (group_edges_raw ix es).
Proof.
  exists (fun n => (0%nat, n)), [Edge 0 1 (Some (mkq 2 1)) false; Edge 1 1 None false].
  intros H. vm_compute in H. inversion H as [|? ? [A _] _]. cbn in A. discriminate.
Qed.

(* ------------------------------------------------------------------------------------------ 3. dot / indexed = edge sum *)
(* Spec of one contribution: sum over the list of (w, s, t) with t = u *)
Fixpoint tsum (tr : list triple) (sval : nat -> Qc) (u : nat) : Qc :=
  match tr with
  | [] => 0
  | (w, s, t) :: tr' => (if t =? u then w * sval s else 0) + tsum tr' sval u
  end.
Definition targets (tr : list triple) : list nat := map snd tr.
Definition sources (tr : list triple) : list nat := map (fun e => snd (fst e)) tr.

Lemma tsum_notin : forall tr sval u, ~ In u (targets tr) -> tsum tr sval u = 0.
Proof.
  induction tr as [|[[w s] t] tr IH]; intros sval u H; cbn [tsum]; [reflexivity|].
  cbn [targets map snd In] in H. destruct (Nat.eqb_spec t u) as [->|Hn]; [tauto|].
  rewrite IH by tauto. ring.
Qed.

Lemma build_add_entry : forall tr W0 r c,
  fold_left (fun W e => let '(w, s, t) := e in upd2 W t s (W t s + w)) tr W0 r c
  = W0 r c + tsum tr (fun s => if s =? c then 1 else 0) r.
Proof.
  induction tr as [|[[w s] t] tr IH]; intros W0 r c; cbn [fold_left tsum].
  - ring.
  - rewrite IH. unfold upd2.
    destruct (Nat.eqb_spec t r) as [->|Hn]; cbn [andb].
    + destruct (Nat.eqb_spec s c) as [->|Hc]; ring.
    + ring.
Qed.

Lemma qsum_map_ext : forall (f g : nat -> Qc) l, (forall c, In c l -> f c = g c) -> qsum (map f l) = qsum (map g l).
Proof. induction l; cbn [map qsum]; intros H; [reflexivity|]. rewrite H, IHl; auto with datatypes. Qed.
Lemma qsum_map_add : forall (f g : nat -> Qc) l, qsum (map (fun c => f c + g c) l) = qsum (map f l) + qsum (map g l).
Proof. induction l; cbn [map qsum]; [ring|]. rewrite IHl. ring. Qed.
Lemma qsum_map_zero : forall l : list nat, qsum (map (fun _ => 0) l) = 0.
Proof. induction l; cbn [map qsum]; [reflexivity|]. rewrite IHl. ring. Qed.

Lemma qsum_indicator : forall cols (g : nat -> Qc) s, NoDup cols -> In s cols ->
  qsum (map (fun c => (if s =? c then 1 else 0) * g c) cols) = g s.
Proof.
  induction cols as [|a cols IH]; intros g s Hnd Hin; [inversion Hin|].
  inversion Hnd as [|? ? Hna Hnd']; subst. cbn [map qsum].
  destruct Hin as [->|Hin].
  - rewrite Nat.eqb_refl.
    rewrite (qsum_map_ext _ (fun _ => 0)).
    + rewrite qsum_map_zero. ring.
    + intros c Hc. destruct (Nat.eqb_spec s c) as [->|Hb]; [contradiction|ring].
  - destruct (Nat.eqb_spec s a) as [->|Hsa]; [contradiction|].
    rewrite IH by assumption. ring.
Qed.

(* matrix path (weight matrix built with +=) = edge sum, parallel edges included *)
Lemma matvec_add_is_edge_sum : forall tr cols sval u,
  NoDup cols -> (forall s, In s (sources tr) -> In s cols) ->
  qsum (map (fun s => build_add tr u s * sval s) cols) = tsum tr sval u.
Proof.
  intros tr cols sval u Hnd Hcov. unfold build_add.
  rewrite (qsum_map_ext _ (fun c => tsum tr (fun s => if s =? c then 1 else 0) u * sval c)).
  2:{ intros c _. rewrite build_add_entry. ring. }
  induction tr as [|[[w s] t] tr IH]; cbn [tsum].
  - rewrite (qsum_map_ext _ (fun _ => 0)) by (intros; ring). apply qsum_map_zero.
  - rewrite (qsum_map_ext _ (fun c => (if t =? u then w * (if s =? c then 1 else 0) else 0) * sval c
                                + tsum tr (fun s0 => if s0 =? c then 1 else 0) u * sval c)) by (intros; ring).
    rewrite qsum_map_add. rewrite IH by (intros; apply Hcov; right; assumption). f_equal.
    destruct (Nat.eqb_spec t u) as [->|Hn].
    + rewrite (qsum_map_ext _ (fun c => (if s =? c then 1 else 0) * (w * sval c))) by (intros; destruct (s =? c); ring).
      apply qsum_indicator; [assumption|]. apply Hcov. left. reflexivity.
    + rewrite (qsum_map_ext _ (fun _ => 0)) by (intros; ring). apply qsum_map_zero.
Qed.

(* np.unique *)
Lemma ins_In : forall x y l, In y (ins x l) <-> y = x \/ In y l.
Proof.
  induction l as [|z l IH]; cbn [ins In]; [intuition congruence|].
  destruct (x <? z); cbn [In]; [intuition congruence|].
  destruct (Nat.eqb_spec x z) as [->|Hn]; cbn [In]; [intuition congruence|]. rewrite IH. intuition congruence.
Qed.

Lemma sort_u_In : forall y l, In y (sort_u l) <-> In y l.
Proof.
  induction l as [|x l IH]; cbn [sort_u fold_right In]; [tauto|].
  fold (sort_u l). rewrite ins_In, IH. split; intros [H|H]; auto.
Qed.

Fixpoint ssorted (l : list nat) : Prop :=
  match l with [] => True | x :: l' => (forall y, In y l' -> (x < y)%nat) /\ ssorted l' end.

Lemma ins_ssorted : forall x l, ssorted l -> ssorted (ins x l).
Proof.
  induction l as [|z l IH]; cbn [ins ssorted]; intros H.
  - split; [intros y []|exact I].
  - destruct H as [H1 H2]. destruct (Nat.ltb_spec x z) as [Hlt|Hge]; cbn [ssorted].
    + split; [|split; assumption]. intros y [<-|Hy]; [exact Hlt|]. specialize (H1 y Hy). lia.
    + destruct (Nat.eqb_spec x z) as [->|Hn]; cbn [ssorted]; [split; assumption|].
      split; [|apply IH; exact H2]. intros y Hy. apply ins_In in Hy as [->|Hy]; [lia|auto].
Qed.

Lemma sort_u_ssorted : forall l, ssorted (sort_u l).
Proof. induction l as [|x l IH]; cbn [sort_u fold_right]; [exact I|]. apply ins_ssorted. exact IH. Qed.

Lemma ssorted_NoDup : forall l, ssorted l -> NoDup l.
Proof.
  induction l as [|x l IH]; cbn [ssorted]; intros H; constructor.
  - intros Hin. destruct H as [H _]. specialize (H x Hin). lia.
  - apply IH. apply H.
Qed.

Lemma sort_u_NoDup : forall l, NoDup (sort_u l).
Proof. intros. apply ssorted_NoDup, sort_u_ssorted. Qed.

Lemma lookup_map : forall (F : nat -> Qc) l u,
  lookup (map (fun t => (t, F t)) l) u = if mem u l then Some (F u) else None.
Proof.
  induction l as [|t l IH]; intros u; cbn [map lookup mem]; [reflexivity|].
  rewrite (Nat.eqb_sym u t). destruct (Nat.eqb_spec t u) as [->|Hn]; cbn [orb]; [reflexivity|apply IH].
Qed.

Lemma mem_sort_u : forall u l, mem u (sort_u l) = mem u l.
Proof.
  intros. destruct (mem u l) eqn:E.
  - apply mem_In. apply sort_u_In. apply mem_In. exact E.
  - apply mem_false. rewrite sort_u_In. apply mem_false. exact E.
Qed.

(* dot branch: ANY list of edges (parallel edges, repeated targets, repeated sources) *)
Theorem dot_is_edge_sum : forall tr sval u,
  lookup (contrib_dot tr sval) u = if mem u (targets tr) then Some (tsum tr sval u) else None.
Proof.
  intros. unfold contrib_dot. rewrite lookup_map. fold (targets tr). fold (sources tr). rewrite mem_sort_u.
  destruct (mem u (targets tr)); [|reflexivity]. f_equal.
  apply matvec_add_is_edge_sum; [apply sort_u_NoDup|]. intros s Hs. apply sort_u_In. exact Hs.
Qed.

(* indexed branch: when no target index is repeated — which is exactly what the branch condition ensures *)
Lemma idx_fold : forall tr sval u acc, NoDup (targets tr) ->
  lookup (fold_left (fun a e => let '(w, s, t) := e in (t, sval s * w) :: a) tr acc) u =
  if mem u (targets tr) then Some (tsum tr sval u) else lookup acc u.
Proof.
  induction tr as [|[[w s] t] tr IH]; intros sval u acc H; cbn [fold_left targets map mem tsum snd]; [reflexivity|].
  inversion H as [|? ? Hn Hd]; subst. fold (targets tr) in *. rewrite IH by exact Hd.
  rewrite (Nat.eqb_sym u t). destruct (Nat.eqb_spec t u) as [->|Hne]; cbn [orb].
  - assert (Hm : mem u (targets tr) = false) by (apply mem_false; exact Hn). rewrite Hm.
    cbn [lookup]. rewrite Nat.eqb_refl. rewrite (tsum_notin tr sval u Hn). f_equal. ring.
  - destruct (mem u (targets tr)).
    + f_equal. ring.
    + cbn [lookup]. destruct (Nat.eqb_spec t u); [contradiction|reflexivity].
Qed.

Theorem idx_is_edge_sum : forall tr sval u, NoDup (targets tr) ->
  lookup (contrib_idx tr sval) u = if mem u (targets tr) then Some (tsum tr sval u) else None.
Proof.
  intros. unfold contrib_idx. rewrite idx_fold by assumption. destruct (mem u (targets tr)); reflexivity.
Qed.

(* ... and without that condition the indexed form is NOT the edge sum (what the seeded bug "indexed branch with
   duplicates" would compute): two edges into one unit, the later assignment overwrites the earlier *)
Lemma idx_with_duplicates_refuted : exists tr sval u,
  lookup (contrib_idx tr sval) u <> Some (tsum tr sval u) /\ lookup (contrib_dot tr sval) u = Some (tsum tr sval u).
Proof.
  exists [(mkq 2 1, 0%nat, 0%nat); (mkq 3 1, 1%nat, 0%nat)], (fun _ => mkq 1 1), 0%nat.
  split; [|rewrite dot_is_edge_sum; reflexivity].
  intros H. apply (f_equal (fun o => match o with Some v => Qc_eqb v (mkq 5 1) | None => false end)) in H.
  vm_compute in H. discriminate.
Qed.

(* 4. the branch choice (matrix_sparseness threshold) is semantics-preserving *)
Definition aligned_m (m : mrg) : Prop := length (mw m) = length (ms m) /\ length (ms m) = length (mt m).
Definition mtriples (m : mrg) : list triple := zip3 (mw m) (ms m) (mt m).

Lemma zip3_targets : forall w s t, length w = length s -> length s = length t -> targets (zip3 w s t) = t.
Proof.
  induction w as [|a w IH]; intros [|b s] [|c t] H1 H2; cbn in *; try discriminate; [reflexivity|].
  f_equal. apply IH; lia.
Qed.

Theorem contrib_is_edge_sum : forall f32 tsize ssize m sval a u, aligned_m m ->
  contrib f32 tsize ssize m sval = Some a ->
  lookup a u = if mem u (mt m) then Some (tsum (mtriples m) sval u) else None.
Proof.
  intros f32 tsize ssize m sval a u [A B] H. unfold contrib in H.
  assert (T : targets (mtriples m) = mt m) by (apply zip3_targets; assumption).
  destruct (dot_edge tsize ssize (mt m)) eqn:D.
  - inversion H; subst. rewrite dot_is_edge_sum. fold (mtriples m). rewrite T. reflexivity.
  - destruct (negb f32 && (ssize =? 1) && (1 <? length (mt m))); [discriminate|]. inversion H; subst.
    unfold dot_edge in D. apply orb_false_iff in D as [D _]. apply negb_false_iff in D.
    fold (mtriples m). rewrite idx_is_edge_sum; rewrite T; [reflexivity|]. apply nodupb_NoDup. exact D.
Qed.

(* the indexed branch is taken only when no target index is repeated *)
Theorem indexed_branch_condition : forall tsize ssize ti, dot_edge tsize ssize ti = false -> NoDup ti.
Proof.
  intros tsize ssize ti D. unfold dot_edge in D. apply orb_false_iff in D as [D _].
  apply negb_false_iff in D. apply nodupb_NoDup. exact D.
Qed.

(* ------------------------------------------------------------------------------------------ 5. several sources, default *)
Definition hits (u : nat) (m : mrg) : bool := mem u (mt m).

Fixpoint msum (ml : list mrg) (sval : mrg -> nat -> Qc) (u : nat) : Qc :=
  match ml with [] => 0 | m :: ml' => tsum (mtriples m) (sval m) u + msum ml' sval u end.

Lemma all_some_cons : forall {A} (o : option A) l r, all_some (o :: l) = Some r ->
  exists a r', o = Some a /\ all_some l = Some r' /\ r = a :: r'.
Proof.
  intros A o l r H. cbn [all_some] in H. destruct o as [a|]; [|discriminate].
  destruct (all_some l) as [r'|]; [|discriminate]. inversion H. eauto.
Qed.

Lemma zero_buffer_sum : forall f32 tsize ssize sval ml cs u, Forall aligned_m ml ->
  all_some (map (fun m => contrib f32 tsize (ssize m) m (sval m)) ml) = Some cs ->
  buffers_sum cs u = msum ml sval u.
Proof.
  unfold buffers_sum. induction ml as [|m ml IH]; intros cs u HA H.
  - cbn in H. inversion H. reflexivity.
  - cbn [map] in H. apply all_some_cons in H as (a & r' & H1 & H2 & ->).
    inversion HA as [|? ? Hm Hml]; subst. cbn [map qsum msum].
    rewrite (contrib_is_edge_sum _ _ _ _ _ _ u Hm H1). rewrite (IH _ _ Hml H2). f_equal.
    destruct (mem u (mt m)) eqn:E; [reflexivity|].
    symmetry. apply tsum_notin. unfold mtriples. rewrite zip3_targets by apply Hm. apply mem_false. exact E.
Qed.

(* the units covered by some target_idx list are the units some merged edge list reaches *)
Lemma assigned_hits : forall f32 tsize ssize sval ml cs u, Forall aligned_m ml ->
  all_some (map (fun m => contrib f32 tsize (ssize m) m (sval m)) ml) = Some cs ->
  existsb (assigned u) cs = existsb (hits u) ml.
Proof.
  induction ml as [|m ml IH]; intros cs u HA H.
  - cbn in H. inversion H. reflexivity.
  - cbn [map] in H. apply all_some_cons in H as (a & r' & H1 & H2 & ->).
    inversion HA as [|? ? Hm Hml]; subst. cbn [existsb]. rewrite (IH _ _ Hml H2). f_equal.
    unfold assigned, hits. rewrite (contrib_is_edge_sum _ _ _ _ _ _ u Hm H1). destruct (mem u (mt m)); reflexivity.
Qed.

Lemma msum_nohit : forall ml sval u, Forall aligned_m ml -> existsb (hits u) ml = false -> msum ml sval u = 0.
Proof.
  induction ml as [|m ml IH]; intros sval u HA H; cbn [msum]; [reflexivity|].
  cbn [existsb] in H. apply orb_false_iff in H as [H1 H2]. inversion HA as [|? ? Hm Hml]; subst.
  rewrite IH by assumption. rewrite tsum_notin; [ring|].
  unfold mtriples. rewrite zip3_targets by apply Hm. apply mem_false. exact H1.
Qed.

Lemma two_or_more : forall f32 tsize ssize sval (m1 m2 : mrg) ml cs,
  all_some (map (fun m => contrib f32 tsize (ssize m) m (sval m)) (m1 :: m2 :: ml)) = Some cs ->
  exists a b cs', cs = a :: b :: cs'.
Proof.
  intros. cbn [map] in H. apply all_some_cons in H as (a & r' & _ & H2 & ->).
  apply all_some_cons in H2 as (b & r'' & _ & _ & ->). eauto.
Qed.

(* Input of target unit u of a vector node, from the merged per-source lists `ml` (code as it is now, D57 included):
   if some edge reaches u: the sum over ALL merged edge lists of w * source value (dot/indexed choice, `+` of buffers);
   otherwise the declared default — for any number of source vector nodes, no guard. *)
Theorem input_is_edge_sum : forall f32 tsize ssize sval ml cs rdef u, Forall aligned_m ml ->
  all_some (map (fun m => contrib f32 tsize (ssize m) m (sval m)) ml) = Some cs ->
  input_of cs rdef u = if existsb (hits u) ml then msum ml sval u else rdef.
Proof.
  intros f32 tsize ssize sval ml cs rdef u HA H.
  destruct ml as [|m1 [|m2 ml]].
  - cbn in H. inversion H. reflexivity.
  - cbn [map] in H. apply all_some_cons in H as (a & r' & H1 & H2 & ->). cbn in H2. inversion H2; subst.
    inversion HA as [|? ? Hm _]; subst. cbn [input_of existsb msum hits].
    rewrite (contrib_is_edge_sum _ _ _ _ _ _ u Hm H1). rewrite orb_false_r.
    unfold hits. destruct (mem u (mt m1)); [ring|reflexivity].
  - destruct (two_or_more _ _ _ _ _ _ _ _ H) as (a & b & cs' & ->). cbn [input_of].
    rewrite (zero_buffer_sum _ _ _ _ _ _ u HA H). rewrite (assigned_hits _ _ _ _ _ _ u HA H).
    destruct (existsb (hits u) (m1 :: m2 :: ml)) eqn:E; [ring|].
    rewrite msum_nohit by assumption. ring.
Qed.

(* ---- before fix D57 (D14): kept as a record of what the repair changed ---- *)
Definition default_survives_at (ml : list mrg) (rdef : Qc) (u : nat) : bool :=
  (length ml <? 2)%nat || Qc_eqb rdef 0 || existsb (hits u) ml.

Theorem input_partial_before_D57 : forall f32 tsize ssize sval ml cs rdef u, Forall aligned_m ml ->
  all_some (map (fun m => contrib f32 tsize (ssize m) m (sval m)) ml) = Some cs ->
  default_survives_at ml rdef u = true ->
  input_of_before_D57 cs rdef u = if existsb (hits u) ml then msum ml sval u else rdef.
Proof.
  intros f32 tsize ssize sval ml cs rdef u HA H G.
  destruct ml as [|m1 [|m2 ml]].
  - cbn in H. inversion H. reflexivity.
  - cbn [map] in H. apply all_some_cons in H as (a & r' & H1 & H2 & ->). cbn in H2. inversion H2; subst.
    inversion HA as [|? ? Hm _]; subst. cbn [input_of_before_D57 existsb msum hits].
    rewrite (contrib_is_edge_sum _ _ _ _ _ _ u Hm H1). rewrite orb_false_r.
    unfold hits. destruct (mem u (mt m1)); [ring|reflexivity].
  - destruct (two_or_more _ _ _ _ _ _ _ _ H) as (a & b & cs' & ->). cbn [input_of_before_D57].
    rewrite (zero_buffer_sum _ _ _ _ _ _ u HA H).
    destruct (existsb (hits u) (m1 :: m2 :: ml)) eqn:E; [reflexivity|].
    rewrite msum_nohit by assumption.
    unfold default_survives_at in G. rewrite E, orb_false_r in G. cbn [length Nat.ltb Nat.leb orb] in G.
    apply Qc_eqb_eq in G. symmetry. exact G.
Qed.

Theorem unconnected_unit_gets_zero_before_D57 : forall f32 tsize ssize sval ml cs rdef u, Forall aligned_m ml ->
  all_some (map (fun m => contrib f32 tsize (ssize m) m (sval m)) ml) = Some cs ->
  (2 <= length ml)%nat -> existsb (hits u) ml = false -> input_of_before_D57 cs rdef u = 0.
Proof.
  intros f32 tsize ssize sval ml cs rdef u HA H L E.
  destruct ml as [|m1 [|m2 ml]]; [cbn in L; lia|cbn in L; lia|].
  destruct (two_or_more _ _ _ _ _ _ _ _ H) as (a & b & cs' & ->). cbn [input_of_before_D57].
  rewrite (zero_buffer_sum _ _ _ _ _ _ u HA H). apply msum_nohit; assumption.
Qed.

(* ------------------------------------------------------------------------------------------ 6. _finalize_var_def *)
Lemma all_eqb_nth : forall a l i, all_eqb a l = true -> (i < length l)%nat -> nth i l 0 = a.
Proof.
  induction l as [|b l IH]; intros i H Hi; cbn in Hi; [lia|].
  cbn [all_eqb forallb] in H. apply andb_true_iff in H as [H1 H2]. apply Qc_eqb_eq in H1. subst b.
  destruct i; [reflexivity|]. apply IH; [exact H2|lia].
Qed.

(* collapsing a constant vector with one distinct value to a scalar preserves every element under broadcasting *)
Theorem finalize_preserves : forall l i, (i < length l)%nat -> bget (finalize l) i = nth i l 0.
Proof.
  intros [|a l] i Hi; [cbn in Hi; lia|]. unfold finalize.
  destruct (all_eqb a l) eqn:E; [|reflexivity]. cbn [bget].
  destruct i; [reflexivity|]. cbn [nth]. symmetry. apply all_eqb_nth; [exact E|cbn in Hi; lia].
Qed.

(* collapsing a vector whose values are not all equal does not (seeded bug "collapse") *)
Lemma collapse_unequal_refuted : exists l i, (i < length l)%nat /\ bget (CScalar (hd 0 l)) i <> nth i l 0.
Proof.
  exists [mkq 1 2; mkq 2 1], 1%nat. split; [cbn; lia|]. cbn [bget hd nth]. intros H.
  apply (f_equal (fun v => Qc_eqb v (mkq 2 1))) in H. vm_compute in H. discriminate.
Qed.

(* ------------------------------------------------------------------------------------------ 8. whole-circuit witnesses *)
Lemma qlist_eqb_refl : forall l, qlist_eqb l l = true.
Proof. induction l as [|a l IH]; cbn [qlist_eqb]; [reflexivity|]. rewrite Qc_eqb_refl, IH. reflexivity. Qed.

Lemma qlist_eqb_eq : forall a b, qlist_eqb a b = true -> a = b.
Proof.
  induction a as [|x a IH]; intros [|y b] H; cbn [qlist_eqb] in H; try discriminate; [reflexivity|].
  apply andb_true_iff in H as [H1 H2]. apply Qc_eqb_eq in H1. rewrite (IH b H2), H1. reflexivity.
Qed.

Lemma oq_eqb_eq : forall a b, oq_eqb a b = true -> a = b.
Proof. intros [a|] [b|] H; cbn in H; try discriminate; [f_equal; apply qlist_eqb_eq; exact H|reflexivity]. Qed.

Lemma oq_eqb_neq : forall a b, oq_eqb a b = false -> a <> b.
Proof.
  intros a b H E. subst b. destruct a as [a|]; cbn in H; [rewrite qlist_eqb_refl in H|]; discriminate.
Qed.

Ltac witness :=
  repeat (match goal with |- _ /\ _ => split end);
  first [ vm_compute; reflexivity
        | apply oq_eqb_eq; vm_compute; reflexivity
        | apply oq_eqb_neq; vm_compute; reflexivity
        | apply Qc_eqb_eq; vm_compute; reflexivity
        | apply qlist_eqb_eq; vm_compute; reflexivity ].

Definition q (n : Z) : Qc := mkq n 1.
(* x' = r - x  (default of r: d) *)
Definition clsA (d : Qc) : cls := Cls [Mono (q 1) 0 0 1; Mono (q (-1)) 1 0 0] None d.
(* x' = 2*k*r - x *)
Definition clsB : cls := Cls [Mono (q 2) 0 1 1; Mono (q (-1)) 1 0 0] None 0.
(* x' = r - 2*x *)
Definition clsC : cls := Cls [Mono (q 1) 0 0 1; Mono (q (-2)) 1 0 0] None 0.
(* m = 2*x + k ; x' = r - x + k *)
Definition clsG : cls := Cls [Mono (q 1) 0 0 1; Mono (q (-1)) 1 0 0; Mono (q 1) 0 1 0] (Some [Mono (q 2) 1 0 0; Mono (q 1) 0 1 0]) 0.

(* D14 (corpus/C04/D14_default_lost.json): three merged targets with default 7, two source classes, node 2 unconnected *)
Definition w_d14 : circuit :=
  Circ [clsA (q 7); clsB; clsC]
       [Node 0 (q 1); Node 0 (q 1); Node 0 (q 1); Node 1 (mkq 1 2); Node 2 (q 1)]
       [Edge 3 0 (Some (q 2)) false; Edge 4 1 (Some (q 3)) false].
Definition st_d14 : list Qc := [q 1; q 2; q 3; mkq 1 2; q (-1)].

Lemma refuted_default_before_D57 :
  wf w_d14 = true /\ no_constant_rhs w_d14 = true /\ single_source_var w_d14 = true /\ no_scalar_fanout w_d14 = true /\
  default_survives w_d14 = false /\
  impl_before_D57 false w_d14 st_d14 = Some (spec w_d14 st_d14) /\
  impl_before_D57 true w_d14 st_d14 <> Some (spec w_d14 st_d14) /\
  (* the unconnected node 2: 7 - 3 = 4 by the edge list, 0 - 3 = -3 vectorized before D57 *)
  nth 2 (spec w_d14 st_d14) 0 = q 4 /\ impl_before_D57 true w_d14 st_d14 = Some [q 0; q (-5); q (-3); mkq (-1) 2; q 2] /\
  (* the repaired mechanism agrees with the edge list on the same input *)
  guard w_d14 = true /\ impl true w_d14 st_d14 = Some (spec w_d14 st_d14).
Proof. witness. Qed.

(* D3 (corpus/C04/D03_two_source_vars.json): n0/x and n1/m of one class into n2/r *)
Definition w_d03 : circuit :=
  Circ [clsG; clsC] [Node 0 (q 1); Node 0 (q 3); Node 1 (q 1)] [Edge 0 2 (Some (q 1)) false; Edge 1 2 (Some (q 1)) true].
Definition st_d03 : list Qc := [q 1; q 2; q 5].

Lemma refuted_source_var_before_D59 :
  wf w_d03 = true /\ no_constant_rhs w_d03 = true /\ no_scalar_fanout w_d03 = true /\
  single_source_var w_d03 = false /\
  impl_before_D59 false w_d03 st_d03 = Some (spec w_d03 st_d03) /\ impl_before_D59 true w_d03 st_d03 <> Some (spec w_d03 st_d03) /\
  (* the repaired merge key agrees with the edge list on the same input *)
  guard w_d03 = true /\ impl true w_d03 st_d03 = Some (spec w_d03 st_d03).
Proof. witness. Qed.

(* D21 (corpus/C04/D21_constant_rhs.json): x' = -1 - x + x on two nodes: Err when vectorized, fine otherwise *)
Definition w_d21 : circuit :=
  Circ [Cls [Mono (q (-1)) 0 0 0; Mono (q (-1)) 1 0 0; Mono (q 1) 1 0 0] None 0] [Node 0 (q 1); Node 0 (q 2)] [].
Lemma err_constant_rhs :
  wf w_d21 = true /\ no_constant_rhs w_d21 = false /\ impl_loud true w_d21 [q 1; q 2] = None /\
  impl_loud false w_d21 [q 1; q 2] = Some (spec w_d21 [q 1; q 2]) /\
  (* with the proposed repair (fixed_D21) the vectorized compilation agrees with the edge list *)
  impl_gen input_of true false true true w_d21 [q 1; q 2] = Some (spec w_d21 [q 1; q 2]).
Proof. witness. Qed.

(* D32 (corpus/C04/D32_scalar_fanout.json): one node of a single-unit class to 10 nodes of one class *)
Definition w_d32 : circuit :=
  Circ [clsA 0; clsB] (Node 1 (mkq 1 2) :: repeat (Node 0 (q 1)) 10)
       (map (fun i => Edge 0 (S i) (Some (q (Z.of_nat (S i)))) false) (seq 0 10)).
Definition st_d32 : list Qc := map (fun i => q (Z.of_nat i)) (seq 0 11).
Lemma err_scalar_fanout :
  wf w_d32 = true /\ no_scalar_fanout w_d32 = false /\ impl_loud true w_d32 st_d32 = None /\
  impl_loud false w_d32 st_d32 = Some (spec w_d32 st_d32) /\
  impl_gen input_of true true false true w_d32 st_d32 = Some (spec w_d32 st_d32).
Proof. witness. Qed.

(* the full-strength statement and its refutation *)
Definition full_statement : Prop := forall c st, wf c = true -> length st = length (cnodes c) ->
  impl true c st = Some (spec c st) /\ impl false c st = Some (spec c st).

Lemma full_statement_refuted : fixed_D21 = false -> ~ full_statement.
Proof.
  intros Hf F. destruct (F w_d21 [q 1; q 2]) as [H _]; [vm_compute; reflexivity|reflexivity|].
  unfold impl in H. rewrite Hf in H. vm_compute in H. discriminate.
Qed.

(* the end-to-end statement under the guards.  Proved below (section 11) up to the two loud classes: `impl_sound`
   (whenever Impl does not raise it equals Spec, under wf alone since fix D59) and `guarded_from_no_err`. *)
Definition guarded_statement : Prop := forall c st, wf c = true -> guard c = true -> length st = length (cnodes c) ->
  impl true c st = Some (spec c st) /\ impl false c st = Some (spec c st).

(* non-vacuity: a circuit inside all guards with two classes, merged units, fan-in from two classes, parallel edges,
   a self-connection, an algebraic source and edges without a weight entry (one after a weighted edge of its group); Impl (both modes) = Spec *)
Definition w_ok : circuit :=
  Circ [clsA 0; clsG]
       [Node 0 (q 1); Node 1 (mkq 1 2); Node 0 (q 2); Node 1 (q 3); Node 0 (mkq 3 2)]
       [Edge 1 0 (Some (q 2)) true; Edge 3 0 (Some (mkq 1 2)) true; Edge 1 0 None true; Edge 0 2 (Some (q (-1))) false; Edge 2 2 (Some (q 3)) false;
        Edge 4 1 (Some (q 1)) false; Edge 3 3 (Some (q 2)) true; Edge 2 4 (Some (mkq 1 4)) false; Edge 1 4 (Some (q 5)) true; Edge 0 3 None false].
Definition st_ok : list Qc := [q 1; mkq (-1) 2; q 2; mkq 3 4; q (-3)].
Lemma nonvacuous :
  wf w_ok = true /\ guard w_ok = true /\
  impl true w_ok st_ok = Some (spec w_ok st_ok) /\ impl false w_ok st_ok = Some (spec w_ok st_ok) /\
  spec w_ok st_ok = [mkq (-1) 4; q (-2); q 3; mkq 49 4; q 1].
Proof. witness. Qed.


(* ------------------------------------------------------------------------------------------ 9. composition: sums over a commutative monoid *)
Section Monoid.
  Variable M : Type.
  Variable op : M -> M -> M.
  Variable e0 : M.
  Hypothesis op_assoc : forall a b c, op a (op b c) = op (op a b) c.
  Hypothesis op_comm : forall a b, op a b = op b a.
  Hypothesis op_e_l : forall a, op e0 a = a.

  Fixpoint gsum {A} (f : A -> M) (l : list A) : M := match l with [] => e0 | x :: l' => op (f x) (gsum f l') end.

  Lemma op_e_r : forall a, op a e0 = a.
  Proof. intros. rewrite op_comm. apply op_e_l. Qed.

  Lemma gsum_app : forall {A} (f : A -> M) l1 l2, gsum f (l1 ++ l2) = op (gsum f l1) (gsum f l2).
  Proof. induction l1; intros; cbn [app gsum]; [rewrite op_e_l; reflexivity|]. rewrite IHl1, op_assoc. reflexivity. Qed.

  Lemma gsum_ext : forall {A} (f g : A -> M) l, (forall x, In x l -> f x = g x) -> gsum f l = gsum g l.
  Proof. induction l; intros H; cbn [gsum]; [reflexivity|]. rewrite H, IHl; auto with datatypes. Qed.

  Lemma gsum_filter : forall {A} (f : A -> M) (p : A -> bool) l,
    gsum f (filter p l) = gsum (fun x => if p x then f x else e0) l.
  Proof.
    induction l; cbn [filter gsum]; [reflexivity|]. destruct (p a); cbn [gsum]; rewrite IHl; [reflexivity|].
    rewrite op_e_l. reflexivity.
  Qed.

  Lemma gsum_if : forall {A} (b : bool) (f : A -> M) l,
    gsum (fun x => if b then f x else e0) l = if b then gsum f l else e0.
  Proof.
    intros. destruct b; [reflexivity|]. induction l; cbn [gsum]; [reflexivity|]. rewrite IHl. apply op_e_l.
  Qed.

  Lemma op_swap : forall a b c, op (op a b) c = op (op a c) b.
  Proof. intros. rewrite <- !op_assoc. f_equal. apply op_comm. Qed.

  (* sum over all groups of the sum over their (w, sidx, tidx) entries *)
  Definition gG (phi : gkey -> triple -> M) (l : list grp) : M := gsum (fun g => gsum (phi (gk g)) (gtriples g)) l.

  Lemma gG_add_group : forall phi l key w s t, Forall aligned l ->
    gG phi (add_group l key w s t) = op (gG phi l) (phi key (w, s, t)).
  Proof.
    unfold gG. induction l as [|g l IH]; intros key w s t H; cbn [add_group gsum].
    - unfold gtriples. cbn [gk gw gs gt zip3 gsum]. rewrite op_e_l, !op_e_r. reflexivity.
    - inversion H as [|? ? Hg Hl]; subst. destruct (gkey_eqb (gk g) key) eqn:E.
      + apply gkey_eqb_eq in E. subst key. cbn [gsum gk]. unfold gtriples at 1. cbn [gw gs gt].
        destruct Hg as [A B]. rewrite zip3_snoc by assumption. fold (gtriples g).
        rewrite gsum_app. cbn [gsum]. rewrite op_e_r. apply op_swap.
      + cbn [gsum]. rewrite IH by exact Hl. apply op_assoc.
  Qed.

  Lemma gG_fold : forall phi ix es l, Forall aligned l ->
    gG phi (fold_left (group_step ix) es l) = op (gG phi l) (gsum (fun e => phi (ekey ix e) (etriple ix e)) es).
  Proof.
    induction es as [|e es IH]; intros l H; cbn [fold_left gsum]; [rewrite op_e_r; reflexivity|].
    rewrite IH by (apply add_group_aligned; exact H). unfold group_step at 1.
    rewrite gG_add_group by exact H. rewrite <- op_assoc. reflexivity.
  Qed.

  Lemma gG_group_edges : forall phi ix es,
    gG phi (group_edges ix es) = gsum (fun e => phi (ekey ix e) (etriple ix e)) es.
  Proof. intros. unfold group_edges. rewrite gG_fold by constructor. cbn [gG gsum]. apply op_e_l. Qed.

  (* the same for the merged per-source lists *)
  Definition gM (psi : nat -> bool -> triple -> M) (l : list mrg) : M :=
    gsum (fun m => gsum (psi (msrc m) (msv m)) (mtriples m)) l.

  Lemma zip3_app : forall w1 s1 t1 w2 s2 t2, length w1 = length s1 -> length s1 = length t1 ->
    zip3 (w1 ++ w2) (s1 ++ s2) (t1 ++ t2) = zip3 w1 s1 t1 ++ zip3 w2 s2 t2.
  Proof.
    induction w1 as [|a w1 IH]; intros [|b s1] [|c t1] w2 s2 t2 H1 H2; cbn in *; try discriminate; [reflexivity|].
    f_equal. apply IH; lia.
  Qed.

  Lemma gM_add_merge : forall psi l g, Forall aligned_m l ->
    gM psi (add_merge true l g) = op (gM psi l) (gsum (psi (gsrc g) (gsv g)) (gtriples g)).
  Proof.
    unfold gM. induction l as [|m l IH]; intros g H; cbn [add_merge gsum].
    - unfold mtriples. cbn [msrc msv mw ms mt]. fold (gtriples g). rewrite op_e_l, op_e_r. reflexivity.
    - inversion H as [|? ? Hm Hl]; subst. destruct (same_input true m g) eqn:S.
      + unfold same_input in S. cbn [negb orb] in S. apply andb_true_iff in S as [S1 S2].
        apply Nat.eqb_eq in S1. apply eqb_prop in S2.
        cbn [gsum msrc msv]. unfold mtriples at 1. cbn [mw ms mt]. destruct Hm as [A B].
        rewrite zip3_app by assumption. fold (mtriples m). fold (gtriples g). rewrite gsum_app. rewrite S1, S2. apply op_swap.
      + cbn [gsum]. rewrite IH by exact Hl. apply op_assoc.
  Qed.

  Lemma add_merge_aligned : forall bv l g, Forall aligned_m l -> aligned g -> Forall aligned_m (add_merge bv l g).
  Proof.
    induction l as [|m l IH]; intros g H Hg; cbn [add_merge].
    - constructor; [|constructor]. exact Hg.
    - inversion H as [|? ? Hm Hl]; subst. destruct (same_input bv m g).
      + constructor; [|exact Hl]. destruct Hm as [A B], Hg as [C D]. split; cbn [mw ms mt]; rewrite !app_length; lia.
      + constructor; [exact Hm|apply IH; assumption].
  Qed.

  Lemma gM_fold : forall psi L l, Forall aligned_m l -> Forall aligned L ->
    Forall aligned_m (fold_left (add_merge true) L l) /\
    gM psi (fold_left (add_merge true) L l) = op (gM psi l) (gsum (fun g => gsum (psi (gsrc g) (gsv g)) (gtriples g)) L).
  Proof.
    induction L as [|g L IH]; intros l H HL; cbn [fold_left gsum]; [split; [exact H|rewrite op_e_r; reflexivity]|].
    inversion HL as [|? ? Hg HL']; subst.
    destruct (IH (add_merge true l g) (add_merge_aligned true l g H Hg) HL') as [A B]. split; [exact A|].
    rewrite B, gM_add_merge by exact H. rewrite <- op_assoc. reflexivity.
  Qed.
End Monoid.

Arguments gsum {M} op e0 {A} f l.

(* ------------------------------------------------------------------------------------------ 10. facts needed to compose *)
(* cache_func: the vector node a frontend node lands in carries the node's hash key *)
Definition vkey (vn : list vnode) (j : nat) : nat := fst (nth j vn (0%nat, [])).

Lemma extend_key : forall vn key n j0 vn' j a b,
  extend vn key n j0 = (vn', (j, (a, b))) ->
  (j - j0 < length vn')%nat /\ vkey vn' (j - j0) = key /\ (j0 <= j)%nat /\
  (length vn <= length vn')%nat /\ (forall j', (j' < length vn)%nat -> vkey vn' j' = vkey vn j').
Proof.
  induction vn as [|[k l] rest IH]; intros key n j0 vn' j a b H; cbn [extend] in H.
  - inversion H; subst. rewrite Nat.sub_diag. unfold vkey. cbn [length nth fst].
    refine (conj _ (conj eq_refl (conj _ (conj _ _)))); try lia.
  - destruct (Nat.eqb_spec k key) as [E|E].
    + inversion H; subst. rewrite Nat.sub_diag. cbn [length]. unfold vkey. cbn [nth fst].
      refine (conj _ (conj eq_refl (conj _ (conj _ _)))); try lia.
      intros [|j'] _; reflexivity.
    + destruct (extend rest key n (S j0)) as [rest' r] eqn:E2. inversion H; subst.
      destruct (IH _ _ _ _ _ _ _ E2) as (A & B & C & D & F).
      replace (j - j0)%nat with (S (j - S j0)) by lia. cbn [length]. unfold vkey in *. cbn [nth].
      refine (conj _ (conj B (conj _ (conj _ _)))); try lia.
      intros [|j'] Hj; [reflexivity|]. cbn [nth]. apply F. cbn in Hj. lia.
Qed.

Lemma cache_all_key : forall ks vn n0 vn' rs, cache_all vn ks n0 = (vn', rs) ->
  (length vn <= length vn')%nat /\ (forall j', (j' < length vn)%nat -> vkey vn' j' = vkey vn j') /\
  forall m, (m < length ks)%nat -> vkey vn' (fst (nth m rs rng_default)) = nth m ks 0%nat.
Proof.
  induction ks as [|key ks IH]; intros vn n0 vn' rs H; cbn [cache_all] in H.
  - inversion H; subst. repeat split; auto. intros; cbn in *; lia.
  - destruct (extend vn key n0 0) as [vn1 r] eqn:E1.
    destruct (cache_all vn1 ks (S n0)) as [vn2 rs2] eqn:E2. inversion H; subst.
    destruct r as [j [a b]]. destruct (extend_key _ _ _ _ _ _ _ _ E1) as (A & B & _ & D & F).
    rewrite Nat.sub_0_r in A, B. destruct (IH _ _ _ _ E2) as (D2 & F2 & G2).
    refine (conj _ (conj _ _)).
    + lia.
    + intros j' Hj. rewrite F2 by lia. apply F. exact Hj.
    + intros [|m] Hm; cbn [nth fst].
      * rewrite F2 by exact A. exact B.
      * apply G2. cbn in Hm. lia.
Qed.

Lemma same_vector_same_key : forall ks vn rs n1 n2, cache_all [] ks 0 = (vn, rs) ->
  (n1 < length ks)%nat -> (n2 < length ks)%nat -> fst (idx_of rs n1) = fst (idx_of rs n2) ->
  nth n1 ks 0%nat = nth n2 ks 0%nat.
Proof.
  intros ks vn rs n1 n2 H H1 H2 E. destruct (cache_all_key _ _ _ _ _ H) as (_ & _ & G).
  rewrite <- (G n1 H1), <- (G n2 H2). unfold idx_of in E. cbn [fst] in E. fold rng_default in E. rewrite E. reflexivity.
Qed.

Lemma same_vector_same_class : forall vec c vn rs n1 n2, cache_all [] (keys vec c) 0 = (vn, rs) ->
  (n1 < length (cnodes c))%nat -> (n2 < length (cnodes c))%nat -> fst (idx_of rs n1) = fst (idx_of rs n2) ->
  cls_of c n1 = cls_of c n2.
Proof.
  intros vec c vn rs n1 n2 H H1 H2 E.
  assert (L : length (keys vec c) = length (cnodes c)) by (unfold keys; destruct vec; [apply map_length|apply seq_length]).
  pose proof (same_vector_same_key _ _ _ n1 n2 H ltac:(lia) ltac:(lia) E) as K.
  unfold keys in K. destruct vec.
  - change 0%nat with (ncls dnode) in K. rewrite !map_nth in K. exact K.
  - rewrite !seq_nth in K by assumption. cbn in K. subst. reflexivity.
Qed.

(* every group of _group_edges carries the key of one of the edges *)
Lemma add_group_keys : forall (Q : gkey -> Prop) l key w s t, Forall (fun g => Q (gk g)) l -> Q key ->
  Forall (fun g => Q (gk g)) (add_group l key w s t).
Proof.
  induction l as [|g l IH]; intros key w s t H Hk; cbn [add_group].
  - constructor; [exact Hk|constructor].
  - inversion H as [|? ? Hg Hl]; subst. destruct (gkey_eqb (gk g) key).
    + constructor; [exact Hg|exact Hl].
    + constructor; [exact Hg|apply IH; assumption].
Qed.

Lemma group_keys_from_edges : forall ix all es l, (forall e, In e es -> In e all) ->
  Forall (fun g => exists e, In e all /\ ekey ix e = gk g) l ->
  Forall (fun g => exists e, In e all /\ ekey ix e = gk g) (fold_left (group_step ix) es l).
Proof.
  induction es as [|e es IH]; intros l Hs H; cbn [fold_left]; [exact H|].
  apply IH; [intros; apply Hs; right; assumption|]. unfold group_step.
  apply (add_group_keys (fun k => exists e0, In e0 all /\ ekey ix e0 = k)); [exact H|].
  exists e. split; [apply Hs; left; reflexivity|reflexivity].
Qed.

(* instances: (Qc, +, 0) and (bool, ||, false) *)
Definition qG {A} := @gsum Qc Qcplus 0 A.
Definition bG {A} := @gsum bool orb false A.
Lemma Qcplus_assoc' : forall a b c : Qc, a + (b + c) = (a + b) + c. Proof. intros; ring. Qed.
Lemma Qcplus_comm' : forall a b : Qc, a + b = b + a. Proof. intros; ring. Qed.
Lemma Qcplus_0_l' : forall a : Qc, 0 + a = a. Proof. intros; ring. Qed.
Lemma orb_assoc' : forall a b c, a || (b || c) = (a || b) || c. Proof. intros [] [] []; reflexivity. Qed.
Lemma orb_comm' : forall a b, a || b = b || a. Proof. intros [] []; reflexivity. Qed.
Lemma orb_false_l' : forall a, false || a = a. Proof. reflexivity. Qed.

Definition tval (u : nat) (sval : nat -> Qc) (tr : triple) : Qc := let '(w, s, t) := tr in if t =? u then w * sval s else 0.
Definition thit (u : nat) (tr : triple) : bool := snd tr =? u.

Lemma tsum_gsum : forall tr sval u, tsum tr sval u = qG (tval u sval) tr.
Proof. induction tr as [|[[w s] t] tr IH]; intros; cbn [tsum qG gsum tval]; [reflexivity|]. rewrite IH. reflexivity. Qed.

Lemma mem_gsum : forall u tr, mem u (targets tr) = bG (thit u) tr.
Proof.
  induction tr as [|[[w s] t] tr IH]; cbn [targets map mem bG gsum thit snd]; [reflexivity|].
  fold (targets tr). rewrite IH, (Nat.eqb_sym u t). reflexivity.
Qed.

Lemma existsb_gsum : forall {A} (p : A -> bool) l, existsb p l = bG p l.
Proof. induction l; cbn [existsb bG gsum]; [reflexivity|]. rewrite IHl. reflexivity. Qed.

Lemma qsum_map_gsum : forall {A} (f : A -> Qc) l, qsum (map f l) = qG f l.
Proof. induction l; cbn [map qsum qG gsum]; [reflexivity|]. rewrite IHl. reflexivity. Qed.

Lemma existsb_filter_nil : forall {A} (p : A -> bool) l, existsb p l = false -> filter p l = [].
Proof.
  induction l; cbn [existsb filter]; intros H; [reflexivity|]. apply orb_false_iff in H as [H1 H2].
  rewrite H1. apply IHl. exact H2.
Qed.

Lemma spec_input_alt : forall c st u,
  spec_input c st u = if existsb (into u) (cedges c) then qsum (map (edge_term c st) (filter (into u) (cedges c)))
                      else crdef (node_cls c u).
Proof.
  intros. unfold spec_input. destruct (existsb (into u) (cedges c)) eqn:E.
  - destruct (filter (into u) (cedges c)) eqn:F; [|reflexivity].
    apply existsb_exists in E as (e & He & Hp). assert (In e (filter (into u) (cedges c))) by (apply filter_In; auto).
    rewrite F in H. inversion H.
  - rewrite existsb_filter_nil by exact E. reflexivity.
Qed.

Lemma all_some_nth : forall {A B} (f : A -> option B) l r d d', all_some (map f l) = Some r ->
  forall k, (k < length l)%nat -> f (nth k l d) = Some (nth k r d').
Proof.
  induction l as [|a l IH]; intros r d d' H k Hk; [cbn in Hk; lia|].
  cbn [map] in H. apply all_some_cons in H as (b & r' & H1 & H2 & ->).
  destruct k; cbn [nth]; [exact H1|]. apply IH; [exact H2|cbn in Hk; lia].
Qed.

Lemma nth_map_seq : forall {A} (g : nat -> A) len i d, (i < len)%nat -> nth i (map g (seq 0 len)) d = g i.
Proof.
  intros. rewrite (nth_indep _ d (g 0%nat)) by (rewrite map_length, seq_length; exact H).
  rewrite map_nth. rewrite seq_nth by exact H. reflexivity.
Qed.

(* ------------------------------------------------------------------------------------------ 11. the composition *)
Lemma wf_edges : forall c e, wf c = true -> In e (cedges c) ->
  (esrc e < length (cnodes c))%nat /\ (etgt e < length (cnodes c))%nat.
Proof.
  intros c e W H. unfold wf in W. apply andb_true_iff in W as [_ W].
  rewrite forallb_forall in W. specialize (W e H). apply andb_true_iff in W as [W _].
  apply andb_true_iff in W as [A B]. apply Nat.ltb_lt in A, B. split; assumption.
Qed.

(* The edge pipeline over abstract "variables": any index map `ix` (variable -> (vector id, unit)) with members lists
   `memb` that is injective and finds every variable at its index, any edge list over these variables, any valuation. *)
Section Core.
  Variable ix : nat -> nat * nat.
  Variable memb : nat -> list nat.
  Variable NV : nat.
  Variable es : list edge.
  Variable val : nat -> bool -> Qc.
  Hypothesis Hmem : forall v, (v < NV)%nat ->
    (snd (ix v) < length (memb (fst (ix v))))%nat /\ nth (snd (ix v)) (memb (fst (ix v))) 0%nat = v.
  Hypothesis Hinj : forall v1 v2, (v1 < NV)%nat -> (v2 < NV)%nat -> ix v1 = ix v2 -> v1 = v2.
  Hypothesis Hes : forall e, In e es -> (esrc e < NV)%nat /\ (etgt e < NV)%nat.

  Variable n : nat.
  Hypothesis Hn : (n < NV)%nat.
  Let j := fst (ix n).
  Let i := snd (ix n).
  Let groups := group_edges ix es.
  Let L := filter (fun g => gtgt g =? j) groups.
  Let ml := merged true j groups.

  Lemma tgt_match : forall e, In e es ->
    ((fst (ix (etgt e)) =? j) && (snd (ix (etgt e)) =? i)) = (etgt e =? n).
  Proof.
    intros e He. destruct (Hes e He) as [_ Ht].
    destruct (Nat.eqb_spec (etgt e) n) as [->|Hne].
    - subst j i. rewrite !Nat.eqb_refl. reflexivity.
    - apply andb_false_iff.
      destruct (Nat.eqb_spec (fst (ix (etgt e))) j) as [A|A]; [|left; reflexivity].
      destruct (Nat.eqb_spec (snd (ix (etgt e))) i) as [B|B]; [|right; reflexivity].
      exfalso. apply Hne. apply Hinj; try assumption. subst j i.
      destruct (ix (etgt e)), (ix n). cbn in *. congruence.
  Qed.

  Lemma L_aligned : Forall aligned L.
  Proof.
    apply Forall_forall. intros g Hg. apply filter_In in Hg as [Hg _].
    pose proof (group_edges_aligned ix es) as A. rewrite Forall_forall in A. apply A. exact Hg.
  Qed.

  Lemma ml_aligned : Forall aligned_m ml.
  Proof.
    apply (gM_fold bool orb false orb_assoc' orb_comm' orb_false_l' (fun _ _ _ => false) L [] (Forall_nil _) L_aligned).
  Qed.

  Definition ssize_of (m : mrg) : nat := length (memb (msrc m)).
  Definition sval_of (m : mrg) (s : nat) : Qc := val (nth s (memb (msrc m)) 0%nat) (msv m).
  Definition eterm (e : edge) : Qc := ew e * val (esrc e) (esv e).

  Lemma hits_into : existsb (hits i) ml = existsb (into n) es.
  Proof.
    pose proof ml_aligned as MA.
    rewrite !existsb_gsum. unfold bG.
    transitivity (gM bool orb false (fun _ _ => thit i) ml).
    { unfold gM. apply gsum_ext. intros m Hm. rewrite Forall_forall in MA. specialize (MA m Hm).
      unfold hits. rewrite <- mem_gsum. unfold mtriples. rewrite zip3_targets by apply MA. reflexivity. }
    destruct (gM_fold bool orb false orb_assoc' orb_comm' orb_false_l' (fun _ _ => thit i) L [] (Forall_nil _) L_aligned) as [_ E].
    change ml with (fold_left (add_merge true) L []). rewrite E. cbn [gM gsum orb]. unfold L.
    rewrite (gsum_filter bool orb false orb_false_l').
    transitivity (gG bool orb false (fun key tr => if snd key =? j then thit i tr else false) groups).
    { unfold gG. apply gsum_ext. intros g _. rewrite (gsum_if bool orb false orb_false_l'). reflexivity. }
    unfold groups. rewrite (gG_group_edges bool orb false orb_assoc' orb_comm' orb_false_l').
    apply gsum_ext. intros e He. unfold ekey, etriple, thit, into. cbn [snd].
    rewrite <- (tgt_match e He). destruct (fst (ix (etgt e)) =? j); reflexivity.
  Qed.

  Lemma msum_spec : msum ml sval_of i = qsum (map eterm (filter (into n) es)).
  Proof.
    pose (psi := fun sj sv => tval i (fun s => val (nth s (memb sj) 0%nat) sv)).
    transitivity (gM Qc Qcplus 0 psi ml).
    { unfold gM. induction ml as [|m l IH]; cbn [msum gsum]; [reflexivity|].
      rewrite IH. f_equal. rewrite tsum_gsum. reflexivity. }
    destruct (gM_fold Qc Qcplus 0 Qcplus_assoc' Qcplus_comm' Qcplus_0_l' psi L [] (Forall_nil _) L_aligned) as [_ E].
    change ml with (fold_left (add_merge true) L []). rewrite E. cbn [gM gsum]. rewrite Qcplus_0_l'.
    pose (phi := fun (key : gkey) => psi (fst (fst key)) (snd (fst key))).
    change (gsum Qcplus 0 (fun g => gsum Qcplus 0 (phi (gk g)) (gtriples g)) L = qsum (map eterm (filter (into n) es))).
    unfold L. rewrite (gsum_filter Qc Qcplus 0 Qcplus_0_l').
    transitivity (gG Qc Qcplus 0 (fun key tr => if snd key =? j then phi key tr else 0) groups).
    { unfold gG. apply gsum_ext. intros g _. rewrite (gsum_if Qc Qcplus 0 Qcplus_0_l'). reflexivity. }
    unfold groups. rewrite (gG_group_edges Qc Qcplus 0 Qcplus_assoc' Qcplus_comm' Qcplus_0_l').
    rewrite qsum_map_gsum. unfold qG. rewrite (gsum_filter Qc Qcplus 0 Qcplus_0_l').
    apply gsum_ext. intros e He. unfold ekey, etriple, phi, psi, tval, into, eterm. cbn [fst snd].
    rewrite <- (tgt_match e He). destruct (Hes e He) as [Hs _].
    destruct (Hmem (esrc e) Hs) as [_ Hm]. rewrite Hm.
    destruct (fst (ix (etgt e)) =? j); [|reflexivity]. cbn [andb]. reflexivity.
  Qed.

  (* the input the pipeline hands to unit i of vector j = what the edge list says about variable n *)
  Lemma core_input : forall f32 tsize cs rdef,
    all_some (map (fun m => contrib f32 tsize (ssize_of m) m (sval_of m)) ml) = Some cs ->
    input_of cs rdef i = if existsb (into n) es then qsum (map eterm (filter (into n) es)) else rdef.
  Proof.
    intros f32 tsize cs rdef H. pose proof ml_aligned as MA.
    rewrite (input_is_edge_sum f32 tsize ssize_of sval_of ml cs _ i MA H).
    rewrite hits_into, msum_spec. reflexivity.
  Qed.
End Core.

Section Compose.
  Variable vec : bool.
  Variable c : circuit.
  Variable st : list Qc.
  Variable vn : list vnode.
  Variable rs : list (nat * (nat * nat)).
  Hypothesis CA : cache_all [] (keys vec c) 0 = (vn, rs).
  Hypothesis WF : wf c = true.

  Let ix := idx_of rs.

  Lemma keys_length : length (keys vec c) = length (cnodes c).
  Proof. unfold keys. destruct vec; [apply map_length|apply seq_length]. Qed.

  Lemma F_mem : forall n, (n < length (cnodes c))%nat ->
    (snd (ix n) < length (members vn (fst (ix n))))%nat /\ nth (snd (ix n)) (members vn (fst (ix n))) 0%nat = n.
  Proof. intros n H. apply (member_at_index _ _ _ _ CA). rewrite keys_length. exact H. Qed.

  Lemma F_inj : forall n1 n2, (n1 < length (cnodes c))%nat -> (n2 < length (cnodes c))%nat -> ix n1 = ix n2 -> n1 = n2.
  Proof. intros n1 n2 H1 H2. apply (index_map_injective _ _ _ _ _ CA); rewrite keys_length; assumption. Qed.

  Lemma node_input : forall n, (n < length (cnodes c))%nat -> forall f32 tsize cs,
    all_some (map (fun m => contrib f32 tsize (length (members vn (msrc m))) m
                              (fun s => srcval c st (nth s (members vn (msrc m)) 0%nat) (msv m)))
                  (merged true (fst (ix n)) (group_edges ix (cedges c)))) = Some cs ->
    input_of cs (crdef (node_cls c n)) (snd (ix n)) = spec_input c st n.
  Proof.
    intros n Hn f32 tsize cs H. rewrite spec_input_alt.
    apply (core_input ix (members vn) (length (cnodes c)) (cedges c) (srcval c st) F_mem F_inj
             (fun e He => wf_edges c e WF He) n Hn f32 tsize cs _ H).
  Qed.
End Compose.

(* Whenever the compilation modelled by Impl does not raise, it computes the vector field of the edge list — for every
   well-formed circuit, vectorized or not, any number of classes, units and edges, parallel edges, self-connections,
   weightless edges, several source variables per class pair (D59), any order of the nodes and edges. *)
Theorem impl_gen_sound : forall f32 f21 vec c st r, wf c = true ->
  impl_gen input_of true f32 f21 vec c st = Some r -> r = spec c st.
Proof.
  intros f32 f21 vec c st r WF H. unfold impl_gen, compile in H.
  destruct (cache_all [] (keys vec c) 0) as [vn rs] eqn:CA. cbn [cvn cidx cgroups] in H.
  destruct (negb f21 && existsb (vn_err c) vn); [discriminate|].
  destruct (all_some _) as [rv|] eqn:AS in H; [|discriminate]. inversion H; subst r. clear H.
  unfold spec. apply map_ext_in. intros n Hn. apply in_seq in Hn. destruct Hn as [_ Hn]. cbn in Hn.
  destruct (F_mem vec c vn rs CA n Hn) as [Hi Hm].
  destruct (idx_of rs n) as [j i] eqn:IX. cbn [fst snd] in Hi, Hm. f_equal.
  assert (Hj : (j < length vn)%nat).
  { destruct (Nat.lt_ge_cases j (length vn)) as [A|A]; [exact A|].
    unfold members in Hi. rewrite nth_overflow in Hi by exact A. cbn in Hi. lia. }
  pose proof (all_some_nth _ _ _ 0%nat (@nil Qc) AS j ltac:(rewrite seq_length; exact Hj)) as V.
  rewrite seq_nth in V by exact Hj. cbn [plus] in V. unfold vn_inputs_gen in V. cbn [cvn cgroups] in V.
  destruct (all_some _) as [cs|] eqn:AC in V; [|discriminate]. inversion V as [V']. clear V.
  pose proof IX as IX2. unfold idx_of in IX2. injection IX2 as Ej Ei. rewrite Ej, Ei. rewrite <- V'.
  rewrite nth_map_seq by exact Hi. rewrite Hm.
  pose proof (node_input vec c st vn rs CA WF n Hn f32) as NI. rewrite IX in NI. cbn [fst snd] in NI.
  eapply NI. exact AC.
Qed.

Theorem impl_sound : forall vec c st r, wf c = true -> impl vec c st = Some r -> r = spec c st.
Proof. intros vec c st r. apply impl_gen_sound. Qed.

(* with both loud classes repaired the modelled compilation never raises *)
Lemma all_some_total : forall {A B} (f : A -> option B) l, (forall x, In x l -> f x <> None) -> all_some (map f l) <> None.
Proof.
  induction l as [|a l IH]; intros H; cbn [map all_some]; [discriminate|].
  destruct (f a) eqn:E; [|exfalso; apply (H a); [left; reflexivity|exact E]].
  assert (IH' : all_some (map f l) <> None) by (apply IH; intros x Hx; apply H; right; exact Hx).
  destruct (all_some (map f l)); [discriminate|exact IH'].
Qed.

Theorem repaired_never_raises : forall inp bv vec c st, impl_gen inp bv true true vec c st <> None.
Proof.
  intros inp bv vec c st. unfold impl_gen. cbn [negb andb].
  destruct (all_some _) eqn:E; [discriminate|]. exfalso. revert E. apply all_some_total.
  intros tj _. unfold vn_inputs_gen.
  destruct (all_some _) eqn:E2; [discriminate|]. exfalso. revert E2. apply all_some_total.
  intros m _. unfold contrib. cbn [negb andb]. destruct (dot_edge _ _ _); discriminate.
Qed.

(* vectorize=True and vectorize=False give the same vector field whenever neither raises *)
Theorem vec_equals_nonvec : forall c st r1 r2, wf c = true ->
  impl true c st = Some r1 -> impl false c st = Some r2 -> r1 = r2.
Proof.
  intros c st r1 r2 W H1 H2. rewrite (impl_sound _ _ _ _ W H1), (impl_sound _ _ _ _ W H2). reflexivity.
Qed.

(* the full statement up to the two loud classes: Impl either raises or is the vector field of the edge list *)
Theorem full_up_to_err : forall vec c st, wf c = true -> impl vec c st = None \/ impl vec c st = Some (spec c st).
Proof.
  intros vec c st W. destruct (impl vec c st) as [r|] eqn:E; [right|left; reflexivity].
  rewrite (impl_sound _ _ _ _ W E). reflexivity.
Qed.

(* THE GAP that remains while the loud classes are unrepaired: that the boolean guards characterise them (D21: a vector
   node has > 1 members iff its class has > 1 nodes; D32: pigeonhole on the target indices).  Not mechanised; every
   generated circuit inside the guards is checked against it by the correspondence run.  Once both repairs have landed
   (fixed_D21 = fixed_D32 = true) the gap disappears: `full_when_repaired` — the full statement holds unconditionally. *)
Definition no_err_statement : Prop := forall vec c st, wf c = true -> guard c = true -> impl vec c st <> None.

Theorem guarded_from_no_err : no_err_statement -> guarded_statement.
Proof.
  intros NE c st W G _. split.
  - destruct (impl true c st) as [r|] eqn:E; [rewrite (impl_sound _ _ _ _ W E); reflexivity|].
    exfalso. exact (NE true c st W G E).
  - destruct (impl false c st) as [r|] eqn:E; [rewrite (impl_sound _ _ _ _ W E); reflexivity|].
    exfalso. exact (NE false c st W G E).
Qed.

Theorem full_when_repaired : fixed_D21 = true -> fixed_D32 = true -> full_statement.
Proof.
  intros H21 H32 c st W _. unfold impl. rewrite H21, H32. split.
  - destruct (impl_gen input_of true true true true c st) as [r|] eqn:E;
      [rewrite (impl_gen_sound _ _ _ _ _ _ W E); reflexivity|exfalso; exact (repaired_never_raises _ _ _ _ _ E)].
  - destruct (impl_gen input_of true true true false c st) as [r|] eqn:E;
      [rewrite (impl_gen_sound _ _ _ _ _ _ W E); reflexivity|exfalso; exact (repaired_never_raises _ _ _ _ _ E)].
Qed.

(* the same for the model with both switches on, whatever their current value *)
Theorem full_of_repaired_model : forall vec c st, wf c = true ->
  impl_gen input_of true true true vec c st = Some (spec c st).
Proof.
  intros vec c st W. destruct (impl_gen input_of true true true vec c st) as [r|] eqn:E;
    [rewrite (impl_gen_sound _ _ _ _ _ _ W E); reflexivity|exfalso; exact (repaired_never_raises _ _ _ _ _ E)].
Qed.

(* both repairs have landed (fixed_D21 = fixed_D32 = true): the full statement, unconditionally *)
Theorem full_statement_holds : full_statement.
Proof. exact (full_when_repaired eq_refl eq_refl). Qed.

Theorem impl_is_spec : forall vec c st, wf c = true -> impl vec c st = Some (spec c st).
Proof. intros vec c st W. exact (full_of_repaired_model vec c st W). Qed.


(* ------------------------------------------------------------------------------------------ 12. multi-operator nodes *)
(* flattening *)
Lemma unflat_voff : forall ls n o k, (n < length ls)%nat -> (o < nth n ls 0)%nat ->
  unflat_l ls (sum_first ls n + o) k = ((k + n)%nat, o).
Proof.
  induction ls as [|a ls IH]; intros n o k Hn Ho; [cbn in Hn; lia|].
  destruct n as [|n]; cbn [sum_first unflat_l nth plus] in *.
  - destruct (Nat.ltb_spec o a); [|lia]. f_equal. lia.
  - destruct (Nat.ltb_spec (a + sum_first ls n + o) a); [lia|].
    replace (a + sum_first ls n + o - a)%nat with (sum_first ls n + o)%nat by lia.
    rewrite IH by (cbn in Hn; lia || exact Ho). f_equal. lia.
Qed.

Lemma unflat_inv : forall ls v k, (v < sum_first ls (length ls))%nat ->
  let r := unflat_l ls v k in
  (k <= fst r)%nat /\ (fst r - k < length ls)%nat /\ (snd r < nth (fst r - k) ls 0)%nat /\
  (sum_first ls (fst r - k) + snd r = v)%nat.
Proof.
  induction ls as [|a ls IH]; intros v k Hv; [cbn in Hv; lia|].
  cbn [unflat_l]. destruct (Nat.ltb_spec v a) as [H|H]; cbn [fst snd].
  - rewrite Nat.sub_diag. cbn [nth sum_first length plus]. refine (conj _ (conj _ (conj _ _))); lia.
  - cbn [length sum_first] in Hv. destruct (IH (v - a)%nat (S k) ltac:(lia)) as (A & B & C & D).
    set (r := unflat_l ls (v - a) (S k)) in *. cbn zeta in *.
    replace (fst r - k)%nat with (S (fst r - S k)) by lia. cbn [length nth sum_first].
    refine (conj _ (conj _ (conj _ _))); try lia; try exact C.
Qed.

Lemma sum_first_mono : forall ls n m, (n <= m)%nat -> (sum_first ls n <= sum_first ls m)%nat.
Proof.
  induction ls as [|a ls IH]; intros n m H; destruct n, m; cbn [sum_first]; try lia.
  specialize (IH n m ltac:(lia)). lia.
Qed.

Lemma sum_first_lt : forall ls n o, (n < length ls)%nat -> (o < nth n ls 0)%nat ->
  (sum_first ls n + o < sum_first ls (length ls))%nat.
Proof.
  induction ls as [|a ls IH]; intros n o Hn Ho; [cbn in Hn; lia|].
  destruct n; cbn [sum_first nth length] in *; [lia|]. specialize (IH n o ltac:(lia) Ho). lia.
Qed.

(* structure equality is Leibniz equality *)
Lemma list_eqb_eq : forall {A} (f : A -> A -> bool), (forall x y, f x y = true -> x = y) ->
  forall a b, list_eqb f a b = true -> a = b.
Proof.
  intros A f Hf. induction a as [|x a IH]; intros [|y b] H; cbn in H; try discriminate; [reflexivity|].
  apply andb_true_iff in H as [H1 H2]. rewrite (Hf _ _ H1), (IH _ H2). reflexivity.
Qed.
Lemma list_eqb_refl : forall {A} (f : A -> A -> bool), (forall x, f x x = true) -> forall a, list_eqb f a a = true.
Proof. intros A f Hf. induction a; cbn; [reflexivity|]. rewrite Hf, IHa. reflexivity. Qed.

Lemma mono_eqb_eq : forall a b, mono_eqb a b = true -> a = b.
Proof.
  intros [c1 x1 k1 r1] [c2 x2 k2 r2] H. unfold mono_eqb in H. cbn in H.
  repeat (apply andb_true_iff in H as [H ?]). apply Qc_eqb_eq in H.
  repeat match goal with E : (_ =? _) = true |- _ => apply Nat.eqb_eq in E end. subst. reflexivity.
Qed.
Lemma mono_eqb_refl : forall a, mono_eqb a a = true.
Proof. intros a. unfold mono_eqb. rewrite Qc_eqb_refl, !Nat.eqb_refl. reflexivity. Qed.

Lemma opr_eqb_eq : forall a b, opr_eqb a b = true -> a = b.
Proof.
  intros [f1 g1 d1 fd1 dc1] [f2 g2 d2 fd2 dc2] H. unfold opr_eqb in H. cbn in H.
  apply andb_true_iff in H as [H Hdc]. apply Nat.eqb_eq in Hdc.
  repeat (apply andb_true_iff in H as [H ?]).
  apply (list_eqb_eq _ mono_eqb_eq) in H. apply Qc_eqb_eq in H1.
  apply (list_eqb_eq _ (fun x y E => proj1 (Nat.eqb_eq x y) E)) in H0.
  assert (g1 = g2).
  { destruct g1, g2; cbn in H2; try discriminate; [|reflexivity]. f_equal. apply (list_eqb_eq _ mono_eqb_eq). exact H2. }
  subst. reflexivity.
Qed.
Lemma opr_eqb_refl : forall a, opr_eqb a a = true.
Proof.
  intros [f g d fd dc]. unfold opr_eqb. cbn. rewrite Nat.eqb_refl, andb_true_r. rewrite (list_eqb_refl _ mono_eqb_refl), Qc_eqb_refl.
  rewrite (list_eqb_refl _ Nat.eqb_refl). destruct g; cbn; [rewrite (list_eqb_refl _ mono_eqb_refl)|]; reflexivity.
Qed.
Lemma ops_eqb_eq : forall a b, ops_eqb a b = true -> a = b.
Proof. apply list_eqb_eq. exact opr_eqb_eq. Qed.
Lemma ops_eqb_refl : forall a, ops_eqb a a = true.
Proof. apply list_eqb_refl. exact opr_eqb_refl. Qed.

(* the structural key determines the list of operator structures *)
Lemma first_same_spec : forall l cl p, In l cl -> nth (first_same l cl p - p) cl [] = l /\ (p <= first_same l cl p)%nat.
Proof.
  induction cl as [|l' cl IH]; intros p H; [inversion H|]. cbn [first_same].
  destruct (ops_eqb l' l) eqn:E.
  - rewrite Nat.sub_diag. split; [apply ops_eqb_eq; exact E|lia].
  - destruct H as [->|H]; [rewrite ops_eqb_refl in E; discriminate|].
    destruct (IH (S p) H) as [A B]. split; [|lia].
    replace (first_same l cl (S p) - p)%nat with (S (first_same l cl (S p) - S p)) by lia. exact A.
Qed.

Lemma canon_ops : forall c ci, (ci < length (mccls c))%nat -> cops c (canon c ci) = cops c ci.
Proof.
  intros c ci H. unfold canon. destruct (first_same_spec (cops c ci) (mccls c) 0) as [A _].
  { unfold cops. apply nth_In. exact H. }
  rewrite Nat.sub_0_r in A. exact A.
Qed.

(* cache_func's matching of operators: with equal structure lists it is the identity on positions *)
Lemma skipn_cons_S : forall {A} k (l : list A) s rest, skipn k l = s :: rest -> skipn (S k) l = rest.
Proof.
  induction k as [|k IH]; intros l s rest H.
  - cbn in H. subst l. reflexivity.
  - destruct l as [|a l]; [discriminate|]. cbn [skipn] in *. apply (IH l s rest H).
Qed.

Lemma first_free_skip : forall s cached taken p k, (forall q, (p <= q < p + k)%nat -> mem q taken = true) ->
  (k <= length cached)%nat -> first_free s cached taken p = first_free s (skipn k cached) taken (p + k).
Proof.
  intros s cached taken p k. revert cached p. induction k as [|k IH]; intros cached p H Hk.
  - rewrite Nat.add_0_r. reflexivity.
  - destruct cached as [|t rest]; [cbn in Hk; lia|]. cbn [first_free skipn].
    rewrite (H p ltac:(lia)). rewrite andb_false_r. rewrite (IH rest (S p)).
    + f_equal. lia.
    + intros q Hq. apply H. lia.
    + cbn in Hk. lia.
Qed.

Lemma match_ops_id_gen : forall l k taken, (k <= length l)%nat ->
  (forall q, mem q taken = true <-> (q < k)%nat) ->
  match_ops (skipn k l) l taken = map Some (seq k (length l - k)).
Proof.
  intros l k. remember (length l - k)%nat as d eqn:Hd. revert k Hd. induction d as [|d IH]; intros k Hd taken Hk Ht.
  - assert (k = length l) by lia. subst k. rewrite skipn_all. reflexivity.
  - assert (Hlt : (k < length l)%nat) by lia.
    destruct (skipn k l) as [|s rest] eqn:Sk.
    { apply (f_equal (@length opr)) in Sk. rewrite skipn_length in Sk. cbn in Sk. lia. }
    cbn [match_ops seq map].
    assert (Hs : s = nth k l dopr).
    { rewrite <- (firstn_skipn k l) at 1. rewrite app_nth2; rewrite firstn_length_le by lia; [|lia].
      rewrite Nat.sub_diag, Sk. reflexivity. }
    rewrite (first_free_skip s l taken 0 k) by (try lia; intros q Hq; apply Ht; lia).
    rewrite Sk. cbn [first_free plus]. rewrite Hs at 1. rewrite <- Hs, opr_eqb_refl. cbn [andb].
    assert (Hm : mem k taken = false).
    { destruct (mem k taken) eqn:E; [apply Ht in E; lia|reflexivity]. }
    rewrite Hm. cbn [negb]. f_equal.
    assert (Sk' : rest = skipn (S k) l).
    { symmetry. apply (skipn_cons_S k l s rest Sk). }
    rewrite Sk'. apply IH; try lia.
    intros q. cbn [mem]. rewrite orb_true_iff, Ht, Nat.eqb_eq. lia.
Qed.

Theorem match_ops_identity : forall l, match_ops l l [] = map Some (seq 0 (length l)).
Proof.
  intros l. pose proof (match_ops_id_gen l 0 [] ltac:(lia)) as H. cbn [skipn] in H. rewrite Nat.sub_0_r in H.
  apply H. intros q. cbn. split; [discriminate|lia].
Qed.

Lemma rename_with_id : forall cnames names k, length names = (length cnames - k)%nat -> (k <= length cnames)%nat ->
  rename_with names (map Some (seq k (length cnames - k))) cnames = skipn k cnames.
Proof.
  intros cnames names. revert cnames. induction names as [|a names IH]; intros cnames k H Hk.
  - cbn in H. rewrite <- H. cbn. rewrite skipn_all2 by lia. reflexivity.
  - cbn [length] in H. destruct (length cnames - k)%nat as [|d] eqn:E; [discriminate|].
    cbn [seq map rename_with]. replace d with (length cnames - S k)%nat by lia.
    rewrite IH by lia.
    assert (Hlt : (k < length cnames)%nat) by lia.
    rewrite <- (firstn_skipn k cnames) at 1.
    rewrite app_nth2; rewrite firstn_length_le by lia; [|lia]. rewrite Nat.sub_diag.
    destruct (skipn k cnames) as [|b rest] eqn:Sk.
    { apply (f_equal (@length nat)) in Sk. rewrite skipn_length in Sk. cbn in Sk. lia. }
    cbn [nth]. f_equal. apply (skipn_cons_S k cnames b rest Sk).
Qed.

Lemma index_of_nth : forall l o d, NoDup l -> (o < length l)%nat -> index_of (nth o l d) l = o.
Proof.
  induction l as [|b l IH]; intros o d Hnd Ho; [cbn in Ho; lia|].
  inversion Hnd as [|? ? Hn Hd]; subst. destruct o; cbn [nth index_of].
  - rewrite Nat.eqb_refl. reflexivity.
  - destruct (Nat.eqb_spec (nth o l d) b) as [E|E].
    + exfalso. apply Hn. rewrite <- E. apply nth_In. cbn in Ho. lia.
    + rewrite IH; [reflexivity|exact Hd|cbn in Ho; lia].
Qed.

(* cache_func: every member of a vector node is a node that was handed exactly that (vector node, index) *)
Lemma extend_prov : forall vn key n j0 vn' j a b, extend vn key n j0 = (vn', (j, (a, b))) ->
  forall j' i', (i' < length (members vn' j'))%nat -> (i' < length (members vn j'))%nat \/ (j' = (j - j0)%nat /\ i' = a).
Proof.
  induction vn as [|[k l] rest IH]; intros key n j0 vn' j a b H j' i' Hi; cbn [extend] in H.
  - inversion H; subst. rewrite Nat.sub_diag. destruct j' as [|j'].
    + unfold members in Hi. cbn in Hi. right. split; lia.
    + rewrite members_cons_S, members_nil in Hi. cbn in Hi. lia.
  - destruct (k =? key).
    + inversion H; subst. rewrite Nat.sub_diag. destruct j' as [|j'].
      * unfold members in *. cbn [nth snd] in *. rewrite app_length in Hi. cbn in Hi.
        destruct (Nat.lt_ge_cases i' (length l)); [left; assumption|right; split; lia].
      * rewrite !members_cons_S in *. left. exact Hi.
    + destruct (extend rest key n (S j0)) as [rest' r] eqn:E. inversion H; subst.
      destruct (extend_spec _ _ _ _ _ _ _ _ E) as (_ & Hj & _).
      destruct j' as [|j'].
      * unfold members in *. cbn [nth snd] in *. left. exact Hi.
      * rewrite !members_cons_S in *. destruct (IH _ _ _ _ _ _ _ E j' i' Hi) as [A|[A B]]; [left; exact A|right].
        split; lia.
Qed.

Lemma cache_all_prov : forall ks vn n0 vn' rs, cache_all vn ks n0 = (vn', rs) ->
  forall j i', (i' < length (members vn' j))%nat ->
    (i' < length (members vn j))%nat \/
    exists m, (m < length ks)%nat /\ nth i' (members vn' j) 0%nat = (n0 + m)%nat /\
              fst (nth m rs rng_default) = j /\ fst (snd (nth m rs rng_default)) = i'.
Proof.
  induction ks as [|key ks IH]; intros vn n0 vn' rs H j i' Hi; cbn [cache_all] in H.
  - inversion H; subst. left. exact Hi.
  - destruct (extend vn key n0 0) as [vn1 r] eqn:E1.
    destruct (cache_all vn1 ks (S n0)) as [vn2 rs2] eqn:E2. inversion H; subst.
    destruct r as [j1 [a b]].
    destruct (extend_spec _ _ _ _ _ _ _ _ E1) as (_ & _ & Ha & Hn & _). rewrite Nat.sub_0_r in Ha, Hn.
    destruct (cache_all_spec _ _ _ _ _ E2) as (_ & Hp & _).
    destruct (IH _ _ _ _ E2 j i' Hi) as [A|(m & Hm & Hx & Hj & Hi')].
    + destruct (extend_prov _ _ _ _ _ _ _ _ E1 j i' A) as [B|[B C]]; [left; exact B|right].
      rewrite Nat.sub_0_r in B. subst j i'. exists 0%nat. cbn [length nth fst snd].
      destruct (Hp j1 a Ha) as [_ Hx]. rewrite Hx, Hn. refine (conj _ (conj _ (conj eq_refl eq_refl))); lia.
    + right. exists (S m). cbn [length nth]. refine (conj _ (conj _ (conj Hj Hi'))); [lia|rewrite Hx; lia].
Qed.

Theorem member_has_index : forall ks vn rs j i', cache_all [] ks 0 = (vn, rs) -> (i' < length (members vn j))%nat ->
  (nth i' (members vn j) 0 < length ks)%nat /\ idx_of rs (nth i' (members vn j) 0%nat) = (j, i').
Proof.
  intros ks vn rs j i' H Hi. destruct (cache_all_prov _ _ _ _ _ H j i' Hi) as [A|(m & Hm & Hx & Hj & Hi')].
  - rewrite members_nil in A. cbn in A. lia.
  - cbn in Hx. rewrite Hx. split; [exact Hm|]. unfold idx_of. fold rng_default. rewrite Hj, Hi'. reflexivity.
Qed.

Lemma contrib_true : forall tsize ssize m sval, contrib true tsize ssize m sval = Some (contrib_now tsize ssize m sval).
Proof. intros. unfold contrib, contrib_now. cbn [negb andb]. destruct (dot_edge _ _ _); reflexivity. Qed.

Lemma all_some_map_some : forall {A B} (f : A -> B) l, all_some (map (fun x => Some (f x)) l) = Some (map f l).
Proof. induction l; cbn [map all_some]; [reflexivity|]. rewrite IHl. reflexivity. Qed.

Lemma nth_map_in : forall {A} (f : nat -> A) l i d, (i < length l)%nat -> nth i (map f l) d = f (nth i l 0%nat).
Proof.
  intros A f l i d H. rewrite (nth_indep _ d (f 0%nat)) by (rewrite map_length; exact H). apply map_nth.
Qed.

Lemma nth_map_gen : forall {A B} (f : A -> B) l n d d', (n < length l)%nat -> nth n (map f l) d = f (nth n l d').
Proof.
  intros A B f l n d d' H. rewrite (nth_indep _ d (f d')) by (rewrite map_length; exact H). apply map_nth.
Qed.

Lemma existsb_filter_nil_conv : forall {A} (p : A -> bool) l, filter p l = [] -> existsb p l = false.
Proof.
  induction l as [|a l IH]; cbn [filter existsb]; intros H; [reflexivity|].
  destruct (p a); [discriminate|]. apply IH. exact H.
Qed.

Lemma flat_map_ext_in' : forall {A B} (f g : A -> list B) l, (forall x, In x l -> f x = g x) -> flat_map f l = flat_map g l.
Proof.
  induction l as [|a l IH]; intros H; cbn [flat_map]; [reflexivity|].
  rewrite (H a (or_introl eq_refl)), IH by (intros; apply H; right; assumption). reflexivity.
Qed.

Lemma hd_nth0 : forall (l : list nat) d, hd d l = nth 0 l d.
Proof. destruct l; reflexivity. Qed.

Lemma filter_map_comm : forall {A B} (f : A -> B) (p : B -> bool) (qq : A -> bool) l,
  (forall x, In x l -> p (f x) = qq x) -> filter p (map f l) = map f (filter qq l).
Proof.
  induction l as [|a l IH]; intros H; cbn [map filter]; [reflexivity|].
  rewrite (H a (or_introl eq_refl)). rewrite IH by (intros; apply H; right; assumption).
  destruct (qq a); reflexivity.
Qed.

Lemma existsb_map_comm : forall {A B} (f : A -> B) (p : B -> bool) (qq : A -> bool) l,
  (forall x, In x l -> p (f x) = qq x) -> existsb p (map f l) = existsb qq l.
Proof.
  induction l as [|a l IH]; intros H; cbn [map existsb]; [reflexivity|].
  rewrite (H a (or_introl eq_refl)), IH by (intros; apply H; right; assumption). reflexivity.
Qed.

Section MultiOp.
  Variable vec : bool.
  Variable c : mcircuit.
  Variable st : list Qc.
  Variable vn : list vnode.
  Variable rs : list (nat * (nat * nat)).
  Hypothesis CA : cache_all [] (mkeys vec c) 0 = (vn, rs).
  Hypothesis WF : mwf c = true.

  Let ixn := idx_of rs.
  Let N := length (mcnodes c).
  Let k := MCompiled vn ixn.

  Lemma mkeys_length : length (mkeys vec c) = N.
  Proof. unfold mkeys. destruct vec; [apply map_length|apply seq_length]. Qed.

  Lemma wf_node : forall n, (n < N)%nat ->
    (mncls (mn c n) < length (mccls c))%nat /\ length (mnames (mn c n)) = mnops c n /\ NoDup (mnames (mn c n)).
  Proof.
    intros n Hn. pose proof WF as W0. unfold mwf in W0. apply andb_true_iff in W0 as [W _]. apply andb_true_iff in W as [W _].
    rewrite forallb_forall in W. specialize (W (mn c n) (nth_In _ _ Hn)).
    apply andb_true_iff in W as [W W3]. apply andb_true_iff in W as [W1 W2].
    apply Nat.ltb_lt in W1. apply Nat.eqb_eq in W2. split; [exact W1|]. split; [exact W2|apply nodupb_NoDup; exact W3].
  Qed.

  Lemma wf_feed : forall n o p', (n < N)%nat -> In p' (ofeed (mop c n o)) -> (p' < mnops c n)%nat.
  Proof.
    intros n o p' Hn Hp. destruct (Nat.lt_ge_cases o (mnops c n)) as [Ho|Ho].
    - pose proof WF as W0. unfold mwf in W0. apply andb_true_iff in W0 as [W _]. apply andb_true_iff in W as [_ W].
      rewrite forallb_forall in W. destruct (wf_node n Hn) as (Hc & _).
      specialize (W (mops c n) (nth_In _ _ Hc)). rewrite forallb_forall in W.
      specialize (W (mop c n o) (nth_In _ _ Ho)). rewrite forallb_forall in W.
      apply Nat.ltb_lt. apply W. exact Hp.
    - unfold mop in Hp. rewrite nth_overflow in Hp by exact Ho. inversion Hp.
  Qed.

  Lemma wf_edge : forall e, In e (mcedges c) ->
    (mesrc e < N)%nat /\ (metgt e < N)%nat /\ (meso e < mnops c (mesrc e))%nat /\ (meto e < mnops c (metgt e))%nat /\
    ofeed (mop c (metgt e) (meto e)) = [].
  Proof.
    intros e He. pose proof WF as W0. unfold mwf in W0. apply andb_true_iff in W0 as [_ W]. rewrite forallb_forall in W.
    specialize (W e He). repeat (apply andb_true_iff in W as [W ?]).
    repeat match goal with E : (_ <? _) = true |- _ => apply Nat.ltb_lt in E end.
    destruct (ofeed (mop c (metgt e) (meto e))); [|discriminate H]. exact (conj W (conj H2 (conj H1 (conj H0 eq_refl)))).
  Qed.

  Lemma G_mem : forall n, (n < N)%nat ->
    (snd (ixn n) < length (members vn (fst (ixn n))))%nat /\ nth (snd (ixn n)) (members vn (fst (ixn n))) 0%nat = n.
  Proof. intros n H. apply (member_at_index _ _ _ _ CA). rewrite mkeys_length. exact H. Qed.

  Lemma G_inj : forall n1 n2, (n1 < N)%nat -> (n2 < N)%nat -> ixn n1 = ixn n2 -> n1 = n2.
  Proof. intros n1 n2 H1 H2. apply (index_map_injective _ _ _ _ _ CA); rewrite mkeys_length; assumption. Qed.

  Lemma G_conv : forall j i', (i' < length (members vn j))%nat ->
    (nth i' (members vn j) 0 < N)%nat /\ ixn (nth i' (members vn j) 0%nat) = (j, i').
  Proof. intros j i' H. rewrite <- mkeys_length. apply (member_has_index _ _ _ _ _ CA H). Qed.

  Lemma same_ops : forall n1 n2, (n1 < N)%nat -> (n2 < N)%nat -> fst (ixn n1) = fst (ixn n2) -> mops c n1 = mops c n2.
  Proof.
    intros n1 n2 H1 H2 E.
    pose proof (same_vector_same_key _ _ _ n1 n2 CA ltac:(rewrite mkeys_length; exact H1) ltac:(rewrite mkeys_length; exact H2) E) as K.
    unfold mkeys in K. destruct vec.
    - rewrite !(nth_map_gen _ _ _ 0%nat dmnode) in K by assumption. fold (mn c n1) in K. fold (mn c n2) in K.
      destruct (wf_node n1 H1) as (C1 & _). destruct (wf_node n2 H2) as (C2 & _).
      unfold mops. rewrite <- (canon_ops c _ C1), <- (canon_ops c _ C2), K. reflexivity.
    - rewrite !seq_nth in K by assumption. cbn in K. subst. reflexivity.
  Qed.

  Lemma cached_facts : forall n, (n < N)%nat -> let n0 := cached k (fst (ixn n)) in
    (n0 < N)%nat /\ ixn n0 = (fst (ixn n), 0%nat) /\ mops c n0 = mops c n.
  Proof.
    intros n Hn n0. destruct (G_mem n Hn) as [Hi _].
    assert (H0 : (0 < length (members vn (fst (ixn n))))%nat) by lia.
    destruct (G_conv _ _ H0) as [A B].
    assert (E : n0 = nth 0 (members vn (fst (ixn n))) 0%nat).
    { unfold n0, cached, k. cbn [mvn]. apply hd_nth0. }
    rewrite E. split; [exact A|]. split; [exact B|]. apply same_ops; try assumption. rewrite B. reflexivity.
  Qed.

  (* fix D58: the simultaneous renaming sends the o-th operator of a merged node to the o-th operator of the cached node *)
  Lemma rename_names_cached : forall n0 n, (n0 < N)%nat -> (n < N)%nat -> mops c n0 = mops c n ->
    rename_names c n0 n = mnames (mn c n0).
  Proof.
    intros n0 n H0 Hn E. unfold rename_names. rewrite E, match_ops_identity.
    destruct (wf_node n0 H0) as (_ & L0 & _). destruct (wf_node n Hn) as (_ & L & _).
    unfold mnops in *. rewrite E in L0.
    pose proof (rename_with_id (mnames (mn c n0)) (mnames (mn c n)) 0) as R.
    rewrite Nat.sub_0_r in R. rewrite L0 in R. cbn [skipn] in R. apply R; lia.
  Qed.

  Lemma vpos_id : forall n0 n o, (n0 < N)%nat -> (n < N)%nat -> mops c n0 = mops c n -> (o < mnops c n)%nat -> vpos c n0 n o = o.
  Proof.
    intros n0 n o H0 Hn E Ho. unfold vpos. destruct (n0 =? n); [reflexivity|].
    rewrite rename_names_cached by assumption. destruct (wf_node n0 H0) as (_ & L0 & ND).
    apply index_of_nth; [exact ND|]. rewrite L0. unfold mnops. rewrite E. exact Ho.
  Qed.

  Lemma fpos_id : forall n0 n p, (n0 < N)%nat -> (n < N)%nat -> mops c n0 = mops c n -> (p < mnops c n)%nat -> fpos c n0 n p = p.
  Proof.
    intros n0 n p H0 Hn E Hp. unfold fpos. destruct (n0 =? n); [reflexivity|].
    rewrite rename_names_cached by assumption. destruct (wf_node n0 H0) as (_ & L0 & ND).
    apply index_of_nth; [exact ND|]. rewrite L0. unfold mnops. rewrite E. exact Hp.
  Qed.

  (* flattened variables *)
  Lemma oplens_length : length (oplens c) = N.
  Proof. unfold oplens. apply map_length. Qed.

  Lemma oplens_nth : forall n, (n < N)%nat -> nth n (oplens c) 0%nat = mnops c n.
  Proof.
    intros n H. unfold oplens, mnops, mops, mn. rewrite (nth_map_gen _ _ _ 0%nat dmnode) by exact H. reflexivity.
  Qed.

  Lemma flat_ok : forall n o, (n < N)%nat -> (o < mnops c n)%nat ->
    (voff c n + o < nvars c)%nat /\ unflat c (voff c n + o) = (n, o).
  Proof.
    intros n o Hn Ho. unfold voff, nvars, unflat. fold N. rewrite <- oplens_length. split.
    - apply sum_first_lt; [rewrite oplens_length; exact Hn|rewrite oplens_nth; assumption].
    - rewrite unflat_voff; [reflexivity|rewrite oplens_length; exact Hn|rewrite oplens_nth; assumption].
  Qed.

  Lemma unflat_ok : forall v, (v < nvars c)%nat ->
    (fst (unflat c v) < N)%nat /\ (snd (unflat c v) < mnops c (fst (unflat c v)))%nat /\
    (voff c (fst (unflat c v)) + snd (unflat c v))%nat = v.
  Proof.
    intros v Hv. unfold nvars, voff in Hv. fold N in Hv. rewrite <- oplens_length in Hv.
    destruct (unflat_inv (oplens c) v 0 Hv) as (_ & B & C & D). fold (unflat c v) in *. cbn zeta in *.
    rewrite Nat.sub_0_r in *. rewrite oplens_length in B. rewrite oplens_nth in C by exact B.
    split; [exact B|]. split; [exact C|exact D].
  Qed.

  (* the variable-level index map of the compiled multi-operator circuit *)
  Lemma vix_eq : forall n o, (n < N)%nat -> (o < mnops c n)%nat ->
    vix c k (voff c n + o) = ((voff c (cached k (fst (ixn n))) + o)%nat, snd (ixn n)).
  Proof.
    intros n o Hn Ho. unfold vix. destruct (flat_ok n o Hn Ho) as [_ U]. rewrite U. cbn [mixn k].
    destruct (ixn n) as [j i] eqn:IX. cbn [fst snd].
    pose proof (cached_facts n Hn) as CF. rewrite IX in CF. cbn [fst] in CF. destruct CF as (A & _ & E).
    rewrite vpos_id by assumption. reflexivity.
  Qed.

  Lemma H_mem : forall v, (v < nvars c)%nat ->
    (snd (vix c k v) < length (vmemb c k (fst (vix c k v))))%nat /\
    nth (snd (vix c k v)) (vmemb c k (fst (vix c k v))) 0%nat = v.
  Proof.
    intros v Hv. destruct (unflat_ok v Hv) as (Hn & Ho & Ev).
    set (n := fst (unflat c v)) in *. set (o := snd (unflat c v)) in *.
    rewrite <- Ev. rewrite (vix_eq n o Hn Ho). cbn [fst snd].
    pose proof (cached_facts n Hn) as CF. cbn zeta in CF. destruct CF as (A & B & E).
    set (n0 := cached k (fst (ixn n))) in *.
    assert (Ho0 : (o < mnops c n0)%nat) by (unfold mnops; rewrite E; exact Ho).
    unfold vmemb. destruct (flat_ok n0 o A Ho0) as [_ U]. rewrite U. cbn [mixn k]. rewrite B. cbn [fst].
    destruct (G_mem n Hn) as [Hi Hm]. rewrite map_length. split; [exact Hi|].
    rewrite (nth_map_in _ _ _ _ Hi). rewrite Hm. rewrite fpos_id by assumption. reflexivity.
  Qed.

  Lemma H_inj : forall v1 v2, (v1 < nvars c)%nat -> (v2 < nvars c)%nat -> vix c k v1 = vix c k v2 -> v1 = v2.
  Proof.
    intros v1 v2 H1 H2 E. destruct (unflat_ok v1 H1) as (Hn1 & Ho1 & E1). destruct (unflat_ok v2 H2) as (Hn2 & Ho2 & E2).
    set (n1 := fst (unflat c v1)) in *. set (o1 := snd (unflat c v1)) in *.
    set (n2 := fst (unflat c v2)) in *. set (o2 := snd (unflat c v2)) in *.
    rewrite <- E1, <- E2 in E. rewrite (vix_eq n1 o1 Hn1 Ho1), (vix_eq n2 o2 Hn2 Ho2) in E.
    injection E as EJ EI.
    pose proof (cached_facts n1 Hn1) as C1. pose proof (cached_facts n2 Hn2) as C2. cbn zeta in C1, C2.
    destruct C1 as (A1 & B1 & F1). destruct C2 as (A2 & B2 & F2).
    set (m1 := cached k (fst (ixn n1))) in *. set (m2 := cached k (fst (ixn n2))) in *.
    assert (P1 : (o1 < mnops c m1)%nat) by (unfold mnops; rewrite F1; exact Ho1).
    assert (P2 : (o2 < mnops c m2)%nat) by (unfold mnops; rewrite F2; exact Ho2).
    destruct (flat_ok m1 o1 A1 P1) as [_ U1]. destruct (flat_ok m2 o2 A2 P2) as [_ U2].
    assert (EU : unflat c (voff c m1 + o1) = unflat c (voff c m2 + o2)) by (f_equal; exact EJ).
    rewrite U1, U2 in EU. injection EU as Em Eo.
    assert (EX : ixn n1 = ixn n2).
    { assert (Ef : fst (ixn n1) = fst (ixn n2)) by (rewrite Em in B1; rewrite B1 in B2; injection B2; auto).
      assert (Es : snd (ixn n1) = snd (ixn n2)) by exact EI.
      rewrite (surjective_pairing (ixn n1)), (surjective_pairing (ixn n2)), Ef, Es. reflexivity. }
    rewrite <- E1, <- E2. rewrite (G_inj n1 n2 Hn1 Hn2 EX), Eo. reflexivity.
  Qed.

  Lemma H_es : forall e, In e (vedges c) -> (esrc e < nvars c)%nat /\ (etgt e < nvars c)%nat.
  Proof.
    intros e He. unfold vedges in He. apply in_map_iff in He as (e0 & <- & He0).
    destruct (wf_edge e0 He0) as (A & B & C & D & _). unfold vedge. cbn [esrc etgt].
    split; [apply (flat_ok _ _ A C)|apply (flat_ok _ _ B D)].
  Qed.

  Lemma into_vedge : forall n o e, (n < N)%nat -> (o < mnops c n)%nat -> In e (mcedges c) ->
    into (voff c n + o) (vedge c e) = minto n o e.
  Proof.
    intros n o e Hn Ho He. destruct (wf_edge e He) as (_ & B & _ & D & _). unfold into, vedge, minto. cbn [etgt].
    destruct (Nat.eqb_spec (voff c (metgt e) + meto e) (voff c n + o)) as [E|E].
    - destruct (flat_ok _ _ B D) as [_ U1]. destruct (flat_ok n o Hn Ho) as [_ U2]. rewrite E in U1. rewrite U1 in U2.
      injection U2 as Ea Eb. rewrite Ea, Eb, !Nat.eqb_refl. reflexivity.
    - destruct (Nat.eqb_spec (metgt e) n) as [Ea|]; [|reflexivity].
      destruct (Nat.eqb_spec (meto e) o) as [Eb|]; [|reflexivity]. exfalso. apply E. rewrite Ea, Eb. reflexivity.
  Qed.

  (* the vectorized / non-vectorized compilation of a multi-operator circuit computes the vector field of the edge list *)
  Lemma mimpl_var : forall n o, (n < N)%nat -> (o < mnops c n)%nat ->
    let groups := group_edges (vix c k) (vedges c) in
    let j := fst (ixn n) in let i := snd (ixn n) in let n0 := cached k j in let p := vpos c n0 n o in
    peval (of_ (mop c n0 p)) (mvar_x c st n (fpos c n0 n p)) (mpar c n (fpos c n0 n p))
          (nth i (mvec_inputs vec c st k groups j p) 0) = mderiv c st n o (mspec_input c st n o).
  Proof.
    intros n o Hn Ho groups j i n0 p.
    pose proof (cached_facts n Hn) as CF. cbn zeta in CF. fold j in CF. fold n0 in CF. destruct CF as (A & B & E).
    assert (Hp : p = o) by (apply vpos_id; assumption). rewrite Hp.
    rewrite fpos_id by assumption.
    assert (Eop : mop c n0 o = mop c n o) by (unfold mop; rewrite E; reflexivity).
    unfold mderiv. rewrite Eop. f_equal.
    destruct (G_mem n Hn) as [Hi Hm]. fold j in Hi, Hm. fold i in Hi, Hm.
    unfold mvec_inputs, mspec_input. fold n0. cbn [mvn k]. rewrite Eop.
    destruct (ofeed (mop c n o)) as [|f0 fd] eqn:FD.
    - unfold minputs. rewrite nth_map_seq by exact Hi.
      set (ml := merged true (voff c n0 + o) groups).
      pose proof (vix_eq n o Hn Ho) as VX. fold j in VX. fold n0 in VX. fold i in VX.
      pose proof (core_input (vix c k) (vmemb c k) (nvars c) (vedges c) (vval c st) H_mem H_inj H_es
                    (voff c n + o)%nat (proj1 (flat_ok n o Hn Ho)) true (if vec then length (members vn j) else 0%nat)) as CI.
      rewrite VX in CI. cbn [fst snd] in CI. fold groups in CI. fold ml in CI.
      rewrite (CI _ (ordef (mop c n o))).
      + unfold vedges.
        rewrite (existsb_map_comm (vedge c) (into (voff c n + o)) (minto n o)) by (intros; apply into_vedge; assumption).
        rewrite (filter_map_comm (vedge c) (into (voff c n + o)) (minto n o)) by (intros; apply into_vedge; assumption).
        rewrite map_map.
        destruct (filter (minto n o) (mcedges c)) as [|e0 inc] eqn:F.
        * rewrite (existsb_filter_nil_conv _ _ F). reflexivity.
        * assert (X : existsb (minto n o) (mcedges c) = true).
          { apply existsb_exists. exists e0. assert (I0 : In e0 (filter (minto n o) (mcedges c))) by (rewrite F; left; reflexivity).
            apply filter_In in I0. exact I0. }
          rewrite X. f_equal. apply map_ext_in. intros e He. rewrite <- F in He. apply filter_In in He as [He _].
          destruct (wf_edge e He) as (S1 & _ & S3 & _). unfold eterm, vedge, vval, ew, mew. cbn [esrc esv ewo].
          destruct (flat_ok _ _ S1 S3) as [_ U]. rewrite U. reflexivity.
      + unfold ssize_of, sval_of. rewrite <- all_some_map_some. f_equal. apply map_ext. intros m. apply contrib_true.
    - rewrite (nth_map_in _ _ _ _ Hi). rewrite Hm. f_equal. apply map_ext_in. intros p' Hp'.
      rewrite fpos_id; try assumption; [reflexivity|]. apply (wf_feed n o p' Hn). rewrite FD. exact Hp'.
  Qed.
End MultiOp.

Theorem mimpl_is_mspec : forall vec c st, mwf c = true -> mimpl vec c st = mspec c st.
Proof.
  intros vec c st WF. unfold mimpl, mspec, mcompile.
  destruct (cache_all [] (mkeys vec c) 0) as [vn rs] eqn:CA.
  apply flat_map_ext_in'. intros n Hn. apply in_seq in Hn. destruct Hn as [_ Hn]. cbn in Hn.
  apply map_ext_in. intros o Ho. apply in_seq in Ho. destruct Ho as [_ Ho]. cbn in Ho.
  cbn [mixn]. destruct (idx_of rs n) as [j i] eqn:IX.
  pose proof (mimpl_var vec c st vn rs CA WF n o Hn Ho) as MV. cbn zeta in MV. rewrite IX in MV. cbn [fst snd] in MV.
  exact MV.
Qed.

(* hence vectorize=True == vectorize=False for multi-operator node types, structurally identical operators under
   different names and types that differ only in operator multiplicity included *)
Theorem mimpl_vec_equals_nonvec : forall c st, mwf c = true -> mimpl true c st = mimpl false c st.
Proof. intros c st W. rewrite !mimpl_is_mspec by exact W. reflexivity. Qed.

(* non-vacuity: node types {s0,s1,m} and {s1,s2,m} (same structure, operator names shifted: the rename chain of D58) and
   {s0,m} (differs only in the multiplicity of an operator structure); weightless and weighted edges *)
Definition mS : opr := Opr [Mono (q 1) 0 1 1; Mono (q (-1)) 1 0 0] None 0 [] 0.
Definition mM (fd : list nat) : opr := Opr [Mono (q 1) 0 1 1; Mono (q (-1)) 1 0 0] None 0 fd 0.
Definition mw_ok : mcircuit :=
  MCirc [[mS; mS; mM [0; 1]%nat]; [mS; mS; mM [0; 1]%nat]; [mS; mM [0]%nat]]
        [MNode 0 [0; 1; 100]%nat [q 1; q 2; q 3]; MNode 1 [1; 2; 100]%nat [q 4; q 5; q 6]; MNode 2 [0; 100]%nat [q 7; q 8];
         MNode 1 [1; 2; 100]%nat [q 9; q 10; q 11]]
        [MEdge 0 2 false 1 0 (Some (q 2)); MEdge 1 2 false 0 1 None; MEdge 2 1 false 3 1 (Some (q 3));
         MEdge 3 2 false 2 0 (Some (mkq 1 2)); MEdge 0 2 false 3 1 (Some (q 1))]%nat.
Definition mst_ok : list Qc := map (fun i => q (Z.of_nat i)) (seq 1 11).
Lemma multiop_nonvacuous :
  mwf mw_ok = true /\ mkeys true mw_ok = [0; 0; 2; 0]%nat /\
  qlist_eqb (mimpl true mw_ok mst_ok) (mspec mw_ok mst_ok) = true /\
  qlist_eqb (mimpl false mw_ok mst_ok) (mspec mw_ok mst_ok) = true /\
  qlist_eqb (mspec mw_ok mst_ok) [q (-1); q 10; q 6; q 20; q (-5); q 48; mkq 63 2; q 48; q (-9); q 260; q 198] = true.
Proof. repeat (match goal with |- _ /\ _ => split end); vm_compute; reflexivity. Qed.

(* the way a variable is declared is part of the structural key: operators that differ only there are never matched,
   node types that differ only there get different keys (seed C01-m6 drops the declarations from the hash) *)
Lemma decl_in_key : forall a b, odecl a <> odecl b -> opr_eqb a b = false.
Proof.
  intros a b H. unfold opr_eqb. destruct (Nat.eqb_spec (odecl a) (odecl b)) as [E|E]; [contradiction|apply andb_false_r].
Qed.

Definition mS_int : opr := Opr [Mono (q 1) 0 1 1; Mono (q (-1)) 1 0 0] None 0 [] 1.     (* same equations as mS, k declared int *)
Definition mw_decl : mcircuit :=
  MCirc [[mS_int]; [mS]] [MNode 0 [0]%nat [q 10]; MNode 1 [0]%nat [mkq 25 2]; MNode 0 [0]%nat [q 12]] [].
Lemma decl_variants_not_merged :
  mwf mw_decl = true /\ mkeys true mw_decl = [0; 1; 0]%nat /\ canon mw_decl 1 = 1%nat.
Proof. repeat (match goal with |- _ /\ _ => split end); vm_compute; reflexivity. Qed.

(* ---- Euler trajectories: the explicit Euler iteration with Impl's vector field is the one with Spec's *)
Theorem euler_impl_is_spec : forall vec c h n st, wf c = true -> euler_impl vec c h st n = Some (euler_spec c h st n).
Proof.
  intros vec c h n. induction n as [|n IH]; intros st W; cbn [euler_impl euler_spec]; [reflexivity|].
  rewrite (impl_is_spec vec c st W). rewrite (IH _ W). reflexivity.
Qed.

(* ---- the before-fix records over the EXPLICIT switches of impl_gen (not over the constants fixed_D21 / fixed_D32,
   which are true now): the full statement of the model with a switch off is false *)
Definition full_statement_gen (f32 f21 : bool) : Prop := forall c st, wf c = true -> length st = length (cnodes c) ->
  impl_gen input_of true f32 f21 true c st = Some (spec c st) /\ impl_gen input_of true f32 f21 false c st = Some (spec c st).

Theorem full_refuted_before_D86 : ~ full_statement_gen true false.
Proof.
  intros F. destruct (F w_d21 [q 1; q 2]) as [H _]; [vm_compute; reflexivity|reflexivity|].
  vm_compute in H. discriminate.
Qed.

Theorem full_refuted_before_D85 : ~ full_statement_gen false true.
Proof.
  intros F. destruct (F w_d32 st_d32) as [H _]; [vm_compute; reflexivity|vm_compute; reflexivity|].
  vm_compute in H. discriminate.
Qed.

Theorem full_gen_when_both_on : full_statement_gen true true.
Proof. intros c st W _. split; apply full_of_repaired_model; exact W. Qed.
