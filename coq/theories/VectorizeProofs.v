(* VectorizeProofs.v — lemmas about the model in Vectorize.v (C04).  All statements are for lists of any length
   (any number of classes, units, edges); no computation-only sweeps. *)
From Coq Require Import List ZArith QArith Qcanon Bool Arith Lia.
From PV Require Import Vectorize.
Import ListNotations.
Open Scope Qc_scope.

(* ------------------------------------------------------------------------------------------ small facts *)
Lemma Qc_eqb_eq : forall a b, Qc_eqb a b = true -> a = b.
Proof.
  intros a b H. unfold Qc_eqb in H. apply Qeq_bool_iff in H. apply Qc_is_canon. exact H.
Qed.

Lemma Qc_eqb_refl : forall a, Qc_eqb a a = true.
Proof. intros a. unfold Qc_eqb. apply Qeq_bool_iff. reflexivity. Qed.

Lemma mem_In : forall x l, mem x l = true <-> In x l.
Proof.
  induction l as [|y l IH]; cbn [mem In]; [split; [discriminate|tauto]|].
  rewrite orb_true_iff, IH, Nat.eqb_eq. split; intros [H|H]; auto.
Qed.

Lemma mem_false : forall x l, mem x l = false <-> ~ In x l.
Proof. intros. rewrite <- mem_In. destruct (mem x l); split; congruence. Qed.

Lemma nodupb_NoDup : forall l, nodupb l = true -> NoDup l.
Proof.
  induction l as [|x l IH]; cbn [nodupb]; intros H; [constructor|].
  apply andb_true_iff in H as [H1 H2]. constructor; [|auto].
  apply negb_true_iff in H1. apply mem_false. exact H1.
Qed.

Lemma NoDup_nodupb : forall l, NoDup l -> nodupb l = true.
Proof.
  induction 1 as [|x l Hn Hd IH]; cbn [nodupb]; [reflexivity|].
  rewrite IH, andb_true_r. apply negb_true_iff, mem_false. exact Hn.
Qed.

(* ------------------------------------------------------------------------------------------ 1. cache_func *)
Definition preserved (vn vn' : list vnode) : Prop :=
  forall j i, (i < length (members vn j))%nat ->
    (i < length (members vn' j))%nat /\ nth i (members vn' j) 0%nat = nth i (members vn j) 0%nat.

Lemma preserved_refl : forall vn, preserved vn vn.
Proof. intros vn j i H; auto. Qed.

Lemma preserved_trans : forall a b c, preserved a b -> preserved b c -> preserved a c.
Proof.
  intros a b c H1 H2 j i H. destruct (H1 j i H) as [H3 H4]. destruct (H2 j i H3) as [H5 H6].
  split; [exact H5|congruence].
Qed.

Lemma members_cons_S : forall v vn j, members (v :: vn) (S j) = members vn j.
Proof. reflexivity. Qed.

Lemma members_nil : forall j, members [] j = [].
Proof. intros [|j]; reflexivity. Qed.

Lemma extend_spec : forall vn key n j0 vn' j a b,
  extend vn key n j0 = (vn', (j, (a, b))) ->
  b = S a /\ (j0 <= j)%nat /\ (a < length (members vn' (j - j0)))%nat /\
  nth a (members vn' (j - j0)) 0%nat = n /\ preserved vn vn'.
Proof.
  induction vn as [|[k l] rest IH]; intros key n j0 vn' j a b H; cbn [extend] in H.
  - inversion H; subst. rewrite Nat.sub_diag. unfold members at 1 2. cbn [nth snd length].
    refine (conj _ (conj _ (conj _ (conj _ _)))); try lia; try reflexivity.
    intros j' i' Hi. rewrite members_nil in Hi. cbn in Hi. lia.
  - destruct (k =? key).
    + inversion H; subst. rewrite Nat.sub_diag. unfold members at 1 2. cbn [nth snd].
      rewrite app_length. cbn [length].
      refine (conj _ (conj _ (conj _ (conj _ _)))); try lia.
      * rewrite app_nth2 by lia. rewrite Nat.sub_diag. reflexivity.
      * intros j' i' Hi. destruct j' as [|j'].
        -- unfold members in *. cbn [nth snd] in *. rewrite app_length. split; [lia|].
           apply app_nth1. exact Hi.
        -- rewrite !members_cons_S in *. auto.
    + destruct (extend rest key n (S j0)) as [rest' r] eqn:E. inversion H; subst.
      destruct (IH _ _ _ _ _ _ _ E) as (Hb & Hj & Ha & Hn & Hp).
      replace (j - j0)%nat with (S (j - S j0)) by lia. rewrite members_cons_S.
      refine (conj _ (conj _ (conj _ (conj _ _)))); try lia; try assumption.
      intros j' i' Hi. destruct j' as [|j']; [unfold members in *; cbn [nth snd] in *; auto|].
      rewrite !members_cons_S in *. auto.
Qed.

Definition rng_default : nat * (nat * nat) := (0, (0, 0))%nat.

Lemma cache_all_spec : forall ks vn n0 vn' rs,
  cache_all vn ks n0 = (vn', rs) ->
  length rs = length ks /\ preserved vn vn' /\
  forall m, (m < length ks)%nat ->
    let r := nth m rs rng_default in
    snd (snd r) = S (fst (snd r)) /\
    (fst (snd r) < length (members vn' (fst r)))%nat /\
    nth (fst (snd r)) (members vn' (fst r)) 0%nat = (n0 + m)%nat.
Proof.
  induction ks as [|key ks IH]; intros vn n0 vn' rs H; cbn [cache_all] in H.
  - inversion H; subst. cbn [length]. refine (conj eq_refl (conj (preserved_refl _) _)). intros; lia.
  - destruct (extend vn key n0 0) as [vn1 r] eqn:E1.
    destruct (cache_all vn1 ks (S n0)) as [vn2 rs2] eqn:E2. inversion H; subst.
    destruct r as [j [a b]]. destruct (extend_spec _ _ _ _ _ _ _ _ E1) as (Hb & _ & Ha & Hn & Hp).
    rewrite Nat.sub_0_r in Ha, Hn.
    destruct (IH _ _ _ _ E2) as (Hl & Hp2 & Hm). cbn [length].
    refine (conj _ (conj _ _)).
    + lia.
    + eapply preserved_trans; eauto.
    + intros m Hlt. destruct m as [|m]; cbn [nth fst snd].
      * destruct (Hp2 j a Ha) as [Hy Hx]. refine (conj Hb (conj Hy _)). rewrite Hx, Hn. lia.
      * destruct (Hm m ltac:(lia)) as (Hx1 & Hx2 & Hx3). cbn zeta in Hx1, Hx2, Hx3.
        refine (conj Hx1 (conj Hx2 _)). rewrite Hx3. lia.
Qed.

(* every frontend node finds itself at the (vector node, index) that cache_func handed out *)
Theorem member_at_index : forall ks vn rs n, cache_all [] ks 0 = (vn, rs) -> (n < length ks)%nat ->
  (snd (idx_of rs n) < length (members vn (fst (idx_of rs n))))%nat /\
  nth (snd (idx_of rs n)) (members vn (fst (idx_of rs n))) 0%nat = n.
Proof.
  intros ks vn rs n H Hn. destruct (cache_all_spec _ _ _ _ _ H) as (_ & _ & Hm).
  destruct (Hm n Hn) as (_ & H1 & H2). unfold idx_of. cbn [fst snd]. split; [exact H1|exact H2].
Qed.

(* two frontend nodes never share (vector node, index) *)
Theorem index_map_injective : forall ks vn rs n1 n2, cache_all [] ks 0 = (vn, rs) ->
  (n1 < length ks)%nat -> (n2 < length ks)%nat -> idx_of rs n1 = idx_of rs n2 -> n1 = n2.
Proof.
  intros ks vn rs n1 n2 H H1 H2 E.
  destruct (member_at_index _ _ _ _ H H1) as [_ A]. destruct (member_at_index _ _ _ _ H H2) as [_ B].
  rewrite E in A. congruence.
Qed.

(* the returned ranges have length one: (old_len, old_len + 1) *)
Theorem ranges_unit : forall ks vn rs n, cache_all [] ks 0 = (vn, rs) -> (n < length ks)%nat ->
  snd (snd (nth n rs rng_default)) = S (fst (snd (nth n rs rng_default))).
Proof.
  intros ks vn rs n H Hn. destruct (cache_all_spec _ _ _ _ _ H) as (_ & _ & Hm). apply (Hm n Hn).
Qed.

(* ------------------------------------------------------------------------------------------ 2. _group_edges *)
Definition gtriples (g : grp) : list triple := zip3 (gw g) (gs g) (gt g).
Definition aligned (g : grp) : Prop := length (gw g) = length (gs g) /\ length (gs g) = length (gt g).
Definition etriple (ix : nat -> nat * nat) (e : edge) : triple := (ew e, snd (ix (esrc e)), snd (ix (etgt e))).
Definition find_group (key : gkey) (l : list grp) : option grp := find (fun g => gkey_eqb (gk g) key) l.
Definition content (l : list grp) (key : gkey) : list triple :=
  match find_group key l with Some g => gtriples g | None => [] end.

Lemma gkey_eqb_eq : forall a b, gkey_eqb a b = true <-> a = b.
Proof.
  intros [[a1 a2] a3] [[b1 b2] b3]. unfold gkey_eqb.
  rewrite !andb_true_iff, !Nat.eqb_eq, eqb_true_iff. split.
  - intros [[-> ->] ->]. reflexivity.
  - intros H. inversion H. auto.
Qed.

Lemma gkey_eqb_refl : forall a, gkey_eqb a a = true.
Proof. intros. apply gkey_eqb_eq. reflexivity. Qed.

Lemma zip3_snoc : forall w s t a b c, length w = length s -> length s = length t ->
  zip3 (w ++ [a]) (s ++ [b]) (t ++ [c]) = zip3 w s t ++ [(a, b, c)].
Proof.
  induction w as [|x w IH]; intros [|y s] [|z t] a b c H1 H2; cbn in *; try discriminate; [reflexivity|].
  f_equal. apply IH; lia.
Qed.

Lemma add_group_aligned : forall l key w s t, Forall aligned l -> Forall aligned (add_group l key w s t).
Proof.
  induction l as [|g l IH]; intros key w s t H; cbn [add_group].
  - constructor; [|constructor]. split; reflexivity.
  - inversion H as [|? ? Hg Hl]; subst. destruct (gkey_eqb (gk g) key).
    + constructor; [|exact Hl]. destruct Hg as [A B]. split; cbn [gw gs gt]; rewrite !app_length; cbn; lia.
    + constructor; [exact Hg|apply IH; exact Hl].
Qed.

Lemma add_group_content : forall l key w s t key', Forall aligned l ->
  content (add_group l key w s t) key' =
  if gkey_eqb key key' then content l key' ++ [(w, s, t)] else content l key'.
Proof.
  induction l as [|g l IH]; intros key w s t key' H; unfold content, find_group; cbn [add_group find].
  - cbn [gk]. destruct (gkey_eqb key key'); reflexivity.
  - inversion H as [|? ? Hg Hl]; subst.
    destruct (gkey_eqb (gk g) key) eqn:E1.
    + apply gkey_eqb_eq in E1. subst key. cbn [find gk].
      destruct (gkey_eqb (gk g) key') eqn:E2; [|reflexivity].
      unfold gtriples. cbn [gw gs gt]. destruct Hg as [A B]. apply zip3_snoc; assumption.
    + cbn [find]. destruct (gkey_eqb (gk g) key') eqn:E2.
      * apply gkey_eqb_eq in E2. subst key'. destruct (gkey_eqb key (gk g)) eqn:E3; [|reflexivity].
        apply gkey_eqb_eq in E3. subst key. rewrite gkey_eqb_refl in E1. discriminate.
      * apply (IH key w s t key' Hl).
Qed.

Lemma group_fold_content : forall ix es l key, Forall aligned l ->
  Forall aligned (fold_left (group_step ix) es l) /\
  content (fold_left (group_step ix) es l) key =
  content l key ++ map (etriple ix) (filter (fun e => gkey_eqb (ekey ix e) key) es).
Proof.
  induction es as [|e es IH]; intros l key H; cbn [fold_left filter map].
  - split; [exact H|]. rewrite app_nil_r. reflexivity.
  - assert (H' : Forall aligned (group_step ix l e)) by (apply add_group_aligned; exact H).
    destruct (IH (group_step ix l e) key H') as [A B]. split; [exact A|]. rewrite B.
    unfold group_step at 1. rewrite add_group_content by exact H.
    destruct (gkey_eqb (ekey ix e) key); cbn [map]; [|reflexivity].
    rewrite <- app_assoc. reflexivity.
Qed.

(* the three lists of every group have equal lengths, and the k-th entries of the group with a given key are
   the weight / source index / target index of the k-th edge (in edge-list order) that has this key *)
Theorem group_edges_aligned : forall ix es, Forall aligned (group_edges ix es).
Proof. intros. apply (group_fold_content ix es [] (0%nat, false, 0%nat)). constructor. Qed.

Theorem group_edges_content : forall ix es key,
  content (group_edges ix es) key = map (etriple ix) (filter (fun e => gkey_eqb (ekey ix e) key) es).
Proof. intros. apply (group_fold_content ix es [] key). constructor. Qed.

(* D46: the alignment rests on every edge carrying every grouped key.  Without the setdefault the fold keeps the
   lists aligned exactly when every edge has a weight entry; the repaired code is the raw fold after set_default. *)
Lemma add_group_raw_some : forall l key w s t, add_group_raw l key (Some w) s t = add_group l key w s t.
Proof.
  induction l as [|g l IH]; intros; cbn [add_group_raw add_group olist]; [reflexivity|].
  destruct (gkey_eqb (gk g) key); [reflexivity|]. rewrite IH. reflexivity.
Qed.

Lemma group_raw_fold : forall ix es l, (forall e, In e es -> ewo e <> None) ->
  fold_left (group_step_raw ix) es l = fold_left (group_step ix) es l.
Proof.
  induction es as [|e es IH]; intros l H; cbn [fold_left]; [reflexivity|].
  assert (E : group_step_raw ix l e = group_step ix l e).
  { unfold group_step_raw, group_step, ew. destruct (ewo e) as [w|] eqn:W.
    - apply add_group_raw_some.
    - exfalso. apply (H e); [left; reflexivity|exact W]. }
  rewrite E. apply IH. intros e' He'. apply H. right. exact He'.
Qed.

Theorem group_raw_aligned : forall ix es, (forall e, In e es -> ewo e <> None) -> Forall aligned (group_edges_raw ix es).
Proof.
  intros ix es H. unfold group_edges_raw. rewrite group_raw_fold by exact H. apply group_edges_aligned.
Qed.

Theorem group_edges_is_raw_after_setdefault : forall ix es,
  group_edges ix es = group_edges_raw ix (map set_default es).
Proof.
  intros ix es. unfold group_edges_raw. rewrite group_raw_fold.
  - unfold group_edges. generalize (@nil grp). induction es as [|e es IH]; intros l; cbn [map fold_left]; [reflexivity|].
    rewrite <- IH. f_equal.
  - intros e He. apply in_map_iff in He as (e0 & <- & _). cbn. discriminate.
Qed.

(* without the hypothesis the lists get out of step: a weighted edge followed by a weightless one in the same group *)
Lemma group_raw_unaligned_witness : exists ix es, ~ Forall aligned (group_edges_raw ix es).
Proof.
  exists (fun n => (0%nat, n)), [Edge 0 1 (Some (mkq 2 1)) false; Edge 1 1 None false].
  intros H. vm_compute in H. inversion H as [|? ? [A _] _]. cbn in A. discriminate.
Qed.

(* ------------------------------------------------------------------------------------------ 3. dot / indexed = edge sum *)
(* Spec of one contribution: sum over the list of (w, s, t) with t = u *)
Fixpoint tsum (tr : list triple) (sval : nat -> Qc) (u : nat) : Qc :=
  match tr with
  | [] => 0
  | (w, s, t) :: tr' => (if t =? u then w * sval s else 0) + tsum tr' sval u
  end.
Definition targets (tr : list triple) : list nat := map snd tr.
Definition sources (tr : list triple) : list nat := map (fun e => snd (fst e)) tr.

Lemma tsum_notin : forall tr sval u, ~ In u (targets tr) -> tsum tr sval u = 0.
Proof.
  induction tr as [|[[w s] t] tr IH]; intros sval u H; cbn [tsum]; [reflexivity|].
  cbn [targets map snd In] in H. destruct (Nat.eqb_spec t u) as [->|Hn]; [tauto|].
  rewrite IH by tauto. ring.
Qed.

Lemma build_add_entry : forall tr W0 r c,
  fold_left (fun W e => let '(w, s, t) := e in upd2 W t s (W t s + w)) tr W0 r c
  = W0 r c + tsum tr (fun s => if s =? c then 1 else 0) r.
Proof.
  induction tr as [|[[w s] t] tr IH]; intros W0 r c; cbn [fold_left tsum].
  - ring.
  - rewrite IH. unfold upd2.
    destruct (Nat.eqb_spec t r) as [->|Hn]; cbn [andb].
    + destruct (Nat.eqb_spec s c) as [->|Hc]; ring.
    + ring.
Qed.

Lemma qsum_map_ext : forall (f g : nat -> Qc) l, (forall c, In c l -> f c = g c) -> qsum (map f l) = qsum (map g l).
Proof. induction l; cbn [map qsum]; intros H; [reflexivity|]. rewrite H, IHl; auto with datatypes. Qed.
Lemma qsum_map_add : forall (f g : nat -> Qc) l, qsum (map (fun c => f c + g c) l) = qsum (map f l) + qsum (map g l).
Proof. induction l; cbn [map qsum]; [ring|]. rewrite IHl. ring. Qed.
Lemma qsum_map_zero : forall l : list nat, qsum (map (fun _ => 0) l) = 0.
Proof. induction l; cbn [map qsum]; [reflexivity|]. rewrite IHl. ring. Qed.

Lemma qsum_indicator : forall cols (g : nat -> Qc) s, NoDup cols -> In s cols ->
  qsum (map (fun c => (if s =? c then 1 else 0) * g c) cols) = g s.
Proof.
  induction cols as [|a cols IH]; intros g s Hnd Hin; [inversion Hin|].
  inversion Hnd as [|? ? Hna Hnd']; subst. cbn [map qsum].
  destruct Hin as [->|Hin].
  - rewrite Nat.eqb_refl.
    rewrite (qsum_map_ext _ (fun _ => 0)).
    + rewrite qsum_map_zero. ring.
    + intros c Hc. destruct (Nat.eqb_spec s c) as [->|Hb]; [contradiction|ring].
  - destruct (Nat.eqb_spec s a) as [->|Hsa]; [contradiction|].
    rewrite IH by assumption. ring.
Qed.

(* matrix path (weight matrix built with +=) = edge sum, parallel edges included *)
Lemma matvec_add_is_edge_sum : forall tr cols sval u,
  NoDup cols -> (forall s, In s (sources tr) -> In s cols) ->
  qsum (map (fun s => build_add tr u s * sval s) cols) = tsum tr sval u.
Proof.
  intros tr cols sval u Hnd Hcov. unfold build_add.
  rewrite (qsum_map_ext _ (fun c => tsum tr (fun s => if s =? c then 1 else 0) u * sval c)).
  2:{ intros c _. rewrite build_add_entry. ring. }
  induction tr as [|[[w s] t] tr IH]; cbn [tsum].
  - rewrite (qsum_map_ext _ (fun _ => 0)) by (intros; ring). apply qsum_map_zero.
  - rewrite (qsum_map_ext _ (fun c => (if t =? u then w * (if s =? c then 1 else 0) else 0) * sval c
                                + tsum tr (fun s0 => if s0 =? c then 1 else 0) u * sval c)) by (intros; ring).
    rewrite qsum_map_add. rewrite IH by (intros; apply Hcov; right; assumption). f_equal.
    destruct (Nat.eqb_spec t u) as [->|Hn].
    + rewrite (qsum_map_ext _ (fun c => (if s =? c then 1 else 0) * (w * sval c))) by (intros; destruct (s =? c); ring).
      apply qsum_indicator; [assumption|]. apply Hcov. left. reflexivity.
    + rewrite (qsum_map_ext _ (fun _ => 0)) by (intros; ring). apply qsum_map_zero.
Qed.

(* np.unique *)
Lemma ins_In : forall x y l, In y (ins x l) <-> y = x \/ In y l.
Proof.
  induction l as [|z l IH]; cbn [ins In]; [intuition congruence|].
  destruct (x <? z); cbn [In]; [intuition congruence|].
  destruct (Nat.eqb_spec x z) as [->|Hn]; cbn [In]; [intuition congruence|]. rewrite IH. intuition congruence.
Qed.

Lemma sort_u_In : forall y l, In y (sort_u l) <-> In y l.
Proof.
  induction l as [|x l IH]; cbn [sort_u fold_right In]; [tauto|].
  fold (sort_u l). rewrite ins_In, IH. split; intros [H|H]; auto.
Qed.

Fixpoint ssorted (l : list nat) : Prop :=
  match l with [] => True | x :: l' => (forall y, In y l' -> (x < y)%nat) /\ ssorted l' end.

Lemma ins_ssorted : forall x l, ssorted l -> ssorted (ins x l).
Proof.
  induction l as [|z l IH]; cbn [ins ssorted]; intros H.
  - split; [intros y []|exact I].
  - destruct H as [H1 H2]. destruct (Nat.ltb_spec x z) as [Hlt|Hge]; cbn [ssorted].
    + split; [|split; assumption]. intros y [<-|Hy]; [exact Hlt|]. specialize (H1 y Hy). lia.
    + destruct (Nat.eqb_spec x z) as [->|Hn]; cbn [ssorted]; [split; assumption|].
      split; [|apply IH; exact H2]. intros y Hy. apply ins_In in Hy as [->|Hy]; [lia|auto].
Qed.

Lemma sort_u_ssorted : forall l, ssorted (sort_u l).
Proof. induction l as [|x l IH]; cbn [sort_u fold_right]; [exact I|]. apply ins_ssorted. exact IH. Qed.

Lemma ssorted_NoDup : forall l, ssorted l -> NoDup l.
Proof.
  induction l as [|x l IH]; cbn [ssorted]; intros H; constructor.
  - intros Hin. destruct H as [H _]. specialize (H x Hin). lia.
  - apply IH. apply H.
Qed.

Lemma sort_u_NoDup : forall l, NoDup (sort_u l).
Proof. intros. apply ssorted_NoDup, sort_u_ssorted. Qed.

Lemma lookup_map : forall (F : nat -> Qc) l u,
  lookup (map (fun t => (t, F t)) l) u = if mem u l then Some (F u) else None.
Proof.
  induction l as [|t l IH]; intros u; cbn [map lookup mem]; [reflexivity|].
  rewrite (Nat.eqb_sym u t). destruct (Nat.eqb_spec t u) as [->|Hn]; cbn [orb]; [reflexivity|apply IH].
Qed.

Lemma mem_sort_u : forall u l, mem u (sort_u l) = mem u l.
Proof.
  intros. destruct (mem u l) eqn:E.
  - apply mem_In. apply sort_u_In. apply mem_In. exact E.
  - apply mem_false. rewrite sort_u_In. apply mem_false. exact E.
Qed.

(* dot branch: ANY list of edges (parallel edges, repeated targets, repeated sources) *)
Theorem dot_is_edge_sum : forall tr sval u,
  lookup (contrib_dot tr sval) u = if mem u (targets tr) then Some (tsum tr sval u) else None.
Proof.
  intros. unfold contrib_dot. rewrite lookup_map. fold (targets tr). fold (sources tr). rewrite mem_sort_u.
  destruct (mem u (targets tr)); [|reflexivity]. f_equal.
  apply matvec_add_is_edge_sum; [apply sort_u_NoDup|]. intros s Hs. apply sort_u_In. exact Hs.
Qed.

(* indexed branch: when no target index is repeated — which is exactly what the branch condition ensures *)
Lemma idx_fold : forall tr sval u acc, NoDup (targets tr) ->
  lookup (fold_left (fun a e => let '(w, s, t) := e in (t, sval s * w) :: a) tr acc) u =
  if mem u (targets tr) then Some (tsum tr sval u) else lookup acc u.
Proof.
  induction tr as [|[[w s] t] tr IH]; intros sval u acc H; cbn [fold_left targets map mem tsum snd]; [reflexivity|].
  inversion H as [|? ? Hn Hd]; subst. fold (targets tr) in *. rewrite IH by exact Hd.
  rewrite (Nat.eqb_sym u t). destruct (Nat.eqb_spec t u) as [->|Hne]; cbn [orb].
  - assert (Hm : mem u (targets tr) = false) by (apply mem_false; exact Hn). rewrite Hm.
    cbn [lookup]. rewrite Nat.eqb_refl. rewrite (tsum_notin tr sval u Hn). f_equal. ring.
  - destruct (mem u (targets tr)).
    + f_equal. ring.
    + cbn [lookup]. destruct (Nat.eqb_spec t u); [contradiction|reflexivity].
Qed.

Theorem idx_is_edge_sum : forall tr sval u, NoDup (targets tr) ->
  lookup (contrib_idx tr sval) u = if mem u (targets tr) then Some (tsum tr sval u) else None.
Proof.
  intros. unfold contrib_idx. rewrite idx_fold by assumption. destruct (mem u (targets tr)); reflexivity.
Qed.

(* ... and without that condition the indexed form is NOT the edge sum (what the seeded bug "indexed branch with
   duplicates" would compute): two edges into one unit, the later assignment overwrites the earlier *)
Lemma idx_with_duplicates_refuted : exists tr sval u,
  lookup (contrib_idx tr sval) u <> Some (tsum tr sval u) /\ lookup (contrib_dot tr sval) u = Some (tsum tr sval u).
Proof.
  exists [(mkq 2 1, 0%nat, 0%nat); (mkq 3 1, 1%nat, 0%nat)], (fun _ => mkq 1 1), 0%nat.
  split; [|rewrite dot_is_edge_sum; reflexivity].
  intros H. apply (f_equal (fun o => match o with Some v => Qc_eqb v (mkq 5 1) | None => false end)) in H.
  vm_compute in H. discriminate.
Qed.

(* 4. the branch choice (matrix_sparseness threshold) is semantics-preserving *)
Definition aligned_m (m : mrg) : Prop := length (mw m) = length (ms m) /\ length (ms m) = length (mt m).
Definition mtriples (m : mrg) : list triple := zip3 (mw m) (ms m) (mt m).

Lemma zip3_targets : forall w s t, length w = length s -> length s = length t -> targets (zip3 w s t) = t.
Proof.
  induction w as [|a w IH]; intros [|b s] [|c t] H1 H2; cbn in *; try discriminate; [reflexivity|].
  f_equal. apply IH; lia.
Qed.

Theorem contrib_is_edge_sum : forall tsize ssize m sval a u, aligned_m m ->
  contrib tsize ssize m sval = Some a ->
  lookup a u = if mem u (mt m) then Some (tsum (mtriples m) sval u) else None.
Proof.
  intros tsize ssize m sval a u [A B] H. unfold contrib in H.
  assert (T : targets (mtriples m) = mt m) by (apply zip3_targets; assumption).
  destruct (dot_edge tsize ssize (mt m)) eqn:D.
  - inversion H; subst. rewrite dot_is_edge_sum. fold (mtriples m). rewrite T. reflexivity.
  - destruct ((ssize =? 1) && (1 <? length (mt m))); [discriminate|]. inversion H; subst.
    unfold dot_edge in D. apply orb_false_iff in D as [D _]. apply negb_false_iff in D.
    fold (mtriples m). rewrite idx_is_edge_sum; rewrite T; [reflexivity|]. apply nodupb_NoDup. exact D.
Qed.

(* the indexed branch is taken only when no target index is repeated *)
Theorem indexed_branch_condition : forall tsize ssize ti, dot_edge tsize ssize ti = false -> NoDup ti.
Proof.
  intros tsize ssize ti D. unfold dot_edge in D. apply orb_false_iff in D as [D _].
  apply negb_false_iff in D. apply nodupb_NoDup. exact D.
Qed.

(* ------------------------------------------------------------------------------------------ 5. several sources, default *)
Definition hits (u : nat) (m : mrg) : bool := mem u (mt m).

Fixpoint msum (ml : list mrg) (sval : mrg -> nat -> Qc) (u : nat) : Qc :=
  match ml with [] => 0 | m :: ml' => tsum (mtriples m) (sval m) u + msum ml' sval u end.

Lemma all_some_cons : forall {A} (o : option A) l r, all_some (o :: l) = Some r ->
  exists a r', o = Some a /\ all_some l = Some r' /\ r = a :: r'.
Proof.
  intros A o l r H. cbn [all_some] in H. destruct o as [a|]; [|discriminate].
  destruct (all_some l) as [r'|]; [|discriminate]. inversion H. eauto.
Qed.

Lemma zero_buffer_sum : forall tsize ssize sval ml cs u, Forall aligned_m ml ->
  all_some (map (fun m => contrib tsize (ssize m) m (sval m)) ml) = Some cs ->
  qsum (map (fun a => match lookup a u with Some v => v | None => 0 end) cs) = msum ml sval u.
Proof.
  induction ml as [|m ml IH]; intros cs u HA H.
  - cbn in H. inversion H. reflexivity.
  - cbn [map] in H. apply all_some_cons in H as (a & r' & H1 & H2 & ->).
    inversion HA as [|? ? Hm Hml]; subst. cbn [map qsum msum].
    rewrite (contrib_is_edge_sum _ _ _ _ _ u Hm H1). rewrite (IH _ _ Hml H2). f_equal.
    destruct (mem u (mt m)) eqn:E; [reflexivity|].
    symmetry. apply tsum_notin. unfold mtriples. rewrite zip3_targets by apply Hm. apply mem_false. exact E.
Qed.

Lemma msum_nohit : forall ml sval u, Forall aligned_m ml -> existsb (hits u) ml = false -> msum ml sval u = 0.
Proof.
  induction ml as [|m ml IH]; intros sval u HA H; cbn [msum]; [reflexivity|].
  cbn [existsb] in H. apply orb_false_iff in H as [H1 H2]. inversion HA as [|? ? Hm Hml]; subst.
  rewrite IH by assumption. rewrite tsum_notin; [ring|].
  unfold mtriples. rewrite zip3_targets by apply Hm. apply mem_false. exact H1.
Qed.

(* Input of target unit u of a vector node, from the merged per-source lists `ml`:
   - if some edge reaches u: the sum over ALL merged edge lists of w * source value      (dot/indexed choice, `+` of buffers)
   - otherwise the declared default, PROVIDED there are fewer than two source vector nodes or the default is 0 *)
Theorem input_is_edge_sum : forall tsize ssize sval ml cs rdef u, Forall aligned_m ml ->
  all_some (map (fun m => contrib tsize (ssize m) m (sval m)) ml) = Some cs ->
  ((length ml < 2)%nat \/ rdef = 0 \/ existsb (hits u) ml = true) ->
  input_of cs rdef u = if existsb (hits u) ml then msum ml sval u else rdef.
Proof.
  intros tsize ssize sval ml cs rdef u HA H G.
  destruct ml as [|m1 [|m2 ml]].
  - cbn in H. inversion H. reflexivity.
  - cbn [map] in H. apply all_some_cons in H as (a & r' & H1 & H2 & ->). cbn in H2. inversion H2; subst.
    inversion HA as [|? ? Hm _]; subst. cbn [input_of existsb msum hits].
    rewrite (contrib_is_edge_sum _ _ _ _ _ u Hm H1). rewrite orb_false_r.
    unfold hits. destruct (mem u (mt m1)); [ring|reflexivity].
  - assert (L : exists a b cs', cs = a :: b :: cs').
    { cbn [map] in H. apply all_some_cons in H as (a & r' & _ & H2 & ->).
      apply all_some_cons in H2 as (b & r'' & _ & _ & ->). eauto. }
    destruct L as (a & b & cs' & ->). cbn [input_of].
    rewrite (zero_buffer_sum _ _ _ _ _ u HA H).
    destruct (existsb (hits u) (m1 :: m2 :: ml)) eqn:E; [reflexivity|].
    rewrite msum_nohit by assumption.
    destruct G as [G|[G|G]]; [cbn in G; lia|symmetry; exact G|discriminate].
Qed.

(* D14: with two or more source vector nodes an unconnected unit gets 0, whatever its default *)
Theorem unconnected_unit_gets_zero : forall tsize ssize sval ml cs rdef u, Forall aligned_m ml ->
  all_some (map (fun m => contrib tsize (ssize m) m (sval m)) ml) = Some cs ->
  (2 <= length ml)%nat -> existsb (hits u) ml = false -> input_of cs rdef u = 0.
Proof.
  intros tsize ssize sval ml cs rdef u HA H L E.
  destruct ml as [|m1 [|m2 ml]]; [cbn in L; lia|cbn in L; lia|].
  assert (X : exists a b cs', cs = a :: b :: cs').
  { cbn [map] in H. apply all_some_cons in H as (a & r' & _ & H2 & ->).
    apply all_some_cons in H2 as (b & r'' & _ & _ & ->). eauto. }
  destruct X as (a & b & cs' & ->). cbn [input_of].
  rewrite (zero_buffer_sum _ _ _ _ _ u HA H). apply msum_nohit; assumption.
Qed.

(* ------------------------------------------------------------------------------------------ 6. _finalize_var_def *)
Lemma all_eqb_nth : forall a l i, all_eqb a l = true -> (i < length l)%nat -> nth i l 0 = a.
Proof.
  induction l as [|b l IH]; intros i H Hi; cbn in Hi; [lia|].
  cbn [all_eqb forallb] in H. apply andb_true_iff in H as [H1 H2]. apply Qc_eqb_eq in H1. subst b.
  destruct i; [reflexivity|]. apply IH; [exact H2|lia].
Qed.

(* collapsing a constant vector with one distinct value to a scalar preserves every element under broadcasting *)
Theorem finalize_preserves : forall l i, (i < length l)%nat -> bget (finalize l) i = nth i l 0.
Proof.
  intros [|a l] i Hi; [cbn in Hi; lia|]. unfold finalize.
  destruct (all_eqb a l) eqn:E; [|reflexivity]. cbn [bget].
  destruct i; [reflexivity|]. cbn [nth]. symmetry. apply all_eqb_nth; [exact E|cbn in Hi; lia].
Qed.

(* collapsing a vector whose values are not all equal does not (seeded bug "collapse") *)
Lemma collapse_unequal_refuted : exists l i, (i < length l)%nat /\ bget (CScalar (hd 0 l)) i <> nth i l 0.
Proof.
  exists [mkq 1 2; mkq 2 1], 1%nat. split; [cbn; lia|]. cbn [bget hd nth]. intros H.
  apply (f_equal (fun v => Qc_eqb v (mkq 2 1))) in H. vm_compute in H. discriminate.
Qed.

(* ------------------------------------------------------------------------------------------ 7. composed statement at the level of one target unit *)
Definition default_survives_at (ml : list mrg) (rdef : Qc) (u : nat) : bool :=
  (length ml <? 2)%nat || Qc_eqb rdef 0 || existsb (hits u) ml.

Theorem input_partial : forall tsize ssize sval ml cs rdef u, Forall aligned_m ml ->
  all_some (map (fun m => contrib tsize (ssize m) m (sval m)) ml) = Some cs ->
  default_survives_at ml rdef u = true ->
  input_of cs rdef u = if existsb (hits u) ml then msum ml sval u else rdef.
Proof.
  intros tsize ssize sval ml cs rdef u HA H G. apply (input_is_edge_sum tsize ssize sval ml cs rdef u HA H).
  unfold default_survives_at in G. apply orb_true_iff in G as [G|G]; [apply orb_true_iff in G as [G|G]|].
  - left. apply Nat.ltb_lt. exact G.
  - right. left. apply Qc_eqb_eq. exact G.
  - right. right. exact G.
Qed.

(* ------------------------------------------------------------------------------------------ 8. whole-circuit witnesses *)
Lemma qlist_eqb_refl : forall l, qlist_eqb l l = true.
Proof. induction l as [|a l IH]; cbn [qlist_eqb]; [reflexivity|]. rewrite Qc_eqb_refl, IH. reflexivity. Qed.

Lemma qlist_eqb_eq : forall a b, qlist_eqb a b = true -> a = b.
Proof.
  induction a as [|x a IH]; intros [|y b] H; cbn [qlist_eqb] in H; try discriminate; [reflexivity|].
  apply andb_true_iff in H as [H1 H2]. apply Qc_eqb_eq in H1. rewrite (IH b H2), H1. reflexivity.
Qed.

Lemma oq_eqb_eq : forall a b, oq_eqb a b = true -> a = b.
Proof. intros [a|] [b|] H; cbn in H; try discriminate; [f_equal; apply qlist_eqb_eq; exact H|reflexivity]. Qed.

Lemma oq_eqb_neq : forall a b, oq_eqb a b = false -> a <> b.
Proof.
  intros a b H E. subst b. destruct a as [a|]; cbn in H; [rewrite qlist_eqb_refl in H|]; discriminate.
Qed.

Ltac witness :=
  repeat (match goal with |- _ /\ _ => split end);
  first [ vm_compute; reflexivity
        | apply oq_eqb_eq; vm_compute; reflexivity
        | apply oq_eqb_neq; vm_compute; reflexivity
        | apply Qc_eqb_eq; vm_compute; reflexivity
        | apply qlist_eqb_eq; vm_compute; reflexivity ].

Definition q (n : Z) : Qc := mkq n 1.
(* x' = r - x  (default of r: d) *)
Definition clsA (d : Qc) : cls := Cls [Mono (q 1) 0 0 1; Mono (q (-1)) 1 0 0] None d.
(* x' = 2*k*r - x *)
Definition clsB : cls := Cls [Mono (q 2) 0 1 1; Mono (q (-1)) 1 0 0] None 0.
(* x' = r - 2*x *)
Definition clsC : cls := Cls [Mono (q 1) 0 0 1; Mono (q (-2)) 1 0 0] None 0.
(* m = 2*x + k ; x' = r - x + k *)
Definition clsG : cls := Cls [Mono (q 1) 0 0 1; Mono (q (-1)) 1 0 0; Mono (q 1) 0 1 0] (Some [Mono (q 2) 1 0 0; Mono (q 1) 0 1 0]) 0.

(* D14 (corpus/C04/D14_default_lost.json): three merged targets with default 7, two source classes, node 2 unconnected *)
Definition w_d14 : circuit :=
  Circ [clsA (q 7); clsB; clsC]
       [Node 0 (q 1); Node 0 (q 1); Node 0 (q 1); Node 1 (mkq 1 2); Node 2 (q 1)]
       [Edge 3 0 (Some (q 2)) false; Edge 4 1 (Some (q 3)) false].
Definition st_d14 : list Qc := [q 1; q 2; q 3; mkq 1 2; q (-1)].

Lemma refuted_default :
  wf w_d14 = true /\ no_constant_rhs w_d14 = true /\ single_source_var w_d14 = true /\ no_scalar_fanout w_d14 = true /\
  default_survives w_d14 = false /\
  impl false w_d14 st_d14 = Some (spec w_d14 st_d14) /\
  impl true w_d14 st_d14 <> Some (spec w_d14 st_d14) /\
  (* the unconnected node 2: 7 - 3 = 4 by the edge list, 0 - 3 = -3 vectorized *)
  nth 2 (spec w_d14 st_d14) 0 = q 4 /\ impl true w_d14 st_d14 = Some [q 0; q (-5); q (-3); mkq (-1) 2; q 2].
Proof. witness. Qed.

(* D3 (corpus/C04/D03_two_source_vars.json): n0/x and n1/m of one class into n2/r *)
Definition w_d03 : circuit :=
  Circ [clsG; clsC] [Node 0 (q 1); Node 0 (q 3); Node 1 (q 1)] [Edge 0 2 (Some (q 1)) false; Edge 1 2 (Some (q 1)) true].
Definition st_d03 : list Qc := [q 1; q 2; q 5].

Lemma refuted_source_var :
  wf w_d03 = true /\ default_survives w_d03 = true /\ no_constant_rhs w_d03 = true /\ no_scalar_fanout w_d03 = true /\
  single_source_var w_d03 = false /\
  impl false w_d03 st_d03 = Some (spec w_d03 st_d03) /\ impl true w_d03 st_d03 <> Some (spec w_d03 st_d03).
Proof. witness. Qed.

(* D21 (corpus/C04/D21_constant_rhs.json): x' = -1 - x + x on two nodes: Err when vectorized, fine otherwise *)
Definition w_d21 : circuit :=
  Circ [Cls [Mono (q (-1)) 0 0 0; Mono (q (-1)) 1 0 0; Mono (q 1) 1 0 0] None 0] [Node 0 (q 1); Node 0 (q 2)] [].
Lemma err_constant_rhs :
  wf w_d21 = true /\ no_constant_rhs w_d21 = false /\ impl true w_d21 [q 1; q 2] = None /\
  impl false w_d21 [q 1; q 2] = Some (spec w_d21 [q 1; q 2]).
Proof. witness. Qed.

(* D32 (corpus/C04/D32_scalar_fanout.json): one node of a single-unit class to 10 nodes of one class *)
Definition w_d32 : circuit :=
  Circ [clsA 0; clsB] (Node 1 (mkq 1 2) :: repeat (Node 0 (q 1)) 10)
       (map (fun i => Edge 0 (S i) (Some (q (Z.of_nat (S i)))) false) (seq 0 10)).
Definition st_d32 : list Qc := map (fun i => q (Z.of_nat i)) (seq 0 11).
Lemma err_scalar_fanout :
  wf w_d32 = true /\ no_scalar_fanout w_d32 = false /\ impl true w_d32 st_d32 = None /\
  impl false w_d32 st_d32 = Some (spec w_d32 st_d32).
Proof. witness. Qed.

(* the full-strength statement and its refutation *)
Definition full_statement : Prop := forall c st, wf c = true -> length st = length (cnodes c) ->
  impl true c st = Some (spec c st) /\ impl false c st = Some (spec c st).

Lemma full_statement_refuted : ~ full_statement.
Proof.
  intros F. destruct (F w_d14 st_d14) as [H _]; [vm_compute; reflexivity|reflexivity|].
  destruct refuted_default as (_ & _ & _ & _ & _ & _ & N & _). exact (N H).
Qed.

(* the end-to-end statement under the guards (NOT proved here: the merge of the per-unit theorems above with the
   regrouping of the edge list by (source class, target class) is not mechanised; every generated circuit that
   satisfies the guards is checked against it by the correspondence run) *)
Definition guarded_statement : Prop := forall c st, wf c = true -> guard c = true -> length st = length (cnodes c) ->
  impl true c st = Some (spec c st) /\ impl false c st = Some (spec c st).

(* non-vacuity: a circuit inside all guards with two classes, merged units, fan-in from two classes, parallel edges,
   a self-connection, an algebraic source and edges without a weight entry (one after a weighted edge of its group); Impl (both modes) = Spec *)
Definition w_ok : circuit :=
  Circ [clsA 0; clsG]
       [Node 0 (q 1); Node 1 (mkq 1 2); Node 0 (q 2); Node 1 (q 3); Node 0 (mkq 3 2)]
       [Edge 1 0 (Some (q 2)) true; Edge 3 0 (Some (mkq 1 2)) true; Edge 1 0 None true; Edge 0 2 (Some (q (-1))) false; Edge 2 2 (Some (q 3)) false;
        Edge 4 1 (Some (q 1)) false; Edge 3 3 (Some (q 2)) true; Edge 2 4 (Some (mkq 1 4)) false; Edge 1 4 (Some (q 5)) true; Edge 0 3 None false].
Definition st_ok : list Qc := [q 1; mkq (-1) 2; q 2; mkq 3 4; q (-3)].
Lemma nonvacuous :
  wf w_ok = true /\ guard w_ok = true /\
  impl true w_ok st_ok = Some (spec w_ok st_ok) /\ impl false w_ok st_ok = Some (spec w_ok st_ok) /\
  spec w_ok st_ok = [mkq (-1) 4; q (-2); q 3; mkq 49 4; q 1].
Proof. witness. Qed.
