(* Edges.v — Impl of C01 (vectorize=False): what PyRates DOES with the edges that reach an input variable, and
   how it lays out the state vector.  Definitions only; proofs in EdgesProofs.v.  Mirrors, step by step:

   1 group      frontend/template/circuit.py:_group_edges — fold over the collect_edges order; dict keyed by
                (source variable, target variable[, template = None, delayed = False]); the aligned lists weight /
                source_idx / target_idx are extended.  Scalar mode: every node is its own vector node of length 1,
                so every unit index is 0.  (The model groups the edges into one target variable; the key contains the
                target, so restricting first and grouping afterwards is the same dict restricted to that target.)
   2 merge      ir/circuit.py:_collect_from_edges — all grouped edges that reach one target variable are merged in
                a dict keyed by source node AND source variable (fix D59; before it, `fixed_D3 = false`: by the SOURCE NODE only): `source_var` is a string, so the FIRST one stays, while weight,
                source_idx and target_idx are extended (defect D3: a second variable of the same node is dropped and
                its weight is applied to the first variable).  Order of the source nodes: first appearance among the
                edges into this target variable (the code: MultiDiGraph predecessor order of the target node; this only
                changes the numbering of the `_in{i}` names and the order of an exact sum).
   3 one source _generate_edge_equation 893-958: duplicates in target_idx -> matrix branch: weight_mat[row, col] += w
                over np.unique(target_idx) x np.unique(source_idx), then matvec (fix D02 made it `+=`; `build_set` is
                the old overwrite, kept for the refutation); no duplicates -> indexed branch
                target[tidx[k]] = source[sidx[k]] * weight[k].  (The sparseness test `n*m > 1 and tsize*ssize > 1`
                is false in scalar mode.)
   4 sources    960-965: several source nodes: tvar = tvar_in0 + tvar_in1 + ..., buffers zero-initialised; one source
                node: the assigned value, else the declared default.
   5 wire       _collect_ops 1477-1508 / _map_multiple_inputs: the sources of an operator input are the same-node
                producers plus the in_edge operator; none -> the variable stays a constant argument (default);
                one -> mapped directly; several -> unique labels l1..lk, the equation text is rewritten
                `replace(eq, var, "(l1+...+lk)")` (fix D01: `var`, not the stale loop variable `var_name`).
                `rewrite_input` below is that rewrite; EdgesProofs.substitute_input_term shows that with fresh labels
                it evaluates to the sum of the sources, which is what `input_impl` returns.
   6 layout     backend/computegraph.py:to_func 372-387: idx = 0; for each DE: vshape > 1 -> (idx, idx+vshape),
                idx += vshape; else idx, idx += 1.

   The model computes values as if all generated names (variables of the in_edge operator, labels) were fresh.  Since
   fixes D83 / D84 the code guarantees that (before them, `guard_names` / `guard_labels` delimited the networks in which
   generated and user names did not clash; with the switches fixed_D22 / fixed_D22b on both guards are `true`). *)
From Coq Require Import List String Ascii ZArith QArith Qcanon Bool Arith.
From PV Require Import Expr Net.
Import ListNotations.
Open Scope string_scope.

(* ---------------------------------------------------------------------------------------------- dict with insertion order *)
Fixpoint insert_group {K V} (eqb : K -> K -> bool) (k : K) (v : V) (g : list (K * list V)) : list (K * list V) :=
  match g with
  | [] => [(k, [v])]
  | (k', vs) :: g' => if eqb k k' then (k', app vs [v]) :: g' else (k', vs) :: insert_group eqb k v g'
  end.
Definition group_by {A K} (eqb : K -> K -> bool) (key : A -> K) (l : list A) : list (K * list A) :=
  fold_left (fun g a => insert_group eqb (key a) a g) l [].

(* ---------------------------------------------------------------------------------------------- 1 group *)
Record gedge := { gsrc : vid; gtgt : vid; gw : list Qc; gsidx : list nat; gtidx : list nat }.
Definition key2_eqb (a b : vid * vid) : bool := vid_eqb (fst a) (fst b) && vid_eqb (snd a) (snd b).
Definition mk_gedge (p : (vid * vid) * list edge) : gedge :=
  {| gsrc := fst (fst p); gtgt := snd (fst p); gw := map ew (snd p);
     gsidx := map (fun _ => O) (snd p); gtidx := map (fun _ => O) (snd p) |}.
Definition group_edges (es : list edge) : list gedge :=
  map mk_gedge (group_by key2_eqb (fun e => (esrc e, etgt e)) es).

(* ---------------------------------------------------------------------------------------------- 2 merge *)
(* THE MODEL SWITCH for defect D3: true = the code as it is since fix D59 (/verif/fixes/fix_D59.diff: dict keyed by source
   node AND source variable); false = the code before it (keyed by the source NODE only).  c01.py reads this line too. *)
Definition fixed_D3 : bool := true.

Record merged := { msrc : vid; mw : list Qc; msidx : list nat; mtidx : list nat }.
Definition merge_key (g : gedge) : vid := if fixed_D3 then gsrc g else (vnode (gsrc g), "", "").
Definition first_src (k : vid) (l : list gedge) : vid :=
  match l with g :: _ => gsrc g | [] => k end.
Definition mk_merged (p : vid * list gedge) : merged :=
  {| msrc := first_src (fst p) (snd p); mw := flat_map gw (snd p);
     msidx := flat_map gsidx (snd p); mtidx := flat_map gtidx (snd p) |}.
Definition merge_groups (ges : list gedge) : list (vid * list gedge) := group_by vid_eqb merge_key ges.
Definition collect_from_edges (ges : list gedge) : list merged := map mk_merged (merge_groups ges).

(* ---------------------------------------------------------------------------------------------- 3 one source node *)
Definition uedge := (nat * nat * Qc)%type.                  (* target unit, source unit, weight *)
Fixpoint zip3 (t s : list nat) (w : list Qc) : list uedge :=
  match t, s, w with
  | a :: t', b :: s', c :: w' => (a, b, c) :: zip3 t' s' w'
  | _, _, _ => []
  end.
Definition upd2 (W : nat -> nat -> Qc) (r c : nat) (v : Qc) : nat -> nat -> Qc :=
  fun r' c' => if (Nat.eqb r r' && Nat.eqb c c')%bool then v else W r' c'.
(* weight_mat[row, col] += w   (as the code is now) *)
Definition build_add (es : list uedge) : nat -> nat -> Qc :=
  fold_left (fun W (e : uedge) => let '(t, s, w) := e in upd2 W t s (W t s + w)%Qc) es (fun _ _ => 0%Qc).
(* weight_mat[row, col] = w    (before fix D02) *)
Definition build_set (es : list uedge) : nat -> nat -> Qc :=
  fold_left (fun W (e : uedge) => let '(t, s, w) := e in upd2 W t s w) es (fun _ _ => 0%Qc).
Definition matvec_row (W : nat -> nat -> Qc) (cols : list nat) (x : nat -> Qc) (r : nat) : Qc :=
  qsum (map (fun c => (W r c * x c)%Qc) cols).
Definition unique (l : list nat) : list nat := nodup Nat.eq_dec l.      (* np.unique up to order *)
Fixpoint has_dup (l : list nat) : bool :=
  match l with [] => false | a :: l' => existsb (Nat.eqb a) l' || has_dup l' end.

(* the value assigned to target unit u (None: not assigned), x = source vector *)
Definition dot_contrib (es : list uedge) (x : nat -> Qc) (u : nat) : option Qc :=
  let tu := unique (map (fun e : uedge => fst (fst e)) es) in
  let su := unique (map (fun e : uedge => snd (fst e)) es) in
  if existsb (Nat.eqb u) tu then Some (matvec_row (build_add es) su x u) else None.
(* target[tidx[k]] = source[sidx[k]] * weight[k]: fancy-index assignment, last write wins *)
Definition index_contrib (es : list uedge) (x : nat -> Qc) (u : nat) : option Qc :=
  fold_left (fun acc (e : uedge) => let '(t, s, w) := e in if Nat.eqb t u then Some (x s * w)%Qc else acc) es None.
Definition contrib (m : merged) (x : nat -> Qc) (u : nat) : option Qc :=
  let es := zip3 (mtidx m) (msidx m) (mw m) in
  if has_dup (mtidx m) then dot_contrib es x u else index_contrib es x u.

(* Spec of the same thing: Σ over the unit edges into u of weight * source *)
Fixpoint edge_sum (es : list uedge) (x : nat -> Qc) (u : nat) : Qc :=
  match es with
  | [] => 0%Qc
  | (t, s, w) :: es' => ((if Nat.eqb t u then w * x s else 0) + edge_sum es' x u)%Qc
  end.

(* ---------------------------------------------------------------------------------------------- 4 several source nodes *)
Definition or_default (a : option Qc) (d : Qc) : Qc := match a with Some q => q | None => d end.
(* value of the in_edge operator's output for target unit 0; sv = value of a source variable *)
Definition edge_value (sv : vid -> option Qc) (ms : list merged) (dflt : Qc) : option Qc :=
  match ms with
  | [m] => obind (sv (msrc m)) (fun xv => Some (or_default (contrib m (fun _ => xv) O) dflt))
  | _ => osum (map (fun m => obind (sv (msrc m)) (fun xv => Some (or_default (contrib m (fun _ => xv) O) 0%Qc))) ms)
  end.

(* ---------------------------------------------------------------------------------------------- 5 wire the operator input *)
Definition merged_into (n : net) (v : vid) : list merged := collect_from_edges (group_edges (in_edges n v)).

Definition input_impl (n : net) (pa : vid -> Qc) : input_rule := fun sv v prods =>
  let ms := merged_into n v in
  let sources := app (map sv prods) (match ms with [] => [] | _ => [edge_value sv ms (pa v)] end) in
  match sources with
  | [] => Some (pa v)
  | [x] => x
  | _ => osum sources
  end.

(* the textual side of `several sources`: labels and the rewritten right-hand side *)
Definition rewrite_input (a : string) (labels : list string) (e : expr) : expr := subst a (sum_term labels) e.

Definition value_impl (n : net) (st pa : vid -> Qc) : vid -> option Qc := value_with n st pa (input_impl n pa) (fuel_of n).
Definition deriv_impl (n : net) (st pa : vid -> Qc) : vid -> option Qc := deriv_with n st pa (input_impl n pa) (fuel_of n).

(* the same mechanism with the D3 switch as a PARAMETER (fx = false: dict keyed by the source node only, the code before fix
   D59; fx = true: keyed by source node and source variable).  `deriv_impl` above is `deriv_impl_gen fixed_D3` by conversion
   (EdgesProofs.deriv_impl_gen_is_model), so statements about `deriv_impl_gen false` are statements about the former mechanism,
   evaluated by Coq, not conditional records. *)
Definition merge_key_gen (fx : bool) (g : gedge) : vid := if fx then gsrc g else (vnode (gsrc g), "", "").
Definition merge_groups_gen (fx : bool) (ges : list gedge) : list (vid * list gedge) := group_by vid_eqb (merge_key_gen fx) ges.
Definition collect_from_edges_gen (fx : bool) (ges : list gedge) : list merged := map mk_merged (merge_groups_gen fx ges).
Definition merged_into_gen (fx : bool) (n : net) (v : vid) : list merged :=
  collect_from_edges_gen fx (group_edges (in_edges n v)).
Definition input_impl_gen (fx : bool) (n : net) (pa : vid -> Qc) : input_rule := fun sv v prods =>
  let ms := merged_into_gen fx n v in
  let sources := app (map sv prods) (match ms with [] => [] | _ => [edge_value sv ms (pa v)] end) in
  match sources with
  | [] => Some (pa v)
  | [x] => x
  | _ => osum sources
  end.
Definition deriv_impl_gen (fx : bool) (n : net) (st pa : vid -> Qc) : vid -> option Qc :=
  deriv_with n st pa (input_impl_gen fx n pa) (fuel_of n).

(* ---------------------------------------------------------------------------------------------- 6 layout *)
Fixpoint layout_from {A} (idx : nat) (vars : list (A * nat)) : list (A * (nat * nat)) :=
  match vars with
  | [] => []
  | (v, vshape) :: r =>
      let w := if (1 <? vshape)%nat then vshape else 1%nat in
      (v, (idx, idx + w)%nat) :: layout_from (idx + w)%nat r
  end.
Definition layout {A} (vars : list (A * nat)) := layout_from O vars.

(* ---------------------------------------------------------------------------------------------- 7 evaluation order *)
(* backend/computegraph.py:_sort_var_updates (non-DE updates): repeated passes over the remaining updates in dict order;
   an update is emitted when none of the names its right-hand side reads is the left-hand side of ANOTHER update that is
   still remaining (node_names shrinks inside the pass as updates are emitted); a pass that emits nothing stops the loop
   and the mutually dependent rest is appended as it is (flag false).  The next pass starts from the names of the
   remaining updates (with pairwise distinct left-hand sides that is what node_names holds).  Generic in the payload. *)
Section SortUpdates.
  Variable A : Type.
  Variable lhs_of : A -> string.
  Variable deps_of : A -> list string.

  Definition memb (x : string) (l : list string) : bool := existsb (String.eqb x) l.
  Definition dependent (q : A) (names : list string) : bool :=
    existsb (fun i => memb i names && negb (String.eqb i (lhs_of q))) (deps_of q).
  Fixpoint remove1 (x : string) (l : list string) : list string :=
    match l with [] => [] | y :: r => if String.eqb x y then r else y :: remove1 x r end.
  Fixpoint sort_pass (todo : list A) (names : list string) : list A * list A * list string :=
    match todo with
    | [] => ([], [], names)
    | q :: r =>
        if dependent q names
        then let '(e, s, nm) := sort_pass r names in (e, q :: s, nm)
        else let '(e, s, nm) := sort_pass r (remove1 (lhs_of q) names) in (q :: e, s, nm)
    end.
  Fixpoint sort_updates (fuel : nat) (rem : list A) : list A * bool :=
    match rem with
    | [] => ([], true)
    | _ =>
        match fuel with
        | O => (rem, false)
        | S f =>
            let '(e, s, _) := sort_pass rem (map lhs_of rem) in
            if (List.length s =? List.length rem)%nat then (rem, false)
            else let '(out, ok) := sort_updates f s in (app e out, ok)
        end
    end.
End SortUpdates.

(* the flat assignment program that the generated function executes for the algebraic updates *)
Definition assign := (string * expr)%type.
Definition set_env (env : string -> option Qc) (x : string) (v : option Qc) : string -> option Qc :=
  fun y => if String.eqb y x then v else env y.
Fixpoint run_assigns (prog : list assign) (env : string -> option Qc) : string -> option Qc :=
  match prog with
  | [] => env
  | (x, e) :: r => run_assigns r (set_env env x (eval env e))
  end.
Definition sort_assigns (prog : list assign) : list assign * bool :=
  sort_updates assign fst (fun p => fv (snd p)) (List.length prog) prog.

(* ---------------------------------------------------------------------------------------------- guards *)
(* D3: within every merge group all grouped edges carry the same source variable *)
Definition d3_ok (n : net) (v : vid) : bool :=
  forallb (fun p : vid * list gedge => forallb (fun g => vid_eqb (gsrc g) (first_src (fst p) (snd p))) (snd p))
          (merge_groups (group_edges (in_edges n v))).
Definition guard_d3 (n : net) : bool := forallb (fun e => d3_ok n (etgt e)) (nedges n).

(* names inside the generated in_edge operator *)
Fixpoint strip_prefix (p s : string) : option string :=
  match p with
  | EmptyString => Some s
  | String c p' => match s with String d s' => if Ascii.eqb c d then strip_prefix p' s' else None | EmptyString => None end
  end.
Definition is_digit (c : ascii) : bool := (48 <=? nat_of_ascii c)%nat && (nat_of_ascii c <=? 57)%nat.
Fixpoint all_digits (s : string) : bool :=
  match s with EmptyString => true | String c s' => is_digit c && all_digits s' end.
(* x = a ++ "_v" ++ <digits> : the shape of a label that ComputeGraph._generate_unique_label hands out for a *)
Definition is_vk_of (a x : string) : bool :=
  match strip_prefix (a ++ "_v") x with
  | Some r => negb (String.eqb r "") && all_digits r
  | None => false
  end.
Definition digit_str (i : nat) : string := String (ascii_of_nat (48 + i)) EmptyString.
Definition vvar (v : vid) : string := snd v.

Definition names_ok (n : net) (v : vid) : bool :=
  let ms := merged_into n v in
  let svars := map (fun m => vvar (msrc m)) ms in
  let k := List.length ms in
  let B := vvar v :: "weight" :: svars in
  (k <? 10)%nat &&
  negb (existsb (String.eqb (vvar v)) svars) && negb (existsb (String.eqb "weight") svars) && negb (String.eqb (vvar v) "weight") &&
  forallb (fun x => forallb (fun z => negb (is_vk_of z x) &&
                                      forallb (fun j => negb (String.eqb x (z ++ "_in" ++ digit_str j))) (seq 0 k)) B) B.
(* MODEL SWITCHES for the two name-clash classes (read by c01.py as well): true = the repair is in the code
   (fix D83, /verif/fixes/fix_D83.diff: generated in-edge names are made unique against the target name and one another;
    fix D84, /verif/fixes/fix_D84.diff: labels written into an operator's equations avoid the operator's variable names).
   With a switch on, the corresponding guard holds of every network (the generated names are fresh, as the model assumes). *)
Definition fixed_D22 : bool := true.
Definition fixed_D22b : bool := true.
Definition guard_names (n : net) : bool := fixed_D22 || forallb (fun e => names_ok n (etgt e)) (nedges n).

(* An operator input `a` with >= 2 sources (same-node producers, plus the in_edge operator if any edge reaches it) is rewritten
   TEXTUALLY: `replace(eq, a, "(l1+...+lk)")` with the backend labels of the sources, which have the shape a or a_v<k>
   (_generate_unique_label).  If the operator owns a variable with such a name, label and user variable are one identifier in
   the rewritten equation (EdgesProofs.label_clash_refuted).  Since fix D80 (replace_in_expr replaces exact sub-trees only)
   this is the only remaining way for `a` and `a_v<k>` to be confused; inputs with fewer than 2 sources are not rewritten. *)
Definition guard_labels (n : net) : bool :=
  fixed_D22b ||
  forallb (fun p : string * list oper =>
    forallb (fun o =>
      forallb (fun d =>
        match vk d with
        | VInput =>
            let k := (List.length (producers (fst p) (snd p) (vname d)) +
                      match in_edges n (fst p, oname o, vname d) with [] => 0 | _ => 1 end)%nat in
            (k <? 2)%nat || negb (existsb (fun d' => is_vk_of (vname d) (vname d')) (ovars o))
        | _ => true
        end) (ovars o)) (snd p)) (nnodes n).

(* guard_d3 is no longer part of the guard: since fix D59 it holds of every network (EdgesProofs.guard_d3_when_fixed);
   the former guard_parser (sum-substituted input of degree >= 3, equal coefficients on x^2 and x^3) is gone since fix D80 *)
Definition guard (n : net) : bool := guard_names n && guard_labels n.

(* ---------------------------------------------------------------------------------------------- harness helpers *)
(* observed state map: positions pairwise distinct, inside the state vector, exactly the declared state variables *)
Fixpoint nodup_nat (l : list nat) : bool :=
  match l with [] => true | a :: l' => negb (existsb (Nat.eqb a) l') && nodup_nat l' end.
Definition layout_ok (n : net) (ny : nat) (smap : list (vid * nat)) : bool :=
  nodup_nat (map snd smap) && forallb (fun p => (snd p <? ny)%nat) smap &&
  (List.length smap =? List.length (state_vars n))%nat && (ny =? List.length (state_vars n))%nat &&
  forallb (fun v => existsb (fun p => vid_eqb (fst p) v) smap) (state_vars n).
(* observed argument / initial values are the declared (or overridden) ones *)
Definition values_ok (n : net) (obs : list (vid * Qc)) : bool :=
  forallb (fun p => oqc_eqb (declared n (fst p)) (Some (snd p))) obs.
(* observed derivatives at one point *)
Definition point_ok (f : vid -> option Qc) (obs : list (vid * Qc)) : bool :=
  forallb (fun p => oqc_eqb (f (fst p)) (Some (snd p))) obs.

(* ---------------------------------------------------------------------------------------------- recursive meaning of a flat program *)
(* the recursive (fuel) denotation of a list of assignments over a base memory — the flat-name counterpart of Net.value_with:
   an assigned name means its defining expression, every other name the base memory *)
Fixpoint den_assigns (prog : list assign) (env : string -> option Qc) (fuel : nat) (x : string) : option Qc :=
  match fuel with
  | O => None
  | S f =>
      match find (fun p : assign => String.eqb (fst p) x) prog with
      | Some p => eval (den_assigns prog env f) (snd p)
      | None => env x
      end
  end.

(* a memory M (a value for every variable) that satisfies ALL equations of a network simultaneously *)
Definition solves (n : net) (st pa : vid -> Qc) (M : vid -> option Qc) : Prop :=
  forall v, match lookup n v with
            | None => True
            | Some (ops, op, d) =>
                let '(nd, o, x) := v in
                match vk d with
                | VState => M v = Some (st v)
                | VConst => M v = Some (pa v)
                | VAlg => forall q, find_eq op x false = Some q -> M v = eval (fun y => M (nd, o, y)) (rhs q)
                | VInput => M v = input_spec n pa M v (producers nd ops x)
                end
            end.
