From Coq Require Import List String Arith Bool QArith Qcanon Lia.
From PV Require Import Heap Values.
Import ListNotations.
