(* ValuesProofs.v — proofs about Values.v (C07).  Main result: `history_refines` — for EVERY object store (template objects
   shared at will, sub-circuit objects included) and every finite history of update_var / edge updates / observations, the
   store-based implementation model produces the outputs of the tree specification and its abstraction follows the
   specification state.  Ingredients: stability of the abstraction under store changes outside the visited circuit
   objects (`abs_stable`), a circuit object is never below itself (`acyclic`), deepcopy with memo yields fresh objects with
   the same denotation (`copy_circ_fresh`), `add_node_template_equiv`.  `tget_tset` is the frame property of the
   specification. *)
From Coq Require Import List String Arith Bool QArith Qcanon Lia.
From PV Require Import Heap Values.
Import ListNotations.
Open Scope nat_scope.

(* ------------------------------------------------------------------ mapM *)
Lemma mapM_ext_in {A B} (f g : A -> option B) l : (forall x, In x l -> f x = g x) -> mapM f l = mapM g l.
Proof.
  induction l as [|x l IH]; intros H; cbn; [reflexivity|].
  rewrite (H x (or_introl eq_refl)), IH; [reflexivity|]. intros y Hy. apply H. now right.
Qed.
Lemma mapM_cons_inv {A B} (f : A -> option B) x l r : mapM f (x :: l) = Some r ->
  exists y r', f x = Some y /\ mapM f l = Some r' /\ r = y :: r'.
Proof. cbn. destruct (f x); [|discriminate]. destruct (mapM f l); [|discriminate]. intros [= <-]. eauto. Qed.
Lemma mapM_app_inv {A B} (f : A -> option B) a b r : mapM f (a ++ b) = Some r ->
  exists ra rb, mapM f a = Some ra /\ mapM f b = Some rb /\ r = ra ++ rb.
Proof.
  revert r; induction a as [|x a IH]; intros r H; cbn in *.
  - exists [], r. auto.
  - destruct (f x); [|discriminate]. destruct (mapM f (a ++ b)) eqn:E; [|discriminate]. injection H as <-.
    destruct (IH _ eq_refl) as (ra & rb & -> & -> & ->). exists (b0 :: ra), rb. auto.
Qed.
Lemma mapM_app {A B} (f : A -> option B) a b ra rb : mapM f a = Some ra -> mapM f b = Some rb ->
  mapM f (a ++ b) = Some (ra ++ rb).
Proof.
  revert ra; induction a as [|x a IH]; intros ra Ha Hb; cbn in *.
  - injection Ha as <-. assumption.
  - destruct (f x); [|discriminate]. destruct (mapM f a); [|discriminate]. injection Ha as <-.
    now rewrite (IH _ eq_refl Hb).
Qed.
Lemma mapM_Some_in {A B} (f : A -> option B) l r x : mapM f l = Some r -> In x l -> exists y, f x = Some y /\ In y r.
Proof.
  revert r; induction l as [|a l IH]; intros r H Hin; [destruct Hin|].
  apply mapM_cons_inv in H as (y & r' & Hy & Hr & ->). destruct Hin as [<-|Hin].
  - exists y. split; [assumption|now left].
  - destruct (IH _ Hr Hin) as (z & ? & ?). exists z. split; [assumption|now right].
Qed.

(* ------------------------------------------------------------------ dictionaries *)
Lemma dget_split {V} k (l : list (string * V)) v : dget k l = Some v ->
  exists l1 l2, l = l1 ++ (k, v) :: l2 /\ dget k l1 = None.
Proof.
  induction l as [|[k' v'] l IH]; cbn; [discriminate|]. destruct (String.eqb k k') eqn:E.
  - intros [= ->]. apply String.eqb_eq in E as <-. exists [], l. auto.
  - intros H. destruct (IH H) as (l1 & l2 & -> & Hn). exists ((k', v') :: l1), l2. split; [reflexivity|]. cbn. now rewrite E.
Qed.
Lemma dset_split {V} k (l1 l2 : list (string * V)) v v' : dget k l1 = None ->
  dset k v' (l1 ++ (k, v) :: l2) = l1 ++ (k, v') :: l2.
Proof.
  induction l1 as [|[k' w] l1 IH]; cbn.
  - now rewrite String.eqb_refl.
  - destruct (String.eqb k k'); [discriminate|]. intros H. now rewrite IH.
Qed.
Lemma dget_app_None {V} k (l1 l2 : list (string * V)) : dget k l1 = None -> dget k (l1 ++ l2) = dget k l2.
Proof. induction l1 as [|[k' w] l1 IH]; cbn; [reflexivity|]. destruct (String.eqb k k'); [discriminate|auto]. Qed.
Lemma dget_here {V} k (l1 l2 : list (string * V)) v : dget k l1 = None -> dget k (l1 ++ (k, v) :: l2) = Some v.
Proof. intros H. rewrite dget_app_None by assumption. cbn. now rewrite String.eqb_refl. Qed.

Lemma lift_keys {A B} (f : A -> option B) l s : mapM (lift f) l = Some s -> map fst s = map fst l.
Proof.
  revert s; induction l as [|[k x] l IH]; intros s H.
  - injection H as <-. reflexivity.
  - apply mapM_cons_inv in H as (y & r' & Hy & Hr & ->). unfold lift in Hy. cbn in Hy.
    destruct (f x); [|discriminate]. injection Hy as <-. cbn. now rewrite (IH _ Hr).
Qed.
Lemma lift_dget_None {A B} (f : A -> option B) l s k : mapM (lift f) l = Some s -> dget k l = None -> dget k s = None.
Proof.
  revert s; induction l as [|[k' x] l IH]; intros s H Hn.
  - injection H as <-. reflexivity.
  - apply mapM_cons_inv in H as (y & r' & Hy & Hr & ->). unfold lift in Hy. cbn in Hy.
    destruct (f x); [|discriminate]. injection Hy as <-. cbn in *. destruct (String.eqb k k'); [discriminate|eauto].
Qed.
Lemma lift_dget_Some {A B} (f : A -> option B) l s k x : mapM (lift f) l = Some s -> dget k l = Some x ->
  exists y, f x = Some y /\ dget k s = Some y.
Proof.
  revert s; induction l as [|[k' x'] l IH]; intros s H Hg; [discriminate|].
  apply mapM_cons_inv in H as (y & r' & Hy & Hr & ->). unfold lift in Hy. cbn in Hy.
  destruct (f x') eqn:E; [|discriminate]. injection Hy as <-. cbn in *. destruct (String.eqb k k').
  - injection Hg as <-. eauto.
  - eauto.
Qed.
Lemma lift_dhas {A B} (f : A -> option B) l s k : mapM (lift f) l = Some s -> dhas k s = dhas k l.
Proof.
  intros H. unfold dhas. destruct (dget k l) eqn:E.
  - destruct (lift_dget_Some _ _ _ _ _ H E) as (y & _ & ->). reflexivity.
  - now rewrite (lift_dget_None _ _ _ _ H E).
Qed.
(* split of a lifted mapM at the first entry named k *)
Lemma lift_split {A B} (f : A -> option B) l1 l2 k x s : mapM (lift f) (l1 ++ (k, x) :: l2) = Some s ->
  exists s1 y s2, mapM (lift f) l1 = Some s1 /\ f x = Some y /\ mapM (lift f) l2 = Some s2 /\ s = s1 ++ (k, y) :: s2.
Proof.
  intros H. apply mapM_app_inv in H as (s1 & r & H1 & H2 & ->).
  apply mapM_cons_inv in H2 as (y & s2 & Hy & H2 & ->). unfold lift in Hy. cbn in Hy.
  destruct (f x) eqn:E; [|discriminate]. injection Hy as <-. exists s1, b, s2. auto.
Qed.
Lemma mapM_lift_rel {A B C} (f : A -> option B) (P : string -> A -> option C) (Q : string -> B -> option C) l s :
  mapM (lift f) l = Some s ->
  (forall k x y, In (k, x) l -> f x = Some y -> P k x = Q k y) ->
  mapM (fun e => P (fst e) (snd e)) l = mapM (fun e => Q (fst e) (snd e)) s.
Proof.
  revert s; induction l as [|[k x] l IH]; intros s H HPQ.
  - injection H as <-. reflexivity.
  - apply mapM_cons_inv in H as (y & r' & Hy & Hr & ->). unfold lift in Hy. cbn in Hy.
    destruct (f x) eqn:E; [|discriminate]. injection Hy as <-. cbn.
    rewrite (HPQ k x b (or_introl eq_refl) E). rewrite (IH _ Hr); [reflexivity|].
    intros. eapply HPQ; eauto. now right.
Qed.

(* ------------------------------------------------------------------ circuit objects visited by the unfolding *)
Fixpoint cids (d : nat) (h : heap) (c : id) : list id :=
  match lookup h c with
  | Some (OCirc ch _) => c :: match d with O => [] | S d' => flat_map (fun x => cids d' h (snd x)) ch end
  | _ => []
  end.
Definition below (d : nat) (h : heap) (c : id) : list id :=
  match lookup h c, d with
  | Some (OCirc ch _), S d' => flat_map (fun x => cids d' h (snd x)) ch
  | _, _ => []
  end.

Lemma op_den_stable h h' e o : op_den h e = Some o ->
  (forall i ob, lookup h i = Some ob -> is_circ ob = false -> lookup h' i = Some ob) -> op_den h' e = Some o.
Proof.
  unfold op_den. intros H Hs. destruct (lookup h (fst e)) as [[n eqs dd| |]|] eqn:E; try discriminate.
  now rewrite (Hs _ _ E eq_refl).
Qed.
Lemma node_den_stable h h' n a : node_den h n = Some a ->
  (forall i ob, lookup h i = Some ob -> is_circ ob = false -> lookup h' i = Some ob) -> node_den h' n = Some a.
Proof.
  unfold node_den. intros H Hs. destruct (lookup h n) as [[| ops |]|] eqn:E; try discriminate.
  rewrite (Hs _ _ E eq_refl). rewrite <- H. apply mapM_ext_in. intros e He.
  destruct (mapM_Some_in _ _ _ _ H He) as (o & Ho & _). rewrite Ho. eapply op_den_stable; eauto.
Qed.
Lemma abs_root d h c t : abs d h c = Some t -> exists ch es, lookup h c = Some (OCirc ch es).
Proof. destruct d; cbn; destruct (lookup h c) as [[| |ch es]|]; try discriminate; eauto. Qed.
Lemma cids_root d h c ch es : lookup h c = Some (OCirc ch es) -> In c (cids d h c).
Proof. intros E. destruct d; cbn; rewrite E; now left. Qed.

(* the abstraction is stable under store changes that keep every non-circuit object and every visited circuit object *)
Lemma abs_stable d : forall h h' c t, abs d h c = Some t ->
  (forall i ob, lookup h i = Some ob -> (is_circ ob = true -> In i (cids d h c)) -> lookup h' i = Some ob) ->
  abs d h' c = Some t.
Proof.
  induction d as [|d IH]; intros h h' c t H Hs.
  - cbn in *. destruct (lookup h c) as [[| |ch es]|] eqn:E; try discriminate.
    destruct (mapM (lift (node_den h)) ch) as [ns|] eqn:M; [|discriminate]. injection H as <-.
    rewrite (Hs _ _ E) by (intros _; cbn; auto).
    replace (mapM (lift (node_den h')) ch) with (Some ns); [reflexivity|].
    rewrite <- M. apply mapM_ext_in. intros [k x] Hx. destruct (mapM_Some_in _ _ _ _ M Hx) as (y & Hy & _).
    unfold lift in *. cbn in *. destruct (node_den h x) eqn:N; [|discriminate].
    erewrite node_den_stable; eauto. intros i ob Hi Hc. apply Hs; [assumption|]. intros Hc'. congruence.
  - cbn in *. destruct (lookup h c) as [[| |ch es]|] eqn:E; try discriminate.
    destruct (mapM (lift (abs d h)) ch) as [ss|] eqn:M; [|discriminate]. injection H as <-.
    rewrite (Hs _ _ E) by (intros _; cbn; auto).
    replace (mapM (lift (abs d h')) ch) with (Some ss); [reflexivity|].
    rewrite <- M. apply mapM_ext_in. intros [k x] Hx. destruct (mapM_Some_in _ _ _ _ M Hx) as (y & Hy & Hin).
    unfold lift in *. cbn in *. destruct (abs d h x) eqn:N; [|discriminate]. injection Hy as <-.
    erewrite IH; eauto. intros i ob Hi Hc. apply Hs; [assumption|]. intros Hc'. cbn. right.
    apply in_flat_map. exists (k, x). split; [assumption|]. cbn. auto.
Qed.
Lemma abs_extends d h h' c t : abs d h c = Some t -> extends h h' -> abs d h' c = Some t.
Proof. intros H He. eapply abs_stable; eauto. intros. eapply extends_lookup; eauto. Qed.

Lemma cids_are_circuits d : forall h c i, In i (cids d h c) -> exists ch es, lookup h i = Some (OCirc ch es).
Proof.
  induction d as [|d IH]; intros h c i Hin; cbn [cids] in Hin; destruct (lookup h c) as [[| |ch es]|] eqn:E; try (now destruct Hin).
  - destruct Hin as [<-|[]]. eauto.
  - destruct Hin as [<-|Hin]; [eauto|]. apply in_flat_map in Hin as (x & _ & Hi). eauto.
Qed.

(* ------------------------------------------------------------------ a circuit object is never below itself:
   the number of circuit objects of the unfolding does not depend on the depth at which an object is unfolded,
   and everything strictly below has a strictly smaller unfolding *)
Fixpoint hsize (d : nat) (h : heap) (c : id) : nat :=
  match lookup h c with
  | Some (OCirc ch _) => S (match d with O => O | S d' => list_sum (map (fun x => hsize d' h (snd x)) ch) end)
  | _ => O
  end.
Lemma hsize_indep k : forall d h c t1 t2, abs k h c = Some t1 -> abs d h c = Some t2 -> hsize k h c = hsize d h c.
Proof.
  assert (Hempty : forall h d' (ch : list (string * id)) ns ss, mapM (lift (node_den h)) ch = Some ns ->
            mapM (lift (abs d' h)) ch = Some ss -> ch = []).
  { intros h d' [|[k0 x] ch] ns ss M1 M2; [reflexivity|].
    apply mapM_cons_inv in M1 as (y1 & _ & Hy1 & _). apply mapM_cons_inv in M2 as (y2 & _ & Hy2 & _).
    unfold lift in *. cbn in *. destruct (node_den h x) eqn:N; [|discriminate]. destruct (abs d' h x) eqn:A; [|discriminate].
    apply abs_root in A as (? & ? & E). unfold node_den in N. rewrite E in N. discriminate. }
  induction k as [|k IH]; intros d h c t1 t2 H1 H2.
  - destruct d as [|d]; [reflexivity|]. cbn in *. destruct (lookup h c) as [[| |ch es]|]; try discriminate.
    destruct (mapM (lift (node_den h)) ch) eqn:M1; [|discriminate]. destruct (mapM (lift (abs d h)) ch) eqn:M2; [|discriminate].
    rewrite (Hempty _ _ _ _ _ M1 M2). reflexivity.
  - destruct d as [|d].
    + cbn in *. destruct (lookup h c) as [[| |ch es]|]; try discriminate.
      destruct (mapM (lift (node_den h)) ch) eqn:M1; [|discriminate]. destruct (mapM (lift (abs k h)) ch) eqn:M2; [|discriminate].
      rewrite (Hempty _ _ _ _ _ M1 M2). reflexivity.
    + cbn in *. destruct (lookup h c) as [[| |ch es]|]; try discriminate.
      destruct (mapM (lift (abs k h)) ch) eqn:M1; [|discriminate]. destruct (mapM (lift (abs d h)) ch) eqn:M2; [|discriminate].
      do 2 f_equal. apply map_ext_in. intros [n x] Hx.
      destruct (mapM_Some_in _ _ _ _ M1 Hx) as (y1 & Hy1 & _). destruct (mapM_Some_in _ _ _ _ M2 Hx) as (y2 & Hy2 & _).
      unfold lift in *. cbn in *. destruct (abs k h x) eqn:A1; [|discriminate]. destruct (abs d h x) eqn:A2; [|discriminate]. eauto.
Qed.
Lemma list_sum_in {A} (f : A -> nat) l x : In x l -> f x <= list_sum (map f l).
Proof. unfold list_sum. induction l as [|y l IH]; [intros []|]. intros [->|H]; cbn; [lia|]. specialize (IH H). lia. Qed.
Lemma cids_smaller d : forall h c t i, abs d h c = Some t -> In i (cids d h c) ->
  exists k ti, abs k h i = Some ti /\ hsize k h i <= hsize d h c /\ (In i (below d h c) -> hsize k h i < hsize d h c).
Proof.
  induction d as [|d IH]; intros h c t i H Hin.
  - pose proof H as H0. cbn in H, Hin. unfold below. destruct (lookup h c) as [[| |ch es]|] eqn:E; try discriminate.
    destruct Hin as [<-|[]]. exists 0, t. split; [assumption|]. split; [lia|intros []].
  - pose proof H as H0. cbn in H, Hin. unfold below. destruct (lookup h c) as [[| |ch es]|] eqn:E; try discriminate.
    destruct (mapM (lift (abs d h)) ch) as [ss|] eqn:M; [|discriminate].
    assert (Hch : forall x, In x ch -> forall j, In j (cids d h (snd x)) ->
              exists k tj, abs k h j = Some tj /\ hsize k h j < hsize (S d) h c).
    { intros [n x] Hx j Hj. destruct (mapM_Some_in _ _ _ _ M Hx) as (y & Hy & _). unfold lift in Hy. cbn in Hy.
      destruct (abs d h x) eqn:A; [|discriminate]. destruct (IH _ _ _ _ A Hj) as (k & tj & Hk & Hle & _).
      exists k, tj. split; [assumption|]. cbn [hsize]. rewrite E.
      pose proof (list_sum_in (fun x => hsize d h (snd x)) ch (n, x) Hx). cbn in *. lia. }
    destruct Hin as [<-|Hin].
    + exists (S d), t. split; [assumption|]. split; [lia|]. intros Hb. apply in_flat_map in Hb as (x & Hx & Hj).
      destruct (Hch x Hx _ Hj) as (k & tj & Hk & Hlt). rewrite (hsize_indep _ _ _ _ _ _ H0 Hk) in Hlt. lia.
    + apply in_flat_map in Hin as (x & Hx & Hj). destruct (Hch x Hx _ Hj) as (k & tj & Hk & Hlt).
      exists k, tj. split; [assumption|]. split; [lia|auto].
Qed.
Lemma acyclic d h c t : abs d h c = Some t -> ~ In c (below d h c).
Proof.
  intros H Hb. destruct (abs_root _ _ _ _ H) as (ch & es & E).
  destruct (cids_smaller d h c t c H (cids_root d h c ch es E)) as (k & tk & Hk & _ & Hlt).
  specialize (Hlt Hb). rewrite (hsize_indep _ _ _ _ _ _ Hk H) in Hlt. lia.
Qed.
(* ------------------------------------------------------------------ get_node_template / get_nodes / has_var *)
Lemma get_node_template_equiv d : forall h c t n, abs d h c = Some t ->
  match get_node_template d h c n with
  | Some nid => exists a, node_den h nid = Some a /\ tget_node t n = Some a
  | None => tget_node t n = None
  end.
Proof.
  induction d as [|d IH]; intros h c t n H.
  - cbn in *. destruct (lookup h c) as [[| |ch es]|] eqn:E; try discriminate.
    destruct (mapM (lift (node_den h)) ch) as [ns|] eqn:M; [|discriminate]. injection H as <-.
    destruct n as [|p rest]; [reflexivity|]. cbn. destruct (dget p ch) as [x|] eqn:G.
    + destruct (lift_dget_Some _ _ _ _ _ M G) as (a & Ha & Hg). eauto.
    + eapply lift_dget_None; eauto.
  - cbn in H. cbn [get_node_template]. destruct (lookup h c) as [[| |ch es]|] eqn:E; try discriminate.
    destruct (mapM (lift (abs d h)) ch) as [ss|] eqn:M; [|discriminate]. injection H as <-.
    destruct n as [|p rest]; [reflexivity|]. cbn. destruct (dget p ch) as [x|] eqn:G.
    + destruct (lift_dget_Some _ _ _ _ _ M G) as (s & Hs & Hg). rewrite Hg. apply IH. assumption.
    + now rewrite (lift_dget_None _ _ _ _ M G).
Qed.

Lemma has_var_equiv d h r t n op var : abs d h r = Some t -> has_var d h r n op var = thas_var t n op var.
Proof.
  intros H. unfold has_var, thas_var. pose proof (get_node_template_equiv d h r t n H) as G.
  destruct (get_node_template d h r n) as [nid|].
  - destruct G as (a & -> & ->). reflexivity.
  - now rewrite G.
Qed.

Lemma map_fst_lift {A B} (f : A -> option B) l s (g : string -> path) : mapM (lift f) l = Some s ->
  map (fun x => g (fst x)) l = map (fun x => g (fst x)) s.
Proof.
  intros H. apply lift_keys in H. rewrite <- (map_map fst g), <- (map_map fst g s). now rewrite H.
Qed.

Lemma get_nodes_equiv d : forall h c t pat, abs d h c = Some t -> get_nodes d h c pat = tget_nodes t pat.
Proof.
  induction d as [|d IH]; intros h c t pat H.
  - cbn in *. destruct (lookup h c) as [[| |ch es]|] eqn:E; try discriminate.
    destruct (mapM (lift (node_den h)) ch) as [ns|] eqn:M; [|discriminate]. injection H as <-.
    destruct pat as [|p [|q rest]]; try reflexivity. cbn.
    rewrite (lift_dhas _ _ _ p M). destruct (dhas p ch); [reflexivity|].
    destruct (String.eqb p all); [|reflexivity]. f_equal. apply (map_fst_lift _ _ _ (fun k => [k]) M).
  - cbn in H. cbn [get_nodes]. destruct (lookup h c) as [[| |ch es]|] eqn:E; try discriminate.
    destruct (mapM (lift (abs d h)) ch) as [ss|] eqn:M; [|discriminate]. injection H as <-.
    destruct pat as [|p rest]; [reflexivity|]. cbn. destruct (String.eqb p all).
    + rewrite (mapM_lift_rel (abs d h)
                 (fun k x => match get_nodes d h x rest with Some l => Some (map (cons k) l) | None => None end)
                 (fun k s => match tget_nodes s rest with Some l => Some (map (cons k) l) | None => None end) ch ss M).
      * reflexivity.
      * intros k x y _ Hy. now rewrite (IH _ _ _ rest Hy).
    + destruct (dget p ch) as [x|] eqn:G.
      * destruct (lift_dget_Some _ _ _ _ _ M G) as (s & Hs & ->). now rewrite (IH _ _ _ rest Hs).
      * now rewrite (lift_dget_None _ _ _ _ M G).
Qed.

(* ------------------------------------------------------------------ deepcopy of a node template (no memo): fresh ids, same content *)
Lemma copy_ops_spec : forall ops h a, mapM (op_den h) ops = Some a ->
  exists h2 ops', copy_ops h ops = Some (h2, ops') /\ extends h h2 /\ mapM (op_den h2) ops' = Some a.
Proof.
  induction ops as [|[oid vs] ops IH]; intros h a H.
  - injection H as <-. exists h, []. repeat split. apply extends_refl.
  - apply mapM_cons_inv in H as (o & r & Ho & Hr & ->). unfold op_den in Ho. cbn [fst snd] in Ho. cbn [copy_ops].
    destruct (lookup h oid) as [[n e dd| |]|] eqn:E; rewrite ?E in Ho; try discriminate. injection Ho as <-.
    assert (Hr' : mapM (op_den (h ++ [OOp n e dd])) ops = Some r).
    { rewrite <- Hr. apply mapM_ext_in. intros x Hx. destruct (mapM_Some_in _ _ _ _ Hr Hx) as (y & Hy & _). rewrite Hy.
      eapply op_den_stable; eauto. intros. eapply extends_lookup; eauto. apply extends_app. }
    destruct (IH _ _ Hr') as (h2 & ops' & -> & Hext & Hm). exists h2, ((List.length h, vs) :: ops'). split; [reflexivity|].
    split; [eapply extends_trans; [apply extends_app|eassumption]|].
    cbn [mapM]. unfold op_den at 1. cbn [fst snd]. rewrite (extends_lookup _ _ _ _ Hext (lookup_alloc_new h (OOp n e dd))). now rewrite Hm.
Qed.
Lemma copy_node_spec h nid a : node_den h nid = Some a ->
  exists h1 nid', copy_node h nid = Some (h1, nid') /\ extends h h1 /\ lookup h nid' = None /\ node_den h1 nid' = Some a.
Proof.
  unfold node_den, copy_node. destruct (lookup h nid) as [[|ops|]|] eqn:E; try discriminate. intros H.
  destruct (copy_ops_spec _ _ _ H) as (h2 & ops' & -> & Hext & Hm). unfold alloc. eexists _, _. split; [reflexivity|].
  split; [eapply extends_trans; [eassumption|apply extends_app]|]. split.
  - apply nth_error_None. apply extends_length in Hext. lia.
  - rewrite lookup_alloc_new. etransitivity; [|exact Hm]. apply mapM_ext_in. intros x Hx.
    destruct (mapM_Some_in _ _ _ _ Hm Hx) as (y & Hy & _). rewrite Hy. eapply op_den_stable; eauto.
    intros. eapply extends_lookup; eauto. apply extends_app.
Qed.

(* ------------------------------------------------------------------ deepcopy of a circuit (with memo): the copy is made of
   fresh objects only and has the denotation of the original at every depth *)
Definition same_den (h0 h : heap) (i i' : id) : Prop :=
  (forall n e dd, lookup h0 i = Some (OOp n e dd) -> lookup h i' = Some (OOp n e dd)) /\
  (forall a, node_den h0 i = Some a -> node_den h i' = Some a) /\
  (forall d t, abs d h0 i = Some t -> abs d h i' = Some t).
Definition suffix_closed (h0 h : heap) : Prop :=
  forall j ch es, List.length h0 <= j -> lookup h j = Some (OCirc ch es) -> forall x, In x ch -> List.length h0 <= snd x.
Definition minv (h0 h : heap) (m : memo) : Prop :=
  extends h0 h /\ suffix_closed h0 h /\ forall i i', mget i m = Some i' -> List.length h0 <= i' /\ same_den h0 h i i'.
Definition fgood (h0 : heap) (f : heap -> memo -> id -> option (heap * memo * id)) (D : id -> Prop) : Prop :=
  forall h m i, minv h0 h m -> D i ->
    exists h2 m2 i', f h m i = Some (h2, m2, i') /\ minv h0 h2 m2 /\ extends h h2 /\ List.length h0 <= i' /\ same_den h0 h2 i i'.

Lemma same_den_mono h0 h h2 i i' : same_den h0 h i i' -> extends h h2 -> same_den h0 h2 i i'.
Proof.
  intros (H1 & H2 & H3) He. repeat split; intros.
  - eapply extends_lookup; eauto.
  - eapply node_den_stable; eauto. intros. eapply extends_lookup; eauto.
  - eapply abs_extends; eauto.
Qed.
Lemma suffix_closed_app h0 h o : extends h0 h -> suffix_closed h0 h ->
  (forall ch es, o = OCirc ch es -> forall x, In x ch -> List.length h0 <= snd x) -> suffix_closed h0 (h ++ [o]).
Proof.
  intros He Hs Ho j ch es Hj Hl x Hx. destruct (Nat.lt_ge_cases j (List.length h)) as [Hlt|Hge].
  - unfold lookup in Hl. rewrite nth_error_app1 in Hl by assumption. eapply Hs; eauto.
  - pose proof (lookup_lt _ _ _ Hl) as Hb. rewrite app_length in Hb. cbn in Hb.
    assert (j = List.length h) by lia. subst j. rewrite lookup_alloc_new in Hl. injection Hl as ->. eapply Ho; eauto.
Qed.
Lemma minv_add h0 h m o i : minv h0 h m -> 
  (forall ch es, o = OCirc ch es -> forall x, In x ch -> List.length h0 <= snd x) ->
  same_den h0 (h ++ [o]) i (List.length h) -> minv h0 (h ++ [o]) ((i, List.length h) :: m).
Proof.
  intros (He & Hs & Hm) Ho Hd. split; [eapply extends_trans; [eassumption|apply extends_app]|].
  split; [now apply suffix_closed_app|]. intros j j' Hg. cbn in Hg. destruct (Nat.eqb j i) eqn:Ej.
  - apply Nat.eqb_eq in Ej as ->. injection Hg as <-. split; [now apply extends_length|assumption].
  - destruct (Hm _ _ Hg) as (? & ?). split; [assumption|]. eapply same_den_mono; eauto. apply extends_app.
Qed.

Lemma copy_ops_m_spec h0 : forall ops h m a, minv h0 h m -> mapM (op_den h0) ops = Some a ->
  exists h2 m2 ops', copy_ops_m h m ops = Some (h2, m2, ops') /\ minv h0 h2 m2 /\ extends h h2 /\ mapM (op_den h2) ops' = Some a.
Proof.
  induction ops as [|[oid vs] ops IH]; intros h m a Hi H.
  - injection H as <-. exists h, m, []. split; [reflexivity|]. split; [exact Hi|]. split; [apply extends_refl|reflexivity].
  - apply mapM_cons_inv in H as (o & r & Ho & Hr & ->). unfold op_den in Ho. cbn [fst snd] in Ho. cbn [copy_ops_m].
    destruct (lookup h0 oid) as [[n e dd| |]|] eqn:E; rewrite ?E in Ho; try discriminate. injection Ho as <-.
    destruct (mget oid m) as [oid'|] eqn:G.
    + destruct Hi as (He & Hs & Hm). destruct (Hm _ _ G) as (_ & Hop & _). specialize (Hop _ _ _ E).
      destruct (IH h m r (conj He (conj Hs Hm)) Hr) as (h2 & m2 & ops' & -> & Hi2 & Hext & Hmm).
      exists h2, m2, ((oid', vs) :: ops'). split; [reflexivity|]. split; [assumption|]. split; [assumption|].
      cbn [mapM]. unfold op_den at 1. cbn [fst snd]. rewrite (extends_lookup _ _ _ _ Hext Hop). now rewrite Hmm.
    + pose proof Hi as (He & _). rewrite (extends_lookup _ _ _ _ He E).
      assert (Hi1 : minv h0 (h ++ [OOp n e dd]) ((oid, List.length h) :: m)).
      { apply minv_add; [assumption|intros; discriminate|]. repeat split.
        - intros n' e' dd' E'. rewrite E in E'. injection E' as <- <- <-. apply lookup_alloc_new.
        - intros a' Ha. unfold node_den in Ha. rewrite E in Ha. discriminate.
        - intros d t Ht. apply abs_root in Ht as (? & ? & E'). congruence. }
      destruct (IH _ _ r Hi1 Hr) as (h2 & m2 & ops' & -> & Hi2 & Hext & Hmm).
      exists h2, m2, ((List.length h, vs) :: ops'). split; [reflexivity|]. split; [assumption|]. split.
      * eapply extends_trans; [apply extends_app|eassumption].
      * cbn [mapM]. unfold op_den at 1. cbn [fst snd].
        rewrite (extends_lookup _ _ _ _ Hext (lookup_alloc_new h (OOp n e dd))). now rewrite Hmm.
Qed.
Lemma copy_node_m_good h0 : fgood h0 copy_node_m (fun i => exists a, node_den h0 i = Some a).
Proof.
  intros h m nid Hi (a & Ha). unfold copy_node_m. destruct (mget nid m) as [nid'|] eqn:G.
  - exists h, m, nid'. pose proof Hi as (He & Hs & Hm). destruct (Hm _ _ G) as (? & ?). split; [reflexivity|]. split; [exact Hi|]. split; [apply extends_refl|]. split; assumption.
  - pose proof Hi as (He & _). unfold node_den in Ha. destruct (lookup h0 nid) as [[|ops|]|] eqn:E; try discriminate.
    rewrite (extends_lookup _ _ _ _ He E).
    destruct (copy_ops_m_spec h0 ops h m a Hi Ha) as (h2 & m2 & ops' & -> & Hi2 & Hext & Hmm).
    assert (Hd : same_den h0 (h2 ++ [ONode ops']) nid (List.length h2)).
    { repeat split.
      - intros n' e' dd' E'. congruence.
      - intros a' Ha'. unfold node_den in *. rewrite E in Ha'. rewrite lookup_alloc_new. assert (a' = a) by congruence. subst a'.
        etransitivity; [|exact Hmm]. apply mapM_ext_in. intros x Hx.
        destruct (mapM_Some_in _ _ _ _ Hmm Hx) as (y & Hy & _). rewrite Hy. eapply op_den_stable; eauto.
        intros. eapply extends_lookup; eauto. apply extends_app.
      - intros d t Ht. apply abs_root in Ht as (? & ? & E'). congruence. }
    eexists _, _, _. split; [reflexivity|]. split; [apply minv_add; [assumption|intros; discriminate|assumption]|].
    split; [eapply extends_trans; [eassumption|apply extends_app]|]. split; [|assumption].
    destruct Hi2 as (He2 & _). now apply extends_length.
Qed.

Definition crel (h0 h : heap) (x x' : string * id) : Prop :=
  fst x = fst x' /\ List.length h0 <= snd x' /\ same_den h0 h (snd x) (snd x').
Lemma copy_children_spec h0 f D : fgood h0 f D -> forall ch h m, minv h0 h m -> (forall x, In x ch -> D (snd x)) ->
  exists h2 m2 ch', copy_children f h m ch = Some (h2, m2, ch') /\ minv h0 h2 m2 /\ extends h h2 /\ Forall2 (crel h0 h2) ch ch'.
Proof.
  intros Hf. induction ch as [|[n c] ch IH]; intros h m Hi HD.
  - exists h, m, []. split; [reflexivity|]. split; [exact Hi|]. split; [apply extends_refl|constructor].
  - cbn [copy_children]. destruct (Hf h m c Hi (HD (n, c) (or_introl eq_refl))) as (h1 & m1 & c' & -> & Hi1 & He1 & Hc' & Hd).
    destruct (IH h1 m1 Hi1 (fun x Hx => HD x (or_intror Hx))) as (h2 & m2 & ch' & -> & Hi2 & He2 & HF).
    exists h2, m2, ((n, c') :: ch'). split; [reflexivity|]. split; [assumption|]. split; [eapply extends_trans; eauto|].
    constructor; [|assumption]. split; [reflexivity|]. split; [assumption|]. eapply same_den_mono; eauto.
Qed.
Lemma Forall2_imp {A B} (P Q : A -> B -> Prop) l l' : (forall a b, P a b -> Q a b) -> Forall2 P l l' -> Forall2 Q l l'.
Proof. intros H HF. induction HF; constructor; auto. Qed.
Lemma lift_transfer {B} (f0 f : id -> option B) ch ch' s :
  Forall2 (fun x x' : string * id => fst x = fst x' /\ (forall y, f0 (snd x) = Some y -> f (snd x') = Some y)) ch ch' ->
  mapM (lift f0) ch = Some s -> mapM (lift f) ch' = Some s.
Proof.
  intros HF. revert s. induction HF as [|[n x] [n' x'] ch ch' (Hn & Hx) HF IH]; intros s H; [assumption|].
  apply mapM_cons_inv in H as (y & r & Hy & Hr & ->). unfold lift in Hy. cbn in *. subst n'.
  destruct (f0 x) eqn:E; [|discriminate]. injection Hy as <-. unfold lift at 1. cbn. rewrite (Hx _ eq_refl). now rewrite (IH _ Hr).
Qed.
Lemma copy_circ_good h0 d : fgood h0 (copy_circ d) (fun i => exists t, abs d h0 i = Some t).
Proof.
  induction d as [|d IH]; intros h m c Hi (t & Ht).
  - cbn [copy_circ]. destruct (mget c m) as [c'|] eqn:G.
    + exists h, m, c'. pose proof Hi as (He & Hs & Hm). destruct (Hm _ _ G) as (? & ?). split; [reflexivity|]. split; [exact Hi|]. split; [apply extends_refl|]. split; assumption.
    + pose proof Hi as (He & _). destruct (abs_root _ _ _ _ Ht) as (ch & es & E). rewrite (extends_lookup _ _ _ _ He E).
      assert (HD : forall x, In x ch -> exists a, node_den h0 (snd x) = Some a).
      { cbn in Ht. rewrite E in Ht. destruct (mapM (lift (node_den h0)) ch) eqn:M; [|discriminate]. intros x Hx.
        destruct (mapM_Some_in _ _ _ _ M Hx) as (y & Hy & _). unfold lift in Hy. destruct (node_den h0 (snd x)); [eauto|discriminate]. }
      destruct (copy_children_spec h0 _ _ (copy_node_m_good h0) ch h m Hi HD) as (h2 & m2 & ch' & -> & Hi2 & He2 & HF).
      assert (Hd : same_den h0 (h2 ++ [OCirc ch' es]) c (List.length h2)).
      { repeat split.
        - intros; congruence.
        - intros a Ha. unfold node_den in Ha. rewrite E in Ha. discriminate.
        - intros d' t' Ht'. destruct d'; cbn in Ht' |- *; rewrite E in Ht'; rewrite lookup_alloc_new.
          + destruct (mapM (lift (node_den h0)) ch) eqn:M; [|discriminate].
            rewrite (lift_transfer (node_den h0) (node_den (h2 ++ [OCirc ch' es])) ch ch' l); [assumption| |assumption].
            eapply Forall2_imp; [|exact HF]. intros x x' (Hn & _ & Hs). split; [assumption|].
            intros y Hy. eapply (same_den_mono _ _ _ _ _ Hs (extends_app _ _)); eauto.
          + destruct (mapM (lift (abs d' h0)) ch) eqn:M; [|discriminate].
            rewrite (lift_transfer (abs d' h0) (abs d' (h2 ++ [OCirc ch' es])) ch ch' l); [assumption| |assumption].
            eapply Forall2_imp; [|exact HF]. intros x x' (Hn & _ & Hs). split; [assumption|].
            intros y Hy. eapply (same_den_mono _ _ _ _ _ Hs (extends_app _ _)); eauto. }
      eexists _, _, _. split; [reflexivity|]. split.
      * apply minv_add; [assumption| |assumption]. intros ch0 es0 [= <- <-] x Hx.
        clear -HF Hx. induction HF as [|a b l l' (_ & Hb & _) HF IH]; [destruct Hx|]. destruct Hx as [<-|Hx]; auto.
      * split; [eapply extends_trans; [eassumption|apply extends_app]|]. split; [|assumption].
        destruct Hi2 as (He2' & _). now apply extends_length.
  - cbn [copy_circ]. destruct (mget c m) as [c'|] eqn:G.
    + exists h, m, c'. pose proof Hi as (He & Hs & Hm). destruct (Hm _ _ G) as (? & ?). split; [reflexivity|]. split; [exact Hi|]. split; [apply extends_refl|]. split; assumption.
    + pose proof Hi as (He & _). destruct (abs_root _ _ _ _ Ht) as (ch & es & E). rewrite (extends_lookup _ _ _ _ He E).
      assert (HD : forall x, In x ch -> exists a, abs d h0 (snd x) = Some a).
      { cbn in Ht. rewrite E in Ht. destruct (mapM (lift (abs d h0)) ch) eqn:M; [|discriminate]. intros x Hx.
        destruct (mapM_Some_in _ _ _ _ M Hx) as (y & Hy & _). unfold lift in Hy. destruct (abs d h0 (snd x)); [eauto|discriminate]. }
      destruct (copy_children_spec h0 _ _ IH ch h m Hi HD) as (h2 & m2 & ch' & -> & Hi2 & He2 & HF).
      assert (Hd : same_den h0 (h2 ++ [OCirc ch' es]) c (List.length h2)).
      { repeat split.
        - intros; congruence.
        - intros a Ha. unfold node_den in Ha. rewrite E in Ha. discriminate.
        - intros d' t' Ht'. destruct d'; cbn in Ht' |- *; rewrite E in Ht'; rewrite lookup_alloc_new.
          + destruct (mapM (lift (node_den h0)) ch) eqn:M; [|discriminate].
            rewrite (lift_transfer (node_den h0) (node_den (h2 ++ [OCirc ch' es])) ch ch' l); [assumption| |assumption].
            eapply Forall2_imp; [|exact HF]. intros x x' (Hn & _ & Hs). split; [assumption|].
            intros y Hy. eapply (same_den_mono _ _ _ _ _ Hs (extends_app _ _)); eauto.
          + destruct (mapM (lift (abs d' h0)) ch) eqn:M; [|discriminate].
            rewrite (lift_transfer (abs d' h0) (abs d' (h2 ++ [OCirc ch' es])) ch ch' l); [assumption| |assumption].
            eapply Forall2_imp; [|exact HF]. intros x x' (Hn & _ & Hs). split; [assumption|].
            intros y Hy. eapply (same_den_mono _ _ _ _ _ Hs (extends_app _ _)); eauto. }
      eexists _, _, _. split; [reflexivity|]. split.
      * apply minv_add; [assumption| |assumption]. intros ch0 es0 [= <- <-] x Hx.
        clear -HF Hx. induction HF as [|a b l l' (_ & Hb & _) HF IH]; [destruct Hx|]. destruct Hx as [<-|Hx]; auto.
      * split; [eapply extends_trans; [eassumption|apply extends_app]|]. split; [|assumption].
        destruct Hi2 as (He2' & _). now apply extends_length.
Qed.

Theorem copy_circ_fresh d h x t : abs d h x = Some t ->
  exists h1 m x', copy_circ d h [] x = Some (h1, m, x') /\ extends h h1 /\ List.length h <= x' /\
                  abs d h1 x' = Some t /\ suffix_closed h h1.
Proof.
  intros H. assert (Hi : minv h h []).
  { split; [apply extends_refl|]. split; [|intros ? ? [=]]. intros j ch es Hj Hl. apply lookup_lt in Hl. lia. }
  destruct (copy_circ_good h d h [] x Hi (ex_intro _ t H)) as (h1 & m & x' & Hc & (_ & Hs & _) & He & Hx' & (_ & _ & Hd)).
  exists h1, m, x'. repeat split; auto.
Qed.

(* a fresh copy only reaches fresh circuit objects: writing into an OLD circuit object does not change it *)
Lemma suffix_cids h0 h : suffix_closed h0 h -> forall d c j, List.length h0 <= c -> In j (cids d h c) -> List.length h0 <= j.
Proof.
  intros Hs. induction d as [|d IH]; intros c j Hc Hj; cbn [cids] in Hj; destruct (lookup h c) as [[| |ch es]|] eqn:E; try (now destruct Hj).
  - destruct Hj as [<-|[]]. assumption.
  - destruct Hj as [<-|Hj]; [assumption|]. apply in_flat_map in Hj as (x & Hx & Hj). eapply IH; [|eassumption]. eapply Hs; eauto.
Qed.
Lemma fresh_copy_untouched h0 h d c' t w o : suffix_closed h0 h -> List.length h0 <= c' -> abs d h c' = Some t ->
  w < List.length h0 -> (exists ch es, lookup h w = Some (OCirc ch es)) -> abs d (hset h w o) c' = Some t.
Proof.
  intros Hs Hc H Hw (ch & es & Ew). eapply abs_stable; [exact H|]. intros i ob Hi Hcirc.
  destruct (Nat.eq_dec i w) as [->|Hne]; [|rewrite hset_other; congruence].
  rewrite Ew in Hi. injection Hi as <-. specialize (Hcirc eq_refl). pose proof (suffix_cids _ _ Hs _ _ _ Hc Hcirc). lia.
Qed.
(* ------------------------------------------------------------------ add_node_template (with fix D47) = functional update
   of the tree, for EVERY store: only the object it is called on and fresh copies are written *)
Lemma add_node_template_equiv d : forall h c t n nid a,
  abs d h c = Some t -> node_den h nid = Some a ->
  match add_node_template d h c n nid with
  | Some h' => exists t', tset_node t n a = Some t' /\ abs d h' c = Some t' /\
                          (forall i ob, lookup h i = Some ob -> i <> c -> lookup h' i = Some ob)
  | None => tset_node t n a = None
  end.
Proof.
  induction d as [|d IH]; intros h c t n nid a H Ha.
  - cbn in H. cbn [add_node_template]. destruct (lookup h c) as [[| |ch es]|] eqn:E; try discriminate.
    destruct (mapM (lift (node_den h)) ch) as [ns|] eqn:M; [|discriminate]. injection H as <-.
    destruct n as [|p rest]; [reflexivity|]. cbn [tset_node]. unfold dhas. destruct (dget p ch) as [x|] eqn:G.
    + destruct (lift_dget_Some _ _ _ _ _ M G) as (a0 & Ha0 & Hg). rewrite Hg.
      eexists. split; [reflexivity|]. pose proof (lookup_lt _ _ _ E) as Hlt.
      pose proof (hset_same h c (OCirc (dset p nid ch) es) Hlt) as Hroot.
      assert (Hoth : forall i, i <> c -> lookup (hset h c (OCirc (dset p nid ch) es)) i = lookup h i)
        by (intros; apply hset_other; congruence).
      remember (hset h c (OCirc (dset p nid ch) es)) as h' eqn:Eh'. clear Eh'.
      assert (Hst : forall i ob, lookup h i = Some ob -> is_circ ob = false -> lookup h' i = Some ob).
      { intros i ob Hi Hc. rewrite Hoth; [assumption|]. intros ->. rewrite E in Hi. injection Hi as <-. discriminate. }
      split.
      * cbn. rewrite Hroot.
        destruct (dget_split _ _ _ G) as (l1 & l2 & -> & Hn).
        destruct (lift_split _ _ _ _ _ _ M) as (s1 & y & s2 & M1 & Hy & M2 & ->).
        rewrite (dset_split _ _ _ _ nid Hn). rewrite (dset_split _ _ _ _ a (lift_dget_None _ _ _ _ M1 Hn)).
        erewrite mapM_app; [reflexivity| |].
        -- rewrite <- M1. apply mapM_ext_in. intros [k z] Hz. destruct (mapM_Some_in _ _ _ _ M1 Hz) as (w & Hw & _).
           unfold lift in *. cbn in *. destruct (node_den h z) eqn:N; [|discriminate]. now rewrite (node_den_stable _ _ _ _ N Hst).
        -- cbn. unfold lift at 1. cbn. rewrite (node_den_stable _ _ _ _ Ha Hst).
           replace (mapM (lift (node_den h')) l2) with (Some s2); [reflexivity|].
           rewrite <- M2. apply mapM_ext_in. intros [k z] Hz. destruct (mapM_Some_in _ _ _ _ M2 Hz) as (w & Hw & _).
           unfold lift in *. cbn in *. destruct (node_den h z) eqn:N; [|discriminate]. now rewrite (node_den_stable _ _ _ _ N Hst).
      * intros i ob Hi Hni. rewrite Hoth; assumption.
    + now rewrite (lift_dget_None _ _ _ _ M G).
  - pose proof (acyclic _ _ _ _ H) as Hacyc. unfold below in Hacyc.
    cbn in H. cbn [add_node_template]. destruct (lookup h c) as [[| |ch es]|] eqn:E; try discriminate.
    destruct (mapM (lift (abs d h)) ch) as [ss|] eqn:M; [|discriminate]. injection H as <-.
    destruct n as [|p rest]; [reflexivity|]. cbn [tset_node]. destruct (dget p ch) as [x|] eqn:G.
    2: now rewrite (lift_dget_None _ _ _ _ M G).
    destruct (dget_split _ _ _ G) as (l1 & l2 & Ech & Hn).
    pose proof M as M0. rewrite Ech in M0.
    destruct (lift_split _ _ _ _ _ _ M0) as (s1 & tc & s2 & M1 & Hx & M2 & ->).
    rewrite (dget_here _ _ _ _ (lift_dget_None _ _ _ _ M1 Hn)).
    destruct (copy_circ_fresh d h x tc Hx) as (h1 & m & x' & -> & He & Hx' & Habs1 & Hs).
    pose proof (lookup_lt _ _ _ E) as Hlt. pose proof (extends_lookup _ _ _ _ He E) as E1.
    pose proof (extends_length _ _ He) as Hlen.
    assert (Hlt1 : c < List.length h1) by lia.
    pose proof (hset_same h1 c (OCirc (dset p x' ch) es) Hlt1) as Hroot.
    assert (Hoth : forall i, i <> c -> lookup (hset h1 c (OCirc (dset p x' ch) es)) i = lookup h1 i)
      by (intros; apply hset_other; congruence).
    assert (Habs2 : abs d (hset h1 c (OCirc (dset p x' ch) es)) x' = Some tc)
      by (eapply fresh_copy_untouched; eauto).
    remember (hset h1 c (OCirc (dset p x' ch) es)) as h2 eqn:Eh2. clear Eh2.
    assert (Hold : forall i ob, lookup h i = Some ob -> i <> c -> lookup h2 i = Some ob).
    { intros i ob Hi Hne. rewrite Hoth by assumption. eapply extends_lookup; eauto. }
    assert (Ha2 : node_den h2 nid = Some a).
    { eapply node_den_stable; [exact Ha|]. intros i ob Hi Hc. apply Hold; [assumption|]. intros ->. rewrite E in Hi. injection Hi as <-. discriminate. }
    specialize (IH h2 x' tc rest nid a Habs2 Ha2).
    destruct (add_node_template d h2 x' rest nid) as [h3|]; [|now rewrite IH].
    destruct IH as (tc' & -> & Habs3 & Hfr3). eexists. split; [reflexivity|].
    assert (Hnew : forall i ob, lookup h i = Some ob -> i <> c -> lookup h3 i = Some ob).
    { intros i ob Hi Hne. apply Hfr3; [now apply Hold|]. apply lookup_lt in Hi. lia. }
    split; [|assumption].
    assert (Hkeep : forall l s, (forall z, In z l -> In z ch) -> mapM (lift (abs d h)) l = Some s -> mapM (lift (abs d h3)) l = Some s).
    { intros l s Hsub Ms. rewrite <- Ms. apply mapM_ext_in. intros [k z] Hz.
      destruct (mapM_Some_in _ _ _ _ Ms Hz) as (w & Hw & _). unfold lift in *. cbn in *.
      destruct (abs d h z) eqn:N; [|discriminate].
      erewrite abs_stable; [reflexivity|exact N|]. intros i ob Hi Hc.
      destruct (Nat.eq_dec i c) as [->|Hne]; [|now apply Hnew].
      exfalso. apply Hacyc. rewrite E in Hi. injection Hi as <-. apply in_flat_map. exists (k, z).
      split; [now apply Hsub|]. cbn. now apply Hc. }
    cbn. assert (Hc3 : lookup h3 c = Some (OCirc (dset p x' ch) es)) by (apply Hfr3; [assumption|lia]).
    rewrite Hc3. rewrite Ech. rewrite (dset_split _ _ _ _ x' Hn). rewrite (dset_split _ _ _ _ tc' (lift_dget_None _ _ _ _ M1 Hn)).
    erewrite mapM_app; [reflexivity| |].
    + apply Hkeep; [|assumption]. intros z Hz. rewrite Ech. apply in_or_app. now left.
    + cbn. unfold lift at 1. cbn. rewrite Habs3. rewrite (Hkeep l2 s2); [reflexivity| |assumption].
      intros z Hz. rewrite Ech. apply in_or_app. right. now right.
Qed.

(* ------------------------------------------------------------------ NodeTemplate.update_var on one node object *)
Lemma ops_update_spec h op var v : forall ops a, mapM (op_den h) ops = Some a ->
  match ops_update h ops op var v with
  | Some ops' => exists a', anode_update a op var v = Some a' /\ mapM (op_den h) ops' = Some a'
  | None => anode_update a op var v = None
  end.
Proof.
  induction ops as [|[oid vs] ops IH]; intros a H.
  - injection H as <-. reflexivity.
  - apply mapM_cons_inv in H as (o & r & Ho & Hr & ->). unfold op_den in Ho. cbn [fst snd] in Ho. cbn [ops_update].
    destruct (lookup h oid) as [[n e dd| |]|] eqn:E; rewrite ?E in Ho; try discriminate. injection Ho as <-. cbn [anode_update].
    destruct (String.eqb n op).
    + eexists. split; [reflexivity|]. cbn [mapM]. unfold op_den at 1. cbn [fst snd]. rewrite E. now rewrite Hr.
    + specialize (IH _ Hr). destruct (ops_update h ops op var v) as [ops'|].
      * destruct IH as (a' & -> & Hm). eexists. split; [reflexivity|]. cbn [mapM]. unfold op_den at 1. cbn [fst snd]. rewrite E. now rewrite Hm.
      * now rewrite IH.
Qed.
Lemma node_update_var_spec h nid a op var v : node_den h nid = Some a ->
  match node_update_var h nid op var v with
  | Some h2 => exists a', anode_update a op var v = Some a' /\ node_den h2 nid = Some a' /\
                          (forall i, i <> nid -> lookup h2 i = lookup h i)
  | None => anode_update a op var v = None
  end.
Proof.
  unfold node_den, node_update_var. destruct (lookup h nid) as [[|ops|]|] eqn:E; try discriminate. intros H.
  pose proof (ops_update_spec h op var v ops a H) as U. destruct (ops_update h ops op var v) as [ops'|]; [|assumption].
  destruct U as (a' & Ha' & Hm). exists a'. split; [assumption|]. pose proof (lookup_lt _ _ _ E) as Hlt.
  split; [|intros; apply hset_other; congruence].
  rewrite hset_same by assumption. etransitivity; [|exact Hm]. apply mapM_ext_in. intros x Hx.
  destruct (mapM_Some_in _ _ _ _ Hm Hx) as (y & Hy & _). unfold op_den in *.
  rewrite hset_other; [reflexivity|]. intros Heq. rewrite <- Heq in Hy. rewrite E in Hy. discriminate.
Qed.

(* ------------------------------------------------------------------ deepcopy only appends *)
Lemma copy_ops_m_extends : forall ops h m h2 m2 r', copy_ops_m h m ops = Some (h2, m2, r') -> extends h h2.
Proof.
  induction ops as [|[oid vs] ops IH]; intros h m h2 m2 r' H; cbn in H.
  - injection H as <- _ _. apply extends_refl.
  - destruct (mget oid m).
    + destruct (copy_ops_m h m ops) as [[[h3 m3] r3]|] eqn:E; [|discriminate]. injection H as <- _ _. eauto.
    + destruct (lookup h oid) as [[n e dd| |]|]; try discriminate.
      destruct (copy_ops_m (h ++ [OOp n e dd]) ((oid, List.length h) :: m) ops) as [[[h3 m3] r3]|] eqn:E; [|discriminate].
      injection H as <- _ _. eapply extends_trans; [apply extends_app|eauto].
Qed.
Lemma copy_node_m_extends h m nid h2 m2 nid' : copy_node_m h m nid = Some (h2, m2, nid') -> extends h h2.
Proof.
  unfold copy_node_m. destruct (mget nid m).
  - intros [= <- _ _]. apply extends_refl.
  - destruct (lookup h nid) as [[|ops|]|]; try discriminate.
    destruct (copy_ops_m h m ops) as [[[h3 m3] r3]|] eqn:E; [|discriminate]. intros [= <- _ _].
    eapply extends_trans; [eapply copy_ops_m_extends; eauto|apply extends_app].
Qed.
Lemma copy_children_extends f : (forall h m c h2 m2 c', f h m c = Some (h2, m2, c') -> extends h h2) ->
  forall ch h m h2 m2 ch', copy_children f h m ch = Some (h2, m2, ch') -> extends h h2.
Proof.
  intros Hf. induction ch as [|[n c] ch IH]; intros h m h2 m2 ch' H; cbn in H.
  - injection H as <- _ _. apply extends_refl.
  - destruct (f h m c) as [[[h1 m1] c1]|] eqn:E; [|discriminate].
    destruct (copy_children f h1 m1 ch) as [[[h3 m3] r3]|] eqn:E2; [|discriminate]. injection H as <- _ _.
    eapply extends_trans; eauto.
Qed.
Lemma copy_circ_extends d : forall h m c h2 m2 c', copy_circ d h m c = Some (h2, m2, c') -> extends h h2.
Proof.
  induction d as [|d IH]; intros h m c h2 m2 c' H; cbn in H.
  - destruct (mget c m); [injection H as <- _ _; apply extends_refl|].
    destruct (lookup h c) as [[| |ch es]|]; try discriminate.
    destruct (copy_children copy_node_m h m ch) as [[[h3 m3] r3]|] eqn:E; [|discriminate]. injection H as <- _ _.
    eapply extends_trans; [eapply copy_children_extends; [|eauto]|apply extends_app].
    intros. eapply copy_node_m_extends; eauto.
  - destruct (mget c m); [injection H as <- _ _; apply extends_refl|].
    destruct (lookup h c) as [[| |ch es]|]; try discriminate.
    destruct (copy_children (copy_circ d) h m ch) as [[[h3 m3] r3]|] eqn:E; [|discriminate]. injection H as <- _ _.
    eapply extends_trans; [eapply copy_children_extends; [|eauto]|apply extends_app]. exact IH.
Qed.

Definition keeps (h h' : heap) (r : id) : Prop := forall i ob, lookup h i = Some ob -> i <> r -> lookup h' i = Some ob.
Lemma keeps_trans h h1 h2 r : keeps h h1 r -> keeps h1 h2 r -> keeps h h2 r.
Proof. intros A B i ob Hi Hne. apply B; [apply A|]; assumption. Qed.

(* ------------------------------------------------------------------ update_var for one target *)
Lemma upd_one_equiv d r h t n op var v : abs d h r = Some t ->
  match upd_one d r h n op var v with
  | Some h' => exists t', tupd_one t n op var v = Some t' /\ abs d h' r = Some t' /\ keeps h h' r
  | None => tupd_one t n op var v = None
  end.
Proof.
  intros H. unfold upd_one, tupd_one. pose proof (get_node_template_equiv d h r t n H) as G.
  destruct (get_node_template d h r n) as [nid|]; [|now rewrite G]. destruct G as (a & Ha & ->).
  destruct (copy_node_spec _ _ _ Ha) as (h1 & nid' & -> & Hext & Hfresh & Ha1).
  pose proof (node_update_var_spec h1 nid' a op var v Ha1) as U.
  destruct (node_update_var h1 nid' op var v) as [h2|]; [|now rewrite U].
  destruct U as (a' & -> & Ha2 & Hoth).
  assert (H2 : abs d h2 r = Some t).
  { eapply abs_stable; [exact H|]. intros i ob Hi _. rewrite Hoth; [eapply extends_lookup; eauto|]. intros ->. congruence. }
  pose proof (add_node_template_equiv d h2 r t n nid' a' H2 Ha2) as A.
  destruct (add_node_template d h2 r n nid') as [h3|]; [|assumption].
  destruct A as (t' & Ht' & Habs & Hfr). exists t'. split; [assumption|]. split; [assumption|].
  intros i ob Hi Hne. apply Hfr; [|assumption]. rewrite Hoth; [eapply extends_lookup; eauto|]. intros ->. congruence.
Qed.
Lemma upd_all_equiv d r op var v ntot : forall targets h t i, abs d h r = Some t ->
  match upd_all d r h targets i ntot op var v with
  | Some h' => exists t', tupd_all t targets i ntot op var v = Some t' /\ abs d h' r = Some t' /\ keeps h h' r
  | None => tupd_all t targets i ntot op var v = None
  end.
Proof.
  induction targets as [|n rest IH]; intros h t i H; cbn.
  - exists t. repeat split; try assumption. intros i0 ob Hi _. assumption.
  - pose proof (upd_one_equiv d r h t n op var (pick v i ntot) H) as U.
    destruct (upd_one d r h n op var (pick v i ntot)) as [h'|]; [|now rewrite U].
    destruct U as (t' & -> & Habs & K1). specialize (IH h' t' (S i) Habs).
    destruct (upd_all d r h' rest (S i) ntot op var v); [|assumption].
    destruct IH as (t'' & ? & ? & K2). exists t''. repeat split; try assumption. eapply keeps_trans; eauto.
Qed.
Lemma update_var_equiv d r h t pat op var v : abs d h r = Some t ->
  match update_var d r h pat op var v with
  | Some h' => exists t', tupdate_var t pat op var v = Some t' /\ abs d h' r = Some t' /\ keeps h h' r
  | None => tupdate_var t pat op var v = None
  end.
Proof.
  intros H. unfold update_var, tupdate_var. rewrite (get_nodes_equiv d h r t pat H).
  destruct (tget_nodes t pat) as [ns|]; [|reflexivity].
  rewrite (filter_ext (fun n => has_var d h r n op var) (fun n => thas_var t n op var))
    by (intros; now apply has_var_equiv).
  now apply upd_all_equiv.
Qed.

(* ------------------------------------------------------------------ edge attribute update on the root *)
Lemma update_edge_equiv d r h t s tg upd : abs d h r = Some t ->
  match update_edge r h s tg upd with
  | Some h' => exists t', tupdate_edge t s tg upd = Some t' /\ abs d h' r = Some t'
  | None => tupdate_edge t s tg upd = None
  end.
Proof.
  intros H. pose proof (acyclic _ _ _ _ H) as Hacyc. unfold below in Hacyc. unfold update_edge.
  destruct d as [|d]; cbn in H; destruct (lookup h r) as [[| |ch es]|] eqn:E; try discriminate.
  - destruct (mapM (lift (node_den h)) ch) as [ns|] eqn:M; [|discriminate]. injection H as <-. cbn.
    destruct (edges_update es s tg upd) as [es'|]; [|reflexivity]. eexists. split; [reflexivity|].
    pose proof (lookup_lt _ _ _ E) as Hlt. cbn. rewrite hset_same by assumption.
    replace (mapM (lift (node_den (hset h r (OCirc ch es')))) ch) with (Some ns); [reflexivity|].
    rewrite <- M. apply mapM_ext_in. intros [k z] Hz. destruct (mapM_Some_in _ _ _ _ M Hz) as (w & Hw & _).
    unfold lift in *. cbn in *. destruct (node_den h z) eqn:N; [|discriminate].
    erewrite node_den_stable; eauto. intros i ob Hi Hc. rewrite hset_other; [assumption|].
    intros <-. rewrite E in Hi. injection Hi as <-. discriminate.
  - destruct (mapM (lift (abs d h)) ch) as [ss|] eqn:M; [|discriminate]. injection H as <-. cbn.
    destruct (edges_update es s tg upd) as [es'|]; [|reflexivity]. eexists. split; [reflexivity|].
    pose proof (lookup_lt _ _ _ E) as Hlt. cbn. rewrite hset_same by assumption.
    replace (mapM (lift (abs d (hset h r (OCirc ch es')))) ch) with (Some ss); [reflexivity|].
    rewrite <- M. apply mapM_ext_in. intros [k z] Hz. destruct (mapM_Some_in _ _ _ _ M Hz) as ([k' w] & Hw & Hin).
    unfold lift in *. cbn in *. destruct (abs d h z) eqn:N; [|discriminate]. injection Hw as <- <-.
    erewrite abs_stable; [reflexivity|exact N|]. intros i ob Hi Hc. rewrite hset_other; [assumption|]. intros <-.
    rewrite E in Hi. injection Hi as <-. exfalso. apply Hacyc.
    apply in_flat_map. exists (k, z). split; [assumption|]. cbn. now apply Hc.
Qed.

(* ------------------------------------------------------------------ observation *)
Lemma collect_edges_equiv d : forall h c t, abs d h c = Some t -> collect_edges d h c = Some (tcollect_edges t).
Proof.
  induction d as [|d IH]; intros h c t H.
  - cbn in *. destruct (lookup h c) as [[| |ch es]|]; try discriminate.
    destruct (mapM (lift (node_den h)) ch); [|discriminate]. injection H as <-. reflexivity.
  - cbn in H. cbn [collect_edges]. destruct (lookup h c) as [[| |ch es]|]; try discriminate.
    destruct (mapM (lift (abs d h)) ch) as [ss|] eqn:M; [|discriminate]. injection H as <-. cbn [tcollect_edges].
    rewrite (mapM_lift_rel (abs d h)
               (fun k x => match collect_edges d h x with Some l => Some (map (prefix_edge k) l) | None => None end)
               (fun k s => Some (map (prefix_edge k) (tcollect_edges s))) ch ss M).
    + clear M. replace (mapM (fun e : string * atree => Some (map (prefix_edge (fst e)) (tcollect_edges (snd e)))) ss)
        with (Some (map (fun e : string * atree => map (prefix_edge (fst e)) (tcollect_edges (snd e))) ss)).
      * now rewrite flat_map_concat_map.
      * induction ss as [|x ss IHs]; cbn; [reflexivity|]. now rewrite <- IHs.
    + intros k x y _ Hy. now rewrite (IH _ _ _ Hy).
Qed.
Lemma nodes_of_equiv d r h t : abs d h r = Some t -> nodes_of d r h = tnodes_of d t.
Proof.
  intros H. unfold nodes_of, tnodes_of. rewrite (get_nodes_equiv d h r t _ H).
  destruct (tget_nodes t (all_pat d)) as [ns|]; [|reflexivity]. apply mapM_ext_in. intros n _.
  pose proof (get_node_template_equiv d h r t n H) as G. destruct (get_node_template d h r n) as [nid|].
  - destruct G as (a & -> & ->). reflexivity.
  - now rewrite G.
Qed.
Lemma overrides_ext f g nv : (forall p, f p = g p) -> overrides f nv = overrides g nv.
Proof.
  intros H. unfold overrides. replace (mapM _ nv) with
    (mapM (fun e : nv_entry => let '(pat, op, var, v) := e in
             match g pat with
             | Some ns => Some (map (fun iv => ((snd iv, op, var), pick v (fst iv) (List.length ns))) (combine (seq 0 (List.length ns)) ns))
             | None => None end) nv); [reflexivity|].
  apply mapM_ext_in. intros [[[pat op] var] v] _. now rewrite H.
Qed.
Lemma observe_equiv_gen fx d r h t nv ev : abs d h r = Some t -> observe_gen fx d r h nv ev = tobserve_gen fx d t nv ev.
Proof.
  intros H. unfold observe_gen, tobserve_gen. rewrite (nodes_of_equiv d r h t H), (collect_edges_equiv d h r t H).
  rewrite (overrides_ext (get_nodes d h r) (tget_nodes t) nv) by (intros; now apply get_nodes_equiv).
  destruct (tnodes_of d t); [|reflexivity]. destruct (overrides (tget_nodes t) nv); reflexivity.
Qed.

Lemma observe_equiv d r h t nv ev : abs d h r = Some t -> observe d r h nv ev = tobserve d t nv ev.
Proof. apply observe_equiv_gen. Qed.

(* ------------------------------------------------------------------ update_template *)
Lemma lift_dset {A B} (f : A -> option B) k x y : forall l s, mapM (lift f) l = Some s -> f x = Some y ->
  mapM (lift f) (dset k x l) = Some (dset k y s).
Proof.
  induction l as [|[k' x'] l IH]; intros s M Hx.
  - injection M as <-. cbn. unfold lift. cbn. now rewrite Hx.
  - apply mapM_cons_inv in M as (y' & r' & Hy' & Hr & ->). unfold lift in Hy'. cbn in Hy'.
    destruct (f x') eqn:E; [|discriminate]. injection Hy' as <-. cbn. destruct (String.eqb k k').
    + cbn. unfold lift at 1. cbn. rewrite Hx. now rewrite Hr.
    + cbn. unfold lift at 1. cbn. rewrite E. now rewrite (IH _ Hr Hx).
Qed.
Lemma lift_dupdate {A B} (f : A -> option B) news anews :
  Forall2 (fun (a : string * A) (b : string * B) => fst a = fst b /\ f (snd a) = Some (snd b)) news anews ->
  forall l s, mapM (lift f) l = Some s -> mapM (lift f) (dupdate l news) = Some (dupdate s anews).
Proof.
  intros HF. unfold dupdate. induction HF as [|[k x] [k2 y] news anews (Hk & Hx) HF IH]; intros l s M; [assumption|].
  cbn in *. subst k2. apply IH. now apply lift_dset.
Qed.
Lemma resolve_adds_equiv d h r t adds : abs d h r = Some t ->
  match resolve_adds d h r adds with
  | Some news => exists anews, tresolve_adds t adds = Some anews /\
                   Forall2 (fun (a : string * id) (b : string * anode) => fst a = fst b /\ node_den h (snd a) = Some (snd b)) news anews
  | None => tresolve_adds t adds = None
  end.
Proof.
  intros H. unfold resolve_adds, tresolve_adds. induction adds as [|[k p] adds IH]; cbn.
  - exists []. split; [reflexivity|constructor].
  - pose proof (get_node_template_equiv d h r t p H) as G. destruct (get_node_template d h r p) as [nid|].
    + destruct G as (a & Ha & ->). destruct (mapM _ adds) as [news|].
      * destruct IH as (anews & -> & HF). exists ((k, a) :: anews). split; [reflexivity|]. constructor; [split; [reflexivity|assumption]|assumption].
      * now rewrite IH.
    + now rewrite G.
Qed.
Lemma leaf_new h ch' e' ns' : mapM (lift (node_den h)) ch' = Some ns' ->
  abs 0 (h ++ [OCirc ch' e']) (List.length h) = Some (ALeaf ns' e').
Proof.
  intros M. cbn. rewrite lookup_alloc_new.
  replace (mapM (lift (node_den (h ++ [OCirc ch' e']))) ch') with (Some ns'); [reflexivity|].
  rewrite <- M. apply mapM_ext_in. intros [k z] Hz. destruct (mapM_Some_in _ _ _ _ M Hz) as (w & Hw & _).
  unfold lift in *. cbn in *. destruct (node_den h z) eqn:N; [|discriminate].
  erewrite node_den_stable; eauto. intros. eapply extends_lookup; eauto. apply extends_app.
Qed.
Lemma leaf_inpl h r ch0 e0 ch' e' ns' : lookup h r = Some (OCirc ch0 e0) -> mapM (lift (node_den h)) ch' = Some ns' ->
  abs 0 (hset h r (OCirc ch' e')) r = Some (ALeaf ns' e').
Proof.
  intros E M. pose proof (lookup_lt _ _ _ E) as Hlt. cbn. rewrite hset_same by assumption.
  replace (mapM (lift (node_den (hset h r (OCirc ch' e')))) ch') with (Some ns'); [reflexivity|].
  rewrite <- M. apply mapM_ext_in. intros [k z] Hz. destruct (mapM_Some_in _ _ _ _ M Hz) as (w & Hw & _).
  unfold lift in *. cbn in *. destruct (node_den h z) eqn:N; [|discriminate].
  erewrite node_den_stable; eauto. intros i ob Hi Hc. rewrite hset_other; [assumption|].
  intros <-. rewrite E in Hi. injection Hi as <-. discriminate.
Qed.
Lemma inner_new d h ch e' ss : mapM (lift (abs d h)) ch = Some ss ->
  abs (S d) (h ++ [OCirc ch e']) (List.length h) = Some (AInner ss e').
Proof.
  intros M. cbn. rewrite lookup_alloc_new.
  replace (mapM (lift (abs d (h ++ [OCirc ch e']))) ch) with (Some ss); [reflexivity|].
  rewrite <- M. apply mapM_ext_in. intros [k z] Hz. destruct (mapM_Some_in _ _ _ _ M Hz) as (w & Hw & _).
  unfold lift in *. cbn in *. destruct (abs d h z) eqn:N; [|discriminate].
  erewrite abs_extends; eauto. apply extends_app.
Qed.
Lemma inner_inpl d h r ch e0 e' ss : abs (S d) h r = Some (AInner ss e0) -> lookup h r = Some (OCirc ch e0) ->
  abs (S d) (hset h r (OCirc ch e')) r = Some (AInner ss e').
Proof.
  intros H E. pose proof (acyclic _ _ _ _ H) as Hacyc. unfold below in Hacyc. rewrite E in Hacyc.
  cbn in H. rewrite E in H. destruct (mapM (lift (abs d h)) ch) as [ss0|] eqn:M; [|discriminate]. injection H as <-.
  pose proof (lookup_lt _ _ _ E) as Hlt. cbn. rewrite hset_same by assumption.
  replace (mapM (lift (abs d (hset h r (OCirc ch e')))) ch) with (Some ss0); [reflexivity|].
  rewrite <- M. apply mapM_ext_in. intros [k z] Hz. destruct (mapM_Some_in _ _ _ _ M Hz) as (w & Hw & _).
  unfold lift in *. cbn in *. destruct (abs d h z) eqn:N; [|discriminate].
  erewrite abs_stable; [reflexivity|exact N|]. intros i ob Hi Hc. rewrite hset_other; [assumption|]. intros <-.
  rewrite E in Hi. injection Hi as <-. exfalso. apply Hacyc.
  apply in_flat_map. exists (k, z). split; [assumption|]. cbn. now apply Hc.
Qed.

Lemma update_template_equiv d r h t inpl adds es : abs d h r = Some t ->
  match update_template d r h inpl adds es with
  | Some (h', r') => exists t', tupdate_template t adds es = Some t' /\ abs d h' r' = Some t'
  | None => tupdate_template t adds es = None
  end.
Proof.
  intros H. unfold update_template, tupdate_template.
  destruct (abs_root _ _ _ _ H) as (ch & es0 & E). rewrite E.
  pose proof (resolve_adds_equiv d h r t adds H) as R. destruct (resolve_adds d h r adds) as [news|] eqn:ER; [|now rewrite R].
  destruct R as (anews & -> & HF).
  destruct d as [|d].
  - pose proof H as H0. cbn in H. rewrite E in H. destruct (mapM (lift (node_den h)) ch) as [ns|] eqn:M; [|discriminate]. injection H as <-.
    destruct adds as [|ad adds]; cbn [is_nil].
    + cbn in ER. injection ER as <-. inversion HF; subst. cbn [dupdate fold_left]. destruct inpl; eexists; (split; [reflexivity|]).
      * eapply leaf_inpl; eauto.
      * now apply leaf_new.
    + assert (Hi : minv h h []).
      { split; [apply extends_refl|]. split; [|intros ? ? [=]]. intros j c0 e0 Hj Hl. apply lookup_lt in Hl. lia. }
      assert (HD : forall x, In x ch -> exists a, node_den h (snd x) = Some a).
      { intros x Hx. destruct (mapM_Some_in _ _ _ _ M Hx) as (y & Hy & _). unfold lift in Hy. destruct (node_den h (snd x)); [eauto|discriminate]. }
      destruct (copy_children_spec h _ _ (copy_node_m_good h) ch h [] Hi HD) as (h1 & m1 & ch1 & -> & _ & He & HC).
      assert (M1 : mapM (lift (node_den h1)) ch1 = Some ns).
      { eapply lift_transfer; [|exact M]. eapply Forall2_imp; [|exact HC]. intros x x' (Hn & _ & Hs). split; [assumption|].
        intros y Hy. now apply Hs. }
      assert (HF1 : Forall2 (fun (a : string * id) (b : string * anode) => fst a = fst b /\ node_den h1 (snd a) = Some (snd b)) news anews).
      { eapply Forall2_imp; [|exact HF]. intros a b (Hk & Hn). split; [assumption|]. eapply node_den_stable; eauto.
        intros. eapply extends_lookup; eauto. }
      pose proof (lift_dupdate (node_den h1) news anews HF1 ch1 ns M1) as M2.
      destruct inpl; eexists; (split; [reflexivity|]).
      * eapply leaf_inpl; eauto. eapply extends_lookup; eauto.
      * now apply leaf_new.
  - pose proof H as H0. cbn in H. rewrite E in H. destruct (mapM (lift (abs d h)) ch) as [ss|] eqn:M; [|discriminate]. injection H as <-.
    destruct adds as [|ad adds]; cbn [is_nil]; [|reflexivity].
    destruct inpl; eexists; (split; [reflexivity|]).
    + eapply inner_inpl; eauto.
    + now apply inner_new.
Qed.

Lemma update_edge_keeps r h s tg upd h' : update_edge r h s tg upd = Some h' -> keeps h h' r.
Proof.
  unfold update_edge. destruct (lookup h r) as [[| |ch es]|]; try discriminate.
  destruct (edges_update es s tg upd); [|discriminate]. intros [= <-] i ob Hi Hne. rewrite hset_other; [assumption|congruence].
Qed.
Lemma update_template_keeps d r h inpl adds es h' r' : update_template d r h inpl adds es = Some (h', r') ->
  keeps h h' r /\ (if inpl then r' = r else extends h (firstn r' h') /\ List.length h <= r' /\ forall i ob, lookup h i = Some ob -> lookup h' i = Some ob).
Proof.
  unfold update_template. destruct (lookup h r) as [[| |ch es0]|] eqn:E; try discriminate.
  destruct (resolve_adds d h r adds) as [news|]; [|discriminate].
  set (copied := if is_nil adds then Some (h, ch) else _). intros H.
  assert (Hc : match copied with Some (h1, _) => extends h h1 | None => True end).
  { subst copied. destruct (is_nil adds); [apply extends_refl|]. destruct d; [|exact I].
    destruct (copy_children copy_node_m h [] ch) as [[[h1 m1] ch1]|] eqn:C; [|exact I].
    eapply copy_children_extends; [|exact C]. intros. eapply copy_node_m_extends; eauto. }
  destruct copied as [[h1 ch']|]; [|discriminate]. destruct inpl; injection H as <- <-.
  - split; [|reflexivity]. intros i ob Hi Hne. rewrite hset_other by congruence. eapply extends_lookup; eauto.
  - pose proof (extends_length _ _ Hc) as Hl. split; [|split; [|split; [assumption|]]].
    + intros i ob Hi _. eapply extends_lookup; [eapply extends_trans; [exact Hc|apply extends_app]|assumption].
    + rewrite firstn_app, firstn_all, Nat.sub_diag. cbn. rewrite app_nil_r. assumption.
    + intros i ob Hi. eapply extends_lookup; [eapply extends_trans; [exact Hc|apply extends_app]|assumption].
Qed.

(* ------------------------------------------------------------------ histories *)
Definition heap_of (st : istate) : heap := fst (fst st).
Definition root_of (st : istate) : id := snd (fst st).
Definition olds_of (st : istate) : list id := snd st.

(* a base template left behind keeps its denotation: it was unfolded in a store hk that lies entirely below the current
   root object, and only the current root object and fresh objects are ever written *)
Definition old_ok (d : nat) (h : heap) (r : id) (b : id) (tb : atree) : Prop :=
  exists hk, abs d hk b = Some tb /\ (forall i ob, lookup hk i = Some ob -> lookup h i = Some ob) /\ List.length hk <= r.
Definition sim (d : nat) (st : istate) (ss : sstate) : Prop :=
  abs d (heap_of st) (root_of st) = Some (fst ss) /\ Forall2 (old_ok d (heap_of st) (root_of st)) (olds_of st) (snd ss).

Lemma old_ok_abs d h r b tb : old_ok d h r b tb -> abs d h b = Some tb.
Proof. intros (hk & Ha & Hl & _). eapply abs_stable; [exact Ha|]. intros i ob Hi _. now apply Hl. Qed.
Lemma old_ok_step d h r b tb h' r' : old_ok d h r b tb -> keeps h h' r -> r <= r' -> old_ok d h' r' b tb.
Proof.
  intros (hk & Ha & Hl & Hlen) K Hr. exists hk. split; [assumption|]. split; [|lia].
  intros i ob Hi. apply K; [now apply Hl|]. apply lookup_lt in Hi. lia.
Qed.
Lemma olds_step d h r h' r' olds tolds : Forall2 (old_ok d h r) olds tolds -> keeps h h' r -> r <= r' ->
  Forall2 (old_ok d h' r') olds tolds.
Proof. intros HF K Hr. eapply Forall2_imp; [|exact HF]. intros b tb Hb. eapply old_ok_step; eauto. Qed.
Lemma olds_nth d h r olds tolds k : Forall2 (old_ok d h r) olds tolds ->
  match nth_error olds k with
  | Some b => exists tb, nth_error tolds k = Some tb /\ abs d h b = Some tb
  | None => nth_error tolds k = None
  end.
Proof.
  intros HF. revert k. induction HF as [|b tb olds tolds Hb HF IH]; intros [|k]; cbn; try reflexivity.
  - exists tb. split; [reflexivity|]. eapply old_ok_abs; eauto.
  - apply IH.
Qed.

Lemma step_refines fx d st ss o : sim d st ss ->
  sim d (fst (stepI_gen fx d st o)) (fst (stepS_gen fx d ss o)) /\ snd (stepI_gen fx d st o) = snd (stepS_gen fx d ss o).
Proof.
  destruct st as [[h r] olds]. destruct ss as [t tolds]. unfold sim, heap_of, root_of, olds_of. cbn [fst snd]. intros (H & HO).
  destruct o as [pat op var v|s tg upd|inpl adds es|nv ev|k]; cbn [stepI_gen stepS_gen].
  - pose proof (update_var_equiv d r h t pat op var v H) as U. destruct (update_var d r h pat op var v).
    + destruct U as (t' & -> & ? & K). cbn. repeat split; try assumption. eapply olds_step; eauto.
    + rewrite U. cbn. auto.
  - pose proof (update_edge_equiv d r h t s tg upd H) as U. destruct (update_edge r h s tg upd) eqn:UE.
    + destruct U as (t' & -> & ?). cbn. repeat split; try assumption. eapply olds_step; eauto. eapply update_edge_keeps; eauto.
    + rewrite U. cbn. auto.
  - pose proof (update_template_equiv d r h t inpl adds es H) as U. destruct (update_template d r h inpl adds es) as [[h' r']|] eqn:UT.
    + destruct U as (t' & -> & Ha). destruct (update_template_keeps _ _ _ _ _ _ _ _ UT) as (K & Hi). cbn.
      destruct inpl.
      * subst r'. repeat split; try assumption. eapply olds_step; eauto.
      * destruct Hi as (_ & Hlen & Hall). destruct (abs_root _ _ _ _ H) as (? & ? & E). pose proof (lookup_lt _ _ _ E).
        repeat split; try assumption. constructor.
        -- exists h. repeat split; assumption.
        -- eapply olds_step; eauto. lia.
    + rewrite U. cbn. auto.
  - cbn. repeat split; try assumption. now apply observe_equiv_gen.
  - cbn. repeat split; try assumption. pose proof (olds_nth d h r olds tolds k HO) as N. destruct (nth_error olds k) as [b|].
    + destruct N as (tb & -> & Hb). now apply observe_equiv_gen.
    + now rewrite N.
Qed.
Theorem history_refines fx d : forall ops st ss, sim d st ss ->
  sim d (fst (runI_gen fx d st ops)) (fst (runS_gen fx d ss ops)) /\ snd (runI_gen fx d st ops) = snd (runS_gen fx d ss ops).
Proof.
  induction ops as [|o ops IH]; intros st ss H; cbn; [auto|].
  destruct (step_refines fx d st ss o H) as (Ha & Ho).
  destruct (stepI_gen fx d st o) as [s1 out]. destruct (stepS_gen fx d ss o) as [t1 out']. cbn in *. subst out'.
  destruct (IH s1 t1 Ha) as (Hb & Hc). destruct (runI_gen fx d s1 ops) as [s2 outs]. destruct (runS_gen fx d t1 ops) as [t2 outs'].
  cbn in *. subst. auto.
Qed.
Corollary history_outputs_gen fx d r ops h t : abs d h r = Some t ->
  snd (runI_gen fx d (init_state h r) ops) = snd (runS_gen fx d (t, []) ops).
Proof. intros H. apply (history_refines fx d ops (init_state h r) (t, [])). split; [exact H|constructor]. Qed.
Corollary history_outputs_fixed d r ops h t : abs d h r = Some t -> snd (runI_gen true d (init_state h r) ops) = snd (runS d t ops).
Proof. apply history_outputs_gen. Qed.

(* ------------------------------------------------------------------ decidable equality of outputs (for the D97 guard) *)
Lemma Qc_eqb_eq a b : Qc_eqb a b = true -> a = b.
Proof. unfold Qc_eqb. intros H. apply Qc_is_canon. now apply Qeq_bool_iff. Qed.
Fixpoint list_eqb {A} (f : A -> A -> bool) (a b : list A) : bool :=
  match a, b with [], [] => true | x :: a', y :: b' => f x y && list_eqb f a' b' | _, _ => false end.
Lemma list_eqb_eq {A} (f : A -> A -> bool) : (forall x y, f x y = true -> x = y) -> forall a b, list_eqb f a b = true -> a = b.
Proof.
  intros Hf. induction a as [|x a IH]; intros [|y b] H; cbn in H; try discriminate; [reflexivity|].
  apply andb_true_iff in H as [H1 H2]. f_equal; auto.
Qed.
Definition val_eqs (a b : val) : bool :=
  match a, b with
  | Sc x, Sc y => Qc_eqb x y
  | Arr x, Arr y => list_eqb Qc_eqb x y
  | ScI x, ScI y => Z.eqb x y
  | Ref x, Ref y => String.eqb x y
  | _, _ => false
  end.
Lemma val_eqs_eq a b : val_eqs a b = true -> a = b.
Proof.
  destruct a, b; cbn; try discriminate; intros H.
  - f_equal. now apply Qc_eqb_eq.
  - f_equal. revert H. apply list_eqb_eq. apply Qc_eqb_eq.
  - f_equal. now apply Z.eqb_eq.
  - f_equal. now apply String.eqb_eq.
Qed.
Definition okv_eqs (a b : okey * val) : bool :=
  let '((p, o, v), x) := a in let '((p', o', v'), y) := b in
  list_eqb String.eqb p p' && String.eqb o o' && String.eqb v v' && val_eqs x y.
Lemma okv_eqs_eq a b : okv_eqs a b = true -> a = b.
Proof.
  destruct a as [[[p o] v] x], b as [[[p' o'] v'] y]. cbn. intros H.
  repeat (apply andb_true_iff in H as [H ?]). apply (list_eqb_eq String.eqb) in H; [|intros; now apply String.eqb_eq].
  repeat match goal with E : String.eqb _ _ = true |- _ => apply String.eqb_eq in E end.
  match goal with E : val_eqs _ _ = true |- _ => apply val_eqs_eq in E end. congruence.
Qed.
Definition kv_eqs (a b : string * val) : bool := String.eqb (fst a) (fst b) && val_eqs (snd a) (snd b).
Lemma kv_eqs_eq a b : kv_eqs a b = true -> a = b.
Proof. destruct a, b. unfold kv_eqs. cbn. intros H. apply andb_true_iff in H as [H1 H2]. apply String.eqb_eq in H1. apply val_eqs_eq in H2. congruence. Qed.
Definition edge_eqs (a b : edge) : bool :=
  let '(s, t, x) := a in let '(s', t', y) := b in String.eqb s s' && String.eqb t t' && list_eqb kv_eqs x y.
Lemma edge_eqs_eq a b : edge_eqs a b = true -> a = b.
Proof.
  destruct a as [[s t] x], b as [[s' t'] y]. cbn. intros H. repeat (apply andb_true_iff in H as [H ?]).
  apply String.eqb_eq in H. match goal with E : String.eqb _ _ = true |- _ => apply String.eqb_eq in E end.
  match goal with E : list_eqb _ _ _ = true |- _ => apply (list_eqb_eq kv_eqs kv_eqs_eq) in E end. congruence.
Qed.
Definition hout_eqs (a b : hout) : bool :=
  match a, b with
  | ODone, ODone | ORaised, ORaised => true
  | OObs n e, OObs n' e' => list_eqb okv_eqs n n' && list_eqb edge_eqs e e'
  | _, _ => false
  end.
Lemma hout_eqs_eq a b : hout_eqs a b = true -> a = b.
Proof.
  destruct a, b; cbn; try discriminate; try reflexivity. intros H. apply andb_true_iff in H as [H1 H2].
  apply (list_eqb_eq okv_eqs okv_eqs_eq) in H1. apply (list_eqb_eq edge_eqs edge_eqs_eq) in H2. congruence.
Qed.

(* guard of finding D97: along the history no compilation hands a non-integral value to a variable declared by an integer,
   i.e. the specification that casts such values gives the same outputs as the one that does not *)
Definition int_exact (d : nat) (t : atree) (ops : list hop) : bool :=
  list_eqb hout_eqs (snd (runS_gen false d (t, []) ops)) (snd (runS_gen true d (t, []) ops)).
Theorem history_outputs_guarded fx d r ops h t : abs d h r = Some t -> fx = true \/ int_exact d t ops = true ->
  snd (runI_gen fx d (init_state h r) ops) = snd (runS d t ops).
Proof.
  intros H G. rewrite (history_outputs_gen fx d r ops h t H). destruct fx; [reflexivity|].
  destruct G as [G|G]; [discriminate|]. apply (list_eqb_eq hout_eqs hout_eqs_eq). exact G.
Qed.
Corollary history_outputs d r ops h t : abs d h r = Some t -> fixed_D97 = true \/ int_exact d t ops = true ->
  snd (runI d (init_state h r) ops) = snd (runS d t ops).
Proof. apply history_outputs_guarded. Qed.

Corollary history_outputs_head d r ops h t : abs d h r = Some t -> snd (runI d (init_state h r) ops) = snd (runS d t ops).
Proof. intros H. apply history_outputs; [exact H|]. now left. Qed.

(* ------------------------------------------------------------------ the frame property of the specification:
   a functional update at path n changes the node at n and no other (first-match dictionaries).
   `same_addr t n m`: do n and m address the same node of t (components beyond the leaf level are ignored, as the code does) *)
Fixpoint same_addr (t : atree) (n m : path) : bool :=
  match n, m with
  | p :: n', q :: m' =>
    String.eqb p q && match t with
                      | ALeaf _ _ => true
                      | AInner ss _ => match dget p ss with Some s => same_addr s n' m' | None => true end
                      end
  | _, _ => false
  end.
Lemma dget_dset {V} k k' (v : V) l : dget k' (dset k v l) = if String.eqb k' k then Some v else dget k' l.
Proof.
  induction l as [|[k0 v0] l IH]; cbn.
  - destruct (String.eqb k' k); reflexivity.
  - destruct (String.eqb k k0) eqn:E; cbn.
    + apply String.eqb_eq in E as <-. destruct (String.eqb k' k); reflexivity.
    + destruct (String.eqb k' k0) eqn:E'.
      * apply String.eqb_eq in E' as ->. rewrite String.eqb_sym in E. now rewrite E.
      * assumption.
Qed.
Lemma tget_tset : forall n t a t' m, tset_node t n a = Some t' ->
  tget_node t' m = if same_addr t n m then Some a else tget_node t m.
Proof.
  induction n as [|p n IH]; intros t a t' m H; [discriminate|].
  destruct m as [|q m]; [destruct t'; reflexivity|]. cbn [same_addr].
  destruct t as [ns es|ss es]; cbn in H.
  - destruct (dhas p ns); [|discriminate]. injection H as <-. cbn. rewrite dget_dset. rewrite String.eqb_sym.
    destruct (String.eqb p q); reflexivity.
  - destruct (dget p ss) as [s|] eqn:G; [|discriminate]. destruct (tset_node s n a) as [s'|] eqn:S; [|discriminate].
    injection H as <-. cbn. rewrite dget_dset. rewrite (String.eqb_sym q p). destruct (String.eqb p q) eqn:E; cbn.
    + apply String.eqb_eq in E as <-. rewrite G. now apply IH.
    + reflexivity.
Qed.

(* ------------------------------------------------------------------ probes used by the computed witnesses *)
Definition probe (k : okey) (outs : list hout) : Z :=
  match last outs ODone with
  | OObs ns _ => match ol_get ns k with Some (Sc q) => Qnum (this q) | _ => 0%Z end
  | _ => 0%Z
  end.
Definition probe_w (s t : string) (outs : list hout) : Z :=
  match last outs ODone with
  | OObs _ es => Qnum (this (edge_sum es s t))
  | _ => 0%Z
  end.
