(* ValuesProofs.v — proofs about Values.v (C07).  Main result: `history_refines` — for every store whose circuit
   objects are reached at most once (D27 guard) and every finite history of update_var / edge updates / observations,
   the store-based implementation model produces the outputs of the tree specification and its abstraction follows
   the specification state.  `tget_tset` is the frame property of the specification. *)
From Coq Require Import List String Arith Bool QArith Qcanon Lia.
From PV Require Import Heap Values.
Import ListNotations.
Open Scope nat_scope.

(* ------------------------------------------------------------------ mapM *)
Lemma mapM_ext_in {A B} (f g : A -> option B) l : (forall x, In x l -> f x = g x) -> mapM f l = mapM g l.
Proof.
  induction l as [|x l IH]; intros H; cbn; [reflexivity|].
  rewrite (H x (or_introl eq_refl)), IH; [reflexivity|]. intros y Hy. apply H. now right.
Qed.
Lemma mapM_cons_inv {A B} (f : A -> option B) x l r : mapM f (x :: l) = Some r ->
  exists y r', f x = Some y /\ mapM f l = Some r' /\ r = y :: r'.
Proof. cbn. destruct (f x); [|discriminate]. destruct (mapM f l); [|discriminate]. intros [= <-]. eauto. Qed.
Lemma mapM_app_inv {A B} (f : A -> option B) a b r : mapM f (a ++ b) = Some r ->
  exists ra rb, mapM f a = Some ra /\ mapM f b = Some rb /\ r = ra ++ rb.
Proof.
  revert r; induction a as [|x a IH]; intros r H; cbn in *.
  - exists [], r. auto.
  - destruct (f x); [|discriminate]. destruct (mapM f (a ++ b)) eqn:E; [|discriminate]. injection H as <-.
    destruct (IH _ eq_refl) as (ra & rb & -> & -> & ->). exists (b0 :: ra), rb. auto.
Qed.
Lemma mapM_app {A B} (f : A -> option B) a b ra rb : mapM f a = Some ra -> mapM f b = Some rb ->
  mapM f (a ++ b) = Some (ra ++ rb).
Proof.
  revert ra; induction a as [|x a IH]; intros ra Ha Hb; cbn in *.
  - injection Ha as <-. assumption.
  - destruct (f x); [|discriminate]. destruct (mapM f a); [|discriminate]. injection Ha as <-.
    now rewrite (IH _ eq_refl Hb).
Qed.
Lemma mapM_Some_in {A B} (f : A -> option B) l r x : mapM f l = Some r -> In x l -> exists y, f x = Some y /\ In y r.
Proof.
  revert r; induction l as [|a l IH]; intros r H Hin; [destruct Hin|].
  apply mapM_cons_inv in H as (y & r' & Hy & Hr & ->). destruct Hin as [<-|Hin].
  - exists y. split; [assumption|now left].
  - destruct (IH _ Hr Hin) as (z & ? & ?). exists z. split; [assumption|now right].
Qed.

(* ------------------------------------------------------------------ dictionaries *)
Lemma dget_split {V} k (l : list (string * V)) v : dget k l = Some v ->
  exists l1 l2, l = l1 ++ (k, v) :: l2 /\ dget k l1 = None.
Proof.
  induction l as [|[k' v'] l IH]; cbn; [discriminate|]. destruct (String.eqb k k') eqn:E.
  - intros [= ->]. apply String.eqb_eq in E as <-. exists [], l. auto.
  - intros H. destruct (IH H) as (l1 & l2 & -> & Hn). exists ((k', v') :: l1), l2. split; [reflexivity|]. cbn. now rewrite E.
Qed.
Lemma dset_split {V} k (l1 l2 : list (string * V)) v v' : dget k l1 = None ->
  dset k v' (l1 ++ (k, v) :: l2) = l1 ++ (k, v') :: l2.
Proof.
  induction l1 as [|[k' w] l1 IH]; cbn.
  - now rewrite String.eqb_refl.
  - destruct (String.eqb k k'); [discriminate|]. intros H. now rewrite IH.
Qed.
Lemma dget_app_None {V} k (l1 l2 : list (string * V)) : dget k l1 = None -> dget k (l1 ++ l2) = dget k l2.
Proof. induction l1 as [|[k' w] l1 IH]; cbn; [reflexivity|]. destruct (String.eqb k k'); [discriminate|auto]. Qed.
Lemma dget_here {V} k (l1 l2 : list (string * V)) v : dget k l1 = None -> dget k (l1 ++ (k, v) :: l2) = Some v.
Proof. intros H. rewrite dget_app_None by assumption. cbn. now rewrite String.eqb_refl. Qed.

Lemma lift_keys {A B} (f : A -> option B) l s : mapM (lift f) l = Some s -> map fst s = map fst l.
Proof.
  revert s; induction l as [|[k x] l IH]; intros s H.
  - injection H as <-. reflexivity.
  - apply mapM_cons_inv in H as (y & r' & Hy & Hr & ->). unfold lift in Hy. cbn in Hy.
    destruct (f x); [|discriminate]. injection Hy as <-. cbn. now rewrite (IH _ Hr).
Qed.
Lemma lift_dget_None {A B} (f : A -> option B) l s k : mapM (lift f) l = Some s -> dget k l = None -> dget k s = None.
Proof.
  revert s; induction l as [|[k' x] l IH]; intros s H Hn.
  - injection H as <-. reflexivity.
  - apply mapM_cons_inv in H as (y & r' & Hy & Hr & ->). unfold lift in Hy. cbn in Hy.
    destruct (f x); [|discriminate]. injection Hy as <-. cbn in *. destruct (String.eqb k k'); [discriminate|eauto].
Qed.
Lemma lift_dget_Some {A B} (f : A -> option B) l s k x : mapM (lift f) l = Some s -> dget k l = Some x ->
  exists y, f x = Some y /\ dget k s = Some y.
Proof.
  revert s; induction l as [|[k' x'] l IH]; intros s H Hg; [discriminate|].
  apply mapM_cons_inv in H as (y & r' & Hy & Hr & ->). unfold lift in Hy. cbn in Hy.
  destruct (f x') eqn:E; [|discriminate]. injection Hy as <-. cbn in *. destruct (String.eqb k k').
  - injection Hg as <-. eauto.
  - eauto.
Qed.
Lemma lift_dhas {A B} (f : A -> option B) l s k : mapM (lift f) l = Some s -> dhas k s = dhas k l.
Proof.
  intros H. unfold dhas. destruct (dget k l) eqn:E.
  - destruct (lift_dget_Some _ _ _ _ _ H E) as (y & _ & ->). reflexivity.
  - now rewrite (lift_dget_None _ _ _ _ H E).
Qed.
(* split of a lifted mapM at the first entry named k *)
Lemma lift_split {A B} (f : A -> option B) l1 l2 k x s : mapM (lift f) (l1 ++ (k, x) :: l2) = Some s ->
  exists s1 y s2, mapM (lift f) l1 = Some s1 /\ f x = Some y /\ mapM (lift f) l2 = Some s2 /\ s = s1 ++ (k, y) :: s2.
Proof.
  intros H. apply mapM_app_inv in H as (s1 & r & H1 & H2 & ->).
  apply mapM_cons_inv in H2 as (y & s2 & Hy & H2 & ->). unfold lift in Hy. cbn in Hy.
  destruct (f x) eqn:E; [|discriminate]. injection Hy as <-. exists s1, b, s2. auto.
Qed.
Lemma mapM_lift_rel {A B C} (f : A -> option B) (P : string -> A -> option C) (Q : string -> B -> option C) l s :
  mapM (lift f) l = Some s ->
  (forall k x y, In (k, x) l -> f x = Some y -> P k x = Q k y) ->
  mapM (fun e => P (fst e) (snd e)) l = mapM (fun e => Q (fst e) (snd e)) s.
Proof.
  revert s; induction l as [|[k x] l IH]; intros s H HPQ.
  - injection H as <-. reflexivity.
  - apply mapM_cons_inv in H as (y & r' & Hy & Hr & ->). unfold lift in Hy. cbn in Hy.
    destruct (f x) eqn:E; [|discriminate]. injection Hy as <-. cbn.
    rewrite (HPQ k x b (or_introl eq_refl) E). rewrite (IH _ Hr); [reflexivity|].
    intros. eapply HPQ; eauto. now right.
Qed.

(* ------------------------------------------------------------------ NoDup over appended lists *)
Lemma NoDup_app_parts {A} (a b : list A) : NoDup (a ++ b) -> NoDup a /\ NoDup b /\ (forall x, In x a -> In x b -> False).
Proof.
  induction a as [|x a IH]; cbn; intros H.
  - repeat split; [constructor|assumption|intros ? []].
  - inversion H as [|? ? Hx Hr]; subst. destruct (IH Hr) as (Ha & Hb & Hd). repeat split.
    + constructor; [|assumption]. intros Hin. apply Hx. apply in_or_app. now left.
    + assumption.
    + intros y [<-|Hy] Hyb; [apply Hx; apply in_or_app; now right|eauto].
Qed.

Lemma nodupb_NoDup l : nodupb l = true <-> NoDup l.
Proof.
  induction l as [|x l IH]; cbn; [split; [constructor|reflexivity]|].
  rewrite andb_true_iff, negb_true_iff, IH. split.
  - intros [H1 H2]. constructor; [|assumption]. intros Hin.
    assert (existsb (Nat.eqb x) l = true) by (apply existsb_exists; exists x; split; [assumption|apply Nat.eqb_refl]). congruence.
  - intros H. inversion H as [|? ? Hx Hr]; subst. split; [|assumption].
    destruct (existsb (Nat.eqb x) l) eqn:E; [|reflexivity]. apply existsb_exists in E as (y & Hy & Hxy).
    apply Nat.eqb_eq in Hxy as <-. contradiction.
Qed.

(* ------------------------------------------------------------------ the abstraction is stable under store changes
   that keep every non-circuit object and every circuit object of the tree *)
Lemma op_den_stable h h' e o : op_den h e = Some o ->
  (forall i ob, lookup h i = Some ob -> is_circ ob = false -> lookup h' i = Some ob) -> op_den h' e = Some o.
Proof.
  unfold op_den. intros H Hs. destruct (lookup h (fst e)) as [[n eqs dd| |]|] eqn:E; try discriminate.
  now rewrite (Hs _ _ E eq_refl).
Qed.
Lemma node_den_stable h h' n a : node_den h n = Some a ->
  (forall i ob, lookup h i = Some ob -> is_circ ob = false -> lookup h' i = Some ob) -> node_den h' n = Some a.
Proof.
  unfold node_den. intros H Hs. destruct (lookup h n) as [[| ops |]|] eqn:E; try discriminate.
  rewrite (Hs _ _ E eq_refl). rewrite <- H. apply mapM_ext_in. intros e He.
  destruct (mapM_Some_in _ _ _ _ H He) as (o & Ho & _). rewrite Ho. eapply op_den_stable; eauto.
Qed.
Lemma abs_root d h c t : abs d h c = Some t -> In c (circ_ids t) /\ exists ch es, lookup h c = Some (OCirc ch es).
Proof.
  destruct d; cbn; destruct (lookup h c) as [[| |ch es]|]; try discriminate.
  - destruct (mapM _ ch); [|discriminate]. intros [= <-]. cbn. eauto.
  - destruct (mapM _ ch); [|discriminate]. intros [= <-]. cbn. eauto.
Qed.
Lemma abs_stable d : forall h h' c t, abs d h c = Some t ->
  (forall i ob, lookup h i = Some ob -> (is_circ ob = true -> In i (circ_ids t)) -> lookup h' i = Some ob) ->
  abs d h' c = Some t.
Proof.
  induction d as [|d IH]; intros h h' c t H Hs.
  - cbn in *. destruct (lookup h c) as [[| |ch es]|] eqn:E; try discriminate.
    destruct (mapM (lift (node_den h)) ch) as [ns|] eqn:M; [|discriminate]. injection H as <-.
    rewrite (Hs _ _ E) by (intros _; cbn; auto).
    replace (mapM (lift (node_den h')) ch) with (Some ns); [reflexivity|].
    rewrite <- M. apply mapM_ext_in. intros [k x] Hx. destruct (mapM_Some_in _ _ _ _ M Hx) as (y & Hy & _).
    unfold lift in *. cbn in *. destruct (node_den h x) eqn:N; [|discriminate].
    erewrite node_den_stable; eauto. intros i ob Hi Hc. apply Hs; [assumption|]. intros Hc'. congruence.
  - cbn in *. destruct (lookup h c) as [[| |ch es]|] eqn:E; try discriminate.
    destruct (mapM (lift (abs d h)) ch) as [ss|] eqn:M; [|discriminate]. injection H as <-.
    rewrite (Hs _ _ E) by (intros _; cbn; auto).
    replace (mapM (lift (abs d h')) ch) with (Some ss); [reflexivity|].
    rewrite <- M. apply mapM_ext_in. intros [k x] Hx. destruct (mapM_Some_in _ _ _ _ M Hx) as (y & Hy & Hin).
    unfold lift in *. cbn in *. destruct (abs d h x) eqn:N; [|discriminate]. injection Hy as <-.
    erewrite IH; eauto. intros i ob Hi Hc. apply Hs; [assumption|]. intros Hc'. cbn. right.
    apply in_flat_map. exists (k, a). split; [assumption|]. cbn. auto.
Qed.
Lemma abs_extends d h h' c t : abs d h c = Some t -> extends h h' -> abs d h' c = Some t.
Proof. intros H He. eapply abs_stable; eauto. intros. eapply extends_lookup; eauto. Qed.

Lemma circ_ids_are_circuits d : forall h c t i, abs d h c = Some t -> In i (circ_ids t) ->
  exists ch es, lookup h i = Some (OCirc ch es).
Proof.
  induction d as [|d IH]; intros h c t i H Hin.
  - pose proof (abs_root _ _ _ _ H) as (_ & ch & es & E). cbn in H. rewrite E in H.
    destruct (mapM _ ch); [|discriminate]. injection H as <-. cbn in Hin. destruct Hin as [<-|[]]. eauto.
  - pose proof (abs_root _ _ _ _ H) as (_ & ch & es & E). cbn in H. rewrite E in H.
    destruct (mapM (lift (abs d h)) ch) as [ss|] eqn:M; [|discriminate]. injection H as <-. cbn in Hin.
    destruct Hin as [<-|Hin]; [eauto|]. apply in_flat_map in Hin as ([k s] & Hs & Hi). cbn in Hi.
    assert (exists x, In (k, x) ch /\ abs d h x = Some s) as (x & _ & Hx).
    { clear -M Hs. revert ss M Hs. induction ch as [|[k' x'] ch IHc]; intros ss M Hs.
      - injection M as <-. destruct Hs.
      - apply mapM_cons_inv in M as (y & r' & Hy & Hr & ->). unfold lift in Hy. cbn in Hy.
        destruct (abs d h x') eqn:N; [|discriminate]. injection Hy as <-. destruct Hs as [[= <- <-]|Hs].
        + exists x'. split; [now left|assumption].
        + destruct (IHc _ Hr Hs) as (x & ? & ?). exists x. split; [now right|assumption]. }
    eauto.
Qed.

(* ------------------------------------------------------------------ get_node_template / get_nodes / has_var *)
Lemma get_node_template_equiv d : forall h c t n, abs d h c = Some t ->
  match get_node_template d h c n with
  | Some nid => exists a, node_den h nid = Some a /\ tget_node t n = Some a
  | None => tget_node t n = None
  end.
Proof.
  induction d as [|d IH]; intros h c t n H.
  - cbn in *. destruct (lookup h c) as [[| |ch es]|] eqn:E; try discriminate.
    destruct (mapM (lift (node_den h)) ch) as [ns|] eqn:M; [|discriminate]. injection H as <-.
    destruct n as [|p rest]; [reflexivity|]. cbn. destruct (dget p ch) as [x|] eqn:G.
    + destruct (lift_dget_Some _ _ _ _ _ M G) as (a & Ha & Hg). eauto.
    + eapply lift_dget_None; eauto.
  - cbn in H. cbn [get_node_template]. destruct (lookup h c) as [[| |ch es]|] eqn:E; try discriminate.
    destruct (mapM (lift (abs d h)) ch) as [ss|] eqn:M; [|discriminate]. injection H as <-.
    destruct n as [|p rest]; [reflexivity|]. cbn. destruct (dget p ch) as [x|] eqn:G.
    + destruct (lift_dget_Some _ _ _ _ _ M G) as (s & Hs & Hg). rewrite Hg. apply IH. assumption.
    + now rewrite (lift_dget_None _ _ _ _ M G).
Qed.

Lemma has_var_equiv d h r t n op var : abs d h r = Some t -> has_var d h r n op var = thas_var t n op var.
Proof.
  intros H. unfold has_var, thas_var. pose proof (get_node_template_equiv d h r t n H) as G.
  destruct (get_node_template d h r n) as [nid|].
  - destruct G as (a & -> & ->). reflexivity.
  - now rewrite G.
Qed.

Lemma map_fst_lift {A B} (f : A -> option B) l s (g : string -> path) : mapM (lift f) l = Some s ->
  map (fun x => g (fst x)) l = map (fun x => g (fst x)) s.
Proof.
  intros H. apply lift_keys in H. rewrite <- (map_map fst g), <- (map_map fst g s). now rewrite H.
Qed.

Lemma get_nodes_equiv d : forall h c t pat, abs d h c = Some t -> get_nodes d h c pat = tget_nodes t pat.
Proof.
  induction d as [|d IH]; intros h c t pat H.
  - cbn in *. destruct (lookup h c) as [[| |ch es]|] eqn:E; try discriminate.
    destruct (mapM (lift (node_den h)) ch) as [ns|] eqn:M; [|discriminate]. injection H as <-.
    destruct pat as [|p [|q rest]]; try reflexivity. cbn.
    rewrite (lift_dhas _ _ _ p M). destruct (dhas p ch); [reflexivity|].
    destruct (String.eqb p all); [|reflexivity]. f_equal. apply (map_fst_lift _ _ _ (fun k => [k]) M).
  - cbn in H. cbn [get_nodes]. destruct (lookup h c) as [[| |ch es]|] eqn:E; try discriminate.
    destruct (mapM (lift (abs d h)) ch) as [ss|] eqn:M; [|discriminate]. injection H as <-.
    destruct pat as [|p rest]; [reflexivity|]. cbn. destruct (String.eqb p all).
    + rewrite (mapM_lift_rel (abs d h)
                 (fun k x => match get_nodes d h x rest with Some l => Some (map (cons k) l) | None => None end)
                 (fun k s => match tget_nodes s rest with Some l => Some (map (cons k) l) | None => None end) ch ss M).
      * reflexivity.
      * intros k x y _ Hy. now rewrite (IH _ _ _ rest Hy).
    + destruct (dget p ch) as [x|] eqn:G.
      * destruct (lift_dget_Some _ _ _ _ _ M G) as (s & Hs & ->). now rewrite (IH _ _ _ rest Hs).
      * now rewrite (lift_dget_None _ _ _ _ M G).
Qed.

(* ------------------------------------------------------------------ add_node_template = functional update of the tree,
   provided no circuit object is reached twice (the D27 guard) *)
Lemma flat_ids_app (s1 s2 : list (string * atree)) k t :
  flat_map (fun x => circ_ids (snd x)) (s1 ++ (k, t) :: s2) =
  flat_map (fun x => circ_ids (snd x)) s1 ++ circ_ids t ++ flat_map (fun x => circ_ids (snd x)) s2.
Proof. rewrite flat_map_app. reflexivity. Qed.

Lemma add_node_template_equiv d : forall h c t n nid a,
  abs d h c = Some t -> NoDup (circ_ids t) -> node_den h nid = Some a ->
  match add_node_template d h c n nid with
  | Some h' => exists t', tset_node t n a = Some t' /\ abs d h' c = Some t' /\ circ_ids t' = circ_ids t /\
                          (forall i ob, lookup h i = Some ob -> ~ In i (circ_ids t) -> lookup h' i = Some ob)
  | None => tset_node t n a = None
  end.
Proof.
  induction d as [|d IH]; intros h c t n nid a H ND Ha.
  - cbn in H. cbn [add_node_template]. destruct (lookup h c) as [[| |ch es]|] eqn:E; try discriminate.
    destruct (mapM (lift (node_den h)) ch) as [ns|] eqn:M; [|discriminate]. injection H as <-.
    destruct n as [|p rest]; [reflexivity|]. cbn [tset_node]. unfold dhas. destruct (dget p ch) as [x|] eqn:G.
    + destruct (lift_dget_Some _ _ _ _ _ M G) as (a0 & Ha0 & Hg). rewrite Hg.
      eexists. split; [reflexivity|]. pose proof (lookup_lt _ _ _ E) as Hlt.
      pose proof (hset_same h c (OCirc (dset p nid ch) es) Hlt) as Hroot.
      assert (Hoth : forall i, i <> c -> lookup (hset h c (OCirc (dset p nid ch) es)) i = lookup h i)
        by (intros; apply hset_other; congruence).
      remember (hset h c (OCirc (dset p nid ch) es)) as h' eqn:Eh'. clear Eh'.
      assert (Hst : forall i ob, lookup h i = Some ob -> is_circ ob = false -> lookup h' i = Some ob).
      { intros i ob Hi Hc. rewrite Hoth; [assumption|]. intros ->. rewrite E in Hi. injection Hi as <-. discriminate. }
      split; [|split; [reflexivity|]].
      * cbn. rewrite Hroot.
        destruct (dget_split _ _ _ G) as (l1 & l2 & -> & Hn).
        destruct (lift_split _ _ _ _ _ _ M) as (s1 & y & s2 & M1 & Hy & M2 & ->).
        rewrite (dset_split _ _ _ _ nid Hn). rewrite (dset_split _ _ _ _ a (lift_dget_None _ _ _ _ M1 Hn)).
        erewrite mapM_app; [reflexivity| |].
        -- rewrite <- M1. apply mapM_ext_in. intros [k z] Hz. destruct (mapM_Some_in _ _ _ _ M1 Hz) as (w & Hw & _).
           unfold lift in *. cbn in *. destruct (node_den h z) eqn:N; [|discriminate]. now rewrite (node_den_stable _ _ _ _ N Hst).
        -- cbn. unfold lift at 1. cbn. rewrite (node_den_stable _ _ _ _ Ha Hst).
           replace (mapM (lift (node_den h')) l2) with (Some s2); [reflexivity|].
           rewrite <- M2. apply mapM_ext_in. intros [k z] Hz. destruct (mapM_Some_in _ _ _ _ M2 Hz) as (w & Hw & _).
           unfold lift in *. cbn in *. destruct (node_den h z) eqn:N; [|discriminate]. now rewrite (node_den_stable _ _ _ _ N Hst).
      * intros i ob Hi Hni. rewrite Hoth; [assumption|]. intros ->. apply Hni. cbn. auto.
    + now rewrite (lift_dget_None _ _ _ _ M G).
  - cbn in H. cbn [add_node_template]. destruct (lookup h c) as [[| |ch es]|] eqn:E; try discriminate.
    destruct (mapM (lift (abs d h)) ch) as [ss|] eqn:M; [|discriminate]. injection H as <-.
    destruct n as [|p rest]; [reflexivity|]. cbn [tset_node]. destruct (dget p ch) as [x|] eqn:G.
    2: now rewrite (lift_dget_None _ _ _ _ M G).
    destruct (dget_split _ _ _ G) as (l1 & l2 & -> & Hn).
    destruct (lift_split _ _ _ _ _ _ M) as (s1 & tc & s2 & M1 & Hx & M2 & ->).
    rewrite (dget_here _ _ _ _ (lift_dget_None _ _ _ _ M1 Hn)).
    cbn [circ_ids] in ND. rewrite flat_ids_app in ND. inversion ND as [|? ? Hcn NDr]; subst.
    apply NoDup_app_parts in NDr as (ND1 & NDr & D1). apply NoDup_app_parts in NDr as (NDt & ND2 & D2).
    specialize (IH h x tc rest nid a Hx NDt Ha). destruct (add_node_template d h x rest nid) as [h'|]; [|now rewrite IH].
    destruct IH as (tc' & -> & Habs & Hids & Hfr). eexists. split; [reflexivity|].
    assert (Hkeep : forall (s : list (string * atree)) l, mapM (lift (abs d h)) l = Some s ->
               (forall i, In i (flat_map (fun x => circ_ids (snd x)) s) -> ~ In i (circ_ids tc)) ->
               mapM (lift (abs d h')) l = Some s).
    { intros s l Ms Hdis. rewrite <- Ms. apply mapM_ext_in. intros [k z] Hz.
      destruct (mapM_Some_in _ _ _ _ Ms Hz) as ([k' w] & Hw & Hin). unfold lift in *. cbn in *.
      destruct (abs d h z) eqn:N; [|discriminate]. injection Hw as <- <-.
      erewrite abs_stable; [reflexivity|exact N|]. intros i ob Hi Hc. apply Hfr; [assumption|].
      destruct (is_circ ob) eqn:C.
      - apply Hdis. apply in_flat_map. exists (k, a0). split; [assumption|]. cbn. auto.
      - intros Hin'. destruct (circ_ids_are_circuits _ _ _ _ _ Hx Hin') as (? & ? & E'). rewrite E' in Hi. injection Hi as <-. discriminate. }
    assert (Hc' : lookup h' c = Some (OCirc (l1 ++ (p, x) :: l2) es)).
    { apply Hfr; [assumption|]. intros Hin. apply Hcn. apply in_or_app. right. apply in_or_app. now left. }
    split; [|split].
    + cbn. rewrite Hc'. rewrite (dset_split _ _ _ _ tc' (lift_dget_None _ _ _ _ M1 Hn)).
      erewrite mapM_app; [reflexivity| |].
      * apply Hkeep; [assumption|]. intros i Hi Hit. eapply D1; eauto. apply in_or_app. now left.
      * cbn. unfold lift at 1. cbn. rewrite Habs. rewrite (Hkeep s2 l2 M2); [reflexivity|].
        intros i Hi Hit. eapply D2; eauto.
    + cbn. rewrite (dset_split _ _ _ _ tc' (lift_dget_None _ _ _ _ M1 Hn)). rewrite !flat_ids_app. now rewrite Hids.
    + intros i ob Hi Hni. apply Hfr; [assumption|]. intros Hin. apply Hni. cbn. right. rewrite flat_ids_app.
      apply in_or_app. right. apply in_or_app. now left.
Qed.

(* ------------------------------------------------------------------ deepcopy of a node template: fresh ids, same content *)
Lemma copy_ops_spec : forall ops h a, mapM (op_den h) ops = Some a ->
  exists h2 ops', copy_ops h ops = Some (h2, ops') /\ extends h h2 /\ mapM (op_den h2) ops' = Some a.
Proof.
  induction ops as [|[oid vs] ops IH]; intros h a H.
  - injection H as <-. exists h, []. repeat split. apply extends_refl.
  - apply mapM_cons_inv in H as (o & r & Ho & Hr & ->). unfold op_den in Ho. cbn [fst snd] in Ho. cbn [copy_ops].
    destruct (lookup h oid) as [[n e dd| |]|] eqn:E; rewrite ?E in Ho; try discriminate. injection Ho as <-.
    assert (Hr' : mapM (op_den (h ++ [OOp n e dd])) ops = Some r).
    { rewrite <- Hr. apply mapM_ext_in. intros x Hx. destruct (mapM_Some_in _ _ _ _ Hr Hx) as (y & Hy & _). rewrite Hy.
      eapply op_den_stable; eauto. intros. eapply extends_lookup; eauto. apply extends_app. }
    destruct (IH _ _ Hr') as (h2 & ops' & -> & Hext & Hm). exists h2, ((List.length h, vs) :: ops'). split; [reflexivity|].
    split; [eapply extends_trans; [apply extends_app|eassumption]|].
    cbn [mapM]. unfold op_den at 1. cbn [fst snd]. rewrite (extends_lookup _ _ _ _ Hext (lookup_alloc_new h (OOp n e dd))). now rewrite Hm.
Qed.
Lemma copy_node_spec h nid a : node_den h nid = Some a ->
  exists h1 nid', copy_node h nid = Some (h1, nid') /\ extends h h1 /\ lookup h nid' = None /\ node_den h1 nid' = Some a.
Proof.
  unfold node_den, copy_node. destruct (lookup h nid) as [[|ops|]|] eqn:E; try discriminate. intros H.
  destruct (copy_ops_spec _ _ _ H) as (h2 & ops' & -> & Hext & Hm). unfold alloc. eexists _, _. split; [reflexivity|].
  split; [eapply extends_trans; [eassumption|apply extends_app]|]. split.
  - apply nth_error_None. apply extends_length in Hext. lia.
  - rewrite lookup_alloc_new. etransitivity; [|exact Hm]. apply mapM_ext_in. intros x Hx.
    destruct (mapM_Some_in _ _ _ _ Hm Hx) as (y & Hy & _). rewrite Hy. eapply op_den_stable; eauto.
    intros. eapply extends_lookup; eauto. apply extends_app.
Qed.

(* ------------------------------------------------------------------ NodeTemplate.update_var on one node object *)
Lemma ops_update_spec h op var v : forall ops a, mapM (op_den h) ops = Some a ->
  match ops_update h ops op var v with
  | Some ops' => exists a', anode_update a op var v = Some a' /\ mapM (op_den h) ops' = Some a'
  | None => anode_update a op var v = None
  end.
Proof.
  induction ops as [|[oid vs] ops IH]; intros a H.
  - injection H as <-. reflexivity.
  - apply mapM_cons_inv in H as (o & r & Ho & Hr & ->). unfold op_den in Ho. cbn [fst snd] in Ho. cbn [ops_update].
    destruct (lookup h oid) as [[n e dd| |]|] eqn:E; rewrite ?E in Ho; try discriminate. injection Ho as <-. cbn [anode_update].
    destruct (String.eqb n op).
    + eexists. split; [reflexivity|]. cbn [mapM]. unfold op_den at 1. cbn [fst snd]. rewrite E. now rewrite Hr.
    + specialize (IH _ Hr). destruct (ops_update h ops op var v) as [ops'|].
      * destruct IH as (a' & -> & Hm). eexists. split; [reflexivity|]. cbn [mapM]. unfold op_den at 1. cbn [fst snd]. rewrite E. now rewrite Hm.
      * now rewrite IH.
Qed.
Lemma node_update_var_spec h nid a op var v : node_den h nid = Some a ->
  match node_update_var h nid op var v with
  | Some h2 => exists a', anode_update a op var v = Some a' /\ node_den h2 nid = Some a' /\
                          (forall i, i <> nid -> lookup h2 i = lookup h i)
  | None => anode_update a op var v = None
  end.
Proof.
  unfold node_den, node_update_var. destruct (lookup h nid) as [[|ops|]|] eqn:E; try discriminate. intros H.
  pose proof (ops_update_spec h op var v ops a H) as U. destruct (ops_update h ops op var v) as [ops'|]; [|assumption].
  destruct U as (a' & Ha' & Hm). exists a'. split; [assumption|]. pose proof (lookup_lt _ _ _ E) as Hlt.
  split; [|intros; apply hset_other; congruence].
  rewrite hset_same by assumption. etransitivity; [|exact Hm]. apply mapM_ext_in. intros x Hx.
  destruct (mapM_Some_in _ _ _ _ Hm Hx) as (y & Hy & _). unfold op_den in *.
  rewrite hset_other; [reflexivity|]. intros Heq. rewrite <- Heq in Hy. rewrite E in Hy. discriminate.
Qed.

(* ------------------------------------------------------------------ update_var for one target *)
Lemma upd_one_equiv d r h t n op var v : abs d h r = Some t -> NoDup (circ_ids t) ->
  match upd_one d r h n op var v with
  | Some h' => exists t', tupd_one t n op var v = Some t' /\ abs d h' r = Some t' /\ circ_ids t' = circ_ids t
  | None => tupd_one t n op var v = None
  end.
Proof.
  intros H ND. unfold upd_one, tupd_one. pose proof (get_node_template_equiv d h r t n H) as G.
  destruct (get_node_template d h r n) as [nid|]; [|now rewrite G]. destruct G as (a & Ha & ->).
  destruct (copy_node_spec _ _ _ Ha) as (h1 & nid' & -> & Hext & Hfresh & Ha1).
  pose proof (node_update_var_spec h1 nid' a op var v Ha1) as U.
  destruct (node_update_var h1 nid' op var v) as [h2|]; [|now rewrite U].
  destruct U as (a' & -> & Ha2 & Hoth).
  assert (H2 : abs d h2 r = Some t).
  { eapply abs_stable; [exact H|]. intros i ob Hi _. rewrite Hoth; [eapply extends_lookup; eauto|]. intros ->. congruence. }
  pose proof (add_node_template_equiv d h2 r t n nid' a' H2 ND Ha2) as A.
  destruct (add_node_template d h2 r n nid') as [h3|]; [|assumption].
  destruct A as (t' & Ht' & Habs & Hids & _). eauto.
Qed.
Lemma upd_all_equiv d r op var v ntot : forall targets h t i, abs d h r = Some t -> NoDup (circ_ids t) ->
  match upd_all d r h targets i ntot op var v with
  | Some h' => exists t', tupd_all t targets i ntot op var v = Some t' /\ abs d h' r = Some t' /\ circ_ids t' = circ_ids t
  | None => tupd_all t targets i ntot op var v = None
  end.
Proof.
  induction targets as [|n rest IH]; intros h t i H ND; cbn.
  - eauto.
  - pose proof (upd_one_equiv d r h t n op var (pick v i ntot) H ND) as U.
    destruct (upd_one d r h n op var (pick v i ntot)) as [h'|]; [|now rewrite U].
    destruct U as (t' & -> & Habs & Hids). assert (ND' : NoDup (circ_ids t')) by now rewrite Hids.
    specialize (IH h' t' (S i) Habs ND'). destruct (upd_all d r h' rest (S i) ntot op var v); [|assumption].
    destruct IH as (t'' & ? & ? & Hids'). exists t''. repeat split; try assumption. congruence.
Qed.
Lemma update_var_equiv d r h t pat op var v : abs d h r = Some t -> NoDup (circ_ids t) ->
  match update_var d r h pat op var v with
  | Some h' => exists t', tupdate_var t pat op var v = Some t' /\ abs d h' r = Some t' /\ circ_ids t' = circ_ids t
  | None => tupdate_var t pat op var v = None
  end.
Proof.
  intros H ND. unfold update_var, tupdate_var. rewrite (get_nodes_equiv d h r t pat H).
  destruct (tget_nodes t pat) as [ns|]; [|reflexivity].
  rewrite (filter_ext (fun n => has_var d h r n op var) (fun n => thas_var t n op var))
    by (intros; now apply has_var_equiv).
  now apply upd_all_equiv.
Qed.

(* ------------------------------------------------------------------ edge attribute update on the root *)
Lemma update_edge_equiv d r h t s tg upd : abs d h r = Some t -> NoDup (circ_ids t) ->
  match update_edge r h s tg upd with
  | Some h' => exists t', tupdate_edge t s tg upd = Some t' /\ abs d h' r = Some t' /\ circ_ids t' = circ_ids t
  | None => tupdate_edge t s tg upd = None
  end.
Proof.
  intros H ND. unfold update_edge.
  destruct d as [|d]; cbn in H; destruct (lookup h r) as [[| |ch es]|] eqn:E; try discriminate.
  - destruct (mapM (lift (node_den h)) ch) as [ns|] eqn:M; [|discriminate]. injection H as <-. cbn.
    destruct (edges_update es s tg upd) as [es'|]; [|reflexivity]. eexists. split; [reflexivity|]. split; [|reflexivity].
    pose proof (lookup_lt _ _ _ E) as Hlt. cbn. rewrite hset_same by assumption.
    replace (mapM (lift (node_den (hset h r (OCirc ch es')))) ch) with (Some ns); [reflexivity|].
    rewrite <- M. apply mapM_ext_in. intros [k z] Hz. destruct (mapM_Some_in _ _ _ _ M Hz) as (w & Hw & _).
    unfold lift in *. cbn in *. destruct (node_den h z) eqn:N; [|discriminate].
    erewrite node_den_stable; eauto. intros i ob Hi Hc. rewrite hset_other; [assumption|].
    intros <-. rewrite E in Hi. injection Hi as <-. discriminate.
  - destruct (mapM (lift (abs d h)) ch) as [ss|] eqn:M; [|discriminate]. injection H as <-. cbn.
    destruct (edges_update es s tg upd) as [es'|]; [|reflexivity]. eexists. split; [reflexivity|]. split; [|reflexivity].
    pose proof (lookup_lt _ _ _ E) as Hlt. cbn. rewrite hset_same by assumption.
    replace (mapM (lift (abs d (hset h r (OCirc ch es')))) ch) with (Some ss); [reflexivity|].
    rewrite <- M. apply mapM_ext_in. intros [k z] Hz. destruct (mapM_Some_in _ _ _ _ M Hz) as ([k' w] & Hw & Hin).
    unfold lift in *. cbn in *. destruct (abs d h z) eqn:N; [|discriminate]. injection Hw as <- <-.
    erewrite abs_stable; [reflexivity|exact N|]. intros i ob Hi Hc. rewrite hset_other; [assumption|]. intros <-.
    rewrite E in Hi. injection Hi as <-. cbn in ND. inversion ND as [|? ? Hr _]; subst. apply Hr.
    apply in_flat_map. exists (k, a). split; [assumption|]. cbn. auto.
Qed.

(* ------------------------------------------------------------------ observation *)
Lemma collect_edges_equiv d : forall h c t, abs d h c = Some t -> collect_edges d h c = Some (tcollect_edges t).
Proof.
  induction d as [|d IH]; intros h c t H.
  - cbn in *. destruct (lookup h c) as [[| |ch es]|]; try discriminate.
    destruct (mapM (lift (node_den h)) ch); [|discriminate]. injection H as <-. reflexivity.
  - cbn in H. cbn [collect_edges]. destruct (lookup h c) as [[| |ch es]|]; try discriminate.
    destruct (mapM (lift (abs d h)) ch) as [ss|] eqn:M; [|discriminate]. injection H as <-. cbn [tcollect_edges].
    rewrite (mapM_lift_rel (abs d h)
               (fun k x => match collect_edges d h x with Some l => Some (map (prefix_edge k) l) | None => None end)
               (fun k s => Some (map (prefix_edge k) (tcollect_edges s))) ch ss M).
    + clear M. replace (mapM (fun e : string * atree => Some (map (prefix_edge (fst e)) (tcollect_edges (snd e)))) ss)
        with (Some (map (fun e : string * atree => map (prefix_edge (fst e)) (tcollect_edges (snd e))) ss)).
      * now rewrite flat_map_concat_map.
      * induction ss as [|x ss IHs]; cbn; [reflexivity|]. now rewrite <- IHs.
    + intros k x y _ Hy. now rewrite (IH _ _ _ Hy).
Qed.
Lemma nodes_of_equiv d r h t : abs d h r = Some t -> nodes_of d r h = tnodes_of d t.
Proof.
  intros H. unfold nodes_of, tnodes_of. rewrite (get_nodes_equiv d h r t _ H).
  destruct (tget_nodes t (all_pat d)) as [ns|]; [|reflexivity]. apply mapM_ext_in. intros n _.
  pose proof (get_node_template_equiv d h r t n H) as G. destruct (get_node_template d h r n) as [nid|].
  - destruct G as (a & -> & ->). reflexivity.
  - now rewrite G.
Qed.
Lemma overrides_ext f g nv : (forall p, f p = g p) -> overrides f nv = overrides g nv.
Proof.
  intros H. unfold overrides. replace (mapM _ nv) with
    (mapM (fun e : nv_entry => let '(pat, op, var, v) := e in
             match g pat with
             | Some ns => Some (map (fun iv => ((snd iv, op, var), pick v (fst iv) (List.length ns))) (combine (seq 0 (List.length ns)) ns))
             | None => None end) nv); [reflexivity|].
  apply mapM_ext_in. intros [[[pat op] var] v] _. now rewrite H.
Qed.
Lemma observe_equiv d r h t nv : abs d h r = Some t -> observe d r h nv = tobserve d t nv.
Proof.
  intros H. unfold observe, tobserve. rewrite (nodes_of_equiv d r h t H), (collect_edges_equiv d h r t H).
  rewrite (overrides_ext (get_nodes d h r) (tget_nodes t) nv) by (intros; now apply get_nodes_equiv).
  destruct (tnodes_of d t); [|reflexivity]. destruct (overrides (tget_nodes t) nv); reflexivity.
Qed.

(* ------------------------------------------------------------------ histories *)
Lemma step_refines d r h t o : abs d h r = Some t -> NoDup (circ_ids t) ->
  abs d (fst (stepI d r h o)) r = Some (fst (stepS d t o)) /\ snd (stepI d r h o) = snd (stepS d t o) /\
  circ_ids (fst (stepS d t o)) = circ_ids t.
Proof.
  intros H ND. destruct o as [pat op var v|s tg upd|nv]; cbn.
  - pose proof (update_var_equiv d r h t pat op var v H ND) as U. destruct (update_var d r h pat op var v).
    + destruct U as (t' & -> & ? & ?). cbn. auto.
    + rewrite U. cbn. auto.
  - pose proof (update_edge_equiv d r h t s tg upd H ND) as U. destruct (update_edge r h s tg upd).
    + destruct U as (t' & -> & ? & ?). cbn. auto.
    + rewrite U. cbn. auto.
  - repeat split; [assumption|]. now apply observe_equiv.
Qed.
Theorem history_refines d r : forall ops h t, abs d h r = Some t -> NoDup (circ_ids t) ->
  abs d (fst (runI d r h ops)) r = Some (fst (runS d t ops)) /\ snd (runI d r h ops) = snd (runS d t ops).
Proof.
  induction ops as [|o ops IH]; intros h t H ND; cbn; [auto|].
  destruct (step_refines d r h t o H ND) as (Ha & Ho & Hids).
  destruct (stepI d r h o) as [h1 out]. destruct (stepS d t o) as [t1 out']. cbn in *. subst out'.
  assert (ND1 : NoDup (circ_ids t1)) by now rewrite Hids.
  destruct (IH h1 t1 Ha ND1) as (Hb & Hc). destruct (runI d r h1 ops) as [h2 outs]. destruct (runS d t1 ops) as [t2 outs'].
  cbn in *. subst. auto.
Qed.
Corollary history_refines_guard d r ops h t : abs d h r = Some t -> no_shared_subcircuit t = true ->
  abs d (fst (runI d r h ops)) r = Some (fst (runS d t ops)) /\ snd (runI d r h ops) = snd (runS d t ops).
Proof. intros H G. apply history_refines; [assumption|]. now apply nodupb_NoDup. Qed.

(* ------------------------------------------------------------------ the frame property of the specification:
   a functional update at path n changes the node at n and no other (first-match dictionaries, no NoDup needed).
   `same_addr t n m`: do n and m address the same node of t (components beyond the leaf level are ignored, as the code does) *)
Fixpoint same_addr (t : atree) (n m : path) : bool :=
  match n, m with
  | p :: n', q :: m' =>
    String.eqb p q && match t with
                      | ALeaf _ _ _ => true
                      | AInner _ ss _ => match dget p ss with Some s => same_addr s n' m' | None => true end
                      end
  | _, _ => false
  end.
Lemma dget_dset {V} k k' (v : V) l : dget k' (dset k v l) = if String.eqb k' k then Some v else dget k' l.
Proof.
  induction l as [|[k0 v0] l IH]; cbn.
  - destruct (String.eqb k' k); reflexivity.
  - destruct (String.eqb k k0) eqn:E; cbn.
    + apply String.eqb_eq in E as <-. destruct (String.eqb k' k); reflexivity.
    + destruct (String.eqb k' k0) eqn:E'.
      * apply String.eqb_eq in E' as ->. rewrite String.eqb_sym in E. now rewrite E.
      * assumption.
Qed.
Lemma tget_tset : forall n t a t' m, tset_node t n a = Some t' ->
  tget_node t' m = if same_addr t n m then Some a else tget_node t m.
Proof.
  induction n as [|p n IH]; intros t a t' m H; [discriminate|].
  destruct m as [|q m]; [destruct t'; reflexivity|]. cbn [same_addr].
  destruct t as [c ns es|c ss es]; cbn in H.
  - destruct (dhas p ns); [|discriminate]. injection H as <-. cbn. rewrite dget_dset. rewrite String.eqb_sym.
    destruct (String.eqb p q); reflexivity.
  - destruct (dget p ss) as [s|] eqn:G; [|discriminate]. destruct (tset_node s n a) as [s'|] eqn:S; [|discriminate].
    injection H as <-. cbn. rewrite dget_dset. rewrite (String.eqb_sym q p). destruct (String.eqb p q) eqn:E; cbn.
    + apply String.eqb_eq in E as <-. rewrite G. now apply IH.
    + reflexivity.
Qed.

(* ------------------------------------------------------------------ probes used by the computed witnesses *)
Definition probe (k : okey) (outs : list hout) : Z :=
  match last outs ODone with
  | OObs ns _ => match ol_get ns k with Some (Sc q) => Qnum (this q) | _ => 0%Z end
  | _ => 0%Z
  end.
