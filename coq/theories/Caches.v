(* Caches.v — executable model of the process-global caches of PyRates and of the public API as a step
   function over them (property C13: results do not depend on what the process did before).
   Definitions only; proofs are in CachesProofs.v.

   Anchors (as the code is now, defects included):
     OperatorTemplate.cache       frontend/template/operator.py:51,126-179   name -> (OperatorIR, default values)
     node_cache/op_cache/node_labels   ir/node.py:39-98 (cache_func)        hash(operator graph) -> VectorizedNodeIR
     in_edge_indices/in_edge_vars ir/circuit.py:53-54,965-969,1575-1590
     input_labels                 frontend/template/circuit.py:1656-1657
     template_cache               frontend/template/__init__.py:38,62-105    path -> template object
     _compiled_module_cache       backend/base/base_backend.py:67,537-578   sha256(source) -> module
     reset points                 CircuitTemplate.clear (circuit.py:1203-1214), CircuitIR.clear (ir/circuit.py:1377-1383),
                                  clear / clear_frontend_caches (utility.py:51-83)

   Domain of the model: circuits whose nodes carry ONE operator each, with variables x (state, initial 1/2), k (constant),
   r (input, default 0), a polynomial right-hand side d/dt x = e(k,x,r), edges x -> r with a weight (no delay); in
   vectorized mode all nodes of a circuit fall into one structural class (one vector node).  What the model predicts:
   the argument names after (t,y,dy), the values of the `k` arguments, the state map, and dy at the state
   y_j = (j+1)/4 — or the class of the exception. *)
From Coq Require Import List String ZArith QArith Qcanon Bool Arith DecimalString.
Import ListNotations.
Open Scope string_scope.

Definition mkq (n : Z) (d : positive) : Qc := Q2Qc (n # d).
Definition nat2s (n : nat) : string := NilEmpty.string_of_uint (Nat.to_uint n).
Definition Qc_eqb (a b : Qc) : bool := Qeq_bool (this a) (this b).

(* ------------------------------------------------------------------ right-hand sides *)
Inductive expr := VK | VX | VR | Add (a b : expr) | Mul (a b : expr) | Neg (a : expr).

Fixpoint eval (e : expr) (k x r : Qc) : Qc :=
  match e with
  | VK => k | VX => x | VR => r
  | Add a b => (eval a k x r + eval b k x r)%Qc
  | Mul a b => (eval a k x r * eval b k x r)%Qc
  | Neg a => (- eval a k x r)%Qc
  end.

Fixpoint expr_eqb (a b : expr) : bool :=
  match a, b with
  | VK, VK | VX, VX | VR, VR => true
  | Add a1 a2, Add b1 b2 | Mul a1 a2, Mul b1 b2 => expr_eqb a1 b1 && expr_eqb a2 b2
  | Neg a1, Neg b1 => expr_eqb a1 b1
  | _, _ => false
  end.

(* ------------------------------------------------------------------ finite maps as association lists *)
Section Assoc.
  Context {K V : Type} (keqb : K -> K -> bool).
  Fixpoint lookup (k : K) (l : list (K * V)) : option V :=
    match l with
    | [] => None
    | (k', v) :: l' => if keqb k k' then Some v else lookup k l'
    end.
  Fixpoint upsert (k : K) (v : V) (l : list (K * V)) : list (K * V) :=
    match l with
    | [] => [(k, v)]
    | (k', v') :: l' => if keqb k k' then (k, v) :: l' else (k', v') :: upsert k v l'
    end.
End Assoc.

(* ------------------------------------------------------------------ models (what the user constructs) *)
Record mnode := { m_label : string; m_op : string; m_eq : expr; m_kdef : Qc; m_over : option Qc }.
Record model := { m_nodes : list mnode; m_edges : list (string * string * Qc) }.   (* source node, target node, weight *)

(* ------------------------------------------------------------------ IR nodes held by node_cache *)
Record inop := { io_idx : nat; io_vec : bool; io_es : list (string * nat * nat * Qc) }.  (* source IR label, source unit, target unit, weight *)
Record cnode := { n_label : string; n_op : string; n_eq : expr; n_units : list Qc; n_inops : list inop; n_mapped : bool }.

(* generated source text (what the module cache hashes): per IR node its equation and its width; parameter values and edge
   data are arguments of the generated function, not part of its text *)
Definition code := list (expr * nat).
Definition code_eqb (a b : code) : bool :=
  (List.length a =? List.length b)%nat &&
  forallb (fun p => expr_eqb (fst (fst p)) (fst (snd p)) && (snd (fst p) =? snd (snd p))%nat) (combine a b).

Record tentry := { tc_obj : nat; tc_kA : option Qc }.   (* the cached template object and the update_var mutation it carries *)

(* module tables keyed by the file name given to get_run_func/run:
   sys_py   : file names under which sys.modules holds the PYTHON module of a default-backend compilation (base_backend.py:575;
              removed by the backend's clear(), base_backend.py:628);
   ext_mods : file name -> source of the Fortran extension module imported under that name.  `from <name> import <name>`
              (fortran_backend.py:296) returns what the process imported first under that name: CPython keeps single-phase
              extension modules per (name, path) for the life of the process, deleting sys.modules[<name>] does not help;
   obj_file : circuit object -> the file name its backend was created with *)
Record modtab := { sys_py : list string; ext_mods : list (string * code); obj_file : list (nat * string) }.

Record G := {
  op_cache : list (string * (expr * Qc));      (* OperatorTemplate.cache : name -> (equations, default k) *)
  node_cache : list (expr * cnode);            (* node_cache (+ op_cache of ir/node.py) : structural class -> node *)
  node_labels : list (string * nat);
  in_edge_indices : list (string * nat);
  in_edge_vars : list string;                  (* scopes for which a multiple-input mapping was created *)
  input_labels : list (string * nat);          (* written by compilations with extrinsic inputs (create_input_node) *)
  template_cache : option tentry;              (* one YAML path *)
  module_cache : list (code * code);           (* source -> module (a module is represented by the source it was exec'd from) *)
  heap : list (nat * bool);                    (* circuit object -> does it hold an IR (`_ir is not None`) *)
  handles : list nat;                          (* circuit objects the history created, in order *)
  nobj : nat;
  mods : modtab }.                             (* tables keyed by FILE NAME (see modtab) *)

Definition G0 : G := {| op_cache := []; node_cache := []; node_labels := []; in_edge_indices := []; in_edge_vars := [];
  input_labels := []; template_cache := None; module_cache := []; heap := []; handles := []; nobj := 0;
  mods := {| sys_py := []; ext_mods := []; obj_file := [] |} |}.

(* the components a compilation reads *)
Record projection := { p_opc : list (string * (expr * Qc)); p_nodec : list (expr * cnode); p_labels : list (string * nat);
  p_iei : list (string * nat); p_iev : list string; p_inl : list (string * nat); p_py : list string; p_tmut : option Qc }.
Definition proj (g : G) : projection :=
  {| p_opc := op_cache g; p_nodec := node_cache g; p_labels := node_labels g; p_iei := in_edge_indices g;
     p_iev := in_edge_vars g; p_inl := input_labels g; p_py := sys_py (mods g);
     p_tmut := match template_cache g with Some e => tc_kA e | None => None end |}.

Definition is_nil {A} (l : list A) : bool := match l with [] => true | _ => false end.
Definition is_none {A} (o : option A) : bool := match o with None => true | _ => false end.
(* decidable form of  proj g = proj G0, in two parts: the caches a compilation reads, and the template cache *)
Definition caches_clean (g : G) : bool :=
  is_nil (op_cache g) && is_nil (node_cache g) && is_nil (node_labels g) && is_nil (in_edge_indices g) &&
  is_nil (in_edge_vars g) && is_nil (input_labels g) && is_nil (sys_py (mods g)).
Definition fortran_clean (g : G) : bool := is_nil (ext_mods (mods g)).
Definition template_clean (g : G) : bool :=
  is_none (match template_cache g with Some e => tc_kA e | None => None end).
Definition clean (g : G) : bool := caches_clean g && template_clean g.

(* ------------------------------------------------------------------ observables *)
Inductive obs :=
| OErr (cls : string)
| OAck
| OOk (names : list string) (kvals : list (list Qc)) (smap : list (string * nat * nat)) (dy : list Qc).

(* ------------------------------------------------------------------ get_unique_label (backend/parser.py:819-830) *)
Definition unique_label (lab : string) (labels : list (string * nat)) : string * list (string * nat) :=
  match lookup String.eqb lab labels with
  | Some n => (lab ++ "_num" ++ nat2s (S n), upsert String.eqb lab (S n) labels)
  | None => (lab, upsert String.eqb lab 0%nat labels)
  end.

(* ------------------------------------------------------------------ compilation, phase 1: nodes
   OperatorTemplate.apply (cache by NAME) then cache_func (cache by structural class, extended in place when vectorizing) *)
Fixpoint find_class (e : expr) (circ : list cnode) (i : nat) : option nat :=
  match circ with
  | [] => None
  | c :: circ' => if expr_eqb e (n_eq c) then Some i else find_class e circ' (S i)
  end.

Fixpoint update_nth {A} (i : nat) (f : A -> A) (l : list A) : list A :=
  match l, i with
  | [], _ => []
  | x :: l', O => f x :: l'
  | x :: l', S i' => x :: update_nth i' f l'
  end.

Definition add_unit (k : Qc) (c : cnode) : cnode :=
  {| n_label := n_label c; n_op := n_op c; n_eq := n_eq c; n_units := n_units c ++ [k]; n_inops := n_inops c; n_mapped := n_mapped c |}.

Record ph1 := { s_opc : list (string * (expr * Qc)); s_labels : list (string * nat); s_circ : list cnode;
                s_lmap : list (string * (nat * nat)) }.   (* frontend node -> (position in circ, unit) *)

(* SECOND SWITCH: true = PyRates as it is now (repair D90, /verif/fixes/fix_D90.diff: OperatorTemplate.cache keyed by name, equations and
   variable declarations: a hit requires the same definition); false = before (keyed by the operator NAME: D9/D26).  harness/c13.py reads this line. *)
Definition fixed_op_cache_key : bool := true.

Definition node_step_k (ok : bool) (nodec : list (expr * cnode)) (vec : bool) (s : ph1) (nd : mnode) : ph1 :=
  let '(eqe, kd, opc') :=
    if ok then
      (m_eq nd, m_kdef nd,
       if existsb (fun e => String.eqb (m_op nd) (fst e) && expr_eqb (m_eq nd) (fst (snd e)) && Qc_eqb (m_kdef nd) (snd (snd e))) (s_opc s)
       then s_opc s else (s_opc s ++ [(m_op nd, (m_eq nd, m_kdef nd))])%list)
    else
    match lookup String.eqb (m_op nd) (s_opc s) with
    | Some (e, k) => (e, k, s_opc s)
    | None => (m_eq nd, m_kdef nd, upsert String.eqb (m_op nd) (m_eq nd, m_kdef nd) (s_opc s))
    end in
  let k := match m_over nd with Some v => v | None => kd end in
  let fresh :=
    let '(lab, labels') := unique_label (m_label nd) (s_labels s) in
    {| s_opc := opc'; s_labels := labels';
       s_circ := s_circ s ++ [{| n_label := lab; n_op := m_op nd; n_eq := eqe; n_units := [k]; n_inops := []; n_mapped := false |}];
       s_lmap := s_lmap s ++ [(m_label nd, (List.length (s_circ s), 0%nat))] |} in
  if vec then
    match find_class eqe (s_circ s) 0 with
    | Some i =>
        {| s_opc := opc'; s_labels := s_labels s; s_circ := update_nth i (add_unit k) (s_circ s);
           s_lmap := s_lmap s ++ [(m_label nd, (i, List.length (n_units (nth i (s_circ s) {| n_label := ""; n_op := ""; n_eq := VK; n_units := []; n_inops := []; n_mapped := false |}))))] |}
    | None =>
        match lookup expr_eqb eqe nodec with
        | Some c =>
            {| s_opc := opc'; s_labels := s_labels s; s_circ := s_circ s ++ [add_unit k c];
               s_lmap := s_lmap s ++ [(m_label nd, (List.length (s_circ s), List.length (n_units c)))] |}
        | None => fresh
        end
    end
  else fresh.

Definition node_step := node_step_k fixed_op_cache_key.
(* phase 1 alone (for statements about the operator cache that hold for either value of the switch) *)
Definition phase1_k (ok : bool) (opc : list (string * (expr * Qc))) (m : model) : list cnode :=
  s_circ (fold_left (node_step_k ok [] false) (m_nodes m) {| s_opc := opc; s_labels := []; s_circ := []; s_lmap := [] |}).

(* ------------------------------------------------------------------ phase 2: one in_edge operator per targeted IR node,
   named in_edge_<in_edge_indices[label]> (ir/circuit.py:965-969) *)
Definition dummy_node : cnode := {| n_label := ""; n_op := ""; n_eq := VK; n_units := []; n_inops := []; n_mapped := false |}.

Definition incoming (circ : list cnode) (lmap : list (string * (nat * nat))) (edges : list (string * string * Qc)) (i : nat)
  : list (string * nat * nat * Qc) :=
  flat_map (fun e => let '(s, t, w) := e in
    match lookup String.eqb s lmap, lookup String.eqb t lmap with
    | Some (si, su), Some (ti, tu) => if (ti =? i)%nat then [(n_label (nth si circ dummy_node), su, tu, w)] else []
    | _, _ => []
    end) edges.

Definition add_inop (o : inop) (c : cnode) : cnode :=
  {| n_label := n_label c; n_op := n_op c; n_eq := n_eq c; n_units := n_units c; n_inops := n_inops c ++ [o]; n_mapped := n_mapped c |}.

Fixpoint edge_phase (vec : bool) (lmap : list (string * (nat * nat))) (edges : list (string * string * Qc))
         (n i : nat) (circ : list cnode) (iei : list (string * nat)) : list cnode * list (string * nat) :=
  match n with
  | O => (circ, iei)
  | S n' =>
      let inc := incoming circ lmap edges i in
      match inc with
      | [] => edge_phase vec lmap edges n' (S i) circ iei
      | _ =>
          let lab := n_label (nth i circ dummy_node) in
          let idx := match lookup String.eqb lab iei with Some j => j | None => 0%nat end in
          edge_phase vec lmap edges n' (S i)
            (update_nth i (add_inop {| io_idx := idx; io_vec := vec; io_es := inc |}) circ)
            (upsert String.eqb lab (S idx) iei)
      end
  end.

(* ------------------------------------------------------------------ phase 3: what the compute-graph construction does with
   the (possibly inherited) nodes *)
Definition has_label (circ : list cnode) (l : string) : bool := existsb (fun c => String.eqb l (n_label c)) circ.
Definition inop_ok (vec : bool) (circ : list cnode) (o : inop) : bool :=
  negb (negb (io_vec o) && vec) && forallb (fun e => has_label circ (fst (fst (fst e)))) (io_es o).
Definition node_ok (vec : bool) (circ : list cnode) (c : cnode) : bool :=
  forallb (inop_ok vec circ) (n_inops c) && negb (n_mapped c).
Definition set_mapped (c : cnode) : cnode :=
  {| n_label := n_label c; n_op := n_op c; n_eq := n_eq c; n_units := n_units c; n_inops := n_inops c;
     n_mapped := n_mapped c || (2 <=? List.length (n_inops c))%nat |}.

Fixpoint write_back (circ : list cnode) (nodec : list (expr * cnode)) : list (expr * cnode) :=
  match circ with
  | [] => nodec
  | c :: circ' => write_back circ' (upsert expr_eqb (n_eq c) c nodec)
  end.

(* offsets of the IR nodes in the state vector *)
Fixpoint offsets (circ : list cnode) (off : nat) : list (string * nat) :=
  match circ with
  | [] => []
  | c :: circ' => (n_label c, off) :: offsets circ' (off + List.length (n_units c))
  end.

Definition yval (j : nat) : Qc := mkq (Z.of_nat (S j)) 4.
Definition sumq (l : list Qc) : Qc := fold_right Qcplus (mkq 0 1) l.

(* generated text and its execution: equations come from the text, parameters and edges are arguments *)
Definition code_of (circ : list cnode) : code := map (fun c => (n_eq c, List.length (n_units c))) circ.

Definition node_dy (offs : list (string * nat)) (e : expr) (c : cnode) : list Qc :=
  let off := match lookup String.eqb (n_label c) offs with Some o => o | None => 0%nat end in
  map (fun jk => let '(j, k) := jk in
         let r := sumq (flat_map (fun o => flat_map (fun ed => let '(sl, su, tu, w) := ed in
                     if (tu =? j)%nat
                     then [(w * yval (match lookup String.eqb sl offs with Some o' => o' | None => 0%nat end + su))%Qc]
                     else []) (io_es o)) (n_inops c)) in
         eval e k (yval (off + j)) r)
      (combine (seq 0 (List.length (n_units c))) (n_units c)).

Definition run_code (m : code) (args : list cnode) : list Qc :=
  let offs := offsets args 0 in
  flat_map (fun p => node_dy offs (fst (fst p)) (snd p)) (combine m args).

Definition arg_names (vec : bool) (circ : list cnode) : list string :=
  flat_map (fun c =>
      (n_label c ++ "/" ++ n_op c ++ "/k") ::
      match n_inops c with
      | [] => [n_label c ++ "/" ++ n_op c ++ "/r"]
      | ops => if vec then map (fun o => n_label c ++ "/in_edge_" ++ nat2s (io_idx o) ++ "/r") ops else []
      end) circ ++
  flat_map (fun c => flat_map (fun o =>
      let p := n_label c ++ "/in_edge_" ++ nat2s (io_idx o) ++ "/" in
      if vec then [p ++ "source_idx"; p ++ "weight"; p ++ "target_idx"]
      else match io_es o with
           | [_] => [p ++ "weight"]
           | es => map (fun q => p ++ "weight_in" ++ nat2s q) (seq 0 (List.length es))
           end) (n_inops c)) circ.

Definition state_map (circ : list cnode) : list (string * nat * nat) :=
  map (fun p => let '(c, (_, off)) := p in (n_label c ++ "/" ++ n_op c ++ "/x", off, off + List.length (n_units c))%nat)
      (combine circ (offsets circ 0)).

(* module cache keyed by the (hash of the) full source text *)
Definition mc_fetch (mc : list (code * code)) (s : code) : code :=
  match lookup code_eqb s mc with Some m => m | None => s end.
Definition mc_store (mc : list (code * code)) (s : code) : list (code * code) :=
  match lookup code_eqb s mc with Some _ => mc | None => (s, s) :: mc end.

Record compiled := { c_opc : list (string * (expr * Qc)); c_nodec : list (expr * cnode); c_labels : list (string * nat);
                     c_iei : list (string * nat); c_iev : list string; c_mc : list (code * code); c_obs : obs;
                     c_src : code; c_args : list cnode }.

Definition compile_core (opc : list (string * (expr * Qc))) (nodec : list (expr * cnode)) (labels : list (string * nat))
           (iei : list (string * nat)) (iev : list string) (mc : list (code * code)) (m : model) (vec : bool) : compiled :=
  let s := fold_left (node_step nodec vec)
                     (m_nodes m) {| s_opc := opc; s_labels := labels; s_circ := []; s_lmap := [] |} in
  let '(circ, iei') := edge_phase vec (s_lmap s) (m_edges m) (List.length (s_circ s)) 0 (s_circ s) iei in
  if forallb (node_ok vec circ) circ then
    let circ' := map set_mapped circ in
    let src := code_of circ' in
    {| c_opc := s_opc s; c_nodec := write_back circ' nodec; c_labels := s_labels s; c_iei := iei';
       c_iev := iev ++ map n_label (filter (fun c => (2 <=? List.length (n_inops c))%nat) circ);
       c_mc := mc_store mc src;
       c_obs := OOk (arg_names vec circ') (map n_units circ') (state_map circ') (run_code (mc_fetch mc src) circ');
       c_src := src; c_args := circ' |}
  else
    {| c_opc := s_opc s; c_nodec := write_back circ nodec; c_labels := s_labels s; c_iei := iei'; c_iev := iev;
       c_mc := mc; c_obs := OErr "KeyError"; c_src := []; c_args := [] |}.

(* ------------------------------------------------------------------ the API as a step function *)
Inductive hop :=
| Compile (m : model) (vec clr inpl : bool)      (* construct m from fresh template objects; get_run_func(vectorize, clear, in_place) *)
| Run (m : model) (vec clr inpl : bool)          (* construct; run(...) : same effect on the caches *)
| Jac (m : model) (vec clr inpl : bool)          (* construct; get_jacobian_func(...) : same effect on the caches *)
| CompileIn (m : model) (vec clr inpl : bool)    (* construct; get_run_func(..., inputs={A/<op>/r: array}): an input node is generated,
                                                    its variable/operator/node names come from input_labels *)
| FCompile (m : model) (file : string) (clr : bool)  (* construct; get_run_func(backend='fortran', file_name=file, vectorize=False) *)
| YLoad (clr : bool)                             (* CircuitTemplate.from_yaml(p).get_run_func(vectorize=False, in_place=False, clear) *)
| YUpd (v : Qc)                                  (* CircuitTemplate.from_yaml(p).update_var({A/op/k: v}) *)
| MClear (h : nat)                               (* <circuit h>.clear() *)
| UClear (h : nat)                               (* pyrates.clear(<circuit h>) *)
| CFC (tc ic : bool).                            (* clear_frontend_caches(clear_template_cache, clear_ir_cache) *)

(* THE SWITCH: true = PyRates as it is now (repair D78, /verif/fixes/fix_D78.diff, in /repo since 5e21e90); false = before that repair.
   The repair: circuit.clear() and pyrates.clear() tolerate `_ir is None` and reset every process-global frontend cache
   unconditionally; clear_frontend_caches(clear_ir_cache=True) also clears in_edge_indices, in_edge_vars, input_labels.
   harness/c13.py reads this line. *)
Definition fixed_clear : bool := true.

Definition default_file : string := "m".

Definition with_caches (g : G) (opc : list (string * (expr * Qc))) (nodec : list (expr * cnode)) (labels : list (string * nat))
           (iei : list (string * nat)) (iev : list string) (inl : list (string * nat)) : G :=
  {| op_cache := opc; node_cache := nodec; node_labels := labels; in_edge_indices := iei; in_edge_vars := iev;
     input_labels := inl; template_cache := template_cache g; module_cache := module_cache g; heap := heap g;
     handles := handles g; nobj := nobj g; mods := mods g |}.

Definition set_mods (t : modtab) (g : G) : G :=
  {| op_cache := op_cache g; node_cache := node_cache g; node_labels := node_labels g; in_edge_indices := in_edge_indices g;
     in_edge_vars := in_edge_vars g; input_labels := input_labels g; template_cache := template_cache g;
     module_cache := module_cache g; heap := heap g; handles := handles g; nobj := nobj g; mods := t |}.

Definition remove_s (f : string) (l : list string) : list string := filter (fun x => negb (String.eqb f x)) l.
Definition add_s (f : string) (l : list string) : list string := if existsb (String.eqb f) l then l else l ++ [f].
Definition file_of (g : G) (o : nat) : string :=
  match lookup Nat.eqb o (obj_file (mods g)) with Some f => f | None => default_file end.

(* the frontend caches: CircuitIR.clear (in_edge_indices, in_edge_vars), clear_ir_caches (node_cache, op_cache, node_labels),
   OperatorTemplate.cache.clear(), input_labels.clear() *)
Definition clear_frontend (g : G) : G := with_caches g [] [] [] [] [] [].
(* CircuitTemplate.clear on object o that holds an IR: the above, and the backend's clear() drops sys.modules[<its file name>] *)
Definition clear_caches (o : nat) (g : G) : G :=
  set_mods {| sys_py := remove_s (file_of g o) (sys_py (mods g)); ext_mods := ext_mods (mods g); obj_file := obj_file (mods g) |}
           (clear_frontend g).

(* clear_frontend_caches: template_cache if tc; OperatorTemplate.cache + clear_ir_caches if ic; nothing else — unless fixed *)
Definition cfc_with (fx tc ic : bool) (g : G) : G :=
  {| op_cache := if ic then [] else op_cache g; node_cache := if ic then [] else node_cache g;
     node_labels := if ic then [] else node_labels g;
     in_edge_indices := if fx && ic then [] else in_edge_indices g; in_edge_vars := if fx && ic then [] else in_edge_vars g;
     input_labels := if fx && ic then [] else input_labels g; template_cache := if tc then None else template_cache g;
     module_cache := module_cache g; heap := heap g; handles := handles g; nobj := nobj g; mods := mods g |}.

Definition set_ir (o : nat) (b : bool) (g : G) : G :=
  {| op_cache := op_cache g; node_cache := node_cache g; node_labels := node_labels g; in_edge_indices := in_edge_indices g;
     in_edge_vars := in_edge_vars g; input_labels := input_labels g; template_cache := template_cache g;
     module_cache := module_cache g; heap := upsert Nat.eqb o b (heap g); handles := handles g; nobj := nobj g; mods := mods g |}.

Definition new_obj (g : G) : G * nat :=
  ({| op_cache := op_cache g; node_cache := node_cache g; node_labels := node_labels g; in_edge_indices := in_edge_indices g;
      in_edge_vars := in_edge_vars g; input_labels := input_labels g; template_cache := template_cache g;
      module_cache := module_cache g; heap := upsert Nat.eqb (nobj g) false (heap g); handles := handles g; nobj := S (nobj g);
      mods := mods g |},
   nobj g).

Definition push_handle (o : nat) (g : G) : G :=
  {| op_cache := op_cache g; node_cache := node_cache g; node_labels := node_labels g; in_edge_indices := in_edge_indices g;
     in_edge_vars := in_edge_vars g; input_labels := input_labels g; template_cache := template_cache g;
     module_cache := module_cache g; heap := heap g; handles := handles g ++ [o]; nobj := nobj g; mods := mods g |}.

Definition set_template (e : option tentry) (g : G) : G :=
  {| op_cache := op_cache g; node_cache := node_cache g; node_labels := node_labels g; in_edge_indices := in_edge_indices g;
     in_edge_vars := in_edge_vars g; input_labels := input_labels g; template_cache := e;
     module_cache := module_cache g; heap := heap g; handles := handles g; nobj := nobj g; mods := mods g |}.

Definition has_ir (g : G) (o : nat) : bool := match lookup Nat.eqb o (heap g) with Some b => b | None => false end.

Definition after_compile (g : G) (c : compiled) (mc : list (code * code)) : G :=
  {| op_cache := c_opc c; node_cache := c_nodec c; node_labels := c_labels c; in_edge_indices := c_iei c;
     in_edge_vars := c_iev c; input_labels := input_labels g; template_cache := template_cache g;
     module_cache := mc; heap := heap g; handles := handles g; nobj := nobj g; mods := mods g |}.

(* default backend: get_run_func / run / get_jacobian_func on circuit object o: apply (reads and writes the caches), the generated
   module is registered as sys.modules[<file>], then `if clear: net.clear()`; `self._ir = net._ir` *)
Definition compile_obj (g : G) (o : nat) (m : model) (vec clr : bool) : G * obs :=
  let c := compile_core (op_cache g) (node_cache g) (node_labels g) (in_edge_indices g) (in_edge_vars g) (module_cache g) m vec in
  let g1 := after_compile g c (c_mc c) in
  match c_obs c with
  | OOk _ _ _ _ =>
      let g2 := set_mods {| sys_py := add_s (file_of g o) (sys_py (mods g)); ext_mods := ext_mods (mods g);
                            obj_file := obj_file (mods g) |} g1 in
      (if clr then set_ir o false (clear_caches o g2) else set_ir o true g2, c_obs c)
  | _ => (g1, c_obs c)        (* the exception leaves the caches as they are; `_ir` is not assigned *)
  end.

(* create_input_node (frontend/template/circuit.py): three get_unique_label calls on input_labels for an input on variable r.
   The model records the counters (what the reset theorems and the guard are about); it does not predict the observable of a
   compilation with inputs (OAck = "compiled") — that is compared between the real runs only. *)
Definition bump (l : string) (t : list (string * nat)) : list (string * nat) := snd (unique_label l t).
Definition write_input_labels (t : list (string * nat)) : list (string * nat) :=
  bump "r_input_node" (bump "r_input_op" (bump "r_timed_input" t)).
Definition set_inl (t : list (string * nat)) (g : G) : G :=
  with_caches g (op_cache g) (node_cache g) (node_labels g) (in_edge_indices g) (in_edge_vars g) t.
Definition compile_in_obj (g : G) (o : nat) (m : model) (vec clr : bool) : G * obs :=
  let '(g1, ob) := compile_obj (set_inl (write_input_labels (input_labels g)) g) o m vec clr in
  (g1, match ob with OOk _ _ _ _ => OAck | _ => ob end).

(* Fortran backend (non-vectorized): same frontend path; then f2py and `from <file> import <file>`:
   ImportError when sys.modules[<file>] is the Python module of an uncleared default-backend compilation (D19);
   the routine of the FIRST extension module imported under <file> in this process otherwise (D29) *)
Definition with_dy (o : obs) (dy : list Qc) : obs := match o with OOk n k s _ => OOk n k s dy | _ => o end.
(* FOURTH SWITCH: true = PyRates as it is now (repair D96, /verif/fixes/fix_D96.diff, /repo commit 8faa606); false = before (D29/D19:
   `from <file> import <file>`).  The repair: f2py builds the
   extension under a module name that is unique per generated source (<file>_<sha256(source)[:12]>) and the routine is fetched from
   that module: the table of extension modules is in effect keyed by (file name, source), a hit requires the same source, and a
   Python module registered under <file> no longer gets in the way.  harness/c13.py reads this line. *)
Definition fixed_D29 : bool := true.

Definition has_ext (file : string) (src : code) (t : list (string * code)) : bool :=
  existsb (fun e => String.eqb file (fst e) && code_eqb src (snd e)) t.

Definition fcompile_obj_k (fd : bool) (g : G) (o : nat) (m : model) (file : string) (clr : bool) : G * obs :=
  let c := compile_core (op_cache g) (node_cache g) (node_labels g) (in_edge_indices g) (in_edge_vars g) [] m false in
  let g1 := after_compile g c (module_cache g) in
  match c_obs c with
  | OOk _ _ _ _ =>
      if negb fd && existsb (String.eqb file) (sys_py (mods g)) then (g1, OErr "ImportError")
      else
        let modl := if fd then c_src c
                    else match lookup String.eqb file (ext_mods (mods g)) with Some s => s | None => c_src c end in
        let ext' := if fd then (if has_ext file (c_src c) (ext_mods (mods g)) then ext_mods (mods g)
                                else (ext_mods (mods g) ++ [(file, c_src c)])%list)
                    else match lookup String.eqb file (ext_mods (mods g)) with
                         | Some _ => ext_mods (mods g) | None => (file, c_src c) :: ext_mods (mods g) end in
        let g2 := set_mods {| sys_py := sys_py (mods g); ext_mods := ext'; obj_file := obj_file (mods g) |} g1 in
        (if clr then set_ir o false (clear_caches o g2) else set_ir o true g2, with_dy (c_obs c) (run_code modl (c_args c)))
  | _ => (g1, c_obs c)
  end.
Definition fcompile_obj := fcompile_obj_k fixed_D29.

Definition reg_file (o : nat) (file : string) (g : G) : G :=
  set_mods {| sys_py := sys_py (mods g); ext_mods := ext_mods (mods g); obj_file := upsert Nat.eqb o file (obj_file (mods g)) |} g.

(* one Fortran compilation as a step (parameterised by the switch, for statements that hold for either value) *)
Definition fstep_k (fd : bool) (g : G) (m : model) (file : string) (clr : bool) : G * obs :=
  let '(g1, ob) := new_obj g in fcompile_obj_k fd (reg_file ob file (push_handle ob g1)) ob m file clr.

(* the template the YAML file on disk defines, with the update_var mutation the cached object carries *)
Definition E1 : expr := Add (Neg (Mul VK VX)) VR.
Definition ymodel (kA : option Qc) : model :=
  {| m_nodes := [ {| m_label := "A"; m_op := "op"; m_eq := E1; m_kdef := mkq 2 1; m_over := kA |};
                  {| m_label := "B"; m_op := "op"; m_eq := E1; m_kdef := mkq 2 1; m_over := None |} ];
     m_edges := [("A", "B", mkq 2 1)] |}.

(* THIRD SWITCH: true = PyRates as it is now (repair D91, /verif/fixes/fix_D91.diff: a cache hit hands out, and caches, a fresh copy of the
   circuit as it was loaded); false = before (from_yaml handed out the cached CircuitTemplate object itself: D28).
   harness/c13.py reads this line. *)
Definition fixed_yaml_copy : bool := true.

(* from_yaml: return the cached object, else load from disk and cache it *)
Definition from_yaml_k (yc : bool) (g : G) : G * tentry :=
  match template_cache g with
  | Some e =>
      if yc then let '(g1, o) := new_obj g in
                 let e' := {| tc_obj := o; tc_kA := None |} in (set_template (Some e') g1, e')
      else (g, e)
  | None => let '(g1, o) := new_obj g in
            let e := {| tc_obj := o; tc_kA := None |} in (set_template (Some e) g1, e)
  end.
Definition from_yaml := from_yaml_k fixed_yaml_copy.
(* update_var on the object from_yaml handed out: with the repair the mutation never reaches a later from_yaml *)
Definition mutated (v : Qc) : option Qc := if fixed_yaml_copy then None else Some v.

Definition handle (g : G) (h : nat) : option nat :=
  match handles g with [] => None | hs => nth_error hs (h mod List.length hs) end.

Definition step_with (fx : bool) (g : G) (o : hop) : G * obs :=
  match o with
  | Compile m vec clr _ | Run m vec clr _ | Jac m vec clr _ =>
      let '(g1, ob) := new_obj g in compile_obj (push_handle ob g1) ob m vec clr
  | CompileIn m vec clr _ =>
      let '(g1, ob) := new_obj g in compile_in_obj (push_handle ob g1) ob m vec clr
  | FCompile m file clr => fstep_k fixed_D29 g m file clr
  | YLoad clr =>
      let '(g1, e) := from_yaml g in compile_obj (push_handle (tc_obj e) g1) (tc_obj e) (ymodel (tc_kA e)) false clr
  | YUpd v =>
      let '(g1, e) := from_yaml g in (set_template (Some {| tc_obj := tc_obj e; tc_kA := mutated v |}) g1, OAck)
  | MClear h =>
      match handle g h with
      | Some ob => if has_ir g ob then (set_ir ob false (clear_caches ob g), OAck)
                   else if fx then (clear_frontend g, OAck) else (g, OErr "AttributeError")
      | None => if fx then (clear_frontend g, OAck)
                else (g, OErr "AttributeError")          (* a circuit that was never compiled: `self._ir` is None *)
      end
  | UClear h =>
      match handle g h with
      | Some ob => if has_ir g ob then (cfc_with fx true true (set_ir ob false (clear_caches ob g)), OAck)
                   else (cfc_with fx true true (if fx then clear_frontend g else g), OAck)
      | None => (cfc_with fx true true (if fx then clear_frontend g else g), OAck)
                                   (* AttributeError swallowed by utility.clear, then clear_frontend_caches() *)
      end
  | CFC tc ic => (cfc_with fx tc ic g, OAck)
  end.

Definition run_hist_with (fx : bool) (h : list hop) (g : G) : G := fold_left (fun g o => fst (step_with fx g o)) h g.
Fixpoint trace_with (fx : bool) (h : list hop) (g : G) : list obs :=
  match h with [] => [] | o :: h' => snd (step_with fx g o) :: trace_with fx h' (fst (step_with fx g o)) end.

Definition cfc := cfc_with fixed_clear.
Definition step := step_with fixed_clear.
Definition run_hist := run_hist_with fixed_clear.
Definition trace := trace_with fixed_clear.

(* ------------------------------------------------------------------ Spec side *)
(* the observable of model m compiled in state g (compilations do not depend on the switch) *)
Definition obs_of (g : G) (m : model) (vec : bool) : obs := snd (step_with false g (Compile m vec false false)).
Definition obs_of_yaml (g : G) : obs := snd (step_with false g (YLoad false)).
Definition obs_of_fortran_k (fd : bool) (g : G) (m : model) (file : string) : obs := snd (fstep_k fd g m file false).
Definition obs_of_fortran (g : G) (m : model) (file : string) : obs := snd (step_with false g (FCompile m file false)).

(* the guard: the history leaves the components a compilation reads as a fresh process has them *)
Definition CachesClean (h : list hop) : bool := caches_clean (run_hist h G0).
Definition TemplateClean (h : list hop) : bool := template_clean (run_hist h G0).
Definition FortranClean (h : list hop) : bool := fortran_clean (run_hist h G0).
Definition Compatible (h : list hop) : bool := CachesClean h && TemplateClean h.

(* a syntactic sufficient condition: every compilation asks for clear=True, and every update_var on a cached template is
   followed by a step that drops the template cache *)
Fixpoint disciplined (tmut : bool) (h : list hop) : bool :=
  match h with
  | [] => negb tmut
  | Compile _ _ clr _ :: h' | Run _ _ clr _ :: h' | Jac _ _ clr _ :: h' | CompileIn _ _ clr _ :: h' | FCompile _ _ clr :: h'
  | YLoad clr :: h' =>
      clr && disciplined tmut h'
  | YUpd _ :: h' => disciplined true h'
  | MClear _ :: h' => disciplined tmut h'
  | UClear _ :: h' => disciplined false h'
  | CFC tc _ :: h' => disciplined (tmut && negb tc) h'
  end.

(* well-formed models: distinct node labels, edges between declared nodes *)
Definition wf_model (m : model) : bool :=
  forallb (fun e => existsb (fun n => String.eqb (fst (fst e)) (m_label n)) (m_nodes m) &&
                    existsb (fun n => String.eqb (snd (fst e)) (m_label n)) (m_nodes m)) (m_edges m).

(* comparison glue for the correspondence run *)
Definition list_eqb {A} (f : A -> A -> bool) (a b : list A) : bool :=
  (List.length a =? List.length b)%nat && forallb (fun p => f (fst p) (snd p)) (combine a b).
Definition obs_eqb (a b : obs) : bool :=
  match a, b with
  | OErr x, OErr y => String.eqb x y
  | OAck, OAck => true
  | OOk n1 k1 s1 d1, OOk n2 k2 s2 d2 =>
      list_eqb String.eqb n1 n2 && list_eqb (list_eqb Qc_eqb) k1 k2 &&
      list_eqb (fun x y => String.eqb (fst (fst x)) (fst (fst y)) && (snd (fst x) =? snd (fst y))%nat && (snd x =? snd y)%nat) s1 s2 &&
      list_eqb Qc_eqb d1 d2
  | _, _ => false
  end.
(* outcome classes of the steps of a history: "" for success, else the exception class *)
Definition cls (o : obs) : string := match o with OErr c => c | _ => "" end.
