(* Inputs.v — executable model (Impl) of the extrinsic-input mechanism
     pyrates/frontend/template/circuit.py : _add_input (shape normalisation, target list, wiring),
                                            create_input_node (index(inp, t) / interp(t, linspace(0,T,N), inp)),
                                            _add_input_node (nesting in input_lvl_i circuits)
   composed with the fixed-step solvers of Solver.v, and the specification (Spec) "sample k drives step k of
   exactly the addressed units; (N,1) = (N,); column i goes to the i-th target; 1-D is broadcast; sources add".
   Networks of the correspondence run: n units x_i' = u_i, u_i = sum of inputs + sum_j W_ij x_j.
   Definitions only; proofs in InputsProofs.v. *)
From Coq Require Import List ZArith QArith Qcanon Bool Arith.
From PV Require Import History Solver Interp.
Import ListNotations.

(* an input array: 1-D, or 2-D as a list of rows *)
Inductive arr := A1 (l : list Qc) | A2 (rows : list row).

Definition alen (a : arr) : nat := match a with A1 l => length l | A2 r => length r end.
Definition column (i : nat) (r : list row) : list Qc := map (fun row => nth i row 0%Qc) r.

(* _add_input: if inp.ndim > 1 and inp.shape[-1] == 1: inp = inp.squeeze(-1) *)
Definition normalise (a : arr) : arr :=
  match a with
  | A2 r => if (length (hd [] r) =? 1)%nat then A1 (column 0 r) else a
  | _ => a
  end.
(* n_cols = inp.shape[-1] if inp.ndim > 1 else 1 *)
Definition ncols (a : arr) : nat := match a with A1 _ => 1%nat | A2 r => length (hd [] r) end.
Definition is2d (a : arr) : bool := match a with A1 _ => false | A2 _ => true end.

(* the edges from the input node: per-column source_idx when n_cols = #targets > 1, else the whole timed input *)
Inductive src := Whole | Col (i : nat).
Definition wiring (a : arr) (targets : list nat) : list (nat * src) :=
  let n := ncols a in
  if (n =? length targets)%nat && (1 <? n)%nat then combine targets (map Col (seq 0 n))
  else map (fun t => (t, Whole)) targets.

(* fixed step: index(u_input, t) with the step counter t, then the edge's source_idx *)
Definition sample_fixed (a : arr) (k : nat) (s : src) : option Qc :=
  match a, s with
  | A1 l, Whole => nth_error l k
  | A2 r, Col i => option_map (fun row => nth i row 0%Qc) (nth_error r k)
  | _, _ => None          (* a row delivered whole to a scalar target: not one of the accepted forms *)
  end.

(* adaptive: interp(t, linspace(0, T, N), inp) (interp_rows per column) *)
Definition sample_adaptive (a : arr) (T t : Qc) (s : src) : option Qc :=
  let grid := linspace 0%Qc T (alen a) in
  match a, s with
  | A1 l, Whole => Some (interp_np t grid l)
  | A2 r, Col i => Some (interp_np t grid (column i r))
  | _, _ => None
  end.

Definition oadd (a b : option Qc) : option Qc :=
  match a, b with Some x, Some y => Some (x + y)%Qc | _, _ => None end.

(* what one input (array, resolved target list) delivers to unit i *)
Definition delivered (sample : arr -> src -> option Qc) (inp : arr * list nat) (i : nat) : option Qc :=
  let a := normalise (fst inp) in
  fold_right (fun e acc => if (fst e =? i)%nat then oadd (sample a (snd e)) acc else acc) (Some 0%Qc) (wiring a (snd inp)).

(* several inputs on one variable add *)
Definition forcing (sample : arr -> src -> option Qc) (inputs : list (arr * list nat)) (i : nat) : option Qc :=
  fold_right (fun inp acc => oadd (delivered sample inp i) acc) (Some 0%Qc) inputs.

Definition oget (o : option Qc) : Qc := match o with Some x => x | None => 0%Qc end.

(* a unit that no input addresses and no edge reaches keeps the declared default of u; a unit with any source gets
   the sum of its sources instead of the default *)
Definition covered (W : list row) (inputs : list (arr * list nat)) (i : nat) : bool :=
  existsb (fun inp => existsb (Nat.eqb i) (snd inp)) inputs || existsb (fun w => negb (Qeq_bool (this w) 0)) (nth i W []).
Definition base (udef : Qc) (W : list row) (inputs : list (arr * list nat)) (i : nat) : Qc :=
  if covered W inputs i then 0%Qc else udef.

(* the compiled right-hand side of the network: u_i = default | inputs + edges;  x_i' = u_i *)
Definition net_rhs (udef : Qc) (W : list row) (inputs : list (arr * list nat)) (c : unit) (k : nat) (x : row) : row * unit :=
  (map (fun i => (base udef W inputs i + oget (forcing (fun a s => sample_fixed a k s) inputs i) + dot (nth i W []) x)%Qc) (seq 0 (length x)), c).

Definition accepted (vectorize : bool) (inp : arr * list nat) : bool :=
  let a := normalise (fst inp) in
  negb (is2d a) || ((ncols a =? length (snd inp))%nat && vectorize).

(* CircuitTemplate.run(solver = euler | heun, inputs = ..., sampling_step_size = dts, cutoff = ...) on the network, all
   units requested as outputs; the input arrays are indexed with the step counter whatever the sampling step *)
Definition run_inputs_core (s : solver) (vectorize : bool) (depth : nat) (T dt : Qc) (dts : option Qc) (cutoff udef : Qc)
           (W : list row) (inputs : list (arr * list nat)) (x0 : row) : outcome :=
  (* `depth` = hierarchy depth of the circuit; NOT USED by the model (targets are pre-resolved unit numbers): since fix D89 (_add_input_node nests CircuitTemplate objects) the input
     node is placed in input_lvl_i circuits of the same depth and the result does not depend on it (before: any input at
     depth >= 2 raised AttributeError, D30) *)
  if negb (forallb (accepted vectorize) inputs) then ErrShape           (* (N,n) needs vectorize and n = #targets *)
  else if existsb (fun inp => (alen (fst inp) <? rnd (T / dt))%nat) inputs then ErrIndex   (* index(inp, t) past the end *)
  else run_model (net_rhs udef W inputs) s T dt dts cutoff (seq 0 (length x0)) x0 tt.

(* An array with a single time sample.  The compiled constant of shape (1,) / (1,n) loses its leading axis (it is squeezed
   to 0-d / to (n,)), so its only row is taken for the time axis:
     (1,) and (1,1)              : IndexError (too many indices for a 0-d array) at the first call;
     (1,n), vectorize = False    : IndexError (invalid index to scalar variable);
     (1,n), vectorize, n < 10    : ValueError (an (n,n) block cannot be broadcast into (n,)) -- the dot-product edge branch;
     (1,n), vectorize, n >= 10   : SILENT -- the indexed edge branch (used from 10 target units on) broadcasts
                                   u_input[t] = row[t] to every unit: the n columns are read as n time samples.
   (Such an array is shorter than any run of >= 2 steps, i.e. outside the contract (N_steps, n_cols) there; with one
   step it is inside the contract and fails as listed: finding `single_sample`.) *)
Definition indexed_branch_min : nat := 10.
Definition squeeze_single (vectorize : bool) (inp : arr * list nat) : outcome + (arr * list nat) :=
  match normalise (fst inp) with
  | A1 [_] => inl ErrIndex
  | A2 [r] => if negb vectorize then inl ErrIndex
              else if (length r <? indexed_branch_min)%nat then inl ErrShape
              else inr (A1 r, snd inp)
  | _ => inr inp
  end.
Fixpoint squeeze_all (vectorize : bool) (inputs : list (arr * list nat)) : outcome + list (arr * list nat) :=
  match inputs with
  | [] => inr []
  | inp :: rest =>
      match squeeze_single vectorize inp with
      | inl o => inl o
      | inr inp' => match squeeze_all vectorize rest with inl o => inl o | inr rest' => inr (inp' :: rest') end
      end
  end.

Definition run_inputs (s : solver) (vectorize : bool) (depth : nat) (T dt : Qc) (dts : option Qc) (cutoff udef : Qc)
           (W : list row) (inputs : list (arr * list nat)) (x0 : row) : outcome :=
  match squeeze_all vectorize inputs with
  | inl o => o
  | inr inputs' => run_inputs_core s vectorize depth T dt dts cutoff udef W inputs' x0
  end.

(* every array has at least two time samples *)
Definition multi_sample (inputs : list (arr * list nat)) : bool := forallb (fun inp => (2 <=? alen (fst inp))%nat) inputs.

(* get_run_func(inputs = ..., solver = 'scipy'): the vector field at time t, state x; T = N * step_size *)
Definition vf_adaptive (dt udef : Qc) (W : list row) (inputs : list (arr * list nat)) (t : Qc) (x : row) : option row :=
  let vals := map (fun i => oadd (forcing (fun a s => sample_adaptive a (nq (alen a) * dt)%Qc t s) inputs i)
                                 (Some (base udef W inputs i + dot (nth i W []) x)%Qc)) (seq 0 (length x)) in
  if forallb (fun o => match o with Some _ => true | None => false end) vals then Some (map oget vals) else None.

(* run(inputs = ..., solver = 'scipy'): the same vector field, but run() hands T = simulation_time to create_input_node,
   so the N samples sit on linspace(0, simulation_time, N) whatever N is (seed C08-m8) *)
Definition vf_adaptive_run (T udef : Qc) (W : list row) (inputs : list (arr * list nat)) (t : Qc) (x : row) : option row :=
  let vals := map (fun i => oadd (forcing (fun a s => sample_adaptive a T t s) inputs i)
                                 (Some (base udef W inputs i + dot (nth i W []) x)%Qc)) (seq 0 (length x)) in
  if forallb (fun o => match o with Some _ => true | None => false end) vals then Some (map oget vals) else None.

(* ------------------------------------------------------------------------------------------------ *)
(* Spec: the property as the user reads it *)
(* position of unit i in a target list *)
Fixpoint index_of (i : nat) (l : list nat) : option nat :=
  match l with
  | [] => None
  | j :: l' => if (j =? i)%nat then Some 0%nat else option_map S (index_of i l')
  end.

(* value of one input for unit i at sample k: 1-D and (N,1): inp[k] if i is addressed; (N,n): its own column *)
Definition spec_value (inp : arr * list nat) (i k : nat) : Qc :=
  match index_of i (snd inp) with
  | None => 0%Qc
  | Some p =>
      match fst inp with
      | A1 l => nth k l 0%Qc
      | A2 r => if (length (hd [] r) =? 1)%nat then nth 0 (nth k r []) 0%Qc else nth p (nth k r []) 0%Qc
      end
  end.

Definition spec_u (inputs : list (arr * list nat)) (i k : nat) : Qc :=
  fold_right (fun inp acc => (spec_value inp i k + acc)%Qc) 0%Qc inputs.

Definition spec_rhs (udef : Qc) (W : list row) (inputs : list (arr * list nat)) (c : unit) (k : nat) (x : row) : row * unit :=
  (map (fun i => (base udef W inputs i + spec_u inputs i k + dot (nth i W []) x)%Qc) (seq 0 (length x)), c).

Definition spec_run_inputs (s : solver) (T dt : Qc) (dts : option Qc) (cutoff udef : Qc) (W : list row) (inputs : list (arr * list nat)) (x0 : row) : list row :=
  spec_run (spec_rhs udef W inputs) s T dt dts cutoff (seq 0 (length x0)) x0 tt.

(* guards *)
Definition NoDupb (l : list nat) : bool :=
  (fix go (l : list nat) := match l with [] => true | x :: l' => negb (existsb (Nat.eqb x) l') && go l' end) l.
Definition input_ok (vectorize : bool) (steps : nat) (inp : arr * list nat) : bool :=
  accepted vectorize inp && (steps <=? alen (fst inp))%nat && NoDupb (snd inp) &&
  match fst inp with A2 r => forallb (fun row => (length row =? length (hd [] r))%nat) r | _ => true end.
Definition inputs_guard (vectorize : bool) (T dt : Qc) (inputs : list (arr * list nat)) : bool :=
  forallb (input_ok vectorize (rnd (T / dt))) inputs.
