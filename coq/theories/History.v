(* History.v — executable model (Impl) of pyrates/backend/base/base_backend.py:DDEHistory and its
   abstract specification (Spec).  Definitions only; proofs are in HistoryProofs.v so that the model
   still evaluates when a proof breaks.

   Impl mirrors the code line by line:
     __init__ : _t = [t0]; _y = np.empty((capacity,)+shape); _y[0] = y0; _n = 1
     update   : if _n >= len(_y): grow or raise IndexError;  _t.append(t); _y[_n] = y; _n += 1
     _grow    : new buffer of GROW_FACTOR*cap rows (content arbitrary), first _n rows copied
     __call__ : t <= _t[0] -> _y[0];  t >= _t[-1] -> _y[_n-1];
                idx = bisect_right(_t, t) - 1;  alpha = (t-_t[idx])/(_t[idx+1]-_t[idx]);
                _y[idx] + alpha*(_y[idx+1]-_y[idx])
   Rows beyond _n are np.empty garbage: the model receives them as an explicit `junk` argument that
   every theorem quantifies over. *)
From Coq Require Import List ZArith QArith Qcanon Bool Arith.
Import ListNotations.

Definition row := list Qc.
Definition vadd (a b : row) : row := map (fun p => (fst p + snd p)%Qc) (combine a b).
Definition vsub (a b : row) : row := map (fun p => (fst p - snd p)%Qc) (combine a b).
Definition vscale (c : Qc) (a : row) : row := map (fun x => (c * x)%Qc) a.

Definition Qcleb (a b : Qc) : bool := Qle_bool a b.
Definition Qcltb (a b : Qc) : bool := negb (Qle_bool b a).

Record hist := { ts : list Qc; buf : list row; n : nat; growable : bool }.

Definition set_nth {A} (l : list A) (i : nat) (x : A) : list A := firstn i l ++ x :: skipn (S i) l.

(* `len` rows of arbitrary content *)
Definition fresh_rows (junk : list row) (len : nat) : list row := firstn len (junk ++ repeat [] len).

Definition grow_factor : nat := 2.

Definition init (y0 : row) (t0 : Qc) (cap : nat) (g : bool) (junk : list row) : hist :=
  {| ts := [t0]; buf := set_nth (fresh_rows junk (Nat.max cap 1)) 0 y0; n := 1; growable := g |}.

Definition grow (h : hist) (junk : list row) : hist :=
  {| ts := ts h;
     buf := firstn (n h) (buf h) ++ fresh_rows junk (grow_factor * length (buf h) - n h);
     n := n h; growable := growable h |}.

Inductive op := Update (t : Qc) (y : row) (junk : list row) | Query (t : Qc).
Inductive out := ODone | ORefused | OVal (r : row).

Definition update (h : hist) (junk : list row) (t : Qc) (y : row) : option hist :=
  let h' := if (length (buf h) <=? n h)%nat
            then (if growable h then Some (grow h junk) else None) else Some h in
  match h' with
  | None => None
  | Some h1 => Some {| ts := ts h1 ++ [t]; buf := set_nth (buf h1) (n h1) y; n := S (n h1);
                       growable := growable h1 |}
  end.

Fixpoint bisect_right (l : list Qc) (t : Qc) : nat :=
  match l with
  | [] => O
  | x :: l' => if Qcleb x t then S (bisect_right l' t) else O
  end.

Definition lerp (ta : Qc) (ya : row) (tb : Qc) (yb : row) (t : Qc) : row :=
  vadd ya (vscale ((t - ta) / (tb - ta))%Qc (vsub yb ya)).

Definition query (h : hist) (t : Qc) : row :=
  let t0 := hd 0%Qc (ts h) in
  let tl := last (ts h) 0%Qc in
  if Qcleb t t0 then nth 0 (buf h) []
  else if Qcleb tl t then nth (n h - 1) (buf h) []
  else
    let idx := (bisect_right (ts h) t - 1)%nat in
    lerp (nth idx (ts h) 0%Qc) (nth idx (buf h) []) (nth (S idx) (ts h) 0%Qc) (nth (S idx) (buf h) []) t.

Definition step (h : hist) (o : op) : hist * out :=
  match o with
  | Update t y junk => match update h junk t y with Some h' => (h', ODone) | None => (h, ORefused) end
  | Query t => (h, OVal (query h t))
  end.

Fixpoint run (h : hist) (ops : list op) : hist * list out :=
  match ops with
  | [] => (h, [])
  | o :: ops' => let '(h1, r) := step h o in let '(h2, rs) := run h1 ops' in (h2, r :: rs)
  end.

(* ------------------------------------------------------------------------------------------ *)
(* Spec: what the property says.  A history is the list of accepted records and an optional bound. *)

Record ahist := { recs : list (Qc * row); bound : option nat }.

Fixpoint interp_from (ta : Qc) (ya : row) (rest : list (Qc * row)) (t : Qc) : row :=
  match rest with
  | [] => ya                                             (* t at or after the last record *)
  | (tb, yb) :: rest' => if Qcltb t tb then lerp ta ya tb yb t else interp_from tb yb rest' t
  end.

Definition interp (rs : list (Qc * row)) (t : Qc) : row :=
  match rs with
  | [] => []
  | (t0, y0) :: rest => if Qcleb t t0 then y0 else interp_from t0 y0 rest t
  end.

Definition ainit (y0 : row) (t0 : Qc) (cap : nat) (g : bool) : ahist :=
  {| recs := [(t0, y0)]; bound := if g then None else Some (Nat.max cap 1) |}.

Definition astep (a : ahist) (o : op) : ahist * out :=
  match o with
  | Update t y _ =>
      match bound a with
      | Some b => if (b <=? length (recs a))%nat then (a, ORefused)
                  else ({| recs := recs a ++ [(t, y)]; bound := bound a |}, ODone)
      | None => ({| recs := recs a ++ [(t, y)]; bound := bound a |}, ODone)
      end
  | Query t => (a, OVal (interp (recs a) t))
  end.

Fixpoint arun (a : ahist) (ops : list op) : ahist * list out :=
  match ops with
  | [] => (a, [])
  | o :: ops' => let '(a1, r) := astep a o in let '(a2, rs) := arun a1 ops' in (a2, r :: rs)
  end.

(* times of the update operations of a script, in order *)
Fixpoint update_times (ops : list op) : list Qc :=
  match ops with
  | [] => []
  | Update t _ _ :: ops' => t :: update_times ops'
  | Query _ :: ops' => update_times ops'
  end.

Fixpoint incr (l : list Qc) : Prop :=
  match l with
  | [] => True
  | x :: l' => match l' with [] => True | y :: _ => (x < y)%Qc end /\ incr l'
  end.

Fixpoint incrb (l : list Qc) : bool :=
  match l with
  | [] => true
  | x :: l' => match l' with [] => true | y :: _ => Qcltb x y end && incrb l'
  end.

(* helpers for the correspondence run: numbers are written n/d *)
Definition mkq (num : Z) (den : positive) : Qc := Q2Qc (num # den).
Definition row_eqb (a b : row) : bool :=
  (length a =? length b)%nat && forallb (fun p => Qeq_bool (this (fst p)) (this (snd p))) (combine a b).
Definition out_eqb (a b : out) : bool :=
  match a, b with
  | ODone, ODone => true | ORefused, ORefused => true
  | OVal x, OVal y => row_eqb x y
  | _, _ => false
  end.
Fixpoint outs_eqb (a b : list out) : bool :=
  match a, b with
  | [], [] => true
  | x :: a', y :: b' => out_eqb x y && outs_eqb a' b'
  | _, _ => false
  end.
