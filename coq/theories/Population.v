(* Population.v — executable model for C16 (definitions only; proofs are in PopulationProofs.v).

   Impl (`pop_*`): what a circuit built from PopulationTemplate(n) + Connectivity computes, as the code is now:
     pyrates/frontend/template/population.py  PopulationTemplate.apply   -> `distribute`, `pop_pars`
     pyrates/frontend/template/circuit.py     _apply_populations_and_connections (one IR edge per Connectivity)
     pyrates/ir/circuit.py  _generate_edge_equation
        case 0g  scalar weight      t = w * vsum(s)   (w elided when |w-1| < 1e-8; a coupling template is ignored)
        case 0a  matrix             t = matvec(W, s)  (n_source = 1: w_1d * s;  one row: 1-D dot, fix D25)
        case 0b  algebraic coupling t = wsum(W, f(broadcast_pre(s), broadcast_post(post)))
        case 0c  dynamic coupling   v' = flatten1d(g(broadcast_pre(s), broadcast_post(post), reshape2d(v))), t = wsum(W, v)
        several sources of one target variable:  t = t_in0 + t_in1 + ...
        _collect_from_edges keys the inputs of a target variable by *source node*: two Connectivity objects from the
        same population onto one target variable are merged into one malformed input (`loud`, class dup_sources)
        the post-synaptic variable is registered under its bare name: it replaces a source variable of the same
        name when the target variable has a single input (`collides`)
     pyrates/ir/circuit.py  _add_matrix_delay  discrete ring buffer: source read d steps back, zeros before
     pyrates/backend/base/base_funcs.py        broadcast_pre x[None,:], broadcast_post x[:,None], wsum einsum('ij,ij->i')

   Spec (`exp_*`): the explicit network — psize separately declared units per population, parameter element i on
   unit i, one scalar edge (target unit, source unit, w) per matrix entry with |w| > mw (mw = 0: per non-zero
   entry), the input of a unit = sum over the edge list of w * (source value | f(source, post) | edge state). *)
From Coq Require Import List ZArith QArith Qcanon Qcabs Bool Arith.
Import ListNotations.
Open Scope Qc_scope.

Definition vec := list Qc.
Definition mat := list vec.

(* Switches: `true` = the corresponding repair is in /repo (all are: D60 = F1 + F6, D55 = F2, D56 = F3, D92 = F5, D93 = F7, D54 = F8).  The Impl then
   models the repaired mechanism, the guard of that class becomes vacuous, the generator of harness/c16.py (which
   reads these lines) starts producing the class, and the `_refuted` lemma of the class becomes vacuous. *)
Definition fixed_F1 : bool := true.   (* Connectivity edges are inputs of their own (keyed by (source node, edge index)) *)
Definition fixed_F2 : bool := true.   (* post-synaptic variable registered under its own name *)
Definition fixed_F3 : bool := true.   (* scalar weight + coupling template -> full weight matrix *)
Definition fixed_F5 : bool := true.   (* coupling template on a one-row / one-column matrix: reshape-based broadcasts, total sum for one target *)
Definition fixed_F6 : bool := true.   (* one input name per variable inside an in-edge operator *)
Definition fixed_F7 : bool := true.   (* delayed source of one unit read as a scalar *)
Definition fixed_F8 : bool := true.   (* one ring buffer per delayed Connectivity *)

Definition mkq (num : Z) (den : positive) : Qc := Q2Qc (num # den).
Definition Qcltb (a b : Qc) : bool := negb (Qle_bool b a).
Definition Qceqb (a b : Qc) : bool := Qeq_bool a b.

(* ------------------------------------------------------------------ vectors, matrices (numpy semantics) *)
Fixpoint vsum (v : vec) : Qc := match v with [] => 0 | a :: v' => a + vsum v' end.

Fixpoint zipw {A B C} (f : A -> B -> C) (la : list A) (lb : list B) : list C :=
  match la, lb with
  | a :: la', b :: lb' => f a b :: zipw f la' lb'
  | _, _ => []
  end.

Definition vmul (a b : vec) : vec := zipw Qcmult a b.
Definition vadd (a b : vec) : vec := zipw Qcplus a b.
Definition dot (a b : vec) : Qc := vsum (vmul a b).
Definition matvec (W : mat) (s : vec) : vec := map (fun r => dot r s) W.                 (* np.dot(W, s) *)
Definition wsum (W C : mat) : vec := zipw dot W C.                                       (* einsum('ij,ij->i') *)
Definition broadcast_pre (s : vec) (nt : nat) : mat := repeat s nt.                      (* x[None, :] against nt rows *)
Definition broadcast_post (t : vec) (ns : nat) : mat := map (fun ti => repeat ti ns) t.  (* x[:, None] against ns columns *)
Definition map2m (f : Qc -> Qc -> Qc) (A B : mat) : mat := zipw (zipw f) A B.
Definition map3m (g : Qc -> Qc -> Qc -> Qc) (A B C : mat) : mat :=
  zipw (fun ab c => zipw (fun p v => g (fst p) (snd p) v) ab c) (zipw (zipw pair) A B) C.
Definition ncols (W : mat) : nat := length (hd [] W).
Definition transpose (W : mat) : mat := map (fun j => map (fun r => nth j r 0) W) (seq 0 (ncols W)).

Fixpoint sumf (f : nat -> Qc) (l : list nat) : Qc := match l with [] => 0 | i :: l' => f i + sumf f l' end.
Definition sum_to (n : nat) (f : nat -> Qc) : Qc := sumf f (seq 0 n).

(* sum of a list of vectors of length n (t = t_in0 + t_in1 + ...; no input: the default 0) *)
Definition vsumv (n : nat) (l : list vec) : vec := fold_right vadd (repeat 0 n) l.

(* ------------------------------------------------------------------ the network *)
Inductive pval := PScal (v : Qc) | PVec (l : vec).
(* PopulationTemplate.apply: an iterable of length n is used as it is, anything else is repeated n times *)
Definition distribute (n : nat) (p : pval) : vec := match p with PScal v => repeat v n | PVec l => l end.

Record pop := { psize : nat; ppars : list pval }.
Definition dpop : pop := {| psize := 0; ppars := [] |}.

Inductive weight := WMat (W : mat) | WScal (w : Qc).
(* coupling edge template: none, algebraic m = f(u_s, u_t), dynamic v' = g(u_s, u_t, v), m = v;
   the boolean says whether the template has an input mapped to a post-synaptic variable *)
Inductive coupling :=
| CPlain
| CAlg (post : bool) (f : Qc -> Qc -> Qc)
| CDyn (post : bool) (g : Qc -> Qc -> Qc -> Qc).

(* cdelay: discrete delay in steps; cspread = Some (d, s): Connectivity(delays=d, spread=s) in time units — gamma-kernel
   delay, realised as an ODE cascade instead of the ring buffer *)
Record conn := { csrc : nat; csv : nat; ctgt : nat; ctv : nat; cw : weight; ccpl : coupling; cpv : nat; cdelay : nat;
                 cspread : option (Qc * Qc) }.
Record popnet := { pops : list pop; conns : list conn }.

Record pstate := { sx : vec; sz : vec }.            (* the two state variables of every unit of one population *)
Definition dps : pstate := {| sx := []; sz := [] |}.
Definition pvar (st : pstate) (v : nat) : vec := if (v =? 0)%nat then sx st else sz st.
(* units of all populations + one (nt x ns) matrix of edge states per connection ([] when the coupling is not dynamic) *)
Definition nstate := (list pstate * list mat)%type.

(* dynamics of one unit: parameters, x, z, the two input variables -> (x', z') *)
Definition unitfn := vec -> Qc -> Qc -> Qc -> Qc -> Qc * Qc.

Definition pop_of (N : popnet) (p : nat) : pop := nth p (pops N) dpop.
Definition size_of (N : popnet) (p : nat) : nat := psize (pop_of N p).

(* a delay of d steps is implemented only when d * dt > dt *)
Definition eff_delay (d : nat) : nat := if (d <=? 1)%nat then 0%nat else d.
(* value of variable `var` of population `who`, `d` steps back (history: head = now); zeros before the start *)
Definition delayed (N : popnet) (hist : list nstate) (d who var : nat) : vec :=
  match nth_error hist d with
  | Some st => pvar (nth who (fst st) dps) var
  | None => repeat 0 (size_of N who)
  end.

Definition is_plain (k : coupling) : bool := match k with CPlain => true | _ => false end.
Definition uses_post (k : coupling) : bool := match k with CPlain => false | CAlg b _ => b | CDyn b _ => b end.
Definition is_dyn (k : coupling) : bool := match k with CDyn _ _ => true | _ => false end.
Definition is_mat (w : weight) : bool := match w with WMat _ => true | WScal _ => false end.
Definition into (p tv : nat) (c : conn) : bool := (ctgt c =? p)%nat && (ctv c =? tv)%nat.
Definition n_into (N : popnet) (p tv : nat) : nat := length (filter (into p tv) (conns N)).

(* ================================================================== Impl: the population circuit *)
(* `weight_minimum` of _generate_edge_equation: a weight within this tolerance of 1 is not applied (the factor is elided).
   The same elision is made for scalar edges (case II), so the explicit network elides too; the tolerance is a parameter
   of the model, on the Impl side (case 0g) and on the Spec side (`elide` in `expand_conn`). *)
Definition weight_tol : Qc := mkq 1 100000000.
Definition near_one (w : Qc) : bool := Qcltb (Qcabs (w - 1)) weight_tol.
Definition elide (w : Qc) : Qc := if near_one w then 1 else w.

Definition case0a (W : mat) (s : vec) : vec :=
  if (ncols W =? 1)%nat then map (fun r => hd 0 r * hd 0 s) W       (* w_1d * s with a scalar s *)
  else if (length W =? 1)%nat then (dot (hd nil W) s :: nil)                  (* one row: 1-D dot (fix D25) *)
  else matvec W s.

(* the post-synaptic variable shadows a source variable of the same name (single input, two different populations) *)
Definition collides (N : popnet) (c : conn) : bool :=
  negb fixed_F2 && is_mat (cw c) && uses_post (ccpl c) && negb (csrc c =? ctgt c)%nat && (csv c =? cpv c)%nat
  && (n_into N (ctgt c) (ctv c) =? 1)%nat.

(* gamma-kernel delay (_add_matrix_delay, ODE-cascade branch; same formulas on scalar edges): order n = max(1, round((d/s)^2))
   (Python round: half to even), rate a = n/d, stages z_1..z_n per SOURCE unit with z_k' = a*(z_(k-1) - z_k), z_0 = the source
   variable, all stages 0 at the start; the connection reads z_n.  In the explicit network every scalar edge has its own
   cascade; the cascades of the edges that leave one source unit with the same (d, s) are identical, so one (n x Ns) matrix
   per connection holds them (stored in the connection's edge-state slot, after the pair states of a dynamic template). *)
Definition round_half_even (q : Qc) : Z :=
  let num := Qnum (this q) in let den := Zpos (Qden (this q)) in
  let t := Z.div (2 * num + den) (2 * den) in
  if Z.eqb (Z.modulo (2 * num + den) (2 * den)) 0 && Z.odd t then (t - 1)%Z else t.
Definition chain_order (ds : Qc * Qc) : nat := Nat.max 1 (Z.to_nat (round_half_even ((fst ds / snd ds) * (fst ds / snd ds)))).
Definition chain_rate (ds : Qc * Qc) : Qc := Q2Qc (inject_Z (Z.of_nat (chain_order ds))) / fst ds.
(* the edge-state slot of a connection: the (nt x ns) pair states of a dynamic template, followed by the stages of the cascade *)
Definition chain_rows (N : popnet) (c : conn) (V : mat) : mat :=
  if is_dyn (ccpl c) then skipn (size_of N (ctgt c)) V else V.
Definition chain_deriv (N : popnet) (hist : list nstate) (c : conn) (V : mat) : mat :=
  match cspread c with
  | None => []
  | Some ds => let a := chain_rate ds in let C := chain_rows N c V in
               zipw (fun prev row => zipw (fun p z => a * (p - z)) prev row) (delayed N hist 0 (csrc c) (csv c) :: C) C
  end.
(* the (possibly delayed) source vector of a connection; with a coupling template the template reads this vector *)
Definition src_vec (N : popnet) (hist : list nstate) (c : conn) (V : mat) : vec :=
  match cspread c with
  | None => delayed N hist (eff_delay (cdelay c)) (csrc c) (csv c)
  | Some _ => last (chain_rows N c V) (repeat 0 (size_of N (csrc c)))
  end.

Definition pop_source (N : popnet) (hist : list nstate) (c : conn) (V : mat) : vec :=
  if collides N c then delayed N hist 0 (ctgt c) (cpv c)
  else src_vec N hist c V.
Definition post_of (N : popnet) (hist : list nstate) (c : conn) : vec := delayed N hist 0 (ctgt c) (cpv c).

Definition pop_contrib (N : popnet) (hist : list nstate) (c : conn) (V : mat) : vec :=
  let s := pop_source N hist c V in
  let t := post_of N hist c in
  match cw c with
  | WScal w => repeat (if near_one w then vsum s else w * vsum s) (size_of N (ctgt c))
  | WMat W =>
      match ccpl c with
      | CPlain => case0a W s
      | CAlg _ f => wsum W (map2m f (broadcast_pre s (length W)) (broadcast_post t (length s)))
      | CDyn _ _ => wsum W V
      end
  end.

Definition pop_edge_deriv (N : popnet) (hist : list nstate) (c : conn) (V : mat) : mat :=
  match cw c, ccpl c with
  | WMat W, CDyn _ g =>
      let s := pop_source N hist c V in
      map3m g (broadcast_pre s (length W)) (broadcast_post (post_of N hist c) (length s)) V ++ chain_deriv N hist c V
  | _, _ => chain_deriv N hist c V
  end.

Definition cur (hist : list nstate) : nstate := hd ([], []) hist.

Definition pop_input (N : popnet) (hist : list nstate) (p tv : nat) : vec :=
  vsumv (size_of N p)
    (map (fun cV => pop_contrib N hist (fst cV) (snd cV))
         (filter (fun cV => into p tv (fst cV)) (combine (conns N) (snd (cur hist) ++ repeat [] (length (conns N)))))).

Definition pop_pars (P : pop) : list vec := map (distribute (psize P)) (ppars P).

Definition pop_deriv (U : unitfn) (N : popnet) (hist : list nstate) : nstate :=
  (map (fun p =>
          let P := pop_of N p in
          let st := nth p (fst (cur hist)) dps in
          let s_in := pop_input N hist p 0 in
          let g_in := pop_input N hist p 1 in
          let pv := pop_pars P in
          let d := map (fun i => U (map (fun v => nth i v 0) pv) (nth i (sx st) 0) (nth i (sz st) 0)
                                   (nth i s_in 0) (nth i g_in 0)) (seq 0 (psize P)) in
          {| sx := map fst d; sz := map snd d |})
       (seq 0 (length (pops N))),
   map (fun cV => pop_edge_deriv N hist (fst cV) (snd cV))
       (combine (conns N) (snd (cur hist) ++ repeat [] (length (conns N))))).

(* inputs on which the compilation or the first call raises *)
Definition same_route (c1 c2 : conn) : bool :=
  (csrc c1 =? csrc c2)%nat && (ctgt c1 =? ctgt c2)%nat && (ctv c1 =? ctv c2)%nat.
Fixpoint dup_sources (l : list conn) : bool :=
  match l with [] => false | c :: l' => existsb (same_route c) l' || dup_sources l' end.
Definition cpl_bad_shape (c : conn) : bool :=
  negb fixed_F5 &&
  match cw c, ccpl c with
  | WMat _, CPlain => false
  | WMat W, _ => (length W =? 1)%nat || (ncols W =? 1)%nat
  | WScal _, _ => false
  end.
(* a target variable with several inputs: the renamed source variable `x_in{i}` of one connection and the
   post-synaptic variable `x` of a coupled connection are the same variable of the target population (NameError) *)
(* (with repair F2 the post-synaptic variable of a self-coupling shares the name of its own source variable: no alias) *)
Definition same_conn (c1 c2 : conn) : bool :=
  (csrc c1 =? csrc c2)%nat && (csv c1 =? csv c2)%nat && (ctgt c1 =? ctgt c2)%nat && (ctv c1 =? ctv c2)%nat &&
  (cpv c1 =? cpv c2)%nat && (cdelay c1 =? cdelay c2)%nat.
Definition alias (N : popnet) : bool :=
  negb fixed_F6 && existsb (fun c2 => is_mat (cw c2) && uses_post (ccpl c2) && (2 <=? n_into N (ctgt c2) (ctv c2))%nat &&
                     existsb (fun c1 => into (ctgt c2) (ctv c2) c1 && (csrc c1 =? ctgt c2)%nat && (csv c1 =? cpv c2)%nat
                                        && negb (fixed_F2 && same_conn c1 c2))
                             (conns N)) (conns N).
Definition has_delay (c : conn) : bool := negb (eff_delay (cdelay c) =? 0)%nat.
(* a delayed (1 x 1) matrix: the buffered source is a (1,) array that is assigned to a scalar slot (ValueError) *)
Definition delay_1x1 (c : conn) : bool :=
  negb fixed_F7 && has_delay c && match cw c with WMat W => (length W =? 1)%nat && (ncols W =? 1)%nat | WScal _ => false end.
Definition loud (N : popnet) : bool :=
  (negb fixed_F1 && dup_sources (conns N)) || alias N ||
  existsb (fun c => cpl_bad_shape c || delay_1x1 c ||
                    (collides N c && negb (size_of N (csrc c) =? size_of N (ctgt c))%nat)) (conns N).

(* ================================================================== Spec: the explicit network *)
Record sedge := { e_tgt : nat; e_src : nat; e_w : Qc }.
Definition keep (mw w : Qc) : bool := Qcltb mw (Qcabs w).          (* add_edges_from_matrix: |w| > min_weight *)
Definition expand_row (mw : Qc) (i : nat) (r : vec) : list sedge :=
  flat_map (fun j => let w := nth j r 0 in if keep mw w then ({| e_tgt := i; e_src := j; e_w := w |} :: nil) else nil)
           (seq 0 (length r)).
Definition expand_mat (mw : Qc) (W : mat) : list sedge :=
  flat_map (fun i => expand_row mw i (nth i W [])) (seq 0 (length W)).
Definition full (nt ns : nat) (w : Qc) : mat := repeat (repeat w ns) nt.
Definition expand_conn (mw : Qc) (N : popnet) (c : conn) : list sedge :=
  match cw c with
  | WMat W => expand_mat mw W
  | WScal w => expand_mat mw (full (size_of N (ctgt c)) (size_of N (csrc c)) (if is_plain (ccpl c) then elide w else w))
  end.

Fixpoint edge_sum (es : list sedge) (term : sedge -> Qc) (i : nat) : Qc :=
  match es with
  | [] => 0
  | e :: es' => (if (e_tgt e =? i)%nat then e_w e * term e else 0) + edge_sum es' term i
  end.

(* what one scalar edge carries *)
Definition exp_term (N : popnet) (hist : list nstate) (c : conn) (V : mat) (e : sedge) : Qc :=
  let sj := nth (e_src e) (src_vec N hist c V) 0 in
  let ti := nth (e_tgt e) (post_of N hist c) 0 in
  match ccpl c with
  | CPlain => sj
  | CAlg _ f => f sj ti
  | CDyn _ _ => nth (e_src e) (nth (e_tgt e) V []) 0
  end.

(* the state of the edge (i, j) of a dynamic coupling: v' = g(source_j, post_i, v) *)
Definition exp_edge_deriv (N : popnet) (hist : list nstate) (c : conn) (V : mat) : mat :=
  match ccpl c with
  | CDyn _ g =>
      let s := src_vec N hist c V in
      let t := post_of N hist c in
      map (fun i => map (fun j => g (nth j s 0) (nth i t 0) (nth j (nth i V []) 0)) (seq 0 (size_of N (csrc c))))
          (seq 0 (size_of N (ctgt c))) ++ chain_deriv N hist c V
  | _ => chain_deriv N hist c V
  end.

Definition exp_input (mw : Qc) (N : popnet) (hist : list nstate) (p tv i : nat) : Qc :=
  fold_right Qcplus 0
    (map (fun cV => edge_sum (expand_conn mw N (fst cV)) (exp_term N hist (fst cV) (snd cV)) i)
         (filter (fun cV => into p tv (fst cV)) (combine (conns N) (snd (cur hist) ++ repeat [] (length (conns N)))))).

(* parameter element i belongs to unit i *)
Definition exp_pars (P : pop) (i : nat) : vec :=
  map (fun pv => match pv with PScal v => v | PVec l => nth i l 0 end) (ppars P).

Definition exp_deriv (mw : Qc) (U : unitfn) (N : popnet) (hist : list nstate) : nstate :=
  (map (fun p =>
          let P := pop_of N p in
          let st := nth p (fst (cur hist)) dps in
          let d := map (fun i => U (exp_pars P i) (nth i (sx st) 0) (nth i (sz st) 0)
                                   (exp_input mw N hist p 0 i) (exp_input mw N hist p 1 i)) (seq 0 (psize P)) in
          {| sx := map fst d; sz := map snd d |})
       (seq 0 (length (pops N))),
   map (fun cV => exp_edge_deriv N hist (fst cV) (snd cV))
       (combine (conns N) (snd (cur hist) ++ repeat [] (length (conns N))))).

(* ================================================================== Euler (shared by Impl and Spec) *)
Definition vaxpy (dt : Qc) (x dx : vec) : vec := zipw (fun a b => a + dt * b) x dx.
Definition euler (dt : Qc) (st d : nstate) : nstate :=
  (zipw (fun s ds => {| sx := vaxpy dt (sx s) (sx ds); sz := vaxpy dt (sz s) (sz ds) |}) (fst st) (fst d),
   zipw (zipw (vaxpy dt)) (snd st) (snd d)).

(* history after k steps, newest first *)
Fixpoint run_hist (D : list nstate -> nstate) (dt : Qc) (init : nstate) (k : nat) : list nstate :=
  match k with
  | O => init :: nil
  | S k' => let h := run_hist D dt init k' in euler dt (cur h) (D h) :: h
  end.
(* the rows that `run` returns: the unit states at t = 0, dt, ..., (rows-1)*dt *)
Definition traj (D : list nstate -> nstate) (dt : Qc) (init : nstate) (rows : nat) : list (list pstate) :=
  match rows with O => [] | S k => rev (map fst (run_hist D dt init k)) end.

(* the stages of a gamma-kernel cascade start at 0 *)
Definition init_chain (N : popnet) (c : conn) : mat :=
  match cspread c with None => [] | Some ds => repeat (repeat 0 (size_of N (csrc c))) (chain_order ds) end.
(* initial edge states: the declared value v0 for every pair of a dynamic matrix coupling *)
Definition init_edges (N : popnet) (v0 : Qc) : list mat :=
  map (fun c => match cw c, ccpl c with
                | WMat W, CDyn _ _ => map (fun r => map (fun _ => v0) r) W ++ init_chain N c
                | _, _ => init_chain N c end) (conns N).
Definition init_edges_exp (N : popnet) (v0 : Qc) : list mat :=
  map (fun c => if is_dyn (ccpl c) then full (size_of N (ctgt c)) (size_of N (csrc c)) v0 ++ init_chain N c else init_chain N c) (conns N).

(* repair F3: a scalar weight that comes with a coupling template is expanded to the full (nt x ns) matrix *)
Definition norm_conn (N : popnet) (c : conn) : conn :=
  match cw c with
  | WScal w => if fixed_F3 && negb (is_plain (ccpl c))
               then {| csrc := csrc c; csv := csv c; ctgt := ctgt c; ctv := ctv c;
                       cw := WMat (repeat (repeat w (size_of N (csrc c))) (size_of N (ctgt c)));
                       ccpl := ccpl c; cpv := cpv c; cdelay := cdelay c; cspread := cspread c |}
               else c
  | WMat _ => c
  end.
Definition norm (N : popnet) : popnet := {| pops := pops N; conns := map (norm_conn N) (conns N) |}.

Definition pop_run (U : unitfn) (N : popnet) (units : list pstate) (dt : Qc) (rows : nat) : option (list (list pstate)) :=
  let N' := norm N in
  if loud N' then None else Some (traj (pop_deriv U N') dt (units, init_edges N' 0) rows).
(* the right-hand side at one state (what the function returned by get_run_func computes), edge states at v0 = 0 *)
Definition pop_rhs (U : unitfn) (N : popnet) (units : list pstate) : option (list pstate) :=
  let N' := norm N in
  if loud N' then None else Some (fst (pop_deriv U N' ((units, init_edges N' 0) :: nil))).
Definition exp_run (mw : Qc) (U : unitfn) (N : popnet) (units : list pstate) (dt : Qc) (rows : nat) : list (list pstate) :=
  traj (exp_deriv mw U N) dt (units, init_edges_exp N 0) rows.

(* ================================================================== well-formedness and guards (decidable) *)
Definition rect (nt ns : nat) (W : mat) : bool :=
  (length W =? nt)%nat && forallb (fun r => (length r =? ns)%nat) W.
Definition wf_conn (N : popnet) (c : conn) : bool :=
  (csrc c <? length (pops N))%nat && (ctgt c <? length (pops N))%nat &&
  match cw c with WMat W => rect (size_of N (ctgt c)) (size_of N (csrc c)) W | WScal _ => true end.
Definition wf_pop (P : pop) : bool :=
  (1 <=? psize P)%nat && forallb (fun pv => match pv with PScal _ => true | PVec l => (length l =? psize P)%nat end) (ppars P).
Definition wf_net (N : popnet) : bool := forallb wf_pop (pops N) && forallb (wf_conn N) (conns N).
Definition wf_units (N : popnet) (units : list pstate) : bool :=
  (length units =? length (pops N))%nat &&
  forallb (fun pP => (length (sx (fst pP)) =? psize (snd pP))%nat && (length (sz (fst pP)) =? psize (snd pP))%nat)
          (combine units (pops N)).

(* the classes on which the population circuit is NOT the explicit network (each one is refuted in C16.v) *)
Definition g_distinct_sources (N : popnet) : bool := fixed_F1 || negb (dup_sources (conns N)).
Definition g_coupling_shape (N : popnet) : bool := negb (existsb cpl_bad_shape (conns N)).
Definition g_post_name (N : popnet) : bool := fixed_F2 || negb (existsb (collides N) (conns N)).
Definition g_scalar_plain (N : popnet) : bool :=
  fixed_F3 || forallb (fun c => match cw c, ccpl c with WScal _, CPlain => true | WScal _, _ => false | _, _ => true end) (conns N).
(* tie domain of the explicit reference: no MATRIX entry (and no scalar weight that comes with a coupling template: it is expanded to a matrix) within the tolerance of 1, other than 1 itself.  The explicit
   scalar edges elide such an entry, matvec does not: the two circuits then differ by at most weight_tol * |source| — the
   declared tolerance of the code, not a finding; the generator produces no such entry. *)
Definition g_not_near_one (N : popnet) : bool :=
  forallb (fun c => match cw c with
                    | WMat W => forallb (forallb (fun w => negb (near_one w) || Qceqb w 1)) W
                    | WScal w => is_plain (ccpl c) || negb (near_one w) || Qceqb w 1
                    end) (conns N).
(* min_weight: every entry is either exactly 0 or above the threshold of the explicit network *)
Definition entry_ok (mw w : Qc) : bool := Qceqb w 0 || keep mw w.
Definition g_threshold (mw : Qc) (N : popnet) : bool :=
  forallb (fun c => match cw c with WMat W => forallb (forallb (entry_ok mw)) W | WScal w => entry_ok mw w end) (conns N).
(* at most one DELAYED connection leaves a source variable.  Outside this class the code attaches one ring buffer per
   delayed connection under the SAME name to the source operator (`_add_matrix_delay`: the roll / write / read
   equations are appended once per connection), so the buffer advances several times per step; that mechanism is NOT
   modelled: `pop_*` gives every connection its own delay.  The class is a finding that is witnessed on the real
   code only (corpus/C16). *)
Definition same_origin (c1 c2 : conn) : bool := (csrc c1 =? csrc c2)%nat && (csv c1 =? csv c2)%nat.
Fixpoint delay_shared (l : list conn) : bool :=
  match l with
  | [] => false
  | c :: l' => existsb (fun c2 => same_origin c c2 && has_delay c && has_delay c2) l' || delay_shared l'
  end.
Definition g_delay_single (N : popnet) : bool := fixed_F8 || negb (delay_shared (conns N)).
(* a delayed connection does not read a post-synaptic variable.  Connectivity delays the SOURCE only (Impl and Spec here);
   the explicit circuit with delayed scalar template edges delays the template OUTPUT, post-synaptic variable included:
   on this class the two circuits that the property compares differ (witnessed on the real code, corpus/C16). *)
Definition g_delay_post (N : popnet) : bool :=
  negb (existsb (fun c => has_delay c && is_mat (cw c) && uses_post (ccpl c)) (conns N)).
Definition g_no_alias (N : popnet) : bool := negb (alias N).
Definition g_delay_shape (N : popnet) : bool := negb (existsb delay_1x1 (conns N)).
Definition guards (mw : Qc) (N : popnet) : bool :=
  g_distinct_sources N && g_coupling_shape N && g_post_name N && g_scalar_plain N &&
  g_no_alias N && g_delay_shape N && g_threshold mw N.
(* ================================================================== the concrete unit of the correspondence run *)
(* operator uop: x' = eta - a*x + s_in + b*g_in;  operator zop: z' = c*x - a*z with its OWN parameter `a`
   (parameters in the order eta, uop/a, b, c, zop/a) *)
Definition unit_poly : unitfn := fun par x z s g =>
  (nth 0 par 0 - nth 1 par 0 * x + s + nth 2 par 0 * g, nth 3 par 0 * x - nth 4 par 0 * z).
Definition cpl_id : coupling := CAlg false (fun s _ => s).
Definition cpl_diff : coupling := CAlg true (fun s t => s - t).
Definition cpl_prod : coupling := CAlg true (fun s t => s * t + s).
Definition cpl_lp : coupling := CDyn false (fun s _ v => s - v).
Definition cpl_lpd : coupling := CDyn true (fun s t v => s - t - mkq 2 1 * v).
(* two templates with a constant of the same name `k` and different values (2 and 1/2): v' = k*u_s - v *)
Definition cpl_lpa : coupling := CDyn false (fun s _ v => mkq 2 1 * s - v).
Definition cpl_lpb : coupling := CDyn false (fun s _ v => mkq 1 2 * s - v).

(* comparison helpers *)
Definition vec_eqb (a b : vec) : bool :=
  (length a =? length b)%nat && forallb (fun p => Qceqb (fst p) (snd p)) (combine a b).
Definition pstate_eqb (a b : pstate) : bool := vec_eqb (sx a) (sx b) && vec_eqb (sz a) (sz b).
Fixpoint list_eqb {A} (eqb : A -> A -> bool) (a b : list A) : bool :=
  match a, b with
  | [], [] => true
  | x :: a', y :: b' => eqb x y && list_eqb eqb a' b'
  | _, _ => false
  end.
Definition traj_eqb (a b : list (list pstate)) : bool := list_eqb (list_eqb pstate_eqb) a b.
Definition otraj_eqb (a b : option (list (list pstate))) : bool :=
  match a, b with Some x, Some y => traj_eqb x y | None, None => true | _, _ => false end.
