(* Expr.v — right-hand sides of PyRates equations as far as C01 needs them: polynomial expressions over named
   variables with rational coefficients, their evaluation over Qc (partial: a variable may have no value), free
   variables, and the substitution that CircuitIR._collect_ops performs on the equation text
   (`replace(eq, var, "(a+a_v1)")`, ir/circuit.py:1505-1507).  Definitions only; lemmas are in EdgesProofs.v.
   The step "equation string -> sympy -> printed source" is not modelled here (it is C05's subject); the
   correspondence run of C01 exercises it on every case. *)
From Coq Require Import List String ZArith QArith Qcanon Bool.
Import ListNotations.
Open Scope string_scope.

Inductive expr :=
| ECst (c : Qc)
| EVar (x : string)
| EAdd (a b : expr)
| ESub (a b : expr)
| EMul (a b : expr)
| ENeg (a : expr)
| EPow (a : expr) (n : nat).

Definition obind {A B} (a : option A) (f : A -> option B) : option B :=
  match a with Some x => f x | None => None end.
Definition olift2 (f : Qc -> Qc -> Qc) (a b : option Qc) : option Qc :=
  match a, b with Some x, Some y => Some (f x y) | _, _ => None end.

Fixpoint qpow (x : Qc) (n : nat) : Qc :=
  match n with O => 1%Qc | S n' => (x * qpow x n')%Qc end.

Fixpoint eval (env : string -> option Qc) (e : expr) : option Qc :=
  match e with
  | ECst c => Some c
  | EVar x => env x
  | EAdd a b => olift2 Qcplus (eval env a) (eval env b)
  | ESub a b => olift2 Qcminus (eval env a) (eval env b)
  | EMul a b => olift2 Qcmult (eval env a) (eval env b)
  | ENeg a => option_map Qcopp (eval env a)
  | EPow a n => option_map (fun x => qpow x n) (eval env a)
  end.

Fixpoint fv (e : expr) : list string :=
  match e with
  | ECst _ => []
  | EVar x => [x]
  | EAdd a b | ESub a b | EMul a b => app (fv a) (fv b)
  | ENeg a | EPow a _ => fv a
  end.

(* whole-word replacement of the variable x by the term r *)
Fixpoint subst (x : string) (r : expr) (e : expr) : expr :=
  match e with
  | ECst c => ECst c
  | EVar y => if String.eqb y x then r else EVar y
  | EAdd a b => EAdd (subst x r a) (subst x r b)
  | ESub a b => ESub (subst x r a) (subst x r b)
  | EMul a b => EMul (subst x r a) (subst x r b)
  | ENeg a => ENeg (subst x r a)
  | EPow a n => EPow (subst x r a) n
  end.

(* the sum term "(l1+l2+...)" that _map_multiple_inputs builds *)
Fixpoint sum_term (ls : list string) : expr :=
  match ls with
  | [] => ECst 0%Qc
  | [l] => EVar l
  | l :: ls' => EAdd (EVar l) (sum_term ls')
  end.

(* polynomials as the correspondence harness writes them: sum of coefficient * product of variables *)
Definition mono := (Qc * list string)%type.
Definition poly := list mono.
Fixpoint mono_expr (c : Qc) (fs : list string) : expr :=
  match fs with [] => ECst c | f :: fs' => EMul (mono_expr c fs') (EVar f) end.
Fixpoint poly_expr (p : poly) : expr :=
  match p with [] => ECst 0%Qc | (c, fs) :: p' => EAdd (mono_expr c fs) (poly_expr p') end.

(* sums of optional values *)
Fixpoint osum (l : list (option Qc)) : option Qc :=
  match l with [] => Some 0%Qc | a :: l' => olift2 Qcplus a (osum l') end.
Definition oscale (w : Qc) (a : option Qc) : option Qc := option_map (fun x => (w * x)%Qc) a.
Fixpoint qsum (l : list Qc) : Qc :=
  match l with [] => 0%Qc | a :: l' => (a + qsum l')%Qc end.
