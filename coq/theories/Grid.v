(* Grid.v — executable model of pyrates/utility.py: linearize_grid, adapt_circuit, grid_search (C17).
   Definitions only; proofs are in GridProofs.v.

   Impl:
     linearize  : zip when all lengths agree and permute is off; with permute the rows of
                  np.stack(np.meshgrid( *vals ), -1).reshape(-1, m)   (meshgrid's default 'xy' indexing swaps the
                  first two axes: row-major over (v2, v1, v3, ..., vm));  else ValueError
     adapt      : a copy of the circuit with row r's values written to the targets of each key
     assemble   : one sub-circuit per row, the network = the blocks + the tagged union of their edges
                  (grid_search adds NO edge between sub-circuits)
     grid_impl  : Euler on the assembled network
   Spec:
     prod_rm    : the full Cartesian product;  grid_spec : each row simulated on its own.
   Linear circuits  x_i' = -k_i x_i + c_i + sum_{(s,i,w) in edges} w x_s + u_i(t)  over Qc (what the correspondence run uses). *)
From Coq Require Import List ZArith QArith Qcanon Bool Arith.
Import ListNotations.

(* ------------------------------------------------------------------------------------------ linearize_grid *)
Fixpoint prod_rm {V} (vs : list (list V)) : list (list V) :=
  match vs with
  | [] => [[]]
  | a :: rest => flat_map (fun x => map (cons x) (prod_rm rest)) a
  end.
Definition swap01 {V} (l : list V) : list V := match l with a :: b :: r => b :: a :: r | _ => l end.
Definition meshgrid_xy {V} (vs : list (list V)) : list (list V) := map swap01 (prod_rm (swap01 vs)).

Definition same_len {V} (vs : list (list V)) : bool :=
  match vs with [] => false | a :: rest => forallb (fun b => Nat.eqb (length b) (length a)) rest end.
Definition zip_rows {V} (d : V) (vs : list (list V)) : list (list V) :=
  map (fun r => map (fun v => nth r v d) vs) (seq 0 (length (hd [] vs))).

(* None = ValueError *)
Definition linearize {V} (d : V) (vs : list (list V)) (permute : bool) : option (list (list V)) :=
  if same_len vs && negb permute then Some (zip_rows d vs)
  else if permute then Some (meshgrid_xy vs) else None.

(* ------------------------------------------------------------------------------------------ circuits *)
Open Scope Qc_scope.
(* uin: extrinsic input series per node (grid_search(inputs=...) broadcasts the same series to every copy; the value
   used in Euler step j is series[j], added to the node's input sum; [] = no input) *)
Record circ := { ks : list Qc; cs : list Qc; x0 : list Qc; edges : list (nat * nat * Qc); uin : list (list Qc) }.

Definition insum (es : list (nat * nat * Qc)) (x : list Qc) (i : nat) : Qc :=
  fold_right (fun e acc => let '(s, t, w) := e in if Nat.eqb t i then w * nth s x 0 + acc else acc) 0 es.
Definition deriv (C : circ) (j : nat) (x : list Qc) (i : nat) : Qc :=
  - nth i (ks C) 0 * nth i x 0 + nth i (cs C) 0 + insum (edges C) x i + nth j (nth i (uin C) []) 0.
Definition euler_step (dt : Qc) (C : circ) (j : nat) (x : list Qc) : list Qc :=
  map (fun i => nth i x 0 + dt * deriv C j x i) (seq 0 (length x)).
(* n states starting with x at step number j *)
Fixpoint traj (dt : Qc) (C : circ) (x : list Qc) (j n : nat) : list (list Qc) :=
  match n with O => [] | S n' => x :: traj dt C (euler_step dt C j x) (S j) n' end.

(* adapt_circuit: targets of one grid key *)
Inductive target := TK (i : nat) | TC (i : nat) | TW (j : nat).
Definition set_nth {A} (l : list A) (i : nat) (a : A) : list A :=
  if Nat.ltb i (length l) then firstn i l ++ a :: skipn (S i) l else l.
Definition write (C : circ) (tv : target * Qc) : circ :=
  match fst tv with
  | TK i => {| ks := set_nth (ks C) i (snd tv); cs := cs C; x0 := x0 C; edges := edges C; uin := uin C |}
  | TC i => {| ks := ks C; cs := set_nth (cs C) i (snd tv); x0 := x0 C; edges := edges C; uin := uin C |}
  | TW j => {| ks := ks C; cs := cs C; x0 := x0 C;
               edges := match nth_error (edges C) j with
                        | Some (s, t, _) => set_nth (edges C) j (s, t, snd tv)
                        | None => edges C
                        end; uin := uin C |}
  end.
Definition adapt (C : circ) (pmap : list (list target)) (row : list Qc) : circ :=
  fold_left write (flat_map (fun kv => map (fun tg => (tg, snd kv)) (fst kv)) (combine pmap row)) C.

(* What adapt_circuit does with an edge target given as (source, target, idx): it looks the edge up WITH idx but hands only
   (source, target, {var: val}) to CircuitTemplate.update_var, which calls get_edge(source, target) = parallel edge 0.
   TW j is the j-th declared edge; first_same es j is the first declared edge with the same source and target.
   fx = true: idx is passed through (repair D155, landed). *)
Definition st (e : nat * nat * Qc) : nat * nat := (fst (fst e), snd (fst e)).
Fixpoint index_st (p : nat * nat) (l : list (nat * nat)) : nat :=
  match l with
  | [] => O
  | q :: l' => if Nat.eqb (fst p) (fst q) && Nat.eqb (snd p) (snd q) then O else S (index_st p l')
  end.
Definition first_same (es : list (nat * nat * Qc)) (j : nat) : nat :=
  match nth_error (map st es) j with Some p => index_st p (map st es) | None => j end.
Definition write_gen (fx : bool) (C : circ) (tv : target * Qc) : circ :=
  match fst tv with
  | TW j => write C (TW (if fx then j else first_same (edges C) j), snd tv)
  | _ => write C tv
  end.
Definition adapt_gen (fx : bool) (C : circ) (pmap : list (list target)) (row : list Qc) : circ :=
  fold_left (write_gen fx) (flat_map (fun kv => map (fun tg => (tg, snd kv)) (fst kv)) (combine pmap row)) C.
(* guard: every swept edge is parallel edge 0 of its (source, target) pair *)
Definition idx_guard (C : circ) (pmap : list (list target)) : bool :=
  forallb (fun tg => match tg with TW j => Nat.eqb (first_same (edges C) j) j | _ => true end) (concat pmap).

(* ------------------------------------------------------------------------------------------ the assembled network *)
Definition gedge := ((nat * nat) * (nat * nat) * Qc)%type.     (* (block, node) -> (block, node), weight *)
Record net := { comps : list circ; gedges : list gedge }.

Definition tag (b : nat) (e : nat * nat * Qc) : gedge := let '(s, t, w) := e in ((b, s), (b, t), w).
Fixpoint tagged_from (off : nat) (Cs : list circ) : list gedge :=
  match Cs with [] => [] | C :: r => map (tag off) (edges C) ++ tagged_from (S off) r end.
Definition assemble (Cs : list circ) : net := {| comps := Cs; gedges := tagged_from 0 Cs |}.

Definition ginsum (es : list gedge) (X : list (list Qc)) (b i : nat) : Qc :=
  fold_right (fun (e : gedge) acc => let '((sb, si), (tb, ti), w) := e in
                if Nat.eqb tb b && Nat.eqb ti i then w * nth si (nth sb X []) 0 + acc else acc) 0 es.
Definition nderiv (N : net) (j : nat) (X : list (list Qc)) (b i : nat) : Qc :=
  let C := nth b (comps N) {| ks := []; cs := []; x0 := []; edges := []; uin := [] |} in
  - nth i (ks C) 0 * nth i (nth b X []) 0 + nth i (cs C) 0 + ginsum (gedges N) X b i + nth j (nth i (uin C) []) 0.
Definition neuler_step (dt : Qc) (N : net) (j : nat) (X : list (list Qc)) : list (list Qc) :=
  map (fun b => map (fun i => nth i (nth b X []) 0 + dt * nderiv N j X b i) (seq 0 (length (nth b X [])))) (seq 0 (length X)).
Fixpoint ntraj (dt : Qc) (N : net) (X : list (list Qc)) (j n : nat) : list (list (list Qc)) :=
  match n with O => [] | S n' => X :: ntraj dt N (neuler_step dt N j X) (S j) n' end.

(* grid_search: the returned table and, per time point, per row, the state of that row's sub-circuit *)
Definition grid_impl_gen (fx : bool) (C : circ) (pmap : list (list target)) (vals : list (list Qc)) (permute : bool) (dt : Qc) (n : nat)
  : option (list (list Qc) * list (list (list Qc))) :=
  match linearize 0 vals permute with
  | None => None
  | Some rows => let Cs := map (adapt_gen fx C pmap) rows in Some (rows, ntraj dt (assemble Cs) (map x0 Cs) 0 n)
  end.
Definition fix_idx : bool := true.        (* the code as it is: repair D155 landed (idx is passed through update_var); false = before *)
Definition grid_impl := grid_impl_gen fix_idx.
(* Spec: every row on its own *)
Definition grid_spec (C : circ) (pmap : list (list target)) (rows : list (list Qc)) (dt : Qc) (n : nat)
  : list (list (list Qc)) :=
  map (fun row => let C' := adapt C pmap row in traj dt C' (x0 C') 0 n) rows.
