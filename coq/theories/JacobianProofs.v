From Coq Require Import List ZArith QArith Qcanon Bool Arith.
From PV Require Import Jacobian.
Import ListNotations.
Lemma placeholder_true : True. Proof. exact I. Qed.
