(* JacobianProofs.v — proofs about the model in Jacobian.v.  Algebra only: K is any commutative ring. *)
From Coq Require Import List ZArith QArith Qcanon Bool Arith Lia Ring.
From PV Require Import Jacobian.
Import ListNotations.
Local Open Scope nat_scope.

(* ---------------------------------------------------------------------------------------------- generic facts (any ops) *)
Lemma atom_eqb_eq a b : atom_eqb a b = true <-> a = b.
Proof.
  destruct a, b; cbn; split; intro H; try discriminate; try congruence.
  - apply Nat.eqb_eq in H. congruence.
  - inversion H. apply Nat.eqb_refl.
  - apply andb_true_iff in H as [H1 H2]. apply Nat.eqb_eq in H1, H2. congruence.
  - inversion H. now rewrite !Nat.eqb_refl.
Qed.
Lemma atom_eqb_refl a : atom_eqb a a = true.
Proof. now apply atom_eqb_eq. Qed.

Lemma pair_eqb_eq p q : pair_eqb p q = true <-> p = q.
Proof.
  destruct p, q; unfold pair_eqb; cbn; split; intro H.
  - apply andb_true_iff in H as [H1 H2]. apply Nat.eqb_eq in H1, H2. congruence.
  - inversion H. now rewrite !Nat.eqb_refl.
Qed.

Section Generic.
  Context {K T : Type} (OT : ops T) (inj : K -> T).

  Lemma subst_eval r (e : expr K) m a :
    eval OT inj r (subst e m a) = eval OT inj (upd r (AV m) (eval OT inj r a)) e.
  Proof.
    induction e; cbn [subst eval]; try congruence.
    destruct a0 as [v|v d]; cbn [subst eval]; unfold upd; cbn [atom_eqb].
    - destruct (v =? m); reflexivity.
    - reflexivity.
  Qed.

  (* differentiating/evaluating the expanded right-hand side = evaluating with the intermediates computed one after the other *)
  Lemma expand_eval l : forall r (e : expr K), eval OT inj r (expand l e) = eval OT inj (run_algs OT inj l r) e.
  Proof.
    induction l as [|[m a] l IH]; intros r e; cbn [expand run_algs]; [reflexivity|].
    rewrite subst_eval. apply IH.
  Qed.
End Generic.

Lemma expand_cst {K} l (c : K) : expand l (Cst c) = Cst c.
Proof. induction l as [|[m a] l IH]; cbn; [reflexivity|]. now rewrite IH. Qed.

Lemma D_eq {K} (O : ops K) e x :
  D O e x = if occurs x e then
    match e with
    | Cst _ => Cst (o0 O)
    | At _ => Cst (o1 O)
    | Add a b => Add (D O a x) (D O b x)
    | Sub a b => Sub (D O a x) (D O b x)
    | Mul a b => if occurs x a then (if occurs x b then Add (Mul (D O a x) b) (Mul a (D O b x)) else Mul (D O a x) b)
                 else Mul a (D O b x)
    | Neg a => Neg (D O a x)
    | PowN a k => match k with 0 => Cst (o0 O) | S k' => Mul (Mul (Cst (ofnat O k)) (PowN a k')) (D O a x) end
    | Fn f a => Mul (dfn O f a) (D O a x)
    | Fn2 g a b => if occurs x a then (if occurs x b then Add (Mul (dfn2 O g true a b) (D O a x)) (Mul (dfn2 O g false a b) (D O b x))
                                      else Mul (dfn2 O g true a b) (D O a x))
                   else Mul (dfn2 O g false a b) (D O b x)
    end else Cst (o0 O).
Proof. destruct e; reflexivity. Qed.

(* ---------------------------------------------------------------------------------------------- D is the derivative *)
Section Algebra.
  Variable K : Type.
  Variable O : ops K.
  Hypothesis Rth : ring_theory (o0 O) (o1 O) (oadd O) (omul O) (osub O) (oopp O) eq.
  Add Ring Kring : Rth.

  Notation ev := (eval O (fun c : K => c)).
  Notation evD := (eval (dual_ops O) (dinj O)).

  Lemma kpow_dual p k :
    kpow (dual_ops O) p k =
    (kpow O (fst p) k,
     match k with 0 => o0 O | S k' => omul O (omul O (ofnat O k) (kpow O (fst p) k')) (snd p) end).
  Proof.
    induction k as [|k IH]; [reflexivity|].
    cbn [kpow]. rewrite IH. cbn [dual_ops omul fst snd]. f_equal.
    destruct k as [|k']; cbn [kpow ofnat]; ring.
  Qed.

  Lemma dfn_eval r f a : ev r (dfn O f a) = dfnI O f (ev r a).
  Proof. destruct f; reflexivity. Qed.

  Lemma dfn2_eval r g first a b : ev r (dfn2 O g first a b) = dfn2I O g first (ev r a) (ev r b).
  Proof. destruct g, first; reflexivity. Qed.

  Lemma not_occurs_dual r x e : occurs x e = false -> evD (seed O r x) e = (ev r e, o0 O).
  Proof.
    induction e; cbn [occurs eval]; intro H.
    - reflexivity.
    - unfold seed. now rewrite H.
    - apply orb_false_iff in H as [H1 H2]. rewrite IHe1, IHe2 by assumption. cbn. f_equal. ring.
    - apply orb_false_iff in H as [H1 H2]. rewrite IHe1, IHe2 by assumption. cbn. f_equal. ring.
    - apply orb_false_iff in H as [H1 H2]. rewrite IHe1, IHe2 by assumption. cbn. f_equal. ring.
    - rewrite IHe by assumption. cbn. f_equal. ring.
    - rewrite IHe by assumption. rewrite kpow_dual. cbn [fst snd]. f_equal. destruct k; ring.
    - rewrite IHe by assumption. cbn. f_equal. ring.
    - apply orb_false_iff in H as [H1 H2]. rewrite IHe1, IHe2 by assumption. cbn. f_equal. ring.
  Qed.

  (* Evaluating e over the dual numbers K[eps]/(eps^2) at the point r with tangent direction x gives the value of e and the
     value of the symbolic derivative D e x: D is the (formal) derivative.  For polynomial e no function rule is involved. *)
  Theorem D_dual r x e : evD (seed O r x) e = (ev r e, ev r (D O e x)).
  Proof.
    induction e; rewrite D_eq; destruct (occurs x _) eqn:Hocc;
      try (rewrite not_occurs_dual by assumption; reflexivity).
    - discriminate.
    - cbn [occurs] in Hocc. cbn [eval]. unfold seed. now rewrite Hocc.
    - cbn [eval]. rewrite IHe1, IHe2. reflexivity.
    - cbn [eval]. rewrite IHe1, IHe2. reflexivity.
    - cbn [occurs] in Hocc. cbn [eval]. destruct (occurs x e1) eqn:H1; [destruct (occurs x e2) eqn:H2|].
      + rewrite IHe1, IHe2. reflexivity.
      + rewrite IHe1, (not_occurs_dual _ _ _ H2). cbn. f_equal. ring.
      + cbn in Hocc. rewrite IHe2, (not_occurs_dual _ _ _ H1). cbn. f_equal. ring.
    - cbn [eval]. rewrite IHe. reflexivity.
    - cbn [eval]. rewrite IHe, kpow_dual. cbn [fst snd]. destruct k; reflexivity.
    - cbn [eval]. rewrite IHe. cbn [dual_ops ofn fst snd]. now rewrite dfn_eval.
    - cbn [occurs] in Hocc. cbn [eval]. destruct (occurs x e1) eqn:H1; [destruct (occurs x e2) eqn:H2|].
      + rewrite IHe1, IHe2. cbn [dual_ops ofn2 fst snd eval]. now rewrite !dfn2_eval.
      + rewrite IHe1, (not_occurs_dual _ _ _ H2). cbn [dual_ops ofn2 fst snd eval]. rewrite dfn2_eval. f_equal. ring.
      + cbn in Hocc. rewrite IHe2, (not_occurs_dual _ _ _ H1). cbn [dual_ops ofn2 fst snd eval]. rewrite dfn2_eval. f_equal. ring.
  Qed.

  Corollary D_value r x e : ev r (D O e x) = snd (evD (seed O r x) e).
  Proof. now rewrite D_dual. Qed.

  (* chain rule for algebraic intermediates: differentiating AFTER substituting the intermediates (what PyRates does) equals
     propagating value and tangent through the intermediates one after the other (what the derivative of the run function is) *)
  Theorem D_expand_chain l r x e :
    ev r (D O (expand l e) x) = snd (evD (run_algs (dual_ops O) (dinj O) l (seed O r x)) e).
  Proof. now rewrite D_value, expand_eval. Qed.

  (* one intermediate, written out: value part and tangent part of the substituted variable *)
  Corollary D_subst_chain r x e m a :
    ev r (D O (subst e m a) x) = snd (evD (upd (seed O r x) (AV m) (ev r a, ev r (D O a x))) e).
  Proof. rewrite D_value, subst_eval. now rewrite D_dual. Qed.

  (* ------------------------------------------------------------------------------------------ lists, lookup *)
  Lemma combine_seq_In {A} (l : list A) : forall s i x,
    In (i, x) (combine (seq s (length l)) l) <-> (s <= i /\ nth_error l (i - s) = Some x).
  Proof.
    induction l as [|y l IH]; intros s i x; cbn [length seq combine In].
    - split; [tauto|]. intros [_ H]. destruct (i - s); discriminate.
    - rewrite IH. split.
      + intros [H|[H1 H2]].
        * inversion H; subst. split; [lia|]. now rewrite Nat.sub_diag.
        * split; [lia|]. replace (i - s) with (S (i - S s)) by lia. exact H2.
      + intros [H1 H2]. destruct (Nat.eq_dec i s) as [->|Hne].
        * left. rewrite Nat.sub_diag in H2. cbn in H2. congruence.
        * right. split; [lia|]. replace (i - s) with (S (i - S s)) in H2 by lia. exact H2.
  Qed.
  Lemma enumerate_In {A} (l : list A) i x : In (i, x) (enumerate l) <-> nth_error l i = Some x.
  Proof. unfold enumerate. rewrite combine_seq_In, Nat.sub_0_r. split; [tauto|]. intro; split; [lia|assumption]. Qed.

  Lemma lookup_Some_In k (l : entries K) e : lookup k l = Some e -> In (k, e) l.
  Proof.
    induction l as [|[k' e'] l IH]; cbn [lookup]; [discriminate|].
    destruct (lookup k l) eqn:E.
    - intro H; inversion H; subst. right. now apply IH.
    - destruct (pair_eqb k k') eqn:Ek; [|discriminate]. intro H; inversion H; subst.
      apply pair_eqb_eq in Ek. subst. now left.
  Qed.
  Lemma lookup_In_some k (l : entries K) e : In (k, e) l -> exists x, lookup k l = Some x.
  Proof.
    induction l as [|[k' e'] l IH]; cbn [lookup In]; [tauto|]. intros [H|H].
    - inversion H; subst. destruct (lookup k l); [eauto|]. rewrite (proj2 (pair_eqb_eq k k) eq_refl). eauto.
    - destruct (IH H) as [x ->]. eauto.
  Qed.
  Lemma lookup_unique k (l : entries K) e :
    In (k, e) l -> (forall e', In (k, e') l -> e' = e) -> lookup k l = Some e.
  Proof.
    intros Hin Hu. destruct (lookup_In_some _ _ _ Hin) as [x Hx]. rewrite Hx. f_equal.
    apply Hu. now apply lookup_Some_In.
  Qed.
  Lemma lookup_none k (l : entries K) : (forall e, ~ In (k, e) l) -> lookup k l = None.
  Proof.
    intro H. destruct (lookup k l) eqn:E; [|reflexivity]. apply lookup_Some_In in E. now apply H in E.
  Qed.

  Lemma pos_nth v l : forall j, pos v l = Some j -> nth_error l j = Some v.
  Proof.
    induction l as [|y l IH]; cbn [pos]; intros j; [discriminate|].
    destruct (y =? v) eqn:E.
    - intro H; inversion H; subst. apply Nat.eqb_eq in E. now subst.
    - destruct (pos v l) as [j'|]; cbn; [|discriminate]. intro H; inversion H; subst. cbn. now apply IH.
  Qed.
  Lemma memb_In x l : memb Nat.eqb x l = true <-> In x l.
  Proof.
    induction l as [|y l IH]; cbn; [split; [discriminate|tauto]|].
    rewrite orb_true_iff, IH, Nat.eqb_eq. split; intros [H|H]; auto.
  Qed.
  Lemma nodup_pos l : nodupb l = true -> forall j v, nth_error l j = Some v -> pos v l = Some j.
  Proof.
    induction l as [|y l IH]; cbn [nodupb pos]; intros Hn j v Hj; [destruct j; discriminate|].
    apply andb_true_iff in Hn as [Hy Hn]. destruct j as [|j]; cbn in Hj.
    - inversion Hj; subst. now rewrite Nat.eqb_refl.
    - destruct (y =? v) eqn:E.
      + apply Nat.eqb_eq in E; subst. apply nth_error_In in Hj. apply memb_In in Hj. rewrite Hj in Hy. discriminate.
      + now rewrite (IH Hn j v Hj).
  Qed.

  Lemma dedup_In {A} (eqb : A -> A -> bool) (Heq : forall a b, eqb a b = true <-> a = b) l x :
    In x (dedup eqb l) <-> In x l.
  Proof.
    induction l as [|y l IH]; cbn [dedup In]; [tauto|].
    rewrite filter_In, IH. split.
    - intros [H|[H _]]; auto.
    - intros [H|H]; auto. destruct (eqb x y) eqn:E.
      + left. symmetry. now apply Heq.
      + right. split; [assumption|]. reflexivity.
  Qed.

  Lemma occurs_past_atoms v d (e : expr K) : occurs (AP v d) e = true <-> In (v, d) (past_atoms e).
  Proof.
    induction e; cbn [occurs past_atoms]; try rewrite orb_true_iff, in_app_iff; try tauto.
    - split; [discriminate|intros []].
    - destruct a as [w|w d']; cbn [atom_eqb In].
      + split; [discriminate|intros []].
      + rewrite andb_true_iff, !Nat.eqb_eq. split; [intros [-> ->]; now left|].
        intros [H|[]]. inversion H; auto.
  Qed.

  (* ------------------------------------------------------------------------------------------ placement *)
  Lemma j0_entries_In skip st (fs : list (expr K)) i j e :
    In ((i, j), e) (j0_entries O skip st fs) <->
    exists f y, nth_error fs i = Some f /\ nth_error st j = Some y /\
                occurs (AV y) f && negb (skip (AV y) f) = true /\ e = D O f (AV y).
  Proof.
    unfold j0_entries. rewrite in_flat_map. split.
    - intros [[i' f] [Hf H]]. apply in_flat_map in H as [[j' y] [Hy H]].
      destruct (occurs (AV y) f && negb (skip (AV y) f)) eqn:C; [|destruct H].
      destruct H as [H|[]]. inversion H; subst. apply enumerate_In in Hf, Hy. exists f, y. auto.
    - intros [f [y [Hf [Hy [C ->]]]]]. exists (i, f). split; [now apply enumerate_In|].
      apply in_flat_map. exists (j, y). split; [now apply enumerate_In|]. rewrite C. now left.
  Qed.

  Definition resolved (skip : atom -> expr K -> bool) (fs : list (expr K)) := forall f x, In f fs -> skip x f = false.

  (* entry (i, j) of a matrix assembled from the dictionary of derivatives with respect to the variables `cs` (state variables:
     J0 / DFDU; parameters: DFDP) is D f_i c_j, for any number of rows and columns *)
  Theorem matr_j0 skip cs (fs : list (expr K)) : resolved skip fs ->
    matr O (length fs) (length cs) (j0_entries O skip cs fs) =
    map (fun i => map (fun j => D O (nth i fs (Cst (o0 O))) (AV (nth j cs 0))) (seq 0 (length cs))) (seq 0 (length fs)).
  Proof.
    intros Hres. unfold matr. apply map_ext_in. intros i Hi. apply map_ext_in. intros j Hj.
    apply in_seq in Hi, Hj. set (f := nth i fs (Cst (o0 O))). set (y := nth j cs 0).
    assert (Hf : nth_error fs i = Some f) by (apply nth_error_nth'; lia).
    assert (Hy : nth_error cs j = Some y) by (apply nth_error_nth'; lia).
    assert (Hr : skip (AV y) f = false) by (apply Hres; eapply nth_error_In; eassumption).
    destruct (occurs (AV y) f) eqn:Hocc.
    - rewrite (lookup_unique (i, j) _ (D O f (AV y))); [reflexivity| |].
      + apply j0_entries_In. exists f, y. rewrite Hocc, Hr. auto.
      + intros e' H. apply j0_entries_In in H as [f' [y' [Hf' [Hy' [_ ->]]]]]. congruence.
    - rewrite lookup_none.
      + rewrite (D_eq O f), Hocc. reflexivity.
      + intros e H. apply j0_entries_In in H as [f' [y' [Hf' [Hy' [C _]]]]].
        assert (f' = f) by congruence. assert (y' = y) by congruence. subst. rewrite Hocc in C. discriminate.
  Qed.
  Theorem mat_j0 skip st (fs : list (expr K)) : resolved skip fs -> length fs = length st ->
    mat O (length st) (j0_entries O skip st fs) =
    map (fun i => map (fun j => D O (nth i fs (Cst (o0 O))) (AV (nth j st 0))) (seq 0 (length st))) (seq 0 (length st)).
  Proof. intros Hres Hlen. unfold mat. pose proof (matr_j0 skip st fs Hres) as H. rewrite Hlen in H. exact H. Qed.

  Lemma hist_entries_In skip st (fs : list (expr K)) d i j e :
    In ((i, j), e) (hist_entries O true skip st fs d) <->
    exists f v, nth_error fs i = Some f /\ In (v, d) (past_map fs) /\ pos v st = Some j /\
                occurs (AP v d) f && negb (skip (AP v d) f) = true /\ e = D O f (AP v d).
  Proof.
    unfold hist_entries. rewrite in_flat_map. split.
    - intros [[i' f] [Hf H]]. apply in_flat_map in H as [[c [v d']] [Hc H]].
      apply enumerate_In in Hc. apply nth_error_In in Hc. apply filter_In in Hc as [Hg _].
      unfold group in Hg. apply filter_In in Hg as [Hpm Hd]. cbn in Hd. apply Nat.eqb_eq in Hd. subst d'.
      destruct (pos v st) as [vidx|] eqn:Hp; [|destruct H].
      destruct (occurs (AP v d) f && negb (skip (AP v d) f)) eqn:C; [|destruct H].
      destruct H as [H|[]]. inversion H; subst. apply enumerate_In in Hf. exists f, v. auto.
    - intros [f [v [Hf [Hpm [Hp [C ->]]]]]]. exists (i, f). split; [now apply enumerate_In|].
      assert (Hin : In (v, d) (filter (fun p => match pos (fst p) st with Some _ => true | None => false end) (group fs d))).
      { apply filter_In. split; [|cbn; now rewrite Hp]. unfold group. apply filter_In. split; [assumption|]. cbn. apply Nat.eqb_refl. }
      apply In_nth_error in Hin as [c Hc]. apply in_flat_map. exists (c, (v, d)). split; [now apply enumerate_In|].
      rewrite Hp, C. now left.
  Qed.

  (* entry (i, j) of the history matrix of delay d is D f_i (y_j delayed by d): the column is the state index of the delayed
     variable, whatever its position inside the delay group *)
  Theorem mat_hist skip st (fs : list (expr K)) d : resolved skip fs -> length fs = length st -> nodupb st = true ->
    mat O (length st) (hist_entries O true skip st fs d) =
    map (fun i => map (fun j => D O (nth i fs (Cst (o0 O))) (AP (nth j st 0) d)) (seq 0 (length st))) (seq 0 (length st)).
  Proof.
    intros Hres Hlen Hnd. unfold mat, matr. apply map_ext_in. intros i Hi. apply map_ext_in. intros j Hj.
    apply in_seq in Hi, Hj. set (f := nth i fs (Cst (o0 O))). set (y := nth j st 0).
    assert (Hf : nth_error fs i = Some f) by (apply nth_error_nth'; lia).
    assert (Hy : nth_error st j = Some y) by (apply nth_error_nth'; lia).
    assert (Hr : skip (AP y d) f = false) by (apply Hres; eapply nth_error_In; eassumption).
    destruct (occurs (AP y d) f) eqn:Hocc.
    - rewrite (lookup_unique (i, j) _ (D O f (AP y d))); [reflexivity| |].
      + apply hist_entries_In. exists f, y. rewrite Hocc, Hr. repeat split; auto.
        * unfold past_map. apply dedup_In; [apply pair_eqb_eq|]. apply in_flat_map. exists f. split.
          -- eapply nth_error_In; eassumption.
          -- now apply occurs_past_atoms.
        * now apply nodup_pos.
      + intros e' H. apply hist_entries_In in H as [f' [v [Hf' [_ [Hp [_ ->]]]]]].
        apply pos_nth in Hp. assert (v = y) by congruence. assert (f' = f) by congruence. now subst.
    - rewrite lookup_none.
      + rewrite (D_eq O f), Hocc. reflexivity.
      + intros e H. apply hist_entries_In in H as [f' [v [Hf' [_ [Hp [C _]]]]]].
        apply pos_nth in Hp. assert (v = y) by congruence. assert (f' = f) by congruence. subst.
        rewrite Hocc in C. discriminate.
  Qed.

  (* ------------------------------------------------------------------------------------------ Impl = Spec *)
  Lemma partial_nth (s : sys K) r x i :
    nth i (partials O s r x) (o0 O) = ev r (D O (nth i (fexprs s) (Cst (o0 O))) x).
  Proof.
    unfold partials, vf, fexprs. rewrite map_map.
    set (g := fun e : expr K => snd (evD (run_algs (dual_ops O) (dinj O) (algs s) (seed O r x)) e)).
    change (o0 O) with (g (Cst (o0 O))) at 1. rewrite map_nth.
    rewrite <- (expand_cst (algs s) (o0 O)) at 2. rewrite map_nth. unfold g. now rewrite D_expand_chain.
  Qed.

  Lemma eval_mat_spec (s : sys K) r (mk : nat -> atom) :
    eval_mat O r (map (fun i => map (fun j => D O (nth i (fexprs s) (Cst (o0 O))) (mk (nth j (states s) 0)))
                                    (seq 0 (length (states s)))) (seq 0 (length (states s))))
    = spec_mat O s r mk.
  Proof.
    unfold eval_mat, spec_mat. rewrite map_map. apply map_ext. intro i. rewrite map_map. apply map_ext. intro j.
    now rewrite partial_nth.
  Qed.

  Lemma wf_parts (s : sys K) : wf s = true ->
    nodupb (states s) = true /\ length (fexprs s) = length (states s) /\ past_vars_are_states s = true.
  Proof.
    unfold wf. intro H. apply andb_true_iff in H as [H H3]. apply andb_true_iff in H as [H1 H2].
    apply Nat.eqb_eq in H2. unfold fexprs. rewrite map_length. auto.
  Qed.

  (* The matrices that get_jacobian_func builds (expansion of intermediates, symbolic derivative, placement through the entry
     dictionaries) are the partial derivatives of the vector field that get_run_func evaluates, with respect to the state vector
     now (J0) and delayed by each distinct delay, in the state ordering -- whenever the function does not stop with the NameError
     of defect D08b: J0 printed with the table of past symbols (pastJ0 = true), or no delayed factor in an instantaneous entry. *)
  Theorem jac_refines_gen pastJ0 (s : sys K) r :
    wf s = true -> pastJ0 = true \/ no_delayed_factor_in_j0 O s = true ->
    jac_impl_gen O true noskip pastJ0 s r = jac_spec O s r.
  Proof.
    intros Hwf Hg. destruct (wf_parts s Hwf) as [Hnd [Hlen _]].
    assert (Hres : resolved noskip (fexprs s)) by (intros f x Hin; reflexivity).
    unfold jac_impl_gen, jac_sym, jac_spec.
    assert (Hne : negb pastJ0 && name_error O noskip s = false).
    { destruct Hg as [->|Hg]; [reflexivity|]. unfold no_delayed_factor_in_j0 in Hg. apply negb_true_iff in Hg. rewrite Hg. apply andb_false_r. }
    rewrite Hne.
    rewrite mat_j0 by assumption. rewrite (eval_mat_spec s r AV). f_equal.
    rewrite map_map. apply map_ext. intro d. cbn [fst snd].
    rewrite mat_hist by assumption. now rewrite (eval_mat_spec s r (fun v => AP v d)).
  Qed.
  Theorem jac_refines (s : sys K) r :
    wf s = true -> no_delayed_factor_in_j0 O s = true -> jac_impl O s r = jac_spec O s r.
  Proof. intros Hwf Hg. apply jac_refines_gen; auto. Qed.
  (* with the repair of D08b in place (switch = true) the property holds without any guard *)
  Theorem jac_refines_full : fixed_D08b = true -> forall (s : sys K) r, wf s = true -> jac_impl O s r = jac_spec O s r.
  Proof. intros Hsw s r Hwf. apply jac_refines_gen; auto. Qed.

  (* ---- parameter Jacobian (auto-07p DFDU / DFDP) *)
  Theorem dfdp_placement params (s : sys K) :
    dfdp_mat O params s =
    map (fun i => map (fun k => D O (nth i (fexprs s) (Cst (o0 O))) (AV (nth k params 0))) (seq 0 (length params)))
        (seq 0 (length (fexprs s))).
  Proof. unfold dfdp_mat. apply matr_j0. intros f x Hin; reflexivity. Qed.
  Theorem dfdp_refines cols (s : sys K) r : eval_mat O r (dfdp_mat O cols s) = spec_rect O s r cols.
  Proof.
    rewrite dfdp_placement. unfold eval_mat, spec_rect, fexprs. rewrite map_length, map_map.
    apply map_ext. intro i. rewrite map_map. apply map_ext. intro j. fold (fexprs s). now rewrite partial_nth.
  Qed.
  Theorem dfdu_refines (s : sys K) r : eval_mat O r (dfdu_mat O s) = spec_rect O s r (states s).
  Proof. exact (dfdp_refines (states s) s r). Qed.

  (* completeness of the list of history matrices: with respect to a delay that is not in the list every partial derivative is 0 *)
  Lemma delays_In fs d : In d (delays fs) <-> exists v, In (v, d) (@past_map K fs).
  Proof.
    unfold delays. rewrite dedup_In by apply Nat.eqb_eq. rewrite in_map_iff. split.
    - intros [[v d'] [<- H]]. eauto.
    - intros [v H]. exists (v, d). auto.
  Qed.
  Theorem spec_Jd_zero (s : sys K) r d : ~ In d (delays (fexprs s)) ->
    spec_Jd O s r d = map (fun _ => map (fun _ => o0 O) (seq 0 (length (states s)))) (seq 0 (length (states s))).
  Proof.
    intro Hn. unfold spec_Jd, spec_mat. apply map_ext. intro i. apply map_ext. intro j.
    rewrite partial_nth. rewrite D_eq.
    destruct (occurs _ _) eqn:Hocc; [|reflexivity]. exfalso. apply Hn. apply delays_In.
    exists (nth j (states s) 0). unfold past_map. apply dedup_In; [apply pair_eqb_eq|].
    apply in_flat_map. exists (nth i (fexprs s) (Cst (o0 O))). split; [|now apply occurs_past_atoms].
    destruct (Nat.lt_ge_cases i (length (fexprs s))) as [Hlt|Hge]; [now apply nth_In|].
    rewrite (nth_overflow _ _ Hge) in Hocc. discriminate.
  Qed.
End Algebra.

(* ---------------------------------------------------------------------------------------------- K := Qc *)
Lemma QcO_ring : ring_theory (o0 QcO) (o1 QcO) (oadd QcO) (omul QcO) (osub QcO) (oopp QcO) eq.
Proof. exact Qcrt. Qed.

(* the full statement of the property on the model, without the guard *)
Definition C12_full_statement : Prop :=
  forall (s : sys Qc) (r : atom -> Qc), wf s = true -> jac_impl QcO s r = jac_spec QcO s r.

Theorem jac_refines_Qc (s : sys Qc) r :
  wf s = true -> no_delayed_factor_in_j0 QcO s = true -> jac_impl QcO s r = jac_spec QcO s r.
Proof. exact (jac_refines Qc QcO QcO_ring s r). Qed.

(* ---------------------------------------------------------------------------------------------- witnesses *)
Definition V (i : nat) : expr Qc := At (AV i).
Definition cQ (a : Z) (b : positive) : expr Qc := Cst (mkq a b).
Definition entry (i j : nat) (x : Qc) (res : result (list (list Qc))) : bool :=
  match res with Ok j0 _ => Qeq_bool (this (nth j (nth i j0 []) (mkq 77 1))) (this x) | NameErr => false end.

(* D08b: x' = -x + z, z' = x * past(z, tau) - z  (variables 0 = x, 1 = z, 2 = tau).  d z'/d x = past(z, tau) is an instantaneous
   entry with a delayed factor: the generated function names the undefined `_past_z_tau` and raises NameError. *)
Definition w_delayed : sys Qc :=
  mksys [0; 1] [Add (Neg (V 0)) (V 1); Sub (Mul (V 0) (At (AP 1 2))) (V 1)] [].
Definition w_delayed_env : atom -> Qc :=
  env [0; 1] [(0, mkq 1 2); (1, mkq 1 4); (2, mkq 1 2)] [(2, [mkq 1 2; mkq 3 4])].
Lemma w_delayed_facts :
  wf w_delayed = true /\ no_delayed_factor_in_j0 QcO w_delayed = false /\
  jac_impl_D08b_open QcO w_delayed w_delayed_env = NameErr /\
  jac_spec QcO w_delayed w_delayed_env =
    Ok [[mkq (-1) 1; mkq 1 1]; [mkq 3 4; mkq (-1) 1]] [(2, [[mkq 0 1; mkq 0 1]; [mkq 0 1; mkq 1 2]])].
Proof. repeat split; vm_compute; reflexivity. Qed.

(* absv: x' = absv(x) + z, z' = -z.  d x'/d x = sign(x) = 1 at x = 1/2.  Before fix D51 the generated function left the entry 0;
   since D51 it is sign(y[0]) and the model of the current code agrees with the specification. *)
Definition w_absv : sys Qc := mksys [0; 1] [Add (Fn FAbs (V 0)) (V 1); Neg (V 1)] [].
Definition w_absv_env : atom -> Qc := env [0; 1] [(0, mkq 1 2); (1, mkq 1 4)] [].
Lemma w_absv_facts :
  wf w_absv = true /\ no_delayed_factor_in_j0 QcO w_absv = true /\
  jac_impl_preD51 QcO w_absv w_absv_env = Ok [[mkq 0 1; mkq 1 1]; [mkq 0 1; mkq (-1) 1]] [] /\
  jac_impl QcO w_absv w_absv_env = Ok [[mkq 1 1; mkq 1 1]; [mkq 0 1; mkq (-1) 1]] [] /\
  jac_spec QcO w_absv w_absv_env = Ok [[mkq 1 1; mkq 1 1]; [mkq 0 1; mkq (-1) 1]] [].
Proof. repeat split; vm_compute; reflexivity. Qed.
Theorem preD51_refuted : exists s r, wf s = true /\ no_delayed_factor_in_j0 QcO s = true /\
  jac_impl_preD51 QcO s r <> jac_spec QcO s r.
Proof.
  exists w_absv, w_absv_env. destruct w_absv_facts as [H1 [H2 [H3 [_ H5]]]]. repeat split; try assumption.
  rewrite H3, H5. intro H. apply (f_equal (entry 0 0 (mkq 1 1))) in H. vm_compute in H. discriminate.
Qed.

(* the full statement is false of the code that prints J0 without the table of past symbols (switch = false) *)
Theorem D08b_open_refuted : ~ (forall (s : sys Qc) (r : atom -> Qc), wf s = true -> jac_impl_D08b_open QcO s r = jac_spec QcO s r).
Proof.
  intro H. specialize (H w_delayed w_delayed_env (proj1 w_delayed_facts)).
  destruct w_delayed_facts as [_ [_ [HI HS]]]. rewrite HI, HS in H. discriminate.
Qed.
Theorem full_statement_iff_switch : fixed_D08b = true -> C12_full_statement.
Proof. intros Hsw s r Hwf. now apply (jac_refines_full Qc QcO QcO_ring Hsw). Qed.
(* the property without any guard (the repair D64 of defect D08b is in the code: switch fixed_D08b = true) *)
Theorem full_statement : C12_full_statement.
Proof. exact (full_statement_iff_switch eq_refl). Qed.
Theorem full_statement_refuted_while_open : fixed_D08b = false -> ~ C12_full_statement.
Proof. intros Hsw H. apply D08b_open_refuted. intros s r Hwf. specialize (H s r Hwf). unfold jac_impl in H. now rewrite Hsw in H. Qed.
(* the code before fix D08: x' = -x, z' = k * past(z, tau) (0 = x, 1 = z, 2 = k, 3 = tau): the entry d z'/d z(t - tau) = k was
   written to column 0 (position of z inside its delay group) instead of column 1 (position of z in the state vector) *)
Definition w_d08 : sys Qc := mksys [0; 1] [Neg (V 0); Mul (V 2) (At (AP 1 3))] [].
Definition w_d08_env : atom -> Qc := env [0; 1] [(0, mkq 1 2); (1, mkq 1 4); (2, mkq 3 2); (3, mkq 1 2)] [(3, [mkq 1 2; mkq 3 4])].
Lemma w_d08_facts :
  wf w_d08 = true /\ no_delayed_factor_in_j0 QcO w_d08 = true /\
  jac_impl_preD08 QcO w_d08 w_d08_env = Ok [[mkq (-1) 1; mkq 0 1]; [mkq 0 1; mkq 0 1]] [(3, [[mkq 0 1; mkq 0 1]; [mkq 3 2; mkq 0 1]])] /\
  jac_impl QcO w_d08 w_d08_env = Ok [[mkq (-1) 1; mkq 0 1]; [mkq 0 1; mkq 0 1]] [(3, [[mkq 0 1; mkq 0 1]; [mkq 0 1; mkq 3 2]])] /\
  jac_spec QcO w_d08 w_d08_env = jac_impl QcO w_d08 w_d08_env.
Proof. repeat split; vm_compute; reflexivity. Qed.
Theorem preD08_refuted : exists s r, wf s = true /\ no_delayed_factor_in_j0 QcO s = true /\
  jac_impl_preD08 QcO s r <> jac_spec QcO s r.
Proof.
  exists w_d08, w_d08_env. destruct w_d08_facts as [H1 [H3 [H4 [H5 H6]]]]. repeat split; try assumption.
  rewrite H6, H4, H5. intro H. apply (f_equal (fun res => match res with Ok _ ((_, m) :: _) => Qeq_bool (this (nth 0 (nth 1 m []) 0%Qc)) 0%Q | _ => true end)) in H.
  vm_compute in H. discriminate.
Qed.

(* non-vacuity: two nodes, three state variables (0 = A.x, 1 = A.z, 2 = B.x), parameters 3 = a, 4 = tau, intermediates
   5 = B.s_in := 2 * A.z + (1/2) * past(A.x, lit 1000), 6 = A.m := A.x * A.z + a;
   A.x' = -A.x + (A.m)^2, A.z' = A.x - a * past(A.z, tau), B.x' = B.s_in - (B.x)^3 *)
Definition w_ok : sys Qc :=
  mksys [0; 1; 2]
        [Add (Neg (V 0)) (PowN (V 6) 2); Sub (V 0) (Mul (V 3) (At (AP 1 4))); Sub (V 5) (PowN (V 2) 3)]
        [(5, Add (Mul (cQ 2 1) (V 1)) (Mul (cQ 1 2) (At (AP 0 1000)))); (6, Add (Mul (V 0) (V 1)) (V 3))].
Definition w_ok_env : atom -> Qc :=
  env [0; 1; 2] [(0, mkq 1 2); (1, mkq 1 4); (2, mkq (-1) 1); (3, mkq 3 2); (4, mkq 1 2)]
      [(4, [mkq 1 1; mkq 2 1; mkq 3 1]); (1000, [mkq 5 1; mkq 6 1; mkq 7 1])].
Lemma w_ok_facts :
  wf w_ok = true /\ no_delayed_factor_in_j0 QcO w_ok = true /\
  jac_impl QcO w_ok w_ok_env =
    Ok [[mkq (-3) 16; mkq 13 8; mkq 0 1]; [mkq 1 1; mkq 0 1; mkq 0 1]; [mkq 0 1; mkq 2 1; mkq (-3) 1]]
       [(4, [[mkq 0 1; mkq 0 1; mkq 0 1]; [mkq 0 1; mkq (-3) 2; mkq 0 1]; [mkq 0 1; mkq 0 1; mkq 0 1]]);
        (1000, [[mkq 0 1; mkq 0 1; mkq 0 1]; [mkq 0 1; mkq 0 1; mkq 0 1]; [mkq 1 2; mkq 0 1; mkq 0 1]])].
Proof. repeat split; vm_compute; reflexivity. Qed.

(* ---------------------------------------------------------------------------------------------- max / min: the tie convention *)
Lemma Qc_sign_pos (w : Qc) : (0 < w)%Qc -> Qc_sign w = 1%Qc.
Proof.
  intro H. unfold Qc_sign. destruct (Qle_bool (this w) 0%Q) eqn:E; [|reflexivity].
  apply Qle_bool_iff in E. exfalso. exact (Qlt_not_le _ _ H E).
Qed.
Lemma Qc_sign_neg (w : Qc) : (w < 0)%Qc -> Qc_sign w = (- (1))%Qc.
Proof.
  intro H. unfold Qc_sign.
  assert (E1 : Qle_bool (this w) 0%Q = true) by (apply Qle_bool_iff, Qlt_le_weak; exact H).
  rewrite E1. destruct (Qle_bool 0%Q (this w)) eqn:E2; [|reflexivity].
  apply Qle_bool_iff in E2. exfalso. exact (Qlt_not_le _ _ H E2).
Qed.
(* the factor [a > b] the derivative of max/min uses, as a function of the difference d = a - b: 1 for d > 0, 0 for d < 0 and
   1/2 at a tie (the symmetric sub-gradient; this is what the generated code computes: 0.5*sign(d) + 0.5 with sign(0) = 0) *)
Theorem step_values (d : Qc) :
  ((0 < d)%Qc -> stepI QcO d = 1%Qc) /\ (d = 0%Qc -> stepI QcO d = mkq 1 2) /\ ((d < 0)%Qc -> stepI QcO d = 0%Qc).
Proof.
  unfold stepI. cbn [QcO oadd omul ohalf ofn Qc_fn]. repeat split; intro H.
  - rewrite (Qc_sign_pos d H). apply Qc_is_canon. reflexivity.
  - subst d. apply Qc_is_canon. reflexivity.
  - rewrite (Qc_sign_neg d H). apply Qc_is_canon. reflexivity.
Qed.
(* which difference each of the four rules looks at *)
Theorem maxmin_rule_unfold (u v : Qc) :
  dfn2I QcO FMax true u v = stepI QcO (u - v)%Qc /\ dfn2I QcO FMax false u v = stepI QcO (v - u)%Qc /\
  dfn2I QcO FMin true u v = stepI QcO (v - u)%Qc /\ dfn2I QcO FMin false u v = stepI QcO (u - v)%Qc.
Proof. repeat split; reflexivity. Qed.

(* x' = -x + maxi(z, 1/8) * a, z' = x*z - mini(x, z)   (0 = x, 1 = z, 2 = a) at x = 1/2, z = 1/4, a = 3/2 and at the tie x = z = 1/4 *)
Definition w_max : sys Qc :=
  mksys [0; 1] [Add (Neg (V 0)) (Mul (Fn2 FMax (V 1) (cQ 1 8)) (V 2)); Sub (Mul (V 0) (V 1)) (Fn2 FMin (V 0) (V 1))] [].
Lemma w_max_facts :
  wf w_max = true /\
  result_eqb (jac_impl QcO w_max (env [0; 1] [(0, mkq 1 2); (1, mkq 1 4); (2, mkq 3 2)] []))
             (Ok [[mkq (-1) 1; mkq 3 2]; [mkq 1 4; mkq (-1) 2]] []) = true /\
  result_eqb (jac_impl QcO w_max (env [0; 1] [(0, mkq 1 4); (1, mkq 1 4); (2, mkq 3 2)] []))
             (Ok [[mkq (-1) 1; mkq 3 2]; [mkq (-1) 4; mkq (-1) 4]] []) = true.
Proof. repeat split; vm_compute; reflexivity. Qed.
