(* CachesProofs.v — lemmas about the cache model of Caches.v (property C13). *)
From Coq Require Import List String ZArith QArith Qcanon Bool Arith Lia.
From PV Require Import Caches.
Import ListNotations.
Open Scope string_scope.

(* ------------------------------------------------------------------ decidable equalities are sound *)
Lemma expr_eqb_sound : forall a b, expr_eqb a b = true -> a = b.
Proof.
  induction a; destruct b; cbn; intros H; try discriminate; try reflexivity.
  - apply andb_true_iff in H as [H1 H2]. f_equal; auto.
  - apply andb_true_iff in H as [H1 H2]. f_equal; auto.
  - f_equal; auto.
Qed.

Lemma expr_eqb_refl : forall a, expr_eqb a a = true.
Proof. induction a; cbn; auto; rewrite IHa1, IHa2; reflexivity. Qed.

Lemma code_eqb_sound : forall a b : code, code_eqb a b = true -> a = b.
Proof.
  unfold code_eqb. induction a as [|[e n] a IH]; destruct b as [|[e' n'] b]; cbn; intros H; try discriminate; auto.
  apply andb_true_iff in H as [Hl H]. apply andb_true_iff in H as [Hh Ht].
  apply andb_true_iff in Hh as [He Hn]. apply expr_eqb_sound in He. apply Nat.eqb_eq in Hn. subst.
  f_equal. apply IH. rewrite Hl. exact Ht.
Qed.

(* ------------------------------------------------------------------ the module cache keyed by the full source is harmless *)
Definition mc_ok (mc : list (code * code)) : Prop := forall k m, In (k, m) mc -> m = k.

Lemma lookup_code_in : forall (mc : list (code * code)) s m, lookup code_eqb s mc = Some m -> In (s, m) mc.
Proof.
  induction mc as [|[k v] mc IH]; cbn; intros s m H; [discriminate|].
  destruct (code_eqb s k) eqn:E.
  - inversion H; subst. apply code_eqb_sound in E. subst. left; reflexivity.
  - right. apply IH. exact H.
Qed.

Lemma mc_fetch_ok : forall mc s, mc_ok mc -> mc_fetch mc s = s.
Proof.
  intros mc s H. unfold mc_fetch. destruct (lookup code_eqb s mc) eqn:E; [|reflexivity].
  apply lookup_code_in in E. apply H in E. exact E.
Qed.

Lemma mc_store_ok : forall mc s, mc_ok mc -> mc_ok (mc_store mc s).
Proof.
  intros mc s H. unfold mc_store. destruct (lookup code_eqb s mc); [exact H|].
  intros k m [E|E]; [inversion E; reflexivity|apply H; exact E].
Qed.

Lemma compile_core_mc_ok : forall opc nodec labels iei iev mc m vec,
  mc_ok mc -> mc_ok (c_mc (compile_core opc nodec labels iei iev mc m vec)).
Proof.
  intros. unfold compile_core.
  destruct (edge_phase _ _ _ _ _ _ _) as [circ iei'].
  destruct (forallb _ _); cbn; [apply mc_store_ok; assumption|assumption].
Qed.

(* the observable does not depend on the module cache (when it is well-formed) nor on in_edge_vars *)
Lemma compile_core_obs : forall opc nodec labels iei iev mc m vec, mc_ok mc ->
  c_obs (compile_core opc nodec labels iei iev mc m vec) = c_obs (compile_core opc nodec labels iei [] [] m vec).
Proof.
  intros. unfold compile_core.
  destruct (edge_phase _ _ _ _ _ _ _) as [circ iei'].
  destruct (forallb _ _); cbn; [|reflexivity].
  rewrite mc_fetch_ok by assumption. reflexivity.
Qed.

Lemma compile_core_not_ack : forall opc nodec labels iei iev mc m vec,
  c_obs (compile_core opc nodec labels iei iev mc m vec) <> OAck.
Proof.
  intros. unfold compile_core.
  destruct (edge_phase _ _ _ _ _ _ _) as [circ iei'].
  destruct (forallb _ _); cbn; discriminate.
Qed.

Lemma mc_ok_nil : mc_ok [].
Proof. intros k m []. Qed.

(* ------------------------------------------------------------------ what a step does to the module cache *)
Lemma compile_obj_mc_ok : forall g o m vec clr, mc_ok (module_cache g) -> mc_ok (module_cache (fst (compile_obj g o m vec clr))).
Proof.
  intros. unfold compile_obj.
  pose proof (compile_core_mc_ok (op_cache g) (node_cache g) (node_labels g) (in_edge_indices g) (in_edge_vars g)
                (module_cache g) m vec H) as K.
  destruct (c_obs _); cbn; try exact K. destruct clr; cbn; exact K.
Qed.

Lemma from_yaml_mc : forall g, module_cache (fst (from_yaml g)) = module_cache g.
Proof. intros. unfold from_yaml. destruct (template_cache g); reflexivity. Qed.

Lemma step_mc_ok : forall g o, mc_ok (module_cache g) -> mc_ok (module_cache (fst (step g o))).
Proof.
  intros g o H. destruct o; cbn [step].
  - apply compile_obj_mc_ok. exact H.
  - apply compile_obj_mc_ok. exact H.
  - destruct (from_yaml g) as [g1 e] eqn:E. apply compile_obj_mc_ok. cbn.
    replace g1 with (fst (from_yaml g)) by (rewrite E; reflexivity). rewrite from_yaml_mc. exact H.
  - destruct (from_yaml g) as [g1 e] eqn:E. cbn.
    replace g1 with (fst (from_yaml g)) by (rewrite E; reflexivity). rewrite from_yaml_mc. exact H.
  - destruct (handle g h); [destruct (has_ir g n)|]; cbn; exact H.
  - destruct (handle g h); [destruct (has_ir g n)|]; cbn; exact H.
  - cbn. exact H.
Qed.

Lemma run_hist_mc_ok : forall h g, mc_ok (module_cache g) -> mc_ok (module_cache (run_hist h g)).
Proof.
  induction h as [|o h IH]; intros g H; [exact H|]. cbn. apply IH. apply step_mc_ok. exact H.
Qed.

Lemma reachable_mc_ok : forall h, mc_ok (module_cache (run_hist h G0)).
Proof. intros. apply run_hist_mc_ok. apply mc_ok_nil. Qed.

(* ------------------------------------------------------------------ the observable of a compilation reads only proj *)
Lemma snd_compile_obj : forall g o m vec clr,
  snd (compile_obj g o m vec clr) =
  c_obs (compile_core (op_cache g) (node_cache g) (node_labels g) (in_edge_indices g) (in_edge_vars g) (module_cache g) m vec).
Proof. intros. unfold compile_obj. destruct (c_obs _); reflexivity. Qed.

Lemma obs_of_core : forall g m vec, mc_ok (module_cache g) ->
  obs_of g m vec = c_obs (compile_core (op_cache g) (node_cache g) (node_labels g) (in_edge_indices g) [] [] m vec).
Proof.
  intros. unfold obs_of. cbn [step new_obj]. rewrite snd_compile_obj. cbn. apply compile_core_obs. exact H.
Qed.

Lemma is_nil_true : forall A (l : list A), is_nil l = true -> l = [].
Proof. destruct l; [reflexivity|discriminate]. Qed.

Lemma caches_clean_fields : forall g, caches_clean g = true ->
  op_cache g = [] /\ node_cache g = [] /\ node_labels g = [] /\ in_edge_indices g = [] /\ in_edge_vars g = [] /\ input_labels g = [].
Proof.
  unfold caches_clean. intros g H. repeat (apply andb_true_iff in H as [H ?]).
  repeat split; apply is_nil_true; assumption.
Qed.

Lemma clean_proj : forall g, clean g = true <-> proj g = proj G0.
Proof.
  intros g. split.
  - unfold clean. intros H. apply andb_true_iff in H as [H1 H2].
    apply caches_clean_fields in H1 as (A & B & C & D & E & F).
    unfold proj. rewrite A, B, C, D, E, F. unfold template_clean in H2. cbn.
    destruct (match template_cache g with Some e => tc_kA e | None => None end); [discriminate|reflexivity].
  - intros H. unfold proj in H. cbn in H. injection H as A B C D E F T.
    unfold clean, caches_clean, template_clean. rewrite A, B, C, D, E, F, T. reflexivity.
Qed.

Theorem obs_of_clean : forall g m vec, mc_ok (module_cache g) -> caches_clean g = true -> obs_of g m vec = obs_of G0 m vec.
Proof.
  intros g m vec Hm Hc. rewrite obs_of_core by exact Hm. rewrite (obs_of_core G0) by apply mc_ok_nil.
  apply caches_clean_fields in Hc as (A & B & C & D & _ & _). rewrite A, B, C, D. reflexivity.
Qed.

(* history independence, compiled models *)
Theorem partial_compile : forall h m vec, CachesClean h = true -> obs_of (run_hist h G0) m vec = obs_of G0 m vec.
Proof. intros. apply obs_of_clean; [apply reachable_mc_ok|exact H]. Qed.

Lemma obs_of_yaml_core : forall g, mc_ok (module_cache g) ->
  obs_of_yaml g = c_obs (compile_core (op_cache g) (node_cache g) (node_labels g) (in_edge_indices g) [] []
                          (ymodel (match template_cache g with Some e => tc_kA e | None => None end)) false).
Proof.
  intros g H. unfold obs_of_yaml. cbn [step]. unfold from_yaml.
  destruct (template_cache g) as [e|] eqn:E; cbn; rewrite snd_compile_obj; cbn; apply compile_core_obs; exact H.
Qed.

(* history independence, templates loaded from YAML *)
Theorem partial_yaml : forall h, Compatible h = true -> obs_of_yaml (run_hist h G0) = obs_of_yaml G0.
Proof.
  intros h H. unfold Compatible in H. apply andb_true_iff in H as [Hc Ht].
  rewrite obs_of_yaml_core by apply reachable_mc_ok. rewrite (obs_of_yaml_core G0) by apply mc_ok_nil.
  apply caches_clean_fields in Hc as (A & B & C & D & _ & _). rewrite A, B, C, D.
  unfold TemplateClean, template_clean in Ht. cbn.
  destruct (match template_cache (run_hist h G0) with Some e => tc_kA e | None => None end); [discriminate|reflexivity].
Qed.

(* ------------------------------------------------------------------ reset points *)
(* circuit.clear() on a circuit that holds an IR resets every cache a compilation reads — and not the template cache *)
Theorem clear_resets : forall g h ob, handle g h = Some ob -> has_ir g ob = true ->
  caches_clean (fst (step g (MClear h))) = true /\
  template_cache (fst (step g (MClear h))) = template_cache g /\ snd (step g (MClear h)) = OAck.
Proof. intros g h ob H1 H2. cbn [step]. rewrite H1, H2. cbn. auto. Qed.

(* ... and raises AttributeError, resetting nothing, on a circuit without IR (never compiled, or already cleared) *)
Theorem clear_without_ir : forall g h, (forall ob, handle g h = Some ob -> has_ir g ob = false) ->
  step g (MClear h) = (g, OErr "AttributeError").
Proof.
  intros g h H. cbn [step]. destruct (handle g h) as [ob|] eqn:E; [|reflexivity]. rewrite (H ob eq_refl). reflexivity.
Qed.

(* pyrates.clear(circuit) on a circuit that holds an IR: everything, template cache included *)
Theorem uclear_resets : forall g h ob, handle g h = Some ob -> has_ir g ob = true -> clean (fst (step g (UClear h))) = true.
Proof. intros g h ob H1 H2. cbn [step]. rewrite H1, H2. reflexivity. Qed.

(* pyrates.clear(circuit) on a circuit without IR is clear_frontend_caches(): in_edge_indices, in_edge_vars, input_labels stay *)
Theorem uclear_without_ir : forall g h, (forall ob, handle g h = Some ob -> has_ir g ob = false) ->
  fst (step g (UClear h)) = cfc true true g.
Proof.
  intros g h H. cbn [step]. destruct (handle g h) as [ob|] eqn:E; [|reflexivity]. rewrite (H ob eq_refl). reflexivity.
Qed.

(* exactly which components clear_frontend_caches covers *)
Theorem cfc_resets_only : forall g tc ic,
  proj (fst (step g (CFC tc ic))) =
  {| p_opc := if ic then [] else op_cache g; p_nodec := if ic then [] else node_cache g;
     p_labels := if ic then [] else node_labels g;
     p_iei := in_edge_indices g; p_iev := in_edge_vars g; p_inl := input_labels g;
     p_tmut := if tc then None else p_tmut (proj g) |}.
Proof. intros. destruct tc, ic; reflexivity. Qed.

(* get_run_func/run with clear=True that succeeds leaves the caches as a fresh process has them *)
Theorem compile_clear_resets : forall g m vec inpl,
  (forall c, snd (step g (Compile m vec true inpl)) <> OErr c) ->
  caches_clean (fst (step g (Compile m vec true inpl))) = true.
Proof.
  intros g m vec inpl H. cbn [step new_obj] in *. unfold compile_obj in *.
  destruct (c_obs _) eqn:E; cbn in *; try reflexivity.
  - exfalso. eapply H. reflexivity.
  - exfalso. eapply compile_core_not_ack. exact E.
Qed.

(* ------------------------------------------------------------------ frame: which components a step can write *)
Lemma compile_obj_frame : forall g o m vec clr,
  template_cache (fst (compile_obj g o m vec clr)) = template_cache g /\
  handles (fst (compile_obj g o m vec clr)) = handles g /\ nobj (fst (compile_obj g o m vec clr)) = nobj g /\
  (input_labels (fst (compile_obj g o m vec clr)) = input_labels g \/ input_labels (fst (compile_obj g o m vec clr)) = []).
Proof.
  intros. unfold compile_obj. destruct (c_obs _); cbn; auto. destruct clr; cbn; auto.
Qed.

(* a compilation never touches the template cache; it registers exactly one new circuit object *)
Theorem compile_frame : forall g m vec clr inpl,
  let g' := fst (step g (Compile m vec clr inpl)) in
  template_cache g' = template_cache g /\ handles g' = (handles g ++ [nobj g])%list /\ nobj g' = S (nobj g).
Proof.
  intros. subst g'. cbn [step new_obj].
  destruct (compile_obj_frame (push_handle (nobj g)
    {| op_cache := op_cache g; node_cache := node_cache g; node_labels := node_labels g; in_edge_indices := in_edge_indices g;
       in_edge_vars := in_edge_vars g; input_labels := input_labels g; template_cache := template_cache g;
       module_cache := module_cache g; heap := upsert Nat.eqb (nobj g) false (heap g); handles := handles g; nobj := S (nobj g) |})
    (nobj g) m vec clr) as (A & B & C & _).
  rewrite A, B, C. cbn. auto.
Qed.

(* the three clearing calls only ever empty caches: each component is unchanged or empty afterwards *)
Definition same_or_nil {A} (a b : list A) : Prop := a = b \/ a = [].
Theorem clear_steps_only_empty : forall g o, (exists h, o = MClear h) \/ (exists h, o = UClear h) \/ (exists tc ic, o = CFC tc ic) ->
  let g' := fst (step g o) in
  same_or_nil (op_cache g') (op_cache g) /\ same_or_nil (node_cache g') (node_cache g) /\
  same_or_nil (node_labels g') (node_labels g) /\ same_or_nil (in_edge_indices g') (in_edge_indices g) /\
  same_or_nil (in_edge_vars g') (in_edge_vars g) /\ same_or_nil (input_labels g') (input_labels g) /\
  (template_cache g' = template_cache g \/ template_cache g' = None) /\ module_cache g' = module_cache g.
Proof.
  unfold same_or_nil. intros g o [[h E]|[[h E]|[tc [ic E]]]]; subst o; cbn [step].
  - destruct (handle g h); [destruct (has_ir g n)|]; cbn; repeat split; auto.
  - destruct (handle g h); [destruct (has_ir g n)|]; cbn; repeat split; auto.
  - destruct tc, ic; cbn; repeat split; auto.
Qed.

(* ------------------------------------------------------------------ a syntactic guard: disciplined histories *)
Definition is_err (o : obs) : bool := match o with OErr _ => true | _ => false end.
Definition no_error (h : list hop) (g : G) : bool := forallb (fun o => negb (is_err o)) (trace h g).
(* errors that matter: a compilation that raises leaves the caches dirty (the clear=True never runs) *)
Fixpoint no_compile_error (h : list hop) (g : G) : bool :=
  match h with
  | [] => true
  | o :: h' => (match o with MClear _ => true | _ => negb (is_err (snd (step g o))) end) && no_compile_error h' (fst (step g o))
  end.

Lemma compile_obj_clean : forall g o m vec, is_err (snd (compile_obj g o m vec true)) = false ->
  caches_clean (fst (compile_obj g o m vec true)) = true /\
  template_cache (fst (compile_obj g o m vec true)) = template_cache g.
Proof.
  intros g o m vec. unfold compile_obj. destruct (c_obs _) eqn:E; cbn; intros H; try discriminate; auto.
  exfalso. eapply compile_core_not_ack. exact E.
Qed.

Lemma from_yaml_caches : forall g, caches_clean (fst (from_yaml g)) = caches_clean g /\
  template_clean (fst (from_yaml g)) = template_clean g /\
  template_cache (fst (from_yaml g)) = Some (snd (from_yaml g)) /\
  (template_clean g = true -> tc_kA (snd (from_yaml g)) = None).
Proof.
  intros g. unfold from_yaml, template_clean. destruct (template_cache g) as [e|] eqn:E; cbn.
  - rewrite E. repeat split; auto. destruct (tc_kA e); [discriminate|reflexivity].
  - repeat split; auto.
Qed.

Lemma disciplined_inv : forall h g tmut,
  caches_clean g = true -> (tmut = false -> template_clean g = true) ->
  disciplined tmut h = true -> no_compile_error h g = true ->
  clean (run_hist h g) = true.
Proof.
  induction h as [|o h IH]; intros g tmut Hc Ht Hd Hn.
  - cbn in *. unfold clean. rewrite Hc. cbn. apply Ht. destruct tmut; [discriminate|reflexivity].
  - cbn [run_hist fold_left]. change (fold_left (fun g o => fst (step g o)) h (fst (step g o))) with (run_hist h (fst (step g o))).
    cbn [no_compile_error] in Hn. apply andb_true_iff in Hn as [Hn1 Hn2].
    destruct o as [m vec clr ip|m vec clr ip|clr|v|hh|hh|tc ic]; cbn [disciplined] in Hd.
    + apply andb_true_iff in Hd as [Hclr Hd]. subst clr.
      apply negb_true_iff in Hn1. cbn [step new_obj] in *.
      match type of Hn1 with is_err (snd (compile_obj ?G ?O _ _ _)) = _ =>
        destruct (compile_obj_clean G O m vec Hn1) as [K1 K2] end.
      eapply IH; eauto. intros E. unfold template_clean. rewrite K2. cbn. apply Ht. exact E.
    + apply andb_true_iff in Hd as [Hclr Hd]. subst clr.
      apply negb_true_iff in Hn1. cbn [step new_obj] in *.
      match type of Hn1 with is_err (snd (compile_obj ?G ?O _ _ _)) = _ =>
        destruct (compile_obj_clean G O m vec Hn1) as [K1 K2] end.
      eapply IH; eauto. intros E. unfold template_clean. rewrite K2. cbn. apply Ht. exact E.
    + apply andb_true_iff in Hd as [Hclr Hd]. subst clr.
      apply negb_true_iff in Hn1. cbn [step] in *.
      destruct (from_yaml_caches g) as (F1 & F2 & F3 & F4).
      destruct (from_yaml g) as [g1 e]. cbn [fst snd] in *.
      match type of Hn1 with is_err (snd (compile_obj ?G ?O ?M _ _)) = _ =>
        destruct (compile_obj_clean G O M false Hn1) as [K1 K2] end.
      eapply IH; eauto. intros E. unfold template_clean. rewrite K2. cbn. rewrite F3.
      rewrite F4; [reflexivity|]. apply Ht. exact E.
    + cbn [step] in *. destruct (from_yaml_caches g) as (F1 & F2 & F3 & F4).
      destruct (from_yaml g) as [g1 e]. cbn [fst snd] in *.
      eapply IH with (tmut := true); eauto; try discriminate.
    + cbn [step] in *. destruct (handle g hh) as [ob|]; [destruct (has_ir g ob)|]; cbn [fst] in *;
        try (eapply IH; eauto; fail).
    + cbn [step] in *.
      assert (K : clean (fst (match handle g hh with
                  | Some ob => if has_ir g ob then (cfc true true (set_ir ob false (clear_caches g)), OAck) else (cfc true true g, OAck)
                  | None => (cfc true true g, OAck) end)) = true).
      { apply caches_clean_fields in Hc as (A & B & C & D & E & F).
        destruct (handle g hh) as [ob|]; [destruct (has_ir g ob)|]; cbn; unfold clean, caches_clean, template_clean; cbn;
          rewrite ?A, ?B, ?C, ?D, ?E, ?F; reflexivity. }
      unfold clean in K. apply andb_true_iff in K as [K1 K2].
      eapply IH with (tmut := false); eauto.
    + cbn [step fst] in *.
      eapply IH with (tmut := tmut && negb tc); eauto.
      * apply caches_clean_fields in Hc as (A & B & C & D & E & F).
        unfold caches_clean, cfc. cbn. rewrite A, B, C, D, E, F. destruct ic; reflexivity.
      * intros E. unfold template_clean, cfc. cbn. destruct tc; [reflexivity|].
        apply Ht. destruct tmut; [discriminate|reflexivity].
Qed.

Theorem disciplined_compatible : forall h, disciplined false h = true -> no_compile_error h G0 = true -> Compatible h = true.
Proof.
  intros h Hd Hn. change (Compatible h) with (clean (run_hist h G0)).
  eapply disciplined_inv; eauto.
Qed.

(* ------------------------------------------------------------------ glue for the computed refutations *)
Lemma Qc_eqb_refl : forall q, Qc_eqb q q = true.
Proof. intros. unfold Qc_eqb. apply Qeq_bool_iff. reflexivity. Qed.

Lemma list_eqb_refl : forall A (f : A -> A -> bool), (forall a, f a a = true) -> forall l, list_eqb f l l = true.
Proof.
  intros A f H l. unfold list_eqb. rewrite Nat.eqb_refl. cbn.
  induction l as [|a l IH]; cbn; [reflexivity|]. rewrite H. exact IH.
Qed.

Lemma obs_eqb_refl : forall o, obs_eqb o o = true.
Proof.
  destruct o; cbn; [apply String.eqb_refl|reflexivity|].
  rewrite (list_eqb_refl _ _ String.eqb_refl).
  rewrite (list_eqb_refl _ _ (list_eqb_refl _ _ Qc_eqb_refl)).
  rewrite (list_eqb_refl _ _ Qc_eqb_refl).
  rewrite list_eqb_refl; [reflexivity|].
  intros [[s a] b]. cbn. rewrite String.eqb_refl, !Nat.eqb_refl. reflexivity.
Qed.

Lemma obs_neq : forall a b, obs_eqb a b = false -> a <> b.
Proof. intros a b H E. subst. rewrite obs_eqb_refl in H. discriminate. Qed.
