(* CachesProofs.v — lemmas about the cache model of Caches.v (property C13).
   Every lemma about steps is proved for both values of the switch `fixed_clear` (parameter fx of step_with). *)
From Coq Require Import List String ZArith QArith Qcanon Bool Arith Lia.
From PV Require Import Caches.
Import ListNotations.
Open Scope string_scope.

(* ------------------------------------------------------------------ decidable equalities are sound *)
Lemma expr_eqb_sound : forall a b, expr_eqb a b = true -> a = b.
Proof.
  induction a; destruct b; cbn; intros H; try discriminate; try reflexivity.
  - apply andb_true_iff in H as [H1 H2]. f_equal; auto.
  - apply andb_true_iff in H as [H1 H2]. f_equal; auto.
  - f_equal; auto.
Qed.

Lemma expr_eqb_refl : forall a, expr_eqb a a = true.
Proof. induction a; cbn; auto; rewrite IHa1, IHa2; reflexivity. Qed.

Lemma code_eqb_sound : forall a b : code, code_eqb a b = true -> a = b.
Proof.
  unfold code_eqb. induction a as [|[e n] a IH]; destruct b as [|[e' n'] b]; cbn; intros H; try discriminate; auto.
  apply andb_true_iff in H as [Hl H]. apply andb_true_iff in H as [Hh Ht].
  apply andb_true_iff in Hh as [He Hn]. apply expr_eqb_sound in He. apply Nat.eqb_eq in Hn. subst.
  f_equal. apply IH. rewrite Hl. exact Ht.
Qed.

(* ------------------------------------------------------------------ the module cache keyed by the full source is harmless *)
Definition mc_ok (mc : list (code * code)) : Prop := forall k m, In (k, m) mc -> m = k.

Lemma lookup_code_in : forall (mc : list (code * code)) s m, lookup code_eqb s mc = Some m -> In (s, m) mc.
Proof.
  induction mc as [|[k v] mc IH]; cbn; intros s m H; [discriminate|].
  destruct (code_eqb s k) eqn:E.
  - inversion H; subst. apply code_eqb_sound in E. subst. left; reflexivity.
  - right. apply IH. exact H.
Qed.

Lemma mc_fetch_ok : forall mc s, mc_ok mc -> mc_fetch mc s = s.
Proof.
  intros mc s H. unfold mc_fetch. destruct (lookup code_eqb s mc) eqn:E; [|reflexivity].
  apply lookup_code_in in E. apply H in E. exact E.
Qed.

Lemma mc_store_ok : forall mc s, mc_ok mc -> mc_ok (mc_store mc s).
Proof.
  intros mc s H. unfold mc_store. destruct (lookup code_eqb s mc); [exact H|].
  intros k m [E|E]; [inversion E; reflexivity|apply H; exact E].
Qed.

Lemma compile_core_mc_ok : forall opc nodec labels iei iev mc m vec,
  mc_ok mc -> mc_ok (c_mc (compile_core opc nodec labels iei iev mc m vec)).
Proof.
  intros. unfold compile_core.
  destruct (edge_phase _ _ _ _ _ _ _) as [circ iei'].
  destruct (forallb _ _); cbn; [apply mc_store_ok; assumption|assumption].
Qed.

(* the observable does not depend on the module cache (when it is well-formed) nor on in_edge_vars *)
Lemma compile_core_obs : forall opc nodec labels iei iev mc m vec, mc_ok mc ->
  c_obs (compile_core opc nodec labels iei iev mc m vec) = c_obs (compile_core opc nodec labels iei [] [] m vec).
Proof.
  intros. unfold compile_core.
  destruct (edge_phase _ _ _ _ _ _ _) as [circ iei'].
  destruct (forallb _ _); cbn; [|reflexivity].
  rewrite mc_fetch_ok by assumption. reflexivity.
Qed.

Lemma compile_core_not_ack : forall opc nodec labels iei iev mc m vec,
  c_obs (compile_core opc nodec labels iei iev mc m vec) <> OAck.
Proof.
  intros. unfold compile_core.
  destruct (edge_phase _ _ _ _ _ _ _) as [circ iei'].
  destruct (forallb _ _); cbn; discriminate.
Qed.

Lemma mc_ok_nil : mc_ok [].
Proof. intros k m []. Qed.

(* ------------------------------------------------------------------ what a step does to the module cache *)
Lemma compile_obj_mc : forall g o m vec clr,
  module_cache (fst (compile_obj g o m vec clr)) =
  c_mc (compile_core (op_cache g) (node_cache g) (node_labels g) (in_edge_indices g) (in_edge_vars g) (module_cache g) m vec).
Proof. intros. unfold compile_obj. destruct (c_obs _); cbn; try reflexivity. destruct clr; reflexivity. Qed.

Lemma fcompile_obj_mc : forall fd g o m file clr, module_cache (fst (fcompile_obj_k fd g o m file clr)) = module_cache g.
Proof.
  intros. unfold fcompile_obj_k. destruct (c_obs _); cbn; try reflexivity.
  destruct (negb fd && existsb _ _); cbn; [reflexivity|]. destruct clr; reflexivity.
Qed.

Lemma compile_obj_mc_ok : forall g o m vec clr, mc_ok (module_cache g) -> mc_ok (module_cache (fst (compile_obj g o m vec clr))).
Proof. intros. rewrite compile_obj_mc. apply compile_core_mc_ok. assumption. Qed.

Definition is_err (o : obs) : bool := match o with OErr _ => true | _ => false end.

Lemma compile_in_fst : forall g o m vec clr,
  fst (compile_in_obj g o m vec clr) = fst (compile_obj (set_inl (write_input_labels (input_labels g)) g) o m vec clr).
Proof. intros. unfold compile_in_obj. destruct (compile_obj _ _ _ _ _). reflexivity. Qed.

Lemma compile_in_err : forall g o m vec clr,
  is_err (snd (compile_in_obj g o m vec clr)) = is_err (snd (compile_obj (set_inl (write_input_labels (input_labels g)) g) o m vec clr)).
Proof. intros. unfold compile_in_obj. destruct (compile_obj _ _ _ _ _) as [g1 ob]. destruct ob; reflexivity. Qed.

Lemma from_yaml_mc : forall g, module_cache (fst (from_yaml g)) = module_cache g.
Proof. intros. unfold from_yaml, from_yaml_k. destruct fixed_yaml_copy; destruct (template_cache g); reflexivity. Qed.

Lemma step_mc_ok : forall fx g o, mc_ok (module_cache g) -> mc_ok (module_cache (fst (step_with fx g o))).
Proof.
  intros fx g o H. destruct o; cbn [step_with].
  - apply compile_obj_mc_ok. exact H.
  - apply compile_obj_mc_ok. exact H.
  - apply compile_obj_mc_ok. exact H.
  - cbn [new_obj]. rewrite compile_in_fst. apply compile_obj_mc_ok. exact H.
  - unfold fstep_k. cbn [new_obj]. rewrite fcompile_obj_mc. exact H.
  - destruct (from_yaml g) as [g1 e] eqn:E. apply compile_obj_mc_ok. cbn.
    replace g1 with (fst (from_yaml g)) by (rewrite E; reflexivity). rewrite from_yaml_mc. exact H.
  - destruct (from_yaml g) as [g1 e] eqn:E. cbn.
    replace g1 with (fst (from_yaml g)) by (rewrite E; reflexivity). rewrite from_yaml_mc. exact H.
  - destruct (handle g h); [destruct (has_ir g n)|]; destruct fx; cbn; exact H.
  - destruct (handle g h); [destruct (has_ir g n)|]; destruct fx; cbn; exact H.
  - cbn. exact H.
Qed.

Lemma run_hist_mc_ok : forall fx h g, mc_ok (module_cache g) -> mc_ok (module_cache (run_hist_with fx h g)).
Proof.
  induction h as [|o h IH]; intros g H; [exact H|]. cbn. apply IH. apply step_mc_ok. exact H.
Qed.

Lemma reachable_mc_ok : forall fx h, mc_ok (module_cache (run_hist_with fx h G0)).
Proof. intros. apply run_hist_mc_ok. apply mc_ok_nil. Qed.

(* ------------------------------------------------------------------ the observable of a compilation reads only proj *)
Lemma snd_compile_obj : forall g o m vec clr,
  snd (compile_obj g o m vec clr) =
  c_obs (compile_core (op_cache g) (node_cache g) (node_labels g) (in_edge_indices g) (in_edge_vars g) (module_cache g) m vec).
Proof. intros. unfold compile_obj. destruct (c_obs _); reflexivity. Qed.

Lemma obs_of_core : forall g m vec, mc_ok (module_cache g) ->
  obs_of g m vec = c_obs (compile_core (op_cache g) (node_cache g) (node_labels g) (in_edge_indices g) [] [] m vec).
Proof.
  intros. unfold obs_of. cbn [step_with new_obj]. rewrite snd_compile_obj. cbn. apply compile_core_obs. exact H.
Qed.

Lemma is_nil_true : forall A (l : list A), is_nil l = true -> l = [].
Proof. destruct l; [reflexivity|discriminate]. Qed.

Lemma caches_clean_fields : forall g, caches_clean g = true ->
  op_cache g = [] /\ node_cache g = [] /\ node_labels g = [] /\ in_edge_indices g = [] /\ in_edge_vars g = [] /\
  input_labels g = [] /\ sys_py (mods g) = [].
Proof.
  unfold caches_clean. intros g H. repeat (apply andb_true_iff in H as [H ?]).
  repeat split; apply is_nil_true; assumption.
Qed.

Lemma fields_caches_clean : forall g,
  op_cache g = [] -> node_cache g = [] -> node_labels g = [] -> in_edge_indices g = [] -> in_edge_vars g = [] ->
  input_labels g = [] -> sys_py (mods g) = [] -> caches_clean g = true.
Proof. intros g A B C D E F P. unfold caches_clean. rewrite A, B, C, D, E, F, P. reflexivity. Qed.

Lemma clean_proj : forall g, clean g = true <-> proj g = proj G0.
Proof.
  intros g. split.
  - unfold clean. intros H. apply andb_true_iff in H as [H1 H2].
    apply caches_clean_fields in H1 as (A & B & C & D & E & F & P).
    unfold proj. rewrite A, B, C, D, E, F, P. unfold template_clean in H2. cbn.
    destruct (match template_cache g with Some e => tc_kA e | None => None end); [discriminate|reflexivity].
  - intros H. unfold proj in H. cbn in H. injection H as A B C D E F P T.
    unfold clean, caches_clean, template_clean. rewrite A, B, C, D, E, F, P, T. reflexivity.
Qed.

Theorem obs_of_clean : forall g m vec, mc_ok (module_cache g) -> caches_clean g = true -> obs_of g m vec = obs_of G0 m vec.
Proof.
  intros g m vec Hm Hc. rewrite obs_of_core by exact Hm. rewrite (obs_of_core G0) by apply mc_ok_nil.
  apply caches_clean_fields in Hc as (A & B & C & D & _). rewrite A, B, C, D. reflexivity.
Qed.

(* history independence, compiled models *)
Theorem partial_compile_fx : forall fx h m vec, caches_clean (run_hist_with fx h G0) = true ->
  obs_of (run_hist_with fx h G0) m vec = obs_of G0 m vec.
Proof. intros. apply obs_of_clean; [apply reachable_mc_ok|exact H]. Qed.

Theorem partial_compile : forall h m vec, CachesClean h = true -> obs_of (run_hist h G0) m vec = obs_of G0 m vec.
Proof. intros h m vec. exact (partial_compile_fx fixed_clear h m vec). Qed.

Lemma obs_of_yaml_core : forall g, mc_ok (module_cache g) ->
  obs_of_yaml g = c_obs (compile_core (op_cache g) (node_cache g) (node_labels g) (in_edge_indices g) [] []
                          (ymodel (if fixed_yaml_copy then None else match template_cache g with Some e => tc_kA e | None => None end)) false).
Proof.
  intros g H. unfold obs_of_yaml. cbn [step_with]. unfold from_yaml, from_yaml_k.
  destruct fixed_yaml_copy; destruct (template_cache g) as [e|] eqn:E; cbn; rewrite snd_compile_obj; cbn;
    rewrite compile_core_obs by exact H; reflexivity.
Qed.

(* history independence, templates loaded from YAML *)
Theorem partial_yaml_fx : forall fx h, caches_clean (run_hist_with fx h G0) = true -> template_clean (run_hist_with fx h G0) = true ->
  obs_of_yaml (run_hist_with fx h G0) = obs_of_yaml G0.
Proof.
  intros fx h Hc Ht.
  rewrite obs_of_yaml_core by apply reachable_mc_ok. rewrite (obs_of_yaml_core G0) by apply mc_ok_nil.
  apply caches_clean_fields in Hc as (A & B & C & D & _). rewrite A, B, C, D.
  unfold template_clean in Ht. cbn.
  destruct (match template_cache (run_hist_with fx h G0) with Some e => tc_kA e | None => None end); [discriminate|].
  destruct fixed_yaml_copy; reflexivity.
Qed.

Theorem partial_yaml : forall h, Compatible h = true -> obs_of_yaml (run_hist h G0) = obs_of_yaml G0.
Proof.
  intros h H. unfold Compatible in H. apply andb_true_iff in H as [Hc Ht].
  exact (partial_yaml_fx fixed_clear h Hc Ht).
Qed.

(* Fortran backend: what the observable reads (fd = the switch fixed_D29) *)
Definition fobs (fd : bool) (opc : list (string * (expr * Qc))) (nodec : list (expr * cnode)) (labels : list (string * nat))
           (iei : list (string * nat)) (iev : list string) (py : list string) (ext : list (string * code))
           (m : model) (file : string) : obs :=
  let c := compile_core opc nodec labels iei iev [] m false in
  match c_obs c with
  | OOk _ _ _ _ =>
      if negb fd && existsb (String.eqb file) py then OErr "ImportError"
      else with_dy (c_obs c) (run_code (if fd then c_src c
                                        else match lookup String.eqb file ext with Some s => s | None => c_src c end) (c_args c))
  | _ => c_obs c
  end.

Lemma obs_of_fortran_k_core : forall fd g m file,
  obs_of_fortran_k fd g m file = fobs fd (op_cache g) (node_cache g) (node_labels g) (in_edge_indices g) (in_edge_vars g)
                                      (sys_py (mods g)) (ext_mods (mods g)) m file.
Proof.
  intros. unfold obs_of_fortran_k, fstep_k, fobs. cbn [new_obj]. unfold fcompile_obj_k. cbn.
  destruct (c_obs _); try reflexivity. destruct (negb fd && existsb _ _); reflexivity.
Qed.

Lemma obs_of_fortran_is_k : forall g m file, obs_of_fortran g m file = obs_of_fortran_k fixed_D29 g m file.
Proof. reflexivity. Qed.

Definition frontend_clean (g : G) : bool :=
  is_nil (op_cache g) && is_nil (node_cache g) && is_nil (node_labels g) && is_nil (in_edge_indices g) &&
  is_nil (in_edge_vars g) && is_nil (input_labels g).

Lemma frontend_clean_fields : forall g, frontend_clean g = true ->
  op_cache g = [] /\ node_cache g = [] /\ node_labels g = [] /\ in_edge_indices g = [] /\ in_edge_vars g = [] /\ input_labels g = [].
Proof.
  unfold frontend_clean. intros g H. repeat (apply andb_true_iff in H as [H ?]).
  repeat split; apply is_nil_true; assumption.
Qed.

Lemma caches_frontend_clean : forall g, caches_clean g = true -> frontend_clean g = true.
Proof.
  intros g H. apply caches_clean_fields in H as (A & B & C & D & E & F & _). unfold frontend_clean.
  rewrite A, B, C, D, E, F. reflexivity.
Qed.

(* BEFORE the repair D96 (fd = false): history independence of a Fortran compilation additionally needs that no Python module is
   registered under a file name and that nothing was imported as an extension module before *)
Theorem partial_fortran_before_fix : forall g m file, caches_clean g = true -> fortran_clean g = true ->
  obs_of_fortran_k false g m file = obs_of_fortran_k false G0 m file.
Proof.
  intros g m file Hc Hf. rewrite !obs_of_fortran_k_core.
  apply caches_clean_fields in Hc as (A & B & C & D & E & _ & P). unfold fortran_clean in Hf. apply is_nil_true in Hf.
  rewrite A, B, C, D, E, P, Hf. reflexivity.
Qed.

(* WITH the repair (fd = true): the frontend caches alone decide; the module tables are not read *)
Theorem partial_fortran_fixed : forall g m file, frontend_clean g = true ->
  obs_of_fortran_k true g m file = obs_of_fortran_k true G0 m file.
Proof.
  intros g m file Hc. rewrite !obs_of_fortran_k_core.
  apply frontend_clean_fields in Hc as (A & B & C & D & E & _). rewrite A, B, C, D, E. reflexivity.
Qed.

(* the form the check uses: guard  fixed_D29 || FortranClean *)
Theorem partial_fortran_fx : forall fx h m file,
  caches_clean (run_hist_with fx h G0) = true -> (fixed_D29 || fortran_clean (run_hist_with fx h G0)) = true ->
  obs_of_fortran (run_hist_with fx h G0) m file = obs_of_fortran G0 m file.
Proof.
  intros fx h m file Hc Hf. rewrite !obs_of_fortran_is_k. destruct fixed_D29.
  - apply partial_fortran_fixed. apply caches_frontend_clean. exact Hc.
  - apply partial_fortran_before_fix; assumption.
Qed.

Theorem partial_fortran : forall h m file, CachesClean h = true -> (fixed_D29 || FortranClean h) = true ->
  obs_of_fortran (run_hist h G0) m file = obs_of_fortran G0 m file.
Proof. intros h m file. exact (partial_fortran_fx fixed_clear h m file). Qed.

(* ------------------------------------------------------------------ reset points *)
(* default-backend compilations read the frontend caches only (not the table of Python modules) *)
Theorem partial_compile_frontend : forall fx h m vec, frontend_clean (run_hist_with fx h G0) = true ->
  obs_of (run_hist_with fx h G0) m vec = obs_of G0 m vec.
Proof.
  intros fx h m vec H. rewrite obs_of_core by apply reachable_mc_ok. rewrite (obs_of_core G0) by apply mc_ok_nil.
  unfold frontend_clean in H. repeat (apply andb_true_iff in H as [H ?]).
  repeat match goal with K : is_nil _ = true |- _ => apply is_nil_true in K; rewrite K; clear K end. reflexivity.
Qed.

(* circuit.clear() on a circuit that holds an IR resets every frontend cache a compilation reads and drops the Python module
   registered under the circuit's file name — and not the template cache (either value of the switch) *)
Theorem clear_resets : forall fx g h ob, handle g h = Some ob -> has_ir g ob = true ->
  frontend_clean (fst (step_with fx g (MClear h))) = true /\
  sys_py (mods (fst (step_with fx g (MClear h)))) = remove_s (file_of g ob) (sys_py (mods g)) /\
  template_cache (fst (step_with fx g (MClear h))) = template_cache g /\ snd (step_with fx g (MClear h)) = OAck.
Proof. intros fx g h ob H1 H2. cbn [step_with]. rewrite H1, H2. cbn. auto. Qed.

(* BEFORE THE FIX: it raises AttributeError, resetting nothing, on a circuit without IR (never compiled, or already cleared) *)
Theorem clear_without_ir_before_fix : forall g h, (forall ob, handle g h = Some ob -> has_ir g ob = false) ->
  step_with false g (MClear h) = (g, OErr "AttributeError").
Proof.
  intros g h H. cbn [step_with]. destruct (handle g h) as [ob|] eqn:E; [|reflexivity]. rewrite (H ob eq_refl). reflexivity.
Qed.

(* WITH THE FIX: it resets the frontend caches all the same *)
Theorem clear_without_ir_fixed : forall g h, (forall ob, handle g h = Some ob -> has_ir g ob = false) ->
  step_with true g (MClear h) = (clear_frontend g, OAck).
Proof.
  intros g h H. cbn [step_with]. destruct (handle g h) as [ob|] eqn:E; [|reflexivity]. rewrite (H ob eq_refl). reflexivity.
Qed.

(* pyrates.clear(circuit) on a circuit that holds an IR: every frontend cache, template cache included *)
Theorem uclear_resets : forall fx g h ob, handle g h = Some ob -> has_ir g ob = true ->
  frontend_clean (fst (step_with fx g (UClear h))) = true /\ template_cache (fst (step_with fx g (UClear h))) = None.
Proof. intros fx g h ob H1 H2. cbn [step_with]. rewrite H1, H2. destruct fx; cbn; auto. Qed.

(* BEFORE THE FIX: on a circuit without IR it is clear_frontend_caches(): in_edge_indices, in_edge_vars, input_labels stay *)
Theorem uclear_without_ir_before_fix : forall g h, (forall ob, handle g h = Some ob -> has_ir g ob = false) ->
  fst (step_with false g (UClear h)) = cfc_with false true true g.
Proof.
  intros g h H. cbn [step_with]. destruct (handle g h) as [ob|] eqn:E; [|reflexivity]. rewrite (H ob eq_refl). reflexivity.
Qed.

Theorem uclear_fixed : forall g h,
  frontend_clean (fst (step_with true g (UClear h))) = true /\ template_cache (fst (step_with true g (UClear h))) = None.
Proof. intros g h. cbn [step_with]. destruct (handle g h) as [ob|]; [destruct (has_ir g ob)|]; cbn; auto. Qed.

(* exactly which components clear_frontend_caches covers *)
Theorem cfc_resets_only : forall fx g tc ic,
  proj (fst (step_with fx g (CFC tc ic))) =
  {| p_opc := if ic then [] else op_cache g; p_nodec := if ic then [] else node_cache g;
     p_labels := if ic then [] else node_labels g;
     p_iei := if fx && ic then [] else in_edge_indices g; p_iev := if fx && ic then [] else in_edge_vars g;
     p_inl := if fx && ic then [] else input_labels g; p_py := sys_py (mods g);
     p_tmut := if tc then None else p_tmut (proj g) |}.
Proof. intros. destruct fx, tc, ic; reflexivity. Qed.

Lemma remove_add_nil : forall f, remove_s f (add_s f []) = [].
Proof. intros f. cbn. rewrite String.eqb_refl. reflexivity. Qed.

Lemma compile_obj_clean : forall g o m vec, sys_py (mods g) = [] -> (forall c, snd (compile_obj g o m vec true) <> OErr c) ->
  caches_clean (fst (compile_obj g o m vec true)) = true /\
  template_cache (fst (compile_obj g o m vec true)) = template_cache g /\
  ext_mods (mods (fst (compile_obj g o m vec true))) = ext_mods (mods g).
Proof.
  intros g o m vec Hp. unfold compile_obj. destruct (c_obs _) eqn:E; cbn; intros H.
  - exfalso. eapply H. reflexivity.
  - exfalso. eapply compile_core_not_ack. exact E.
  - rewrite Hp. unfold caches_clean. cbn. unfold file_of. cbn. rewrite String.eqb_refl. cbn. auto.
Qed.

Lemma fcompile_obj_clean : forall fd g o m file, sys_py (mods g) = [] -> (forall c, snd (fcompile_obj_k fd g o m file true) <> OErr c) ->
  caches_clean (fst (fcompile_obj_k fd g o m file true)) = true /\
  template_cache (fst (fcompile_obj_k fd g o m file true)) = template_cache g.
Proof.
  intros fd g o m file Hp. unfold fcompile_obj_k. destruct (c_obs _) eqn:E; cbn; intros H.
  - exfalso. eapply H. reflexivity.
  - exfalso. eapply compile_core_not_ack. exact E.
  - rewrite Hp in *. cbn in *. rewrite andb_false_r in *. cbn in *. unfold caches_clean. cbn. auto.
Qed.

(* get_run_func/run/get_jacobian_func with clear=True that succeeds leaves the caches as a fresh process has them
   (when no Python module of another file name is registered) *)
Theorem compile_clear_resets : forall fx g m vec inpl, sys_py (mods g) = [] ->
  (forall c, snd (step_with fx g (Compile m vec true inpl)) <> OErr c) ->
  caches_clean (fst (step_with fx g (Compile m vec true inpl))) = true.
Proof.
  intros fx g m vec inpl Hp H. cbn [step_with new_obj] in *.
  match goal with |- caches_clean (fst (compile_obj ?G ?O _ _ _)) = _ =>
    destruct (compile_obj_clean G O m vec Hp H) as [K _] end. exact K.
Qed.

(* ------------------------------------------------------------------ frame: which components a step can write *)
Lemma compile_obj_frame : forall g o m vec clr,
  template_cache (fst (compile_obj g o m vec clr)) = template_cache g /\
  handles (fst (compile_obj g o m vec clr)) = handles g /\ nobj (fst (compile_obj g o m vec clr)) = nobj g /\
  ext_mods (mods (fst (compile_obj g o m vec clr))) = ext_mods (mods g) /\
  (input_labels (fst (compile_obj g o m vec clr)) = input_labels g \/ input_labels (fst (compile_obj g o m vec clr)) = []).
Proof.
  intros. unfold compile_obj. destruct (c_obs _); cbn; auto 7. destruct clr; cbn; repeat split; auto.
Qed.

(* a default-backend compilation never touches the template cache nor the table of extension modules; it registers exactly
   one new circuit object *)
Theorem compile_frame : forall fx g m vec clr inpl,
  let g' := fst (step_with fx g (Compile m vec clr inpl)) in
  template_cache g' = template_cache g /\ handles g' = (handles g ++ [nobj g])%list /\ nobj g' = S (nobj g) /\
  ext_mods (mods g') = ext_mods (mods g).
Proof.
  intros. subst g'. cbn [step_with new_obj].
  match goal with |- context [compile_obj ?G ?O _ _ _] => destruct (compile_obj_frame G O m vec clr) as (A & B & C & D & _) end.
  rewrite A, B, C, D. cbn. auto.
Qed.

(* the three clearing calls only ever empty caches: each component is unchanged or empty afterwards; nothing is ever removed
   from the table of extension modules *)
Definition same_or_nil {A} (a b : list A) : Prop := a = b \/ a = [].
Theorem clear_steps_only_empty : forall fx g o, (exists h, o = MClear h) \/ (exists h, o = UClear h) \/ (exists tc ic, o = CFC tc ic) ->
  let g' := fst (step_with fx g o) in
  same_or_nil (op_cache g') (op_cache g) /\ same_or_nil (node_cache g') (node_cache g) /\
  same_or_nil (node_labels g') (node_labels g) /\ same_or_nil (in_edge_indices g') (in_edge_indices g) /\
  same_or_nil (in_edge_vars g') (in_edge_vars g) /\ same_or_nil (input_labels g') (input_labels g) /\
  (template_cache g' = template_cache g \/ template_cache g' = None) /\ module_cache g' = module_cache g /\
  ext_mods (mods g') = ext_mods (mods g).
Proof.
  unfold same_or_nil. intros fx g o [[h E]|[[h E]|[tc [ic E]]]]; subst o; cbn [step_with].
  - destruct (handle g h); [destruct (has_ir g n)|]; destruct fx; cbn; repeat split; auto.
  - destruct (handle g h); [destruct (has_ir g n)|]; destruct fx; cbn; repeat split; auto.
  - destruct fx, tc, ic; cbn; repeat split; auto.
Qed.

(* no step ever removes an entry of the table of extension modules: D29 is not cured by any clearing call *)
Lemma lookup_app_some : forall (l l' : list (string * code)) f s,
  lookup String.eqb f l = Some s -> lookup String.eqb f (l ++ l')%list = Some s.
Proof.
  induction l as [|[k v] l IH]; cbn; intros l' f s H; [discriminate|].
  destruct (String.eqb f k); [exact H|apply IH; exact H].
Qed.

Lemma fcompile_obj_ext : forall fd g o m file clr f s,
  lookup String.eqb f (ext_mods (mods g)) = Some s ->
  lookup String.eqb f (ext_mods (mods (fst (fcompile_obj_k fd g o m file clr)))) = Some s.
Proof.
  intros fd g o m file clr f s H. unfold fcompile_obj_k. destruct (c_obs _); cbn; auto.
  destruct (negb fd && existsb _ _); cbn; auto.
  destruct fd.
  - destruct (has_ext _ _ _); destruct clr; cbn; auto; apply lookup_app_some; exact H.
  - destruct (lookup String.eqb file (ext_mods (mods g))) eqn:E; destruct clr; cbn; auto;
      destruct (String.eqb f file) eqn:F; auto; apply String.eqb_eq in F; subst; rewrite H in E; discriminate.
Qed.

Theorem ext_mods_persist : forall fx g o f s,
  lookup String.eqb f (ext_mods (mods g)) = Some s -> lookup String.eqb f (ext_mods (mods (fst (step_with fx g o)))) = Some s.
Proof.
  intros fx g o f s H. destruct o; cbn [step_with new_obj].
  - match goal with |- context [compile_obj ?G ?O ?M ?V ?C] => destruct (compile_obj_frame G O M V C) as (_ & _ & _ & D & _) end.
    rewrite D. exact H.
  - match goal with |- context [compile_obj ?G ?O ?M ?V ?C] => destruct (compile_obj_frame G O M V C) as (_ & _ & _ & D & _) end.
    rewrite D. exact H.
  - match goal with |- context [compile_obj ?G ?O ?M ?V ?C] => destruct (compile_obj_frame G O M V C) as (_ & _ & _ & D & _) end.
    rewrite D. exact H.
  - rewrite compile_in_fst.
    match goal with |- context [compile_obj ?G ?O ?M ?V ?C] => destruct (compile_obj_frame G O M V C) as (_ & _ & _ & D & _) end.
    rewrite D. exact H.
  - unfold fstep_k. cbn [new_obj]. apply fcompile_obj_ext. cbn. exact H.
  - unfold from_yaml, from_yaml_k. destruct fixed_yaml_copy; destruct (template_cache g); cbn;
      match goal with |- context [compile_obj ?G ?O ?M ?V ?C] => destruct (compile_obj_frame G O M V C) as (_ & _ & _ & D & _) end;
      rewrite D; exact H.
  - unfold from_yaml, from_yaml_k. destruct fixed_yaml_copy; destruct (template_cache g); cbn; exact H.
  - destruct (handle g h); [destruct (has_ir g n)|]; destruct fx; cbn; exact H.
  - destruct (handle g h); [destruct (has_ir g n)|]; destruct fx; cbn; exact H.
  - cbn. exact H.
Qed.

(* ------------------------------------------------------------------ a syntactic guard: disciplined histories *)
(* errors that matter: a compilation that raises leaves the caches dirty (the clear=True never runs) *)
Fixpoint no_compile_error_with (fx : bool) (h : list hop) (g : G) : bool :=
  match h with
  | [] => true
  | o :: h' => (match o with MClear _ => true | _ => negb (is_err (snd (step_with fx g o))) end) &&
               no_compile_error_with fx h' (fst (step_with fx g o))
  end.
Definition no_compile_error := no_compile_error_with fixed_clear.

Lemma not_err : forall o, is_err o = false -> forall c, o <> OErr c.
Proof. intros o H c E. subst. discriminate. Qed.

Lemma from_yaml_caches : forall g, caches_clean (fst (from_yaml g)) = caches_clean g /\
  (template_clean g = true -> template_clean (fst (from_yaml g)) = true) /\
  template_cache (fst (from_yaml g)) = Some (snd (from_yaml g)) /\
  (template_clean g = true -> tc_kA (snd (from_yaml g)) = None).
Proof.
  intros g. unfold from_yaml, from_yaml_k, template_clean. destruct (template_cache g) as [e|] eqn:E; [destruct fixed_yaml_copy|]; cbn.
  - repeat split; auto.
  - rewrite E. repeat split; auto. destruct (tc_kA e); [discriminate|reflexivity].
  - repeat split; auto.
Qed.

Lemma clear_frontend_clean : forall g, sys_py (mods g) = [] -> caches_clean (clear_frontend g) = true.
Proof. intros g H. unfold caches_clean. cbn. rewrite H. reflexivity. Qed.

Lemma disciplined_inv : forall fx h g tmut,
  caches_clean g = true -> (tmut = false -> template_clean g = true) ->
  disciplined tmut h = true -> no_compile_error_with fx h g = true ->
  clean (run_hist_with fx h g) = true.
Proof.
  induction h as [|o h IH]; intros g tmut Hc Ht Hd Hn.
  - cbn in *. unfold clean. rewrite Hc. cbn. apply Ht. destruct tmut; [discriminate|reflexivity].
  - cbn [run_hist_with fold_left].
    change (fold_left (fun g o => fst (step_with fx g o)) h (fst (step_with fx g o))) with (run_hist_with fx h (fst (step_with fx g o))).
    cbn [no_compile_error_with] in Hn. apply andb_true_iff in Hn as [Hn1 Hn2].
    pose proof (caches_clean_fields g Hc) as (A & B & C & D & E & F & P).
    destruct o as [m vec clr ip|m vec clr ip|m vec clr ip|m vec clr ip|m file clr|clr|v|hh|hh|tc ic]; cbn [disciplined] in Hd.
    + apply andb_true_iff in Hd as [Hclr Hd]. subst clr.
      apply negb_true_iff in Hn1. cbn [step_with new_obj] in *.
      match type of Hn1 with is_err (snd (compile_obj ?G ?O _ _ _)) = _ =>
        destruct (compile_obj_clean G O m vec P (not_err _ Hn1)) as (K1 & K2 & _) end.
      eapply IH; eauto. intros X. unfold template_clean. rewrite K2. cbn. apply Ht. exact X.
    + apply andb_true_iff in Hd as [Hclr Hd]. subst clr.
      apply negb_true_iff in Hn1. cbn [step_with new_obj] in *.
      match type of Hn1 with is_err (snd (compile_obj ?G ?O _ _ _)) = _ =>
        destruct (compile_obj_clean G O m vec P (not_err _ Hn1)) as (K1 & K2 & _) end.
      eapply IH; eauto. intros X. unfold template_clean. rewrite K2. cbn. apply Ht. exact X.
    + apply andb_true_iff in Hd as [Hclr Hd]. subst clr.
      apply negb_true_iff in Hn1. cbn [step_with new_obj] in *.
      match type of Hn1 with is_err (snd (compile_obj ?G ?O _ _ _)) = _ =>
        destruct (compile_obj_clean G O m vec P (not_err _ Hn1)) as (K1 & K2 & _) end.
      eapply IH; eauto. intros X. unfold template_clean. rewrite K2. cbn. apply Ht. exact X.
    + apply andb_true_iff in Hd as [Hclr Hd]. subst clr.
      apply negb_true_iff in Hn1. cbn [step_with new_obj] in *.
      rewrite compile_in_err in Hn1. rewrite compile_in_fst in *.
      match type of Hn1 with is_err (snd (compile_obj ?G ?O _ _ _)) = _ =>
        destruct (compile_obj_clean G O m vec P (not_err _ Hn1)) as (K1 & K2 & _) end.
      eapply IH; eauto. intros X. unfold template_clean. rewrite K2. cbn. apply Ht. exact X.
    + apply andb_true_iff in Hd as [Hclr Hd]. subst clr.
      apply negb_true_iff in Hn1. cbn [step_with] in *. unfold fstep_k in *. cbn [new_obj] in *.
      match type of Hn1 with is_err (snd (fcompile_obj_k ?FD ?G ?O _ _ _)) = _ =>
        destruct (fcompile_obj_clean FD G O m file P (not_err _ Hn1)) as (K1 & K2) end.
      eapply IH; eauto. intros X. unfold template_clean. rewrite K2. cbn. apply Ht. exact X.
    + apply andb_true_iff in Hd as [Hclr Hd]. subst clr.
      apply negb_true_iff in Hn1. cbn [step_with] in *.
      destruct (from_yaml_caches g) as (F1 & F2 & F3 & F4).
      assert (P1 : sys_py (mods (fst (from_yaml g))) = []).
      { unfold from_yaml, from_yaml_k. destruct fixed_yaml_copy; destruct (template_cache g); cbn; exact P. }
      destruct (from_yaml g) as [g1 e]. cbn [fst snd] in *.
      match type of Hn1 with is_err (snd (compile_obj ?G ?O ?M _ _)) = _ =>
        destruct (compile_obj_clean G O M false P1 (not_err _ Hn1)) as (K1 & K2 & _) end.
      eapply IH; eauto. intros X. unfold template_clean. rewrite K2. cbn. rewrite F3.
      rewrite F4; [reflexivity|]. apply Ht. exact X.
    + cbn [step_with] in *. destruct (from_yaml_caches g) as (F1 & F2 & F3 & F4).
      destruct (from_yaml g) as [g1 e]. cbn [fst snd] in *.
      eapply IH with (tmut := true); eauto; try discriminate.
    + cbn [step_with] in *.
      assert (K : caches_clean (fst (match handle g hh with
                  | Some ob => if has_ir g ob then (set_ir ob false (clear_caches ob g), OAck)
                               else if fx then (clear_frontend g, OAck) else (g, OErr "AttributeError")
                  | None => if fx then (clear_frontend g, OAck) else (g, OErr "AttributeError") end)) = true /\
                  template_cache (fst (match handle g hh with
                  | Some ob => if has_ir g ob then (set_ir ob false (clear_caches ob g), OAck)
                               else if fx then (clear_frontend g, OAck) else (g, OErr "AttributeError")
                  | None => if fx then (clear_frontend g, OAck) else (g, OErr "AttributeError") end)) = template_cache g).
      { destruct (handle g hh) as [ob|]; [destruct (has_ir g ob)|]; destruct fx; cbn; split; auto;
          try (apply clear_frontend_clean; exact P); unfold caches_clean; cbn; rewrite P; reflexivity. }
      destruct K as [K1 K2]. eapply IH; eauto. intros X. unfold template_clean. rewrite K2. apply Ht. exact X.
    + cbn [step_with] in *.
      assert (K : clean (fst (match handle g hh with
                  | Some ob => if has_ir g ob then (cfc_with fx true true (set_ir ob false (clear_caches ob g)), OAck)
                               else (cfc_with fx true true (if fx then clear_frontend g else g), OAck)
                  | None => (cfc_with fx true true (if fx then clear_frontend g else g), OAck) end)) = true).
      { destruct (handle g hh) as [ob|]; [destruct (has_ir g ob)|]; destruct fx; cbn; unfold clean, caches_clean, template_clean; cbn;
          rewrite ?A, ?B, ?C, ?D, ?E, ?F, ?P; reflexivity. }
      unfold clean in K. apply andb_true_iff in K as [K1 K2].
      eapply IH with (tmut := false); eauto.
    + cbn [step_with fst] in *.
      eapply IH with (tmut := tmut && negb tc); eauto.
      * unfold caches_clean, cfc_with. cbn. rewrite A, B, C, D, E, F, P. destruct ic, fx; reflexivity.
      * intros X. unfold template_clean, cfc_with. cbn. destruct tc; [reflexivity|].
        apply Ht. destruct tmut; [discriminate|reflexivity].
Qed.

Theorem disciplined_compatible : forall h, disciplined false h = true -> no_compile_error h G0 = true -> Compatible h = true.
Proof.
  intros h Hd Hn. change (Compatible h) with (clean (run_hist_with fixed_clear h G0)).
  eapply disciplined_inv; eauto.
Qed.

(* ------------------------------------------------------------------ the operator cache with the structural key (second switch) *)
Definition own_def (nd : mnode) : expr * list Qc := (m_eq nd, [match m_over nd with Some v => v | None => m_kdef nd end]).

Lemma phase1_fixed_gen : forall nodec l s,
  map (fun c => (n_eq c, n_units c)) (s_circ (fold_left (node_step_k true nodec false) l s)) =
  (map (fun c => (n_eq c, n_units c)) (s_circ s) ++ map own_def l)%list.
Proof.
  induction l as [|nd l IH]; intros s; cbn [fold_left map]; [rewrite app_nil_r; reflexivity|].
  rewrite IH. unfold node_step_k. cbn. destruct (unique_label (m_label nd) (s_labels s)) as [lab labels'].
  cbn. rewrite map_app. cbn. rewrite <- app_assoc. reflexivity.
Qed.

(* with the structural key every IR node carries its own operator's equation and its own default (or node-level) value,
   whatever the operator cache holds: for all models and all cache contents *)
Theorem op_cache_key_fixed : forall opc m, map (fun c => (n_eq c, n_units c)) (phase1_k true opc m) = map own_def (m_nodes m).
Proof. intros. unfold phase1_k. rewrite phase1_fixed_gen. reflexivity. Qed.

(* ------------------------------------------------------------------ glue for the computed refutations *)
Lemma Qc_eqb_refl : forall q, Qc_eqb q q = true.
Proof. intros. unfold Qc_eqb. apply Qeq_bool_iff. reflexivity. Qed.

Lemma list_eqb_refl : forall A (f : A -> A -> bool), (forall a, f a a = true) -> forall l, list_eqb f l l = true.
Proof.
  intros A f H l. unfold list_eqb. rewrite Nat.eqb_refl. cbn.
  induction l as [|a l IH]; cbn; [reflexivity|]. rewrite H. exact IH.
Qed.

Lemma obs_eqb_refl : forall o, obs_eqb o o = true.
Proof.
  destruct o; cbn; [apply String.eqb_refl|reflexivity|].
  rewrite (list_eqb_refl _ _ String.eqb_refl).
  rewrite (list_eqb_refl _ _ (list_eqb_refl _ _ Qc_eqb_refl)).
  rewrite (list_eqb_refl _ _ Qc_eqb_refl).
  rewrite list_eqb_refl; [reflexivity|].
  intros [[s a] b]. cbn. rewrite String.eqb_refl, !Nat.eqb_refl. reflexivity.
Qed.

Lemma obs_neq : forall a b, obs_eqb a b = false -> a <> b.
Proof. intros a b H E. subst. rewrite obs_eqb_refl in H. discriminate. Qed.
