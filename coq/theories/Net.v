(* Net.v — Spec of C01: a scalar network as the user writes it, and what its equations mean.

   A network is a list of nodes; a node is an ordered list of operators; an operator declares variables
   (state variable = has a differential equation, algebraic variable = defined by an assignment, constant, input)
   and equations `x' = e` (DE) / `v = e` (ALG) with polynomial right-hand sides; weighted edges connect a
   (node, operator, variable) to an input variable.  Hierarchy (nested circuits) only prefixes names: `flatten`.

   Denotation (`deriv`):
     * the derivative of a state variable is the value of its own equation's right-hand side;
     * a state variable evaluates to the state, a constant to its parameter value;
     * an algebraic variable evaluates to its defining expression;
     * an input variable evaluates to   Σ same-node producers  +  Σ over ALL edges into it of weight * source,
       or to its declared default (a parameter) when nothing connects to it.  A producer of input `a` of an
       operator is any operator of the same node whose output variable is named `a` (OperatorGraph.__init__).
   Evaluation follows the dependencies with explicit fuel (None = cyclic model, rejected by `wf`).

   `value_with inp` is the evaluation skeleton with the input-variable rule `inp` left open: the Spec instantiates
   it with `input_spec` (two lines, below), the mechanism model of Edges.v with what the code does. *)
From Coq Require Import List String ZArith QArith Qcanon Bool Arith.
From PV Require Import Expr.
Import ListNotations.
Open Scope string_scope.

Inductive vkind := VState | VConst | VInput | VAlg.
Record vdecl := { vname : string; vk : vkind; vval : Qc }.
Record eqn := { lhs : string; is_de : bool; rhs : expr }.
Record oper := { oname : string; ovars : list vdecl; oeqs : list eqn; oout : option string }.
Definition vid := (string * string * string)%type.          (* node path, operator, variable *)
Record edge := { esrc : vid; etgt : vid; ew : Qc }.
Record net := { nnodes : list (string * list oper); nedges : list edge }.

Definition vid_eqb (a b : vid) : bool :=
  let '(n1, o1, x1) := a in let '(n2, o2, x2) := b in String.eqb n1 n2 && String.eqb o1 o2 && String.eqb x1 x2.
Definition vkind_eqb (a b : vkind) : bool :=
  match a, b with VState, VState | VConst, VConst | VInput, VInput | VAlg, VAlg => true | _, _ => false end.
Definition vnode (v : vid) : string := fst (fst v).

(* ---------------------------------------------------------------------------------------------- hierarchy *)
(* a node of a template: operators with node-level value overrides (NodeTemplate(operators={op: {var: value}})) *)
Definition tnode := (string * list (oper * list (string * Qc)))%type.
Inductive circuit := Circ (nodes : list tnode) (subs : list (string * circuit)) (edges : list edge).

Definition override (ov : list (string * Qc)) (d : vdecl) : vdecl :=
  match find (fun p => String.eqb (fst p) (vname d)) ov with
  | Some p => {| vname := vname d; vk := vk d; vval := snd p |}
  | None => d
  end.
Definition inst (p : oper * list (string * Qc)) : oper :=
  {| oname := oname (fst p); ovars := map (override (snd p)) (ovars (fst p)); oeqs := oeqs (fst p); oout := oout (fst p) |}.

Definition pvid (pre : string) (v : vid) : vid := let '(n, o, x) := v in (pre ++ n, o, x).
Definition pedge (pre : string) (e : edge) : edge := {| esrc := pvid pre (esrc e); etgt := pvid pre (etgt e); ew := ew e |}.

(* node order of get_nodes(['all']); edge order of collect_edges: own edges first, then the sub-circuits' *)
Fixpoint flat_nodes (pre : string) (c : circuit) : list (string * list oper) :=
  match c with
  | Circ ns subs _ =>
      app (map (fun nd : tnode => (pre ++ fst nd, map inst (snd nd))) ns)
      ((fix go (l : list (string * circuit)) : list (string * list oper) :=
         match l with [] => [] | (sn, sc) :: l' => app (flat_nodes (pre ++ sn ++ "/") sc) (go l') end) subs)
  end.
Fixpoint flat_edges (pre : string) (c : circuit) : list edge :=
  match c with
  | Circ _ subs es =>
      app (map (pedge pre) es)
      ((fix go (l : list (string * circuit)) : list edge :=
         match l with [] => [] | (sn, sc) :: l' => app (flat_edges (pre ++ sn ++ "/") sc) (go l') end) subs)
  end.
Definition flatten (c : circuit) : net := {| nnodes := flat_nodes "" c; nedges := flat_edges "" c |}.

(* ---------------------------------------------------------------------------------------------- lookup *)
Definition find_ops (n : net) (nd : string) : option (list oper) :=
  option_map snd (find (fun p => String.eqb (fst p) nd) (nnodes n)).
Definition find_op (ops : list oper) (o : string) : option oper := find (fun op => String.eqb (oname op) o) ops.
Definition find_var (op : oper) (x : string) : option vdecl := find (fun d => String.eqb (vname d) x) (ovars op).
Definition find_eq (op : oper) (x : string) (de : bool) : option eqn :=
  find (fun q => String.eqb (lhs q) x && Bool.eqb (is_de q) de) (oeqs op).
Definition lookup (n : net) (v : vid) : option (list oper * oper * vdecl) :=
  let '(nd, o, x) := v in
  obind (find_ops n nd) (fun ops => obind (find_op ops o) (fun op => obind (find_var op x) (fun d => Some (ops, op, d)))).
Definition declared (n : net) (v : vid) : option Qc := option_map (fun t => vval (snd t)) (lookup n v).

Definition outputs (x : string) (o : oper) : bool :=
  match oout o with Some y => String.eqb y x | None => false end.
Definition producers (nd : string) (ops : list oper) (x : string) : list vid :=
  map (fun o => (nd, oname o, x)) (filter (outputs x) ops).
Definition in_edges (n : net) (v : vid) : list edge := filter (fun e => vid_eqb (etgt e) v) (nedges n).

(* ---------------------------------------------------------------------------------------------- denotation *)
Definition input_rule := (vid -> option Qc) -> vid -> list vid -> option Qc.

Section Den.
  Variable n : net.
  Variable st pa : vid -> Qc.          (* state vector and parameter values, addressed by variable *)

  (* THE SPEC of an input variable *)
  Definition input_spec : input_rule := fun sv v prods =>
    match prods, in_edges n v with
    | [], [] => Some (pa v)
    | _, es => olift2 Qcplus (osum (map sv prods)) (osum (map (fun e => oscale (ew e) (sv (esrc e))) es))
    end.

  Variable inp : input_rule.

  Fixpoint value_with (fuel : nat) (v : vid) : option Qc :=
    match fuel with
    | O => None
    | S f =>
        match lookup n v with
        | None => None
        | Some (ops, op, d) =>
            let '(nd, o, x) := v in
            match vk d with
            | VState => Some (st v)
            | VConst => Some (pa v)
            | VAlg => obind (find_eq op x false) (fun q => eval (fun y => value_with f (nd, o, y)) (rhs q))
            | VInput => inp (value_with f) v (producers nd ops x)
            end
        end
    end.

  Definition deriv_with (fuel : nat) (v : vid) : option Qc :=
    match lookup n v with
    | None => None
    | Some (_, op, _) =>
        let '(nd, o, x) := v in
        obind (find_eq op x true) (fun q => eval (fun y => value_with fuel (nd, o, y)) (rhs q))
    end.
End Den.

Definition all_vars (n : net) : list (vid * vdecl) :=
  flat_map (fun p : string * list oper =>
              flat_map (fun o => map (fun d => ((fst p, oname o, vname d), d)) (ovars o)) (snd p)) (nnodes n).
Definition fuel_of (n : net) : nat := S (List.length (all_vars n)).
Definition state_vars (n : net) : list vid :=
  map fst (filter (fun p => vkind_eqb (vk (snd p)) VState) (all_vars n)).

Definition value (n : net) (st pa : vid -> Qc) : vid -> option Qc := value_with n st pa (input_spec n pa) (fuel_of n).
Definition deriv (n : net) (st pa : vid -> Qc) : vid -> option Qc := deriv_with n st pa (input_spec n pa) (fuel_of n).

(* ---------------------------------------------------------------------------------------------- well-formedness *)
Fixpoint nodupb (l : list string) : bool :=
  match l with [] => true | x :: l' => negb (existsb (String.eqb x) l') && nodupb l' end.
Definition count {A} (f : A -> bool) (l : list A) : nat := List.length (filter f l).

Definition wf_oper (o : oper) : bool :=
  nodupb (map vname (ovars o)) &&
  forallb (fun q => match find_var o (lhs q) with
                    | Some d => vkind_eqb (vk d) (if is_de q then VState else VAlg)
                    | None => false end &&
                    forallb (fun y => match find_var o y with Some _ => true | None => false end) (fv (rhs q))) (oeqs o) &&
  forallb (fun d => match vk d with
                    | VState | VAlg => (count (fun q => String.eqb (lhs q) (vname d)) (oeqs o) =? 1)%nat
                    | _ => (count (fun q => String.eqb (lhs q) (vname d)) (oeqs o) =? 0)%nat end) (ovars o) &&
  match oout o with
  | Some x => match find_var o x with Some d => vkind_eqb (vk d) VState || vkind_eqb (vk d) VAlg | None => false end
  | None => true
  end.

Definition zero_env : vid -> Qc := fun _ => 0%Qc.
Definition is_some {A} (a : option A) : bool := match a with Some _ => true | None => false end.

Definition wf (n : net) : bool :=
  nodupb (map fst (nnodes n)) &&
  forallb (fun p : string * list oper =>
             negb (match snd p with [] => true | _ => false end) &&
             nodupb (map oname (snd p)) && forallb wf_oper (snd p)) (nnodes n) &&
  forallb (fun e => match lookup n (esrc e), lookup n (etgt e) with
                    | Some (_, _, ds), Some (_, _, dt) =>
                        (vkind_eqb (vk ds) VState || vkind_eqb (vk ds) VAlg) && vkind_eqb (vk dt) VInput
                    | _, _ => false end) (nedges n) &&
  negb (match state_vars n with [] => true | _ => false end) &&
  (* acyclic operator graphs and algebraic definitions: every derivative is defined *)
  forallb (fun v => is_some (deriv n zero_env zero_env v)) (state_vars n) &&
  forallb (fun p => is_some (value n zero_env zero_env (fst p))) (all_vars n).

(* ---------------------------------------------------------------------------------------------- harness helpers *)
Definition mkq (num : Z) (den : positive) : Qc := Q2Qc (num # den).
Definition qc_eqb (a b : Qc) : bool := Qeq_bool (this a) (this b).
Definition oqc_eqb (a b : option Qc) : bool :=
  match a, b with Some x, Some y => qc_eqb x y | None, None => true | _, _ => false end.
Definition assoc_env (l : list (vid * Qc)) (dflt : vid -> Qc) : vid -> Qc :=
  fun v => match find (fun p => vid_eqb (fst p) v) l with Some p => snd p | None => dflt v end.
Definition declared_env (n : net) : vid -> Qc := fun v => match declared n v with Some q => q | None => 0%Qc end.
