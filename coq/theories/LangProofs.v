(* LangProofs.v — proofs about Lang.v (C05) *)
From Coq Require Import List ZArith QArith Qcanon Bool Arith Ascii String Lia Permutation.
From PV Require Import Lang.
Import ListNotations.
