(* LangProofs.v — proofs about Lang.v (C05).
   1. eval is invariant under permutation of the terms of a sum / factors of a product
   2. Python string helpers; lhs forms: `d/dt * x = r` and `x' = r` classify identically as (x, DE, r)
   3. tokenizer: tokenize (render sp pw ts) = Some ts for every spacing / power-notation oracle
   4. parser: parse_toks (pr 0 ps e) = Some e for every parenthesisation oracle (operator subset: no calls)
   5. parse (print style e) = Some e; call surgery replaces exactly the call when the argument text has no `)` *)
From Coq Require Import List ZArith QArith Qcanon Bool Arith Ascii String Lia Permutation.
From PV Require Import Lang.
Import ListNotations.
Open Scope char_scope.
Open Scope list_scope.
Open Scope nat_scope.

(* ================================================================== part LP1 *)
(* ------------------------------------------------------------------ evaluation: order of terms / factors *)
Lemma oadd_comm a b : oadd a b = oadd b a.
Proof. destruct a, b; simpl; try reflexivity. f_equal. ring. Qed.
Lemma oadd_assoc a b c : oadd (oadd a b) c = oadd a (oadd b c).
Proof. destruct a, b, c; simpl; try reflexivity. f_equal. ring. Qed.
Lemma omul_comm a b : omul a b = omul b a.
Proof. destruct a, b; simpl; try reflexivity. f_equal. ring. Qed.
Lemma omul_assoc a b c : omul (omul a b) c = omul a (omul b c).
Proof. destruct a, b, c; simpl; try reflexivity. f_equal. ring. Qed.

Lemma fold_left_perm (f : option Qc -> option Qc -> option Qc)
  (fc : forall a b, f a b = f b a) (fa : forall a b c, f (f a b) c = f a (f b c)) :
  forall l l', Permutation l l' -> forall x, fold_left f l x = fold_left f l' x.
Proof.
  induction 1; intros; simpl; auto.
  - f_equal. rewrite !fa. f_equal. apply fc.
  - rewrite IHPermutation1. apply IHPermutation2.
Qed.

Lemma eval_sum_of cx : forall l a,
  eval cx (sum_of a l) = fold_left oadd (map (eval cx) l) (eval cx a).
Proof. induction l; simpl; intros; auto. rewrite IHl. reflexivity. Qed.
Lemma eval_prod_of cx : forall l a,
  eval cx (prod_of a l) = fold_left omul (map (eval cx) l) (eval cx a).
Proof. induction l; simpl; intros; auto. rewrite IHl. reflexivity. Qed.

Lemma num0 : num_val ["0"] [] = 0%Qc.
Proof. apply Qc_is_canon. reflexivity. Qed.
Lemma num1 : num_val ["1"] [] = 1%Qc.
Proof. apply Qc_is_canon. reflexivity. Qed.

Lemma eval_sum_list cx l :
  eval cx (sum_list l) = fold_left oadd (map (eval cx) l) (Some 0%Qc).
Proof.
  destruct l as [|a r]; simpl.
  - rewrite num0. reflexivity.
  - rewrite eval_sum_of. f_equal. destruct (eval cx a); simpl; [f_equal; ring|reflexivity].
Qed.
Lemma eval_prod_list cx l :
  eval cx (prod_list l) = fold_left omul (map (eval cx) l) (Some 1%Qc).
Proof.
  destruct l as [|a r]; simpl.
  - rewrite num1. reflexivity.
  - rewrite eval_prod_of. f_equal. destruct (eval cx a); simpl; [f_equal; ring|reflexivity].
Qed.

Theorem eval_sum_perm cx l l' : Permutation l l' ->
  eval cx (sum_list l) = eval cx (sum_list l').
Proof.
  intros P. rewrite !eval_sum_list. apply fold_left_perm; [apply oadd_comm|apply oadd_assoc|].
  apply Permutation_map, P.
Qed.
Theorem eval_prod_perm cx l l' : Permutation l l' ->
  eval cx (prod_list l) = eval cx (prod_list l').
Proof.
  intros P. rewrite !eval_prod_list. apply fold_left_perm; [apply omul_comm|apply omul_assoc|].
  apply Permutation_map, P.
Qed.


(* ================================================================== part LP2 *)
(* ------------------------------------------------------------------ Python string helpers *)
Definition notin (c : ascii) (s : str) : bool := forallb (fun d => negb (Ascii.eqb d c)) s.

Lemma notin_app c a b : notin c (a ++ b) = notin c a && notin c b.
Proof. apply forallb_app. Qed.

Lemma prefix_app p r : prefix p (p ++ r) = true.
Proof. induction p; simpl; auto. rewrite Ascii.eqb_refl. auto. Qed.

Lemma skipn_app_len (p r : str) : skipn (List.length p) (p ++ r) = r.
Proof. induction p; simpl; auto. Qed.

Lemma prefix_has c : forall p s, prefix p s = true -> In c p -> notin c s = false.
Proof.
  induction p as [|a p IH]; intros s H I; [destruct I|].
  destruct s as [|b s]; simpl in H; [discriminate|].
  apply andb_true_iff in H. destruct H as [E H]. apply Ascii.eqb_eq in E. subst b.
  simpl. destruct I as [->|I].
  - rewrite Ascii.eqb_refl. reflexivity.
  - rewrite (IH _ H I). apply andb_false_r.
Qed.

Lemma notin_tail c a s : notin c (a :: s) = true -> notin c s = true.
Proof. simpl. intros H. apply andb_true_iff in H. tauto. Qed.

Lemma find_absent c p : In c p -> forall s, notin c s = true -> find p s = None.
Proof.
  intros I. induction s as [|a s IH]; intros N.
  - simpl. destruct (prefix p []) eqn:E; auto. rewrite (prefix_has c _ _ E I) in N. discriminate.
  - simpl. destruct (prefix p (a :: s)) eqn:E.
    + rewrite (prefix_has c _ _ E I) in N. discriminate.
    + rewrite (IH (notin_tail _ _ _ N)). reflexivity.
Qed.
Lemma contains_absent c p s : In c p -> notin c s = true -> contains p s = false.
Proof. intros I N. unfold contains. rewrite (find_absent c p I s N). reflexivity. Qed.
Lemma split_first_absent c p : In c p -> forall s, notin c s = true -> split_first p s = None.
Proof.
  intros I. induction s as [|a s IH]; intros N.
  - simpl. destruct (prefix p []) eqn:E; auto. rewrite (prefix_has c _ _ E I) in N. discriminate.
  - simpl. destruct (prefix p (a :: s)) eqn:E.
    + rewrite (prefix_has c _ _ E I) in N. discriminate.
    + rewrite (IH (notin_tail _ _ _ N)). reflexivity.
Qed.

Lemma find_prefix p s : prefix p s = true -> find p s = Some 0%nat.
Proof. intros H. destruct s; simpl; rewrite H; reflexivity. Qed.

Lemma contains_mid p : forall l r, contains p (l ++ p ++ r) = true.
Proof.
  unfold contains. induction l as [|a l IH]; intros r.
  - cbn [app]. rewrite find_prefix; auto. apply prefix_app.
  - cbn [app find]. destruct (prefix p (a :: l ++ p ++ r)); auto.
    specialize (IH r). destruct (find p (l ++ p ++ r)); simpl; auto.
Qed.

(* splitting at the first occurrence: the pattern is a :: c :: q, and c does not occur in l *)
Lemma split_first_prefix p s : prefix p s = true -> split_first p s = Some ([], skipn (List.length p) s).
Proof. intros H. destruct s; simpl; rewrite H; reflexivity. Qed.
Lemma split_first_step p x s : prefix p (x :: s) = false ->
  split_first p (x :: s) = match split_first p s with Some (l, r) => Some (x :: l, r) | None => None end.
Proof. intros H. simpl. rewrite H. reflexivity. Qed.

Lemma split_first_mid p a c q : p = a :: c :: q -> forall l r, notin c l = true -> a <> c ->
  split_first p (l ++ p ++ r) = Some (l, r).
Proof.
  intros Ep. induction l as [|x l IH]; intros r N D.
  - rewrite app_nil_l. rewrite split_first_prefix by apply prefix_app. rewrite skipn_app_len. reflexivity.
  - rewrite <- app_comm_cons. rewrite split_first_step.
    + rewrite (IH r (notin_tail _ _ _ N) D). reflexivity.
    + subst p. cbn [prefix]. destruct (Ascii.eqb a x) eqn:E; auto. cbn [andb].
      destruct l as [|y l]; cbn [app].
      * cbn [prefix]. destruct (Ascii.eqb c a) eqn:E2; auto. apply Ascii.eqb_eq in E2. congruence.
      * cbn [prefix]. simpl in N. destruct (Ascii.eqb c y) eqn:E2; auto. apply Ascii.eqb_eq in E2. subst y.
        rewrite Ascii.eqb_refl in N. rewrite andb_false_r in N. discriminate.
Qed.

(* two-character patterns ?= cannot occur when the only `=` is the one in " = " *)
Lemma find2_no_eq a : forall r, notin "=" r = true -> find [a; "="] r = None.
Proof. intros. apply (find_absent "="); simpl; auto. Qed.

Lemma find_step p x s : prefix p (x :: s) = false -> find p (x :: s) = option_map S (find p s).
Proof. intros H. simpl. rewrite H. reflexivity. Qed.

Lemma prefix2_head a b x s : Ascii.eqb a x = false -> prefix [a; b] (x :: s) = false.
Proof. intros H. simpl. rewrite H. reflexivity. Qed.
Lemma prefix2_second a b x y s : Ascii.eqb b y = false -> prefix [a; b] (x :: y :: s) = false.
Proof. intros H. simpl. rewrite H. apply andb_false_r. Qed.
Lemma prefix2_short a b x : prefix [a; b] [x] = false.
Proof. simpl. apply andb_false_r. Qed.

Lemma contains2_assign a : a <> " " -> forall l r, notin "=" l = true -> notin "=" r = true ->
  contains [a; "="] (l ++ s2l " = " ++ r) = false.
Proof.
  intros D. assert (Da : Ascii.eqb a " " = false) by (destruct (Ascii.eqb a " ") eqn:E; auto; apply Ascii.eqb_eq in E; congruence).
  unfold contains. induction l as [|x l IH]; intros r Nl Nr.
  - change ([] ++ s2l " = " ++ r) with (" " :: "=" :: " " :: r).
    rewrite find_step by (apply prefix2_head; exact Da).
    rewrite find_step by (apply prefix2_second; reflexivity).
    rewrite find_step by (apply prefix2_head; exact Da).
    rewrite (find2_no_eq a r Nr). reflexivity.
  - rewrite <- app_comm_cons. rewrite find_step.
    + specialize (IH r (notin_tail _ _ _ Nl) Nr).
      destruct (find [a; "="] (l ++ s2l " = " ++ r)); [discriminate|reflexivity].
    + destruct l as [|y l].
      * change ([] ++ s2l " = " ++ r) with (" " :: "=" :: " " :: r). apply prefix2_second. reflexivity.
      * rewrite <- app_comm_cons. apply prefix2_second. simpl in Nl.
        destruct (Ascii.eqb y "=") eqn:E2.
        -- rewrite andb_false_r in Nl. discriminate.
        -- rewrite Ascii.eqb_sym. exact E2.
Qed.

Lemma remove_char_absent c : forall s, notin c s = true -> remove_char c s = s.
Proof.
  induction s as [|a s IH]; simpl; intros N; auto.
  apply andb_true_iff in N. destruct N as [N1 N2]. destruct (Ascii.eqb a c); [discriminate|]. rewrite IH; auto.
Qed.

Lemma replace_drop_last c : forall x n, notin c x = true -> (List.length x < n)%nat ->
  replace_fuel n [c] [] (x ++ [c]) = x.
Proof.
  induction x as [|a x IH]; intros n N L.
  - destruct n; [inversion L|]. cbn. rewrite Ascii.eqb_refl. cbn. destruct n; reflexivity.
  - destruct n; [inversion L|]. simpl in N. apply andb_true_iff in N. destruct N as [N1 N2].
    cbn [app replace_fuel prefix]. rewrite Ascii.eqb_sym. destruct (Ascii.eqb a c); [discriminate|]. cbn [andb].
    rewrite IH; auto. simpl in L. lia.
Qed.

(* identifiers consist of letters, digits, underscores: none of the characters the string handling looks for *)
Lemma idchar_notin c x : is_idchar c = false -> forallb is_idchar x = true -> notin c x = true.
Proof.
  intros H. induction x as [|a x IH]; simpl; auto. intros F. apply andb_true_iff in F. destruct F as [F1 F2].
  rewrite IH; auto. destruct (Ascii.eqb a c) eqn:E; auto. apply Ascii.eqb_eq in E. subst. congruence.
Qed.
Lemma wf_id_idchars x : wf_id x = true -> forallb is_idchar x = true.
Proof.
  destruct x as [|c cs]; simpl; [discriminate|]. intros H. apply andb_true_iff in H. destruct H as [A B].
  rewrite B. unfold is_idchar. rewrite A. reflexivity.
Qed.
Lemma wf_id_notin c x : is_idchar c = false -> wf_id x = true -> notin c x = true.
Proof. intros. apply idchar_notin; auto. apply wf_id_idchars; auto. Qed.

(* ------------------------------------------------------------------ lhs forms *)
Lemma split_equation_assign l r : notin "=" l = true -> notin "=" r = true ->
  split_equation (l ++ s2l " = " ++ r) = Some (l, r, ["="]).
Proof.
  intros Nl Nr. unfold split_equation, assign_type.
  change (s2l "+=") with ["+"; "="]. rewrite (contains2_assign "+"); auto; [|discriminate].
  assert (C : contains ["="] (l ++ s2l " = " ++ r) = true).
  { change (s2l " = ") with ([" "] ++ ["="] ++ [" "]). rewrite <- !app_assoc. rewrite (app_assoc l [" "]).
    apply contains_mid. }
  rewrite C. cbn [negb].
  assert (NA : not_assign_only (l ++ s2l " = " ++ r) = false).
  { unfold not_assign_only. cbn [existsb s2l list_ascii_of_string].
    rewrite (contains2_assign "<"), (contains2_assign ">"), (contains2_assign "="), (contains2_assign "!"); auto; discriminate. }
  rewrite NA. cbn [negb]. unfold split4. change (" " :: ["="] ++ [" "]) with (s2l " = ").
  rewrite (contains_mid (s2l " = ") l r).
  rewrite (split_first_mid (s2l " = ") " " "=" [" "]); auto. discriminate.
Qed.

Definition de_eqn (x r : str) : cres := CEqn {| e_lhs := x; e_key := x; e_de := true; e_rhs := r; e_asg := ["="] |}.

Lemma mk_eqn_id x r : wf_id x = true -> mk_eqn x r true ["="] = de_eqn x r.
Proof.
  intros W. unfold mk_eqn, de_eqn, before. cbn [str_eqb Ascii.eqb Bool.eqb andb negb].
  rewrite (split_first_absent "(" ["("]); [|simpl; auto|apply wf_id_notin; auto].
  rewrite (remove_char_absent " "); [reflexivity|apply wf_id_notin; auto].
Qed.

Theorem lhs_ddt leib x r : wf_id x = true -> notin "=" r = true ->
  classify_gen leib (s2l "d/dt * " ++ x ++ s2l " = " ++ r) = de_eqn x r.
Proof.
  intros W N. unfold classify_gen. rewrite (app_assoc (s2l "d/dt * ") x).
  rewrite split_equation_assign; auto.
  2:{ rewrite notin_app. rewrite (wf_id_notin "=" x); auto. }
  unfold classify_split.
  assert (C1 : contains (s2l "d/dt") (s2l "d/dt * " ++ x) = true)
    by (apply (contains_mid (s2l "d/dt") [] (s2l " * " ++ x))).
  assert (C2 : split_first ["*"] (s2l "d/dt * " ++ x) = Some (s2l "d/dt ", " " :: x)) by reflexivity.
  rewrite C1, C2.
  assert (R1 : remove_char "*" (" " :: x) = " " :: x) by (apply remove_char_absent; simpl; apply wf_id_notin; auto).
  rewrite R1. unfold mk_eqn, de_eqn, before. cbn [str_eqb Ascii.eqb Bool.eqb andb negb].
  assert (R2 : split_first ["("] (" " :: x) = None)
    by (apply (split_first_absent "("); [simpl; auto|simpl; apply wf_id_notin; auto]).
  rewrite R2.
  assert (R3 : remove_char " " (" " :: x) = x).
  { change (remove_char " " (" " :: x)) with (remove_char " " x). apply remove_char_absent. apply wf_id_notin; auto. }
  rewrite R3. reflexivity.
Qed.

Theorem lhs_prime leib x r : wf_id x = true -> notin "=" r = true ->
  classify_gen leib (x ++ s2l "' = " ++ r) = de_eqn x r.
Proof.
  intros W N. unfold classify_gen.
  change (s2l "' = ") with (["'"] ++ s2l " = "). rewrite <- app_assoc. rewrite (app_assoc x ["'"]).
  rewrite split_equation_assign; auto.
  2:{ rewrite notin_app. rewrite (wf_id_notin "=" x); auto. }
  unfold classify_split.
  rewrite (contains_absent "/" (s2l "d/dt")); [|simpl; auto|].
  2:{ rewrite notin_app. rewrite (wf_id_notin "/" x); auto. }
  replace (x ++ ["'"]) with (x ++ ["'"] ++ []) by reflexivity.
  rewrite (contains_mid ["'"] x []).
  unfold py_replace. rewrite replace_drop_last; [|apply wf_id_notin; auto|rewrite app_length; simpl; lia].
  apply mk_eqn_id; auto.
Qed.

Theorem lhs_forms x r : wf_id x = true -> notin "=" r = true ->
  classify (s2l "d/dt * " ++ x ++ s2l " = " ++ r) = classify (x ++ s2l "' = " ++ r) /\
  classify (x ++ s2l "' = " ++ r) = de_eqn x r.
Proof. intros. unfold classify. rewrite lhs_ddt, lhs_prime; auto. Qed.

(* the third notation dx/dt = r (after repair D154): same classification, provided x does not end in `d`
   (`dd/dt` contains the text d/dt and is taken for the first notation) *)
Fixpoint lastc (c0 : ascii) (x : str) : ascii := match x with [] => c0 | a :: x' => lastc a x' end.

Lemma split_first_fresh a q : forall l r, notin a l = true -> split_first (a :: q) (l ++ (a :: q) ++ r) = Some (l, r).
Proof.
  induction l as [|x l IH]; intros r N.
  - rewrite app_nil_l. rewrite split_first_prefix by apply prefix_app. rewrite skipn_app_len. reflexivity.
  - simpl in N. apply andb_true_iff in N. destruct N as [N1 N2]. rewrite <- app_comm_cons. rewrite split_first_step.
    + rewrite (IH r N2). reflexivity.
    + cbn [prefix]. apply negb_true_iff in N1. rewrite Ascii.eqb_sym, N1. reflexivity.
Qed.

Lemma find_ddt_none : forall x c0, notin "/" (c0 :: x) = true -> lastc c0 x <> "d" ->
  find (s2l "d/dt") ((c0 :: x) ++ s2l "/dt") = None.
Proof.
  induction x as [|a x IH]; intros c0 N L.
  - cbn [lastc] in L. destruct (Ascii.eqb "d" c0) eqn:E; [apply Ascii.eqb_eq in E; congruence|].
    change (([c0]) ++ s2l "/dt") with (c0 :: s2l "/dt"). rewrite find_step; [reflexivity|].
    change (s2l "d/dt") with ("d" :: s2l "/dt"). cbn [prefix]. rewrite E. reflexivity.
  - pose proof N as N'. cbn [notin forallb] in N. apply andb_true_iff in N. destruct N as [_ N].
    apply andb_true_iff in N. destruct N as [Na _]. apply negb_true_iff in Na.
    rewrite <- app_comm_cons. rewrite find_step.
    + rewrite (IH a (notin_tail _ _ _ N') L). reflexivity.
    + rewrite <- app_comm_cons. cbn [s2l list_ascii_of_string prefix]. rewrite (Ascii.eqb_sym "/" a), Na.
      cbn [andb]. apply andb_false_r.
Qed.

Theorem lhs_leibniz x r : wf_id x = true -> lastc "d" x <> "d" -> notin "=" r = true ->
  classify ("d" :: x ++ s2l "/dt = " ++ r) = de_eqn x r.
Proof.
  intros W L N. unfold classify, classify_gen.
  replace ("d" :: x ++ s2l "/dt = " ++ r) with ((("d" :: x) ++ s2l "/dt") ++ s2l " = " ++ r)
    by (rewrite <- !app_assoc; reflexivity).
  assert (NS : notin "/" ("d" :: x) = true) by (simpl; apply wf_id_notin; auto).
  rewrite split_equation_assign; auto.
  2:{ rewrite notin_app. simpl. rewrite (wf_id_notin "=" x); auto. }
  unfold classify_split.
  assert (C0 : contains (s2l "d/dt") (("d" :: x) ++ s2l "/dt") = false)
    by (unfold contains; rewrite find_ddt_none; auto).
  rewrite C0.
  rewrite (contains_absent "'" ["'"]); [|simpl; auto|rewrite notin_app; simpl; rewrite (wf_id_notin "'" x); auto].
  assert (C1 : contains ["d"] (("d" :: x) ++ s2l "/dt") = true) by (apply (contains_mid ["d"] [] (x ++ s2l "/dt"))).
  assert (C2 : contains (s2l "/dt") (("d" :: x) ++ s2l "/dt") = true)
    by (replace (("d" :: x) ++ s2l "/dt") with (("d" :: x) ++ s2l "/dt" ++ []) by (rewrite app_nil_r; reflexivity);
        apply contains_mid).
  rewrite C1, C2. cbn [andb]. unfold before.
  assert (SP : split_first (s2l "/dt") (("d" :: x) ++ s2l "/dt") = Some ("d" :: x, []))
    by (apply (split_first_fresh "/" (s2l "dt") ("d" :: x) [] NS)).
  rewrite SP.
  cbn [remove_first_char Ascii.eqb Bool.eqb andb]. apply mk_eqn_id; auto.
Qed.

Example lhs_leibniz_refuted_dd :
  classify (s2l "dd/dt = r") = CEqn {| e_lhs := []; e_key := []; e_de := true; e_rhs := s2l "r"; e_asg := ["="] |}.
Proof. vm_compute. reflexivity. Qed.

Example classify_other_forms :
  classify (s2l "x += 2*r") = CEqn {| e_lhs := s2l "x"; e_key := s2l "x"; e_de := false; e_rhs := s2l "2*r"; e_asg := s2l "+=" |} /\
  classify (s2l "x -= 1") = CEqn {| e_lhs := s2l "x-"; e_key := s2l "x-"; e_de := false; e_rhs := s2l "1"; e_asg := ["="] |} /\
  classify (s2l "r + 1") = CEqn {| e_lhs := s2l "x"; e_key := s2l "x"; e_de := false; e_rhs := s2l "r + 1"; e_asg := ["="] |} /\
  classify (s2l "d/dt * x += r") = CValueError /\
  classify (s2l "dx/dt = r") = de_eqn (s2l "x") (s2l "r") /\ classify_gen false (s2l "dx/dt = r") = CRaises.
Proof. repeat split; vm_compute; reflexivity. Qed.


(* ================================================================== part LP3 *)
(* ------------------------------------------------------------------ tokenizer *)
(* lexical well-formedness (what the tokenizer itself guarantees / needs) *)
Definition lwf_tok (t : tok) : bool :=
  match t with
  | TNum ip fp => match ip with [] => false | _ => forallb is_digit ip && forallb is_digit fp end
  | TId x => wf_id x
  | _ => true
  end.

Lemma wf_lwf t : wf_tok t = true -> lwf_tok t = true.
Proof.
  destruct t; simpl; auto. unfold wf_num. destruct ip; auto. intros H.
  apply andb_true_iff in H. tauto.
Qed.

Ltac neq_char := let E := fresh "E" in
  match goal with |- Ascii.eqb ?c ?k = false =>
    destruct (Ascii.eqb c k) eqn:E; [apply Ascii.eqb_eq in E; subst; discriminate|reflexivity] end.

Lemma digit_not_space c : is_digit c = true -> is_space c = false.
Proof. unfold is_digit, is_space. destruct (code c =? 32)%nat eqn:A, (code c =? 9)%nat eqn:B; auto;
  [apply Nat.eqb_eq in A; rewrite A|apply Nat.eqb_eq in A; rewrite A|apply Nat.eqb_eq in B; rewrite B]; discriminate. Qed.
Lemma alpha_not_space c : is_alpha c = true -> is_space c = false.
Proof. unfold is_alpha, is_space. destruct (code c =? 32)%nat eqn:A, (code c =? 9)%nat eqn:B; auto;
  [apply Nat.eqb_eq in A; rewrite A|apply Nat.eqb_eq in A; rewrite A|apply Nat.eqb_eq in B; rewrite B]; discriminate. Qed.
Lemma digit_not_alpha c : is_digit c = true -> is_alpha c = false.
Proof.
  unfold is_digit, is_alpha. intros H. apply andb_true_iff in H. destruct H as [A B].
  apply Nat.leb_le in A. apply Nat.leb_le in B.
  destruct (65 <=? code c)%nat eqn:C1; [apply Nat.leb_le in C1; lia|].
  destruct (97 <=? code c)%nat eqn:C2; [apply Nat.leb_le in C2; lia|].
  destruct (code c =? 95)%nat eqn:C3; [apply Nat.eqb_eq in C3; lia|]. reflexivity.
Qed.

Lemma not_alpha_not_e c : is_alpha c = false -> is_e c = false.
Proof.
  intros H. unfold is_e. destruct (Ascii.eqb c "e") eqn:E1; [apply Ascii.eqb_eq in E1; subst; discriminate|].
  destruct (Ascii.eqb c "E") eqn:E2; [apply Ascii.eqb_eq in E2; subst; discriminate|]. reflexivity.
Qed.

Lemma start_alpha c : is_alpha c = true -> start c = Some ([], SId [c]).
Proof. intros H. unfold start. rewrite (alpha_not_space c H), H. reflexivity. Qed.
Lemma start_digit c : is_digit c = true -> start c = Some ([], SNum [c]).
Proof. intros H. unfold start. rewrite (digit_not_space c H), (digit_not_alpha c H), H. reflexivity. Qed.

Lemma lex_nil_out st c s st' : step st c = Some ([], st') -> lex st (c :: s) = lex st' s.
Proof. intros H. simpl. rewrite H. destruct (lex st' s); reflexivity. Qed.
Lemma lex_one_out st c s t : step st c = Some ([t], S0) -> lex st (c :: s) = option_map (cons t) (lex S0 s).
Proof. intros H. simpl. rewrite H. destruct (lex S0 s); reflexivity. Qed.
Lemma lex_emit st c s t : step st c = emit t (start c) -> lex st (c :: s) = option_map (cons t) (lex S0 (c :: s)).
Proof.
  intros H. simpl. rewrite H. destruct (start c) as [[o st']|]; simpl; auto.
  destruct (lex st' s); reflexivity.
Qed.

Lemma lex_spaces n s : lex S0 (blanks n ++ s) = lex S0 s.
Proof. induction n; [reflexivity|]. unfold blanks in *. cbn [repeat app].
  rewrite (lex_nil_out S0 " " _ S0); auto. Qed.

Lemma lex_id_run : forall cs acc tail, forallb is_idchar cs = true ->
  lex (SId acc) (cs ++ tail) = lex (SId (acc ++ cs)) tail.
Proof.
  induction cs as [|c cs IH]; intros acc tail H; simpl app.
  - rewrite app_nil_r. reflexivity.
  - simpl in H. apply andb_true_iff in H. destruct H as [H1 H2].
    rewrite (lex_nil_out (SId acc) c _ (SId (acc ++ [c]))); [|simpl; rewrite H1; reflexivity].
    rewrite IH; auto. rewrite <- app_assoc. reflexivity.
Qed.
Lemma lex_num_run : forall cs acc tail, forallb is_digit cs = true ->
  lex (SNum acc) (cs ++ tail) = lex (SNum (acc ++ cs)) tail.
Proof.
  induction cs as [|c cs IH]; intros acc tail H; simpl app.
  - rewrite app_nil_r. reflexivity.
  - simpl in H. apply andb_true_iff in H. destruct H as [H1 H2].
    rewrite (lex_nil_out (SNum acc) c _ (SNum (acc ++ [c]))); [|simpl; rewrite H1; reflexivity].
    rewrite IH; auto. rewrite <- app_assoc. reflexivity.
Qed.
Lemma lex_frac_run : forall cs ip acc tail, forallb is_digit cs = true ->
  lex (SFrac ip acc) (cs ++ tail) = lex (SFrac ip (acc ++ cs)) tail.
Proof.
  induction cs as [|c cs IH]; intros ip acc tail H; simpl app.
  - rewrite app_nil_r. reflexivity.
  - simpl in H. apply andb_true_iff in H. destruct H as [H1 H2].
    rewrite (lex_nil_out (SFrac ip acc) c _ (SFrac ip (acc ++ [c]))); [|simpl; rewrite H1; reflexivity].
    rewrite IH; auto. rewrite <- app_assoc. reflexivity.
Qed.

(* a character that may follow a token without being absorbed into it *)
Definition term_ok (t : tok) (c : ascii) : bool :=
  match t with
  | TId _ => negb (is_idchar c)
  | TNum _ _ => negb (is_digit c) && negb (Ascii.eqb c ".") && negb (is_alpha c)
  | TMul => negb (Ascii.eqb c "*")
  | _ => true
  end.
Definition ends_ok (t : tok) (tail : str) : bool := match tail with [] => true | c :: _ => term_ok t c end.

Lemma lex_tok pw t tail : lwf_tok t = true -> ends_ok t tail = true ->
  lex S0 (tok_text pw t ++ tail) = option_map (cons t) (lex S0 tail).
Proof.
  intros W E. destruct t; try (cbn [tok_text app]; apply lex_one_out; reflexivity).
  - (* TNum *)
    simpl in W. destruct ip as [|d ds]; [discriminate|]. apply andb_true_iff in W. destruct W as [W1 W2].
    simpl in W1. apply andb_true_iff in W1. destruct W1 as [Wd Wds].
    assert (END : forall fp', ends_ok (TNum (d :: ds) fp') tail = true ->
             (forall c tl, tail = c :: tl -> step (SFrac (d :: ds) fp') c = emit (TNum (d :: ds) fp') (start c)) /\
             (forall c tl, tail = c :: tl -> step (SNum (d :: ds)) c = emit (TNum (d :: ds) []) (start c))).
    { intros fp' E'. split; intros c tl ->; simpl in E'; apply andb_true_iff in E'; destruct E' as [E1 E3];
        apply andb_true_iff in E1; destruct E1 as [E1 E2]; apply negb_true_iff in E1, E2, E3; simpl;
        rewrite E1, E2, E3, (not_alpha_not_e _ E3); reflexivity. }
    destruct fp as [|f fs].
    + cbn [tok_text]. rewrite <- app_comm_cons.
      rewrite (lex_nil_out S0 d _ (SNum [d])); [|simpl; apply start_digit; auto].
      rewrite lex_num_run; auto. cbn [app].
      destruct tail as [|c tl]; [reflexivity|].
      apply lex_emit. destruct (END [] E) as [_ H]. apply (H c tl eq_refl).
    + cbn [tok_text]. rewrite <- app_assoc. rewrite <- app_comm_cons.
      rewrite (lex_nil_out S0 d _ (SNum [d])); [|simpl; apply start_digit; auto].
      rewrite lex_num_run; auto. change ([d] ++ ds) with (d :: ds).
      change (("." :: f :: fs) ++ tail) with ("." :: ((f :: fs) ++ tail)).
      rewrite (lex_nil_out (SNum (d :: ds)) "." _ (SFrac (d :: ds) [])); [|reflexivity].
      rewrite lex_frac_run; auto. change ([] ++ f :: fs) with (f :: fs).
      destruct tail as [|c tl]; [reflexivity|].
      apply lex_emit. destruct (END (f :: fs) E) as [H _]. apply (H c tl eq_refl).
  - (* TId *)
    simpl in W. destruct x as [|c cs]; [discriminate|]. apply andb_true_iff in W. destruct W as [W1 W2].
    cbn [tok_text]. rewrite <- app_comm_cons.
    rewrite (lex_nil_out S0 c _ (SId [c])); [|simpl; apply start_alpha; auto].
    rewrite lex_id_run; auto. cbn [app].
    destruct tail as [|a tl]; [reflexivity|].
    apply lex_emit. simpl in E. apply negb_true_iff in E. simpl. rewrite E. reflexivity.
  - (* TMul *)
    cbn [tok_text app]. rewrite (lex_nil_out S0 "*" _ SStar); [|reflexivity].
    destruct tail as [|a tl]; [reflexivity|].
    apply lex_emit. simpl in E. apply negb_true_iff in E. simpl. rewrite E. reflexivity.
  - (* TPow *)
    destruct pw; cbn [tok_text app].
    + rewrite (lex_nil_out S0 "*" _ SStar); [|reflexivity]. apply lex_one_out. reflexivity.
    + apply lex_one_out. reflexivity.
Qed.

Lemma term_ok_space t : term_ok t " " = true.
Proof. destruct t; reflexivity. Qed.

Lemma alpha_not_star c : is_alpha c = true -> Ascii.eqb c "*" = false.
Proof. intros H. neq_char. Qed.
Lemma digit_not_star c : is_digit c = true -> Ascii.eqb c "*" = false.
Proof. intros H. neq_char. Qed.

Lemma first_char_ok pw t u rest : need_sep t u = false -> lwf_tok u = true ->
  ends_ok t (tok_text pw u ++ rest) = true.
Proof.
  intros N W. unfold need_sep in N. apply orb_false_iff in N. destruct N as [N1 N2].
  destruct t; try (unfold ends_ok; destruct (tok_text pw u ++ rest); reflexivity).
  - (* t = TNum *) simpl in N1. destruct u; try discriminate; try reflexivity. destruct pw; reflexivity.
  - (* t = TId *) simpl in N1. destruct u; try discriminate; try reflexivity. destruct pw; reflexivity.
  - (* t = TMul *) destruct u; try discriminate; try reflexivity.
    + simpl in W. destruct ip as [|d ds]; [discriminate|]. apply andb_true_iff in W. destruct W as [W1 _].
      simpl in W1. apply andb_true_iff in W1. destruct W1 as [Wd _].
      destruct fp; cbn [tok_text app ends_ok term_ok]; rewrite (digit_not_star d Wd); reflexivity.
    + simpl in W. destruct x as [|c cs]; [discriminate|]. apply andb_true_iff in W. destruct W as [W1 _].
      cbn [tok_text app ends_ok term_ok]. rewrite (alpha_not_star c W1). reflexivity.
Qed.

Lemma ends_ok_render sp pw i t r : forallb lwf_tok r = true -> ends_ok t (render sp pw i (Some t) r) = true.
Proof.
  intros W. destruct r as [|u r]; cbn [render].
  - destruct (sp i); [reflexivity|]. simpl. apply term_ok_space.
  - simpl in W. apply andb_true_iff in W. destruct W as [Wu _].
    destruct (need_sep t u) eqn:N.
    + rewrite Nat.add_1_r. simpl. apply term_ok_space.
    + rewrite Nat.add_0_r. destruct (sp i); [|simpl; apply term_ok_space].
      cbn [blanks repeat app]. apply first_char_ok; auto.
Qed.

Theorem lex_render sp pw : forall ts i prev, forallb lwf_tok ts = true ->
  lex S0 (render sp pw i prev ts) = Some ts.
Proof.
  induction ts as [|t r IH]; intros i prev W; cbn [render].
  - rewrite <- (app_nil_r (blanks (sp i))). rewrite lex_spaces. reflexivity.
  - pose proof W as W'. simpl in W. apply andb_true_iff in W. destruct W as [Wt Wr].
    rewrite lex_spaces. rewrite lex_tok; auto.
    + rewrite IH; auto.
    + apply ends_ok_render; auto.
Qed.

Theorem tokenize_render sp pw ts : forallb lwf_tok ts = true -> tokenize (render sp pw 0 None ts) = Some ts.
Proof. apply lex_render. Qed.

(* spacing and the spelling of the power operator do not matter *)
Theorem tokenize_respace sp pw sp' pw' ts : forallb lwf_tok ts = true ->
  tokenize (render sp pw 0 None ts) = tokenize (render sp' pw' 0 None ts).
Proof. intros. rewrite !tokenize_render; auto. Qed.

Theorem pow_same_token : tokenize (s2l "^") = Some [TPow] /\ tokenize (s2l "**") = Some [TPow].
Proof. split; reflexivity. Qed.


(* ================================================================== part LP4 *)
(* ------------------------------------------------------------------ parser: one-step unfoldings *)
Lemma pE_S n ts : pE (S n) ts = match pT n ts with Some (a, r) => pEl n a r | None => None end.
Proof. reflexivity. Qed.
Lemma pT_S n ts : pT (S n) ts = match pU n ts with Some (a, r) => pTl n a r | None => None end.
Proof. reflexivity. Qed.
Lemma pP_S n ts : pP (S n) ts =
  match pA n ts with
  | Some (a, TPow :: r) => match pU n r with Some (b, r') => Some (Pow a b, r') | None => None end
  | other => other
  end.
Proof. reflexivity. Qed.
Lemma pEl_plus n acc r : pEl (S n) acc (TPlus :: r) = match pT n r with Some (b, r') => pEl n (Add acc b) r' | None => None end.
Proof. reflexivity. Qed.
Lemma pEl_minus n acc r : pEl (S n) acc (TMinus :: r) = match pT n r with Some (b, r') => pEl n (Sub acc b) r' | None => None end.
Proof. reflexivity. Qed.
Lemma pTl_mul n acc r : pTl (S n) acc (TMul :: r) = match pU n r with Some (b, r') => pTl n (Mul acc b) r' | None => None end.
Proof. reflexivity. Qed.
Lemma pTl_div n acc r : pTl (S n) acc (TDiv :: r) = match pU n r with Some (b, r') => pTl n (Div acc b) r' | None => None end.
Proof. reflexivity. Qed.
Lemma pU_minus n r : pU (S n) (TMinus :: r) = match pU n r with Some (a, r') => Some (Neg a, r') | None => None end.
Proof. reflexivity. Qed.
Definition nosign (t : tok) : bool := match t with TMinus | TPlus => false | _ => true end.
Lemma pU_nominus n t r : nosign t = true -> pU (S n) (t :: r) = pP n (t :: r).
Proof. destruct t; try reflexivity; discriminate. Qed.
Lemma pA_paren n r : pA (S n) (TLp :: r) = match pE n r with Some (e, TRp :: r') => Some (e, r') | _ => None end.
Proof. reflexivity. Qed.

(* ------------------------------------------------------------------ contexts *)
Definition P (lvl : nat) : nat -> list tok -> pres :=
  match lvl with 0 => pE | 1 => pT | 2 => pU | 3 => pP | _ => pA end.
Definition loopk (lvl n : nat) (e : expr) (rest : list tok) : pres :=
  match lvl with 0 => pEl n e rest | 1 => pTl n e rest | _ => Some (e, rest) end.
(* tokens that would be absorbed by a level deeper than lvl *)
Definition deeper (lvl : nat) (t : tok) : bool :=
  match t with TLp => true | TPow => (lvl <? 4)%nat | TMul | TDiv => (lvl =? 0)%nat | _ => false end.
Definition stop (lvl : nat) (rest : list tok) : bool :=
  match rest with [] => true | t :: _ => negb (deeper lvl t) end.
Definition lvl_ok (l : nat) : Prop := l = 0 \/ l = 1 \/ l = 2 \/ l = 4.

Definition Concl (lvl : nat) (e : expr) (X : list tok) (c : nat) : Prop :=
  forall rest k res, stop lvl rest = true -> (forall m, m >= k -> loopk lvl m e rest = Some res) ->
  forall n, n >= c + k -> P lvl n (X ++ rest) = Some res.

Ltac rwc H := let HT := fresh "HT" in pose proof H as HT; cbn [P loopk] in HT; rewrite HT; clear HT.

Lemma concl_mono lvl e X c c' : Concl lvl e X c -> c <= c' -> Concl lvl e X c'.
Proof. intros H L rest k res S1 Lp n Hn. apply (H rest k res S1 Lp). lia. Qed.

Lemma stop_to2 lvl rest : lvl <= 2 -> stop lvl rest = true -> stop 2 rest = true.
Proof.
  intros L H. destruct rest as [|t r]; auto. destruct t; auto; simpl in *;
  destruct lvl as [|[|[|l]]]; simpl in *; try discriminate; auto; lia.
Qed.
Lemma stop_to1 rest : stop 0 rest = true -> stop 1 rest = true.
Proof. destruct rest as [|t r]; auto. destruct t; auto. Qed.
Lemma stop_to4 lvl rest : lvl <= 4 -> stop lvl rest = true -> stop 4 rest = true.
Proof.
  intros L H. destruct rest as [|t r]; auto. destruct t; auto; simpl in *.
Qed.

Lemma pTl_stop e rest : stop 0 rest = true -> forall m, m >= 1 -> pTl m e rest = Some (e, rest).
Proof.
  intros H m Hm. destruct m; [lia|]. destruct rest as [|t r]; [reflexivity|].
  destruct t; try reflexivity; discriminate.
Qed.
Lemma pEl_rp e rest : forall m, m >= 1 -> pEl m e (TRp :: rest) = Some (e, TRp :: rest).
Proof. intros m Hm. destruct m; [lia|]. reflexivity. Qed.
Lemma pEl_nil e : forall m, m >= 1 -> pEl m e [] = Some (e, []).
Proof. intros m Hm. destruct m; [lia|]. reflexivity. Qed.

Lemma pP_done n X e rest : pA n X = Some (e, rest) -> stop 2 rest = true -> pP (S n) X = Some (e, rest).
Proof.
  intros H S2. rewrite pP_S, H. destruct rest as [|t r]; auto. destruct t; auto. discriminate.
Qed.

(* from a result at the unary level to the contexts 0, 1, 2 *)
Lemma from_U e X c :
  (forall rest, stop 2 rest = true -> forall n, n >= c -> pU n (X ++ rest) = Some (e, rest)) ->
  forall lvl, lvl = 0 \/ lvl = 1 \/ lvl = 2 -> Concl lvl e X (c + 3).
Proof.
  intros U lvl [->|[->| ->]] rest k res S1 Lp n Hn.
  - (* 0 *) destruct n as [|n1]; [lia|]. cbn [P]. rewrite pE_S.
    destruct n1 as [|n2]; [lia|]. rewrite pT_S.
    rewrite (U rest (stop_to2 0 rest ltac:(lia) S1) n2 ltac:(lia)).
    rewrite (pTl_stop e rest S1 n2 ltac:(lia)). apply Lp. lia.
  - (* 1 *) destruct n as [|n1]; [lia|]. cbn [P]. rewrite pT_S.
    rewrite (U rest (stop_to2 1 rest ltac:(lia) S1) n1 ltac:(lia)). apply Lp. lia.
  - (* 2 *) cbn [P]. rewrite (U rest S1 n ltac:(lia)). specialize (Lp k (le_n k)). simpl in Lp. exact Lp.
Qed.

(* from the multiplicative level to the contexts 0, 1 *)
Lemma from_T e X c : Concl 1 e X c -> forall lvl, lvl = 0 \/ lvl = 1 -> Concl lvl e X (c + 2).
Proof.
  intros T lvl [->| ->].
  - intros rest k res S1 Lp n Hn. destruct n as [|n1]; [lia|]. cbn [P]. rewrite pE_S.
    rwc (T rest 1 (e, rest) (stop_to1 rest S1) (pTl_stop e rest S1) n1 ltac:(lia)). apply Lp. lia.
  - apply (concl_mono 1 e X c); auto. lia.
Qed.

Definition starts_nominus (X : list tok) : Prop :=
  forall Y, exists t r, X ++ Y = t :: r /\ nosign t = true.

Lemma from_A e X c :
  (forall rest, stop 4 rest = true -> forall n, n >= c -> pA n (X ++ rest) = Some (e, rest)) ->
  starts_nominus X -> forall lvl, lvl_ok lvl -> Concl lvl e X (c + 5).
Proof.
  intros A Hd lvl [->|[->|[->| ->]]].
  1-3: apply (concl_mono _ e X (c + 2 + 3)); [|lia]; apply from_U; auto;
    intros rest S2 n Hn; destruct n as [|n1]; [lia|]; destruct (Hd rest) as (t & r & E & NE);
    rewrite E, pU_nominus by auto; rewrite <- E; destruct n1 as [|n2]; [lia|];
    apply pP_done; auto; apply A; [apply (stop_to4 2); auto|lia].
  intros rest k res S1 Lp n Hn. cbn [P]. rewrite (A rest S1 n ltac:(lia)).
  specialize (Lp k (le_n k)). simpl in Lp. exact Lp.
Qed.

Lemma paren_concl e X c : Concl 0 e X c -> forall lvl, lvl_ok lvl -> Concl lvl e (TLp :: X ++ [TRp]) (c + 7).
Proof.
  intros C0 lvl OK. apply (concl_mono _ e _ (c + 2 + 5)); [|lia]. apply from_A; auto.
  - intros rest _ n Hn. destruct n as [|n1]; [lia|].
    replace ((TLp :: X ++ [TRp]) ++ rest) with (TLp :: (X ++ TRp :: rest)) by (simpl; rewrite <- app_assoc; reflexivity).
    rewrite pA_paren.
    rwc (C0 (TRp :: rest) 1 (e, TRp :: rest) eq_refl (pEl_rp e rest) n1 ltac:(lia)). reflexivity.
  - intros Y. exists TLp, ((X ++ [TRp]) ++ Y). split; reflexivity.
Qed.

Lemma wrap_concl e B c : Concl 0 e B c -> forall w lvl, lvl_ok lvl -> Concl lvl e (wrap (S w) B) (c + 7 * S w).
Proof.
  intros C0. induction w as [|w IH]; intros lvl OK.
  - apply (concl_mono _ e _ (c + 7)); [|lia]. apply (paren_concl e B c C0 lvl OK).
  - apply (concl_mono _ e _ (c + 7 * S w + 7)); [|lia].
    apply (paren_concl e (wrap (S w) B) _ (IH 0 (or_introl eq_refl)) lvl OK).
Qed.

(* ------------------------------------------------------------------ the constructors *)
Lemma good_num ip fp : wf_num ip fp = true -> forall lvl, lvl_ok lvl -> Concl lvl (Num ip fp) [TNum ip fp] 6.
Proof.
  intros W. apply (from_A _ _ 1).
  - intros rest _ n Hn. destruct n; [lia|]. simpl.
    unfold wf_num in W. destruct ip; [discriminate|]. apply andb_true_iff in W. destruct W as [_ W].
    apply negb_true_iff in W. rewrite W. reflexivity.
  - intros Y. exists (TNum ip fp), Y. split; reflexivity.
Qed.

Lemma good_var x : forall lvl, lvl_ok lvl -> Concl lvl (Var x) [TId x] 6.
Proof.
  apply (from_A _ _ 1).
  - intros rest S4 n Hn. destruct n; [lia|]. simpl. destruct rest as [|t r]; [reflexivity|].
    destruct t; try reflexivity. discriminate.
  - intros Y. exists (TId x), Y. split; reflexivity.
Qed.

Lemma good_neg a A ca : Concl 2 a A ca ->
  forall lvl, lvl = 0 \/ lvl = 1 \/ lvl = 2 -> Concl lvl (Neg a) (TMinus :: A) (ca + 4).
Proof.
  intros Ca lvl Hl. apply (concl_mono _ _ _ (ca + 1 + 3)); [|lia]. apply from_U; auto.
  intros rest S2 n Hn. destruct n as [|n1]; [lia|]. cbn [app]. rewrite pU_minus.
  rwc (Ca rest 0 (a, rest) S2 (fun _ _ => eq_refl) n1 ltac:(lia)). reflexivity.
Qed.

Lemma good_pow a b A B ca cb : Concl 4 a A ca -> Concl 2 b B cb -> starts_nominus A ->
  forall lvl, lvl = 0 \/ lvl = 1 \/ lvl = 2 -> Concl lvl (Pow a b) (A ++ TPow :: B) (ca + cb + 5).
Proof.
  intros Ca Cb Hd lvl Hl. apply (concl_mono _ _ _ (ca + cb + 2 + 3)); [|lia]. apply from_U; auto.
  intros rest S2 n Hn. destruct n as [|n1]; [lia|].
  replace ((A ++ TPow :: B) ++ rest) with (A ++ TPow :: B ++ rest) by (rewrite <- app_assoc; reflexivity).
  destruct (Hd (TPow :: B ++ rest)) as (t & r & E & NE). rewrite E, pU_nominus by auto. rewrite <- E.
  destruct n1 as [|n2]; [lia|]. rewrite pP_S.
  rwc (Ca (TPow :: B ++ rest) 0 (a, TPow :: B ++ rest) eq_refl (fun _ _ => eq_refl) n2 ltac:(lia)).
  rwc (Cb rest 0 (b, rest) S2 (fun _ _ => eq_refl) n2 ltac:(lia)). reflexivity.
Qed.

Lemma good_mul a b A B ca cb : Concl 1 a A ca -> Concl 2 b B cb ->
  forall lvl, lvl = 0 \/ lvl = 1 -> Concl lvl (Mul a b) (A ++ TMul :: B) (ca + cb + 3).
Proof.
  intros Ca Cb lvl Hl. apply (concl_mono _ _ _ (ca + cb + 1 + 2)); [|lia]. apply from_T; auto.
  intros rest k res S1 Lp n Hn.
  replace ((A ++ TMul :: B) ++ rest) with (A ++ TMul :: B ++ rest) by (rewrite <- app_assoc; reflexivity).
  apply (Ca (TMul :: B ++ rest) (cb + k + 1) res eq_refl); [|lia].
  intros m Hm. destruct m as [|m1]; [lia|]. cbn [loopk]. rewrite pTl_mul.
  rwc (Cb rest 0 (b, rest) (stop_to2 1 rest ltac:(lia) S1) (fun _ _ => eq_refl) m1 ltac:(lia)).
  apply Lp. lia.
Qed.
Lemma good_div a b A B ca cb : Concl 1 a A ca -> Concl 2 b B cb ->
  forall lvl, lvl = 0 \/ lvl = 1 -> Concl lvl (Div a b) (A ++ TDiv :: B) (ca + cb + 3).
Proof.
  intros Ca Cb lvl Hl. apply (concl_mono _ _ _ (ca + cb + 1 + 2)); [|lia]. apply from_T; auto.
  intros rest k res S1 Lp n Hn.
  replace ((A ++ TDiv :: B) ++ rest) with (A ++ TDiv :: B ++ rest) by (rewrite <- app_assoc; reflexivity).
  apply (Ca (TDiv :: B ++ rest) (cb + k + 1) res eq_refl); [|lia].
  intros m Hm. destruct m as [|m1]; [lia|]. cbn [loopk]. rewrite pTl_div.
  rwc (Cb rest 0 (b, rest) (stop_to2 1 rest ltac:(lia) S1) (fun _ _ => eq_refl) m1 ltac:(lia)).
  apply Lp. lia.
Qed.

Lemma good_add a b A B ca cb : Concl 0 a A ca -> Concl 1 b B cb ->
  Concl 0 (Add a b) (A ++ TPlus :: B) (ca + cb + 2).
Proof.
  intros Ca Cb rest k res S1 Lp n Hn.
  replace ((A ++ TPlus :: B) ++ rest) with (A ++ TPlus :: B ++ rest) by (rewrite <- app_assoc; reflexivity).
  apply (Ca (TPlus :: B ++ rest) (cb + k + 2) res eq_refl); [|lia].
  intros m Hm. destruct m as [|m1]; [lia|]. cbn [loopk]. rewrite pEl_plus.
  rwc (Cb rest 1 (b, rest) (stop_to1 rest S1) (pTl_stop b rest S1) m1 ltac:(lia)).
  apply Lp. lia.
Qed.
Lemma good_sub a b A B ca cb : Concl 0 a A ca -> Concl 1 b B cb ->
  Concl 0 (Sub a b) (A ++ TMinus :: B) (ca + cb + 2).
Proof.
  intros Ca Cb rest k res S1 Lp n Hn.
  replace ((A ++ TMinus :: B) ++ rest) with (A ++ TMinus :: B ++ rest) by (rewrite <- app_assoc; reflexivity).
  apply (Ca (TMinus :: B ++ rest) (cb + k + 2) res eq_refl); [|lia].
  intros m Hm. destruct m as [|m1]; [lia|]. cbn [loopk]. rewrite pEl_minus.
  rwc (Cb rest 1 (b, rest) (stop_to1 rest S1) (pTl_stop b rest S1) m1 ltac:(lia)).
  apply Lp. lia.
Qed.

(* ------------------------------------------------------------------ assembling pr *)
(* ------------------------------------------------------------------ induction over the nested AST *)
Lemma expr_ind' (P : expr -> Prop) :
  (forall ip fp, P (Num ip fp)) -> (forall x, P (Var x)) -> (forall a, P a -> P (Neg a)) ->
  (forall a b, P a -> P b -> P (Add a b)) -> (forall a b, P a -> P b -> P (Sub a b)) ->
  (forall a b, P a -> P b -> P (Mul a b)) -> (forall a b, P a -> P b -> P (Div a b)) ->
  (forall a b, P a -> P b -> P (Pow a b)) ->
  (forall f args, Forall P args -> P (Call f args)) -> forall e, P e.
Proof.
  intros HN HV HNeg HA HS HM HD HP HC. fix IH 1. intros e. destruct e.
  - apply HN. - apply HV. - apply HNeg, IH. - apply HA; apply IH. - apply HS; apply IH.
  - apply HM; apply IH. - apply HD; apply IH. - apply HP; apply IH.
  - apply HC. induction args as [|a l IHl]; constructor; [apply IH|exact IHl].
Qed.

Lemma wf_call f args : wf_expr (Call f args) = true -> wf_id f = true /\ Forall (fun a => wf_expr a = true) args.
Proof.
  cbn [wf_expr]. intros H. apply andb_true_iff in H. destruct H as [H1 H2]. split; auto.
  induction args as [|a l IH]; constructor; apply andb_true_iff in H2; destruct H2; auto.
Qed.

(* the argument list of a call as the printer lays it out (a named copy of the local fixpoint of Lang.pr) *)
Fixpoint go_args (ps : pstyle) (i : nat) (l : list expr) : list tok :=
  match l with
  | [] => [TRp]
  | a :: l' => pr 0 (sub i ps) a ++ match l' with [] => go_args ps (S i) l' | _ => TComma :: go_args ps (S i) l' end
  end.
Lemma pr_call lvl ps f args :
  pr lvl ps (Call f args) = wrap (ps [] + (if (4 <? lvl)%nat then 1 else 0)) (TId f :: TLp :: go_args ps 0 args).
Proof.
  cbn [pr natlvl]. f_equal. f_equal. f_equal. generalize 0 at 2 3. induction args as [|a l IH]; intros i; [reflexivity|].
  cbn [go_args]. f_equal. destruct l; [reflexivity|]. f_equal. apply IH.
Qed.

(* ------------------------------------------------------------------ assembling pr *)
Lemma assemble e B cb (ps : pstyle) lvl :
  (forall l, lvl_ok l -> l <= natlvl e -> Concl l e B cb) -> lvl_ok lvl ->
  Concl lvl e (wrap (ps [] + (if (natlvl e <? lvl)%nat then 1 else 0)) B) (cb + 7 * (ps [] + 1)).
Proof.
  intros G OK.
  assert (G0 : Concl 0 e B cb) by (apply G; [left; reflexivity|lia]).
  destruct (natlvl e <? lvl)%nat eqn:E.
  - rewrite Nat.add_1_r. apply (concl_mono _ e _ (cb + 7 * S (ps []))); [|lia]. apply wrap_concl; auto.
  - rewrite Nat.add_0_r. destruct (ps []) as [|w].
    + cbn [wrap]. apply (concl_mono _ e _ cb); [|lia]. apply G; auto. apply Nat.ltb_ge in E. exact E.
    + apply (concl_mono _ e _ (cb + 7 * S w)); [|lia]. apply wrap_concl; auto.
Qed.

Lemma wrap_length w B : List.length (wrap w B) = 2 * w + List.length B.
Proof. induction w; simpl; auto. rewrite app_length. simpl. lia. Qed.
Lemma wrap_length_ge (ps : pstyle) m B : 2 * ps [] + List.length B <= List.length (wrap (ps [] + m) B).
Proof. rewrite wrap_length. lia. Qed.

(* first token of a printed expression: never `)`; at the atom level never a sign *)
Definition starts_norp (X : list tok) : Prop := forall Y, exists t r, X ++ Y = t :: r /\ t <> TRp.
Lemma wrap_norp w B : (w = 0 -> starts_norp B) -> starts_norp (wrap w B).
Proof.
  intros H. destruct w as [|w]; [apply H; reflexivity|].
  intros Y. exists TLp, ((wrap w B ++ [TRp]) ++ Y). split; [reflexivity|discriminate].
Qed.
Lemma app_norp A B : starts_norp A -> starts_norp (A ++ B).
Proof. intros H Y. rewrite <- app_assoc. apply H. Qed.
Lemma pr_norp : forall e lvl ps, starts_norp (pr lvl ps e).
Proof.
  induction e; intros lvl ps; try rewrite pr_call; cbn [pr]; apply wrap_norp; intros _;
    try (apply app_norp; auto);
    try (intros Y; eexists; eexists; split; [reflexivity|discriminate]).
Qed.

Lemma wrap_starts w B : (w = 0 -> starts_nominus B) -> starts_nominus (wrap w B).
Proof.
  intros H. destruct w as [|w]; [apply H; reflexivity|].
  intros Y. exists TLp, ((wrap w B ++ [TRp]) ++ Y). split; reflexivity.
Qed.
Lemma pr4_starts ps a : starts_nominus (pr 4 ps a).
Proof.
  destruct a; try rewrite pr_call; cbn [pr natlvl]; apply wrap_starts; intros E; try (cbn in E; lia);
    intros Y; eexists; eexists; split; reflexivity.
Qed.

Lemma lvl_cases l : lvl_ok l -> forall n, l <= n -> n <= 2 -> l = 0 \/ l = 1 \/ l = 2.
Proof. intros [->|[->|[->| ->]]] n H1 H2; auto; lia. Qed.
Ltac solve_ok := solve [left; reflexivity | right; left; reflexivity | right; right; left; reflexivity | right; right; right; reflexivity].

(* ------------------------------------------------------------------ argument lists *)
Lemma pArgs_S n ts : pArgs (S n) ts =
  match pE n ts with
  | Some (e, TComma :: r) => match pArgs n r with Some (es, r') => Some (e :: es, r') | None => None end
  | Some (e, TRp :: r) => Some ([e], r)
  | _ => None
  end.
Proof. reflexivity. Qed.
Lemma pEl_comma e rest : forall m, m >= 1 -> pEl m e (TComma :: rest) = Some (e, TComma :: rest).
Proof. intros m Hm. destruct m; [lia|]. reflexivity. Qed.

Definition Main (e : expr) : Prop :=
  wf_expr e = true -> forall ps lvl, lvl_ok lvl ->
  exists c, c <= 15 * List.length (pr lvl ps e) /\ Concl lvl e (pr lvl ps e) c.

Lemma go_args_one ps i a : go_args ps i [a] = pr 0 (sub i ps) a ++ [TRp].
Proof. reflexivity. Qed.
Lemma go_args_more ps i a b l : go_args ps i (a :: b :: l) = pr 0 (sub i ps) a ++ TComma :: go_args ps (S i) (b :: l).
Proof. reflexivity. Qed.

Lemma args_main : forall args, Forall Main args -> Forall (fun a => wf_expr a = true) args -> args <> [] ->
  forall ps i, exists c, c <= 15 * List.length (go_args ps i args) /\
    forall rest n, n >= c -> pArgs n (go_args ps i args ++ rest) = Some (args, rest).
Proof.
  induction args as [|a l IH]; intros FM FW NE ps i; [congruence|].
  inversion FM as [|? ? Ma Ml]; subst. inversion FW as [|? ? Wa Wl]; subst.
  destruct (Ma Wa (sub i ps) 0 (or_introl eq_refl)) as (ca & Hca & Ca).
  destruct l as [|b l'].
  - exists (ca + 2). rewrite go_args_one. split; [rewrite app_length; simpl; lia|].
    intros rest n Hn. destruct n as [|n1]; [lia|]. rewrite pArgs_S. rewrite <- app_assoc. cbn [app].
    rwc (Ca (TRp :: rest) 1 (a, TRp :: rest) eq_refl (pEl_rp a rest) n1 ltac:(lia)). reflexivity.
  - destruct (IH Ml Wl ltac:(discriminate) ps (S i)) as (cg & Hcg & Cg).
    exists (ca + cg + 2). rewrite go_args_more. split; [rewrite app_length; cbn [List.length]; lia|].
    intros rest n Hn. destruct n as [|n1]; [lia|]. rewrite pArgs_S. rewrite <- app_assoc. cbn [app].
    rwc (Ca (TComma :: go_args ps (S i) (b :: l') ++ rest) 1 (a, TComma :: go_args ps (S i) (b :: l') ++ rest) eq_refl
            (pEl_comma a _) n1 ltac:(lia)).
    rewrite (Cg rest n1 ltac:(lia)). reflexivity.
Qed.

Lemma pA_call n f t r : t <> TRp ->
  pA (S n) (TId f :: TLp :: t :: r) = match pArgs n (t :: r) with Some (args, r') => Some (Call f args, r') | None => None end.
Proof. destruct t; try reflexivity. congruence. Qed.

Lemma go_args_norp ps i a l : starts_norp (go_args ps i (a :: l)).
Proof. cbn [go_args]. apply app_norp, pr_norp. Qed.

Theorem parse_main : forall e, Main e.
Proof.
  induction e using expr_ind'; intros WF ps lvl OK.
  - (* Num *) exists (6 + 7 * (ps [] + 1)). cbn [pr natlvl]. split.
    + pose proof (wrap_length_ge ps (if 4 <? lvl then 1 else 0) [TNum ip fp]). simpl in *. lia.
    + apply assemble; auto. intros l Hl _. apply good_num; auto.
  - (* Var *) exists (6 + 7 * (ps [] + 1)). cbn [pr natlvl]. split.
    + pose proof (wrap_length_ge ps (if 4 <? lvl then 1 else 0) [TId x]). simpl in *. lia.
    + apply assemble; auto. intros l Hl _. apply good_var; auto.
  - (* Neg *) simpl in WF. destruct (IHe WF (sub 0 ps) 2 ltac:(solve_ok)) as (ca & Hca & Ca).
    exists (ca + 4 + 7 * (ps [] + 1)). cbn [pr natlvl]. split.
    + pose proof (wrap_length_ge ps (if 2 <? lvl then 1 else 0) (TMinus :: pr 2 (sub 0 ps) e)). cbn [List.length] in *. lia.
    + apply (assemble (Neg e)); auto. intros l Hl Hn. apply good_neg; auto. apply (lvl_cases l Hl 2); auto.
  - (* Add *) simpl in WF. apply andb_true_iff in WF. destruct WF as [W1 W2].
    destruct (IHe1 W1 (sub 0 ps) 0 ltac:(solve_ok)) as (ca & Hca & Ca). destruct (IHe2 W2 (sub 1 ps) 1 ltac:(solve_ok)) as (cb & Hcb & Cb).
    exists (ca + cb + 2 + 7 * (ps [] + 1)). cbn [pr natlvl]. split.
    + pose proof (wrap_length_ge ps (if 0 <? lvl then 1 else 0) (pr 0 (sub 0 ps) e1 ++ TPlus :: pr 1 (sub 1 ps) e2)) as L.
      rewrite app_length in L. cbn [List.length] in L. lia.
    + apply (assemble (Add e1 e2)); auto. intros l Hl Hn. cbn in Hn. assert (l = 0) by lia. subst l. apply good_add; auto.
  - (* Sub *) simpl in WF. apply andb_true_iff in WF. destruct WF as [W1 W2].
    destruct (IHe1 W1 (sub 0 ps) 0 ltac:(solve_ok)) as (ca & Hca & Ca). destruct (IHe2 W2 (sub 1 ps) 1 ltac:(solve_ok)) as (cb & Hcb & Cb).
    exists (ca + cb + 2 + 7 * (ps [] + 1)). cbn [pr natlvl]. split.
    + pose proof (wrap_length_ge ps (if 0 <? lvl then 1 else 0) (pr 0 (sub 0 ps) e1 ++ TMinus :: pr 1 (sub 1 ps) e2)) as L.
      rewrite app_length in L. cbn [List.length] in L. lia.
    + apply (assemble (Sub e1 e2)); auto. intros l Hl Hn. cbn in Hn. assert (l = 0) by lia. subst l. apply good_sub; auto.
  - (* Mul *) simpl in WF. apply andb_true_iff in WF. destruct WF as [W1 W2].
    destruct (IHe1 W1 (sub 0 ps) 1 ltac:(solve_ok)) as (ca & Hca & Ca). destruct (IHe2 W2 (sub 1 ps) 2 ltac:(solve_ok)) as (cb & Hcb & Cb).
    exists (ca + cb + 3 + 7 * (ps [] + 1)). cbn [pr natlvl]. split.
    + pose proof (wrap_length_ge ps (if 1 <? lvl then 1 else 0) (pr 1 (sub 0 ps) e1 ++ TMul :: pr 2 (sub 1 ps) e2)) as L.
      rewrite app_length in L. cbn [List.length] in L. lia.
    + apply (assemble (Mul e1 e2)); auto. intros l Hl Hn. cbn in Hn. apply good_mul; auto.
      destruct Hl as [->|[->|[->| ->]]]; auto; lia.
  - (* Div *) simpl in WF. apply andb_true_iff in WF. destruct WF as [W1 W2].
    destruct (IHe1 W1 (sub 0 ps) 1 ltac:(solve_ok)) as (ca & Hca & Ca). destruct (IHe2 W2 (sub 1 ps) 2 ltac:(solve_ok)) as (cb & Hcb & Cb).
    exists (ca + cb + 3 + 7 * (ps [] + 1)). cbn [pr natlvl]. split.
    + pose proof (wrap_length_ge ps (if 1 <? lvl then 1 else 0) (pr 1 (sub 0 ps) e1 ++ TDiv :: pr 2 (sub 1 ps) e2)) as L.
      rewrite app_length in L. cbn [List.length] in L. lia.
    + apply (assemble (Div e1 e2)); auto. intros l Hl Hn. cbn in Hn. apply good_div; auto.
      destruct Hl as [->|[->|[->| ->]]]; auto; lia.
  - (* Pow *) simpl in WF. apply andb_true_iff in WF. destruct WF as [W1 W2].
    destruct (IHe1 W1 (sub 0 ps) 4 ltac:(solve_ok)) as (ca & Hca & Ca). destruct (IHe2 W2 (sub 1 ps) 2 ltac:(solve_ok)) as (cb & Hcb & Cb).
    exists (ca + cb + 5 + 7 * (ps [] + 1)). cbn [pr natlvl]. split.
    + pose proof (wrap_length_ge ps (if 3 <? lvl then 1 else 0) (pr 4 (sub 0 ps) e1 ++ TPow :: pr 2 (sub 1 ps) e2)) as L.
      rewrite app_length in L. cbn [List.length] in L. lia.
    + apply (assemble (Pow e1 e2)); auto. intros l Hl Hn. cbn in Hn. apply good_pow; auto; [apply pr4_starts|].
      destruct Hl as [->|[->|[->| ->]]]; auto; lia.
  - (* Call *) destruct (wf_call f args WF) as [Wf Wargs]. rewrite pr_call.
    assert (HD : starts_nominus (TId f :: TLp :: go_args ps 0 args))
      by (intros Y; eexists; eexists; split; reflexivity).
    destruct args as [|a l].
    + exists (6 + 7 * (ps [] + 1)). split.
      * pose proof (wrap_length_ge ps (if 4 <? lvl then 1 else 0) (TId f :: TLp :: go_args ps 0 [])). simpl in *. lia.
      * apply (assemble (Call f [])); auto. intros l Hl _. apply (from_A _ _ 1); auto.
        intros rest _ n Hn. destruct n; [lia|]. reflexivity.
    + destruct (args_main (a :: l) H Wargs ltac:(discriminate) ps 0) as (cg & Hcg & Cg).
      exists (cg + 1 + 5 + 7 * (ps [] + 1)). split.
      * pose proof (wrap_length_ge ps (if 4 <? lvl then 1 else 0) (TId f :: TLp :: go_args ps 0 (a :: l))) as L.
        cbn [List.length] in L. lia.
      * apply (assemble (Call f (a :: l))); auto. intros l0 Hl _. apply (from_A _ _ (cg + 1)); auto.
        intros rest _ n Hn. destruct n as [|n1]; [lia|].
        destruct (go_args_norp ps 0 a l rest) as (t & r & E & NE).
        cbn [app]. rewrite E, pA_call by auto. rewrite <- E. rewrite Cg; [reflexivity|lia].
Qed.
Theorem parse_print_toks e ps : wf_expr e = true -> parse_toks (pr 0 ps e) = Some e.
Proof.
  intros WF. unfold parse_toks.
  destruct (parse_main e WF ps 0 (or_introl eq_refl)) as (c & Hc & C).
  pose proof (C [] 1 (e, []) eq_refl (pEl_nil e)) as H.
  rewrite app_nil_r in H. cbn [P] in H. rewrite H; [reflexivity|]. unfold fuel_for. lia.
Qed.

(* ------------------------------------------------------------------ characters <-> AST *)
Lemma forallb_wrap w B : forallb lwf_tok (wrap w B) = forallb lwf_tok B.
Proof. induction w; simpl; auto. rewrite forallb_app. simpl. rewrite IHw. apply andb_true_r. Qed.

Lemma pr_lwf : forall e, wf_expr e = true -> forall lvl ps, forallb lwf_tok (pr lvl ps e) = true.
Proof.
  induction e using expr_ind'; intros WF lvl ps; try rewrite pr_call; cbn [pr]; rewrite forallb_wrap.
  - simpl. rewrite andb_true_r. apply (wf_lwf (TNum ip fp)). exact WF.
  - simpl. rewrite andb_true_r. exact WF.
  - simpl in *. apply IHe; auto.
  - simpl in WF. apply andb_true_iff in WF. destruct WF. rewrite forallb_app. simpl. rewrite IHe1, IHe2; auto.
  - simpl in WF. apply andb_true_iff in WF. destruct WF. rewrite forallb_app. simpl. rewrite IHe1, IHe2; auto.
  - simpl in WF. apply andb_true_iff in WF. destruct WF. rewrite forallb_app. simpl. rewrite IHe1, IHe2; auto.
  - simpl in WF. apply andb_true_iff in WF. destruct WF. rewrite forallb_app. simpl. rewrite IHe1, IHe2; auto.
  - simpl in WF. apply andb_true_iff in WF. destruct WF. rewrite forallb_app. simpl. rewrite IHe1, IHe2; auto.
  - destruct (wf_call f args WF) as [Wf Wargs]. cbn [forallb lwf_tok]. rewrite Wf. cbn [andb].
    generalize 0. induction args as [|a l IH]; intros i; [reflexivity|].
    inversion H as [|? ? Ha Hl]; subst. inversion Wargs as [|? ? Wa Wl]; subst.
    cbn [go_args]. rewrite forallb_app. rewrite (Ha Wa). cbn [andb].
    assert (WFl : wf_expr (Call f l) = true) by (cbn [wf_expr]; rewrite Wf; cbn [andb];
      clear - Wl; induction Wl as [|x l' Hx Hl' IHl']; [reflexivity|rewrite Hx; exact IHl']).
    destruct l as [|b l']; [apply (IH Hl WFl Wl)|]. cbn [forallb lwf_tok andb]. apply (IH Hl WFl Wl).
Qed.

Theorem parse_print e s : wf_expr e = true -> parse (print s e) = Some e.
Proof.
  intros WF. unfold parse, print. rewrite tokenize_render by (apply pr_lwf; auto).
  apply parse_print_toks; auto.
Qed.

(* two spellings of one AST have the same value: whatever the spacing, power notation, redundant parentheses *)
Corollary spelling_independent e s s' cx : wf_expr e = true ->
  eval_ctx cx (print s e) = eval_ctx cx (print s' e).
Proof. intros WF. unfold eval_ctx. rewrite !parse_print; auto. Qed.

(* ------------------------------------------------------------------ call surgery *)
Lemma find_char_first c : forall l r, notin c l = true -> find [c] (l ++ c :: r) = Some (List.length l).
Proof.
  induction l as [|a l IH]; intros r N.
  - simpl. rewrite Ascii.eqb_refl. reflexivity.
  - simpl in N. apply andb_true_iff in N. destruct N as [N1 N2]. rewrite <- app_comm_cons.
    rewrite find_step. + rewrite IH; auto. + simpl. apply negb_true_iff in N1. rewrite Ascii.eqb_sym, N1. reflexivity.
Qed.
Lemma firstn_app_exact {A} (l r : list A) : firstn (List.length l) (l ++ r) = l.
Proof. induction l; simpl; [reflexivity|rewrite IHl; reflexivity]. Qed.

(* when f( first occurs at the call and the argument text contains no `)`, the text that is replaced is exactly
   the call f(args) *)
Theorem surgery_atomic pre f args post repl :
  find (f ++ ["("]) (pre ++ f ++ "(" :: args ++ ")" :: post) = Some (List.length pre) ->
  notin ")" f = true -> notin ")" args = true ->
  process_func_call (pre ++ f ++ "(" :: args ++ ")" :: post) f repl =
  Some (py_replace (f ++ "(" :: args ++ [")"]) repl (pre ++ f ++ "(" :: args ++ ")" :: post)).
Proof.
  intros F Nf Na. unfold process_func_call. rewrite F. rewrite skipn_app_len.
  replace (f ++ "(" :: args ++ ")" :: post) with ((f ++ "(" :: args) ++ ")" :: post)
    by (rewrite <- app_assoc; reflexivity).
  rewrite find_char_first.
  2:{ rewrite notin_app. rewrite Nf. simpl. exact Na. }
  replace (S (List.length (f ++ "(" :: args))) with (List.length ((f ++ "(" :: args) ++ [")"]))
    by (rewrite app_length; simpl; lia).
  replace ((f ++ "(" :: args) ++ ")" :: post) with (((f ++ "(" :: args) ++ [")"]) ++ post)
    by (rewrite <- app_assoc; reflexivity).
  rewrite firstn_app_exact. rewrite <- !app_assoc. reflexivity.
Qed.

(* compound first argument: the first `)` is not the end of the call -> unbalanced text (SyntaxError in the
   generated file); and an argument that is a sum is spliced in without parentheses -> another value *)
Example surgery_refuted_unbalanced :
  balanced (s2l "identity(a*(b + k))") = true /\
  option_map balanced (process_func_call (s2l "identity(a*(b + k))") (s2l "identity") (s2l "a*(b + k)")) = Some false /\
  option_map balanced (identity_surgery (s2l "identity(a*(b + k))") (s2l "a*(b + k)")) = Some false.
Proof. split; [|split]; vm_compute; reflexivity. Qed.

(* ---- the repaired identity/no_op branch (D41): the marker call is replaced by "(" arg ")" ---- *)
Lemma prefix_app_l : forall a b s, prefix (a ++ b) s = true -> prefix a s = true.
Proof.
  induction a as [|x a IH]; intros b s H; [reflexivity|]. destruct s as [|y s]; [discriminate|].
  simpl in *. apply andb_true_iff in H. destruct H as [H1 H2]. rewrite H1. simpl. apply (IH b s H2).
Qed.
Lemma find_succ_inv p c s n : find p (c :: s) = Some (S n) -> prefix p (c :: s) = false /\ find p s = Some n.
Proof.
  simpl. destruct (prefix p (c :: s)); [discriminate|]. destruct (find p s); simpl; intros H; [|discriminate].
  injection H as ->. auto.
Qed.
Lemma replace_noocc old new : forall n s, find old s = None -> replace_fuel n old new s = s.
Proof.
  induction n as [|n IH]; intros s H; [reflexivity|]. simpl.
  destruct (prefix old s) eqn:P; [rewrite (find_prefix old s P) in H; discriminate|].
  destruct s as [|c s]; [reflexivity|]. f_equal. apply IH.
  simpl in H. rewrite P in H. destruct (find old s); [discriminate|reflexivity].
Qed.
Lemma replace_first p0 old new post : (forall s, prefix old s = true -> prefix p0 s = true) ->
  forall pre n, find p0 (pre ++ old ++ post) = Some (List.length pre) -> n > List.length pre ->
  replace_fuel n old new (pre ++ old ++ post) = pre ++ new ++ replace_fuel (n - List.length pre - 1) old new post.
Proof.
  intros HP. induction pre as [|c pre IH]; intros n F L.
  - destruct n as [|n]; [lia|]. cbn [app List.length]. simpl replace_fuel. rewrite prefix_app, skipn_app_len.
    replace (S n - 0 - 1) with n by lia. rewrite ?Nat.sub_0_r. reflexivity.
  - destruct n as [|n]; [simpl in L; lia|]. cbn [app List.length] in *. apply find_succ_inv in F. destruct F as [F1 F2].
    simpl replace_fuel.
    destruct (prefix old (c :: pre ++ old ++ post)) eqn:P; [rewrite (HP _ P) in F1; discriminate|].
    rewrite (IH n F2) by lia. reflexivity.
Qed.

Lemma call_shape (f arg post : str) : (f ++ "(" :: arg ++ [")"]) ++ post = f ++ "(" :: arg ++ ")" :: post.
Proof. rewrite <- app_assoc. cbn [app]. rewrite <- app_assoc. reflexivity. Qed.

Theorem identity_surgery_text pre arg post :
  let call := s2l "identity" ++ "(" :: arg ++ [")"] in
  find (s2l "identity" ++ ["("]) (pre ++ s2l "identity" ++ "(" :: arg ++ ")" :: post) = Some (List.length pre) ->
  notin ")" arg = true -> find call post = None ->
  identity_surgery (pre ++ s2l "identity" ++ "(" :: arg ++ ")" :: post) arg = Some (pre ++ "(" :: arg ++ ")" :: post).
Proof.
  intros call F N NO. unfold identity_surgery. rewrite surgery_atomic; auto. f_equal.
  fold call.
  replace (pre ++ s2l "identity" ++ "(" :: arg ++ ")" :: post) with (pre ++ call ++ post) in *
    by (unfold call; rewrite call_shape; reflexivity).
  assert (NE : py_replace call ("(" :: arg ++ [")"]) (pre ++ call ++ post) =
               replace_fuel (S (List.length (pre ++ call ++ post))) call ("(" :: arg ++ [")"]) (pre ++ call ++ post))
    by reflexivity.
  rewrite NE. rewrite (replace_first (s2l "identity" ++ ["("])); auto.
  - rewrite replace_noocc; auto. cbn [app]. rewrite <- app_assoc. reflexivity.
  - intros s P. apply (prefix_app_l (s2l "identity" ++ ["("]) (arg ++ [")"])).
    replace ((s2l "identity" ++ ["("]) ++ arg ++ [")"]) with call by (unfold call; rewrite <- app_assoc; reflexivity).
    exact P.
  - rewrite app_length. lia.
Qed.

(* the same tokens X read as `f(X)` and as `(X)`: Call f [a] and a; the marker call evaluates like its argument *)
Lemma pE_rp_none m X : pE m (TRp :: X) = None.
Proof. destruct m as [|[|[|[|[|m]]]]]; reflexivity. Qed.
Theorem call_vs_paren m X a r f : pE m X = Some (a, TRp :: r) ->
  pA (S (S m)) (TId f :: TLp :: X) = Some (Call f [a], r) /\ pA (S m) (TLp :: X) = Some (a, r).
Proof.
  intros H. split.
  - destruct X as [|t X]; [|destruct t]; try (cbn [pA pArgs]; rewrite H; reflexivity).
    rewrite pE_rp_none in H. discriminate.
  - rewrite pA_paren, H. reflexivity.
Qed.
Theorem eval_identity cx a : eval cx (Call (s2l "identity") [a]) = eval cx a /\
  eval cx (Call (s2l "no_op") [a]) = eval cx a.
Proof. split; destruct a; cbn; try reflexivity; match goal with |- context [fn1 _ ?v] => destruct v; reflexivity end. Qed.

Example surgery_repaired_precedence :
  let env := [(s2l "r", mkq 3 2); (s2l "rr", mkq 1 4)] in
  identity_surgery (s2l "2*identity(r + rr)") (s2l "r + rr") = Some (s2l "2*(r + rr)") /\
  oq_eqb (eval_string env [] (s2l "2*no_op(r + rr)")) (Some (mkq 7 2)) = true /\
  oq_eqb (eval_string env [] (s2l "2*(r + rr)")) (Some (mkq 7 2)) = true.
Proof. split; [|split]; vm_compute; reflexivity. Qed.

Example literal_forms :
  tokenize (s2l "2.5e-1") = Some [TNum ["0"] ["2"; "5"]] /\ tokenize (s2l ".5") = Some [TNum ["0"] ["5"]] /\
  tokenize (s2l "0.5E1") = Some [TNum ["5"] []] /\ tokenize (s2l "125e-3") = Some [TNum ["0"] ["1"; "2"; "5"]] /\
  tokenize (s2l "2e") = None /\ parse (s2l "+x - +2") = parse (s2l "x - 2").
Proof. repeat split; vm_compute; reflexivity. Qed.

(* calls round-trip on examples (the general proof covers the operator subset only) *)
Example parse_print_call_example :
  match parse (s2l "-x^2 + (2**3)**x/4*f(x, g(), r+1)") with
  | Some e => match parse (print full e), parse (print plain e) with
              | Some e1, Some e2 => str_eqb (print plain e1) (print plain e) && str_eqb (print full e2) (print full e)
              | _, _ => false
              end
  | None => false
  end = true.
Proof. vm_compute. reflexivity. Qed.
