(* AutoEquiv.v — E2 tie for C18: the definition that py2v.py regenerates on every run from the current text of
   FortranBackend._auto_param_indices (coq/gen/Gen_auto_param_indices.v), applied to the blocked range that the
   class attribute _AUTO_BLOCKED_PAR_RANGE currently holds, equals the closed form `slots` for EVERY number of
   parameters.  A change of the loop arithmetic or of the range changes the generated text and breaks `step_spec`
   or `gen_equiv`.  The properties of the closed form (increasing, distinct, outside 10..14, one slot per
   parameter in order) are proved below and transported to the generated function. *)
From Coq Require Import ZArith List Bool Lia Sorted.
From PV Require Import PyLib Auto.
From PVG Require Import Gen_auto_param_indices.
Import ListNotations.
Open Scope Z_scope.

(* closed form: Auto.slot / Auto.slots *)

(* invariant of the generated loop: before iteration k the increment is 1 (k <= 9) or 6 (k > 9) *)
Definition inc_at (k : Z) : Z := if k <=? 9 then 1 else 6.

Lemma step_spec {A} k out (a : A) :
  0 <= k ->
  auto_param_indices_step1 AUTO_BLOCKED_PAR_RANGE (inc_at k, out) (k, a) = (inc_at (k + 1), out ++ [slot k]).
Proof.
  intros Hk. unfold auto_param_indices_step1, AUTO_BLOCKED_PAR_RANGE, inc_at, slot. cbn [fst snd].
  destruct (k <=? 9) eqn:E9; destruct (k <? 9) eqn:E8; destruct (k + 1 <=? 9) eqn:E10;
    repeat match goal with
    | |- context [(?a <=? ?b) && (?c <=? ?d)] => destruct (a <=? b) eqn:?; destruct (c <=? d) eqn:?; cbn [andb]
    end;
    repeat match goal with
    | H : (_ <=? _) = true |- _ => apply Z.leb_le in H
    | H : (_ <=? _) = false |- _ => apply Z.leb_gt in H
    | H : (_ <? _) = true |- _ => apply Z.ltb_lt in H
    | H : (_ <? _) = false |- _ => apply Z.ltb_ge in H
    end; try lia; repeat f_equal; lia.
Qed.

Lemma fold_spec {A} : forall (l : list A) k0 out,
  fold_left (auto_param_indices_step1 AUTO_BLOCKED_PAR_RANGE) (combine (map Z.of_nat (seq k0 (length l))) l)
            (inc_at (Z.of_nat k0), out)
  = (inc_at (Z.of_nat (k0 + length l)), out ++ map (fun k => slot (Z.of_nat k)) (seq k0 (length l))).
Proof.
  induction l as [|a l IH]; intros k0 out.
  - cbn. now rewrite app_nil_r, Nat.add_0_r.
  - cbn [length seq map combine fold_left]. rewrite step_spec by lia.
    replace (Z.of_nat k0 + 1) with (Z.of_nat (S k0)) by lia.
    rewrite IH. rewrite <- app_assoc. cbn [app]. replace (S k0 + length l)%nat with (k0 + S (length l))%nat by lia. reflexivity.
Qed.

(* the regenerated function equals the closed form, for every parameter list *)
Theorem gen_equiv {A} (args : list A) : auto_param_indices args AUTO_BLOCKED_PAR_RANGE = slots (length args).
Proof.
  unfold auto_param_indices, slots, py_enumerate.
  change (1, []) with (inc_at (Z.of_nat 0), @nil Z).
  rewrite fold_spec. reflexivity.
Qed.

(* ---------------------------------------------------------------------------- properties of the closed form *)
Lemma slot_increasing i j : 0 <= i < j -> slot i < slot j.
Proof.
  intros H. unfold slot. destruct (i <? 9) eqn:Ei, (j <? 9) eqn:Ej;
  repeat match goal with H : (_ <? _) = true |- _ => apply Z.ltb_lt in H | H : (_ <? _) = false |- _ => apply Z.ltb_ge in H end; lia.
Qed.
Lemma slot_not_reserved i : 0 <= i -> ~ (10 <= slot i <= 14).
Proof. intros H. unfold slot. destruct (i <? 9) eqn:E; [apply Z.ltb_lt in E|apply Z.ltb_ge in E]; lia. Qed.
Lemma slot_positive i : 0 <= i -> 1 <= slot i.
Proof. intros H. unfold slot. destruct (i <? 9); lia. Qed.

Lemma slots_length n : length (slots n) = n.
Proof. unfold slots. now rewrite map_length, seq_length. Qed.
Lemma slots_nth n i : (i < n)%nat -> nth i (slots n) 0 = slot (Z.of_nat i).
Proof.
  intros H. unfold slots. rewrite nth_indep with (d' := slot (Z.of_nat 0)) by now rewrite map_length, seq_length.
  rewrite (map_nth (fun k => slot (Z.of_nat k)) (seq 0 n) 0%nat i). now rewrite seq_nth.
Qed.
Lemma slots_avoid_reserved n : Forall (fun s => ~ (10 <= s <= 14)) (slots n).
Proof.
  unfold slots. apply Forall_forall. intros s Hs. apply in_map_iff in Hs as (k & <- & _). apply slot_not_reserved. lia.
Qed.
Lemma slots_positive n : Forall (fun s => 1 <= s) (slots n).
Proof.
  unfold slots. apply Forall_forall. intros s Hs. apply in_map_iff in Hs as (k & <- & _). apply slot_positive. lia.
Qed.
Lemma slots_sorted_from k n : StronglySorted Z.lt (map (fun k => slot (Z.of_nat k)) (seq k n)).
Proof.
  revert k. induction n as [|n IH]; intros k; cbn; constructor; [apply IH|].
  apply Forall_forall. intros s Hs. apply in_map_iff in Hs as (j & <- & Hj). apply in_seq in Hj.
  apply slot_increasing. lia.
Qed.
Lemma slots_sorted n : StronglySorted Z.lt (slots n).
Proof. apply slots_sorted_from. Qed.
Lemma sorted_NoDup (l : list Z) : StronglySorted Z.lt l -> NoDup l.
Proof.
  induction 1 as [|a l Hs IH Hf]; constructor; [|exact IH].
  intros Hin. rewrite Forall_forall in Hf. specialize (Hf _ Hin). lia.
Qed.
Lemma slots_NoDup n : NoDup (slots n).
Proof. apply sorted_NoDup, slots_sorted. Qed.
Lemma slots_prefix n m : (n <= m)%nat -> firstn n (slots m) = slots n.
Proof.
  intros H. unfold slots. rewrite firstn_map. f_equal.
  replace m with (n + (m - n))%nat by lia. rewrite seq_app, firstn_app, seq_length, Nat.sub_diag. cbn [firstn].
  rewrite app_nil_r. rewrite <- (seq_length n 0) at 1. apply firstn_all.
Qed.
(* the largest slot is the last one (what NPAR is set to) *)
Lemma slots_max n : fold_right Z.max 0 (slots (S n)) = slot (Z.of_nat n).
Proof.
  assert (G : forall m k, fold_right Z.max 0 (map (fun k => slot (Z.of_nat k)) (seq k (S m))) = slot (Z.of_nat (k + m))).
  { induction m as [|m IH]; intros k.
    - cbn. rewrite Nat.add_0_r. pose proof (slot_positive (Z.of_nat k)). lia.
    - change (seq k (S (S m))) with (k :: seq (S k) (S m)). cbn [map fold_right]. rewrite IH.
      replace (S k + m)%nat with (k + S m)%nat by lia.
      pose proof (slot_increasing (Z.of_nat k) (Z.of_nat (k + S m))). lia. }
  unfold slots. now rewrite G.
Qed.

(* ---------------------------------------------------------------------------- transported to the generated code *)
Theorem gen_slots_facts {A} (args : list A) :
  let s := auto_param_indices args AUTO_BLOCKED_PAR_RANGE in
  length s = length args /\ StronglySorted Z.lt s /\ NoDup s /\
  Forall (fun x => ~ (10 <= x <= 14)) s /\ Forall (fun x => 1 <= x) s /\
  (forall i, (i < length args)%nat -> nth i s 0 = if (Z.of_nat i <? 9) then Z.of_nat i + 1 else Z.of_nat i + 6).
Proof.
  cbv zeta. rewrite gen_equiv.
  repeat split; [apply slots_length|apply slots_sorted|apply slots_NoDup|apply slots_avoid_reserved|apply slots_positive|].
  intros i Hi. now rewrite slots_nth.
Qed.
