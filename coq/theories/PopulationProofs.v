(* PopulationProofs.v — the population circuit (matvec / w*vsum / wsum-broadcast) is the sum over the expanded edge list. *)
From Coq Require Import List ZArith QArith Qcanon Qcabs Bool Arith Lia.
From PV Require Import Population.
Import ListNotations.
Open Scope Qc_scope.

(* ------------------------------------------------------------------ sums *)
Lemma sumf_ext f g l : (forall i, In i l -> f i = g i) -> sumf f l = sumf g l.
Proof. induction l as [|a l IH]; intros H; cbn [sumf]; [reflexivity|]. rewrite H, IH; auto with datatypes. Qed.
Lemma sumf_add f g l : sumf (fun i => f i + g i) l = sumf f l + sumf g l.
Proof. induction l as [|a l IH]; cbn [sumf]; [ring|]. rewrite IH. ring. Qed.
Lemma sumf_scal k f l : sumf (fun i => k * f i) l = k * sumf f l.
Proof. induction l as [|a l IH]; cbn [sumf]; [ring|]. rewrite IH. ring. Qed.
Lemma sumf_zero l : sumf (fun _ => 0) l = 0.
Proof. induction l as [|a l IH]; cbn [sumf]; [reflexivity|]. rewrite IH. ring. Qed.
Lemma sumf_app f a b : sumf f (a ++ b) = sumf f a + sumf f b.
Proof. induction a as [|x a IH]; cbn [sumf app]; [ring|]. rewrite IH. ring. Qed.
Lemma sumf_shift f a n : sumf f (seq (S a) n) = sumf (fun i => f (S i)) (seq a n).
Proof. revert a; induction n as [|n IH]; intros a; cbn [seq sumf]; [reflexivity|]. now rewrite IH. Qed.

Lemma sumf_indicator (g : nat -> Qc) i a n :
  sumf (fun k => if (k =? i)%nat then g k else 0) (seq a n) = if ((a <=? i) && (i <? a + n))%nat then g i else 0.
Proof.
  revert a; induction n as [|n IH]; intros a; cbn [seq sumf].
  - destruct (a <=? i)%nat eqn:E1, (i <? a + 0)%nat eqn:E2; cbn [andb]; try reflexivity.
    apply Nat.leb_le in E1. apply Nat.ltb_lt in E2. lia.
  - rewrite IH. destruct (Nat.eqb_spec a i) as [->|Hne].
    + replace (S i <=? i)%nat with false by (symmetry; apply Nat.leb_gt; lia). cbn [andb].
      rewrite Nat.leb_refl. replace (i <? i + S n)%nat with true by (symmetry; apply Nat.ltb_lt; lia). cbn [andb]. ring.
    + destruct (a <=? i)%nat eqn:E1, (S a <=? i)%nat eqn:E3, (i <? S a + n)%nat eqn:E2, (i <? a + S n)%nat eqn:E4; cbn [andb];
        try ring; exfalso;
        repeat match goal with
               | H : (_ <=? _)%nat = true |- _ => apply Nat.leb_le in H
               | H : (_ <=? _)%nat = false |- _ => apply Nat.leb_gt in H
               | H : (_ <? _)%nat = true |- _ => apply Nat.ltb_lt in H
               | H : (_ <? _)%nat = false |- _ => apply Nat.ltb_ge in H
               end; lia.
Qed.

Lemma vsum_sumf s : vsum s = sumf (fun j => nth j s 0) (seq 0 (length s)).
Proof.
  induction s as [|a s IH]; cbn [vsum length seq sumf]; [reflexivity|].
  rewrite sumf_shift. cbn [nth]. now rewrite IH.
Qed.

(* dot product with numpy-free truncation = sum over the columns of the row *)
Lemma dot_sumf r s : dot r s = sumf (fun j => nth j r 0 * nth j s 0) (seq 0 (length r)).
Proof.
  unfold dot, vmul. revert s; induction r as [|a r IH]; intros s; cbn [zipw vsum length seq sumf]; [reflexivity|].
  destruct s as [|b s].
  - cbn [vsum]. rewrite sumf_shift. rewrite (sumf_ext _ (fun _ => 0)).
    + rewrite sumf_zero. cbn [nth]. ring.
    + intros i _. destruct i; cbn [nth]; ring.
  - cbn [vsum]. rewrite sumf_shift. cbn [nth]. now rewrite IH.
Qed.

(* ------------------------------------------------------------------ lists *)
Lemma nth_zipw {A B C} (g : A -> B -> C) : forall la lb i da db dc,
  (i < length la)%nat -> (i < length lb)%nat -> nth i (zipw g la lb) dc = g (nth i la da) (nth i lb db).
Proof.
  induction la as [|a la IH]; intros lb i da db dc Ha Hb; cbn [length] in Ha; [lia|].
  destruct lb as [|b lb]; cbn [length] in Hb; [lia|]. destruct i as [|i]; cbn [zipw nth]; [reflexivity|].
  apply IH; lia.
Qed.
Lemma zipw_length {A B C} (g : A -> B -> C) : forall la lb, length (zipw g la lb) = Nat.min (length la) (length lb).
Proof. induction la as [|a la IH]; intros [|b lb]; cbn [zipw length Nat.min]; try reflexivity. now rewrite IH. Qed.
Lemma nth_repeat_lt {A} (a d : A) n i : (i < n)%nat -> nth i (repeat a n) d = a.
Proof. revert i; induction n as [|n IH]; intros i H; [lia|]. destruct i; cbn [repeat nth]; [reflexivity|]. apply IH; lia. Qed.
Lemma nth_map_lt {A B} (f : A -> B) l i da db : (i < length l)%nat -> nth i (map f l) db = f (nth i l da).
Proof. intros H. rewrite (nth_indep _ db (f da)) by now rewrite map_length. apply map_nth. Qed.
Lemma nth_beyond_zero (v : vec) i : (length v <= i)%nat -> nth i v 0 = 0.
Proof. intros H. now apply nth_overflow. Qed.

(* ------------------------------------------------------------------ the edge list *)
Lemma edge_sum_app a b term i : edge_sum (a ++ b) term i = edge_sum a term i + edge_sum b term i.
Proof. induction a as [|e a IH]; cbn [edge_sum app]; [ring|]. rewrite IH. ring. Qed.

Lemma edge_sum_flat_map (F : nat -> list sedge) term i l :
  edge_sum (flat_map F l) term i = sumf (fun k => edge_sum (F k) term i) l.
Proof. induction l as [|k l IH]; cbn [flat_map sumf edge_sum]; [reflexivity|]. now rewrite edge_sum_app, IH. Qed.

Definition mk (i j : nat) (w : Qc) : sedge := {| e_tgt := i; e_src := j; e_w := w |}.

Lemma edge_sum_expand_row mw k r term i :
  edge_sum (expand_row mw k r) term i =
  if (k =? i)%nat then sumf (fun j => let w := nth j r 0 in if keep mw w then w * term (mk k j w) else 0) (seq 0 (length r)) else 0.
Proof.
  unfold expand_row. rewrite edge_sum_flat_map.
  destruct (Nat.eqb_spec k i) as [->|Hne].
  - apply sumf_ext. intros j _. cbn zeta. destruct (keep mw (nth j r 0)); cbn [edge_sum e_tgt e_w]; [|reflexivity].
    rewrite Nat.eqb_refl. unfold mk. ring.
  - rewrite (sumf_ext _ (fun _ => 0)); [apply sumf_zero|]. intros j _. cbn zeta.
    destruct (keep mw (nth j r 0)); cbn [edge_sum e_tgt]; [|reflexivity].
    destruct (Nat.eqb_spec k i); [contradiction|ring].
Qed.

(* the entries of row i, and nothing else, reach target unit i *)
Lemma edge_sum_expand_mat mw W term i :
  edge_sum (expand_mat mw W) term i =
  sumf (fun j => let w := nth j (nth i W []) 0 in if keep mw w then w * term (mk i j w) else 0) (seq 0 (length (nth i W []))).
Proof.
  unfold expand_mat. rewrite edge_sum_flat_map.
  rewrite (sumf_ext _ (fun k => if (k =? i)%nat then
      sumf (fun j => let w := nth j (nth k W []) 0 in if keep mw w then w * term (mk k j w) else 0) (seq 0 (length (nth k W []))) else 0)).
  2:{ intros k _. now rewrite edge_sum_expand_row. }
  rewrite sumf_indicator. cbn [Nat.leb andb Nat.add].
  destruct (Nat.ltb_spec i (length W)) as [Hlt|Hge]; [reflexivity|].
  rewrite (nth_overflow W [] Hge). reflexivity.
Qed.

(* threshold 0 keeps exactly the non-zero entries *)
Lemma keep_zero_false w : keep 0 w = false -> w = 0.
Proof.
  unfold keep, Qcltb. rewrite negb_false_iff. intros H. apply Qle_bool_iff in H.
  assert (H1 : Qcabs w <= 0) by exact H.
  assert (H2 : w <= 0) by (eapply Qcle_trans; [apply Qcle_Qcabs|exact H1]).
  assert (H3 : - w <= 0) by (eapply Qcle_trans; [apply Qcle_Qcabs|rewrite Qcabs_opp; exact H1]).
  apply Qcle_antisym; [exact H2|]. apply Qcopp_le_compat in H3. rewrite Qcopp_involutive in H3. exact H3.
Qed.
Lemma keep_zero_term w t : (if keep 0 w then w * t else 0) = w * t.
Proof. destruct (keep 0 w) eqn:E; [reflexivity|]. apply keep_zero_false in E. subst. ring. Qed.
Lemma entry_ok_term mw w t : entry_ok mw w = true -> (if keep mw w then w * t else 0) = w * t.
Proof.
  unfold entry_ok. intros H. destruct (keep mw w); [reflexivity|]. rewrite orb_false_r in H.
  unfold Qceqb in H. apply Qeq_bool_eq in H. apply Qc_is_canon in H. subst w. ring.
Qed.

(* ------------------------------------------------------------------ case 0a: matrix *)
Lemma nth_matvec W s i : nth i (matvec W s) 0 = dot (nth i W []) s.
Proof. exact (map_nth (fun r => dot r s) W [] i). Qed.

(* ORIENTATION: row = target, column = source *)
Theorem matvec_row_target W s i :
  nth i (matvec W s) 0 = sumf (fun j => nth j (nth i W []) 0 * nth j s 0) (seq 0 (length (nth i W []))).
Proof. rewrite nth_matvec. apply dot_sumf. Qed.

Theorem matvec_is_edge_sum W s i :
  nth i (matvec W s) 0 = edge_sum (expand_mat 0 W) (fun e => nth (e_src e) s 0) i.
Proof.
  rewrite matvec_row_target, edge_sum_expand_mat. apply sumf_ext. intros j _. cbn zeta.
  rewrite keep_zero_term. reflexivity.
Qed.

Theorem matvec_is_edge_sum_mw mw W s i : forallb (forallb (entry_ok mw)) W = true ->
  nth i (matvec W s) 0 = edge_sum (expand_mat mw W) (fun e => nth (e_src e) s 0) i.
Proof.
  intros Hok. rewrite matvec_row_target, edge_sum_expand_mat. apply sumf_ext. intros j Hj. cbn zeta.
  apply in_seq in Hj. rewrite entry_ok_term; [reflexivity|].
  destruct (Nat.ltb_spec i (length W)) as [Hi|Hi].
  - rewrite forallb_forall in Hok. specialize (Hok (nth i W []) (nth_In W [] Hi)).
    rewrite forallb_forall in Hok. apply Hok. apply nth_In. destruct Hj as [_ Hj]. exact Hj.
  - exfalso. destruct Hj as [_ Hj]. rewrite nth_overflow in Hj by exact Hi. cbn in Hj. lia.
Qed.

(* the transposed reading (target_i = sum_j W[j][i] * s_j) is a different network *)
Definition matvec_T (W : mat) (s : vec) : vec := matvec (transpose W) s.
Theorem transposed_refuted : exists W s i,
  rect 2 3 W = true /\ nth i (matvec_T W s) 0 <> edge_sum (expand_mat 0 W) (fun e => nth (e_src e) s 0) i.
Proof.
  exists [[mkq 1 1; mkq 2 1; mkq 3 1]; [mkq 4 1; mkq 5 1; mkq 6 1]], [mkq 1 1; mkq 1 1; mkq 1 1], 0%nat.
  split; [reflexivity|]. vm_compute. discriminate.
Qed.

(* the squeezes of case 0a change shapes only *)
Lemma case0a_matvec W s : forallb (fun r => (length r =? ncols W)%nat) W = true -> case0a W s = matvec W s.
Proof.
  intros Hrect. unfold case0a. destruct (Nat.eqb_spec (ncols W) 1) as [H1|H1].
  - unfold matvec. apply map_ext_in. intros r Hr. rewrite forallb_forall in Hrect. specialize (Hrect r Hr).
    apply Nat.eqb_eq in Hrect. rewrite H1 in Hrect. destruct r as [|a [|b r]]; cbn in Hrect; try lia.
    unfold dot, vmul. destruct s as [|b s]; cbn [zipw vsum hd]; ring.
  - destruct (Nat.eqb_spec (length W) 1) as [H2|H2]; [|reflexivity].
    destruct W as [|r [|r2 W]]; cbn in H2; try lia. reflexivity.
Qed.

(* ------------------------------------------------------------------ case 0g: scalar weight *)
Theorem scalar_is_w_vsum w s nt i : (i < nt)%nat -> nth i (repeat (w * vsum s) nt) 0 = w * vsum s.
Proof. apply nth_repeat_lt. Qed.

Lemma nth_full nt ns w i : (i < nt)%nat -> nth i (full nt ns w) [] = repeat w ns.
Proof. apply nth_repeat_lt. Qed.

Theorem scalar_is_edge_sum w s nt i : (i < nt)%nat ->
  w * vsum s = edge_sum (expand_mat 0 (full nt (length s) w)) (fun e => nth (e_src e) s 0) i.
Proof.
  intros Hi. rewrite edge_sum_expand_mat, nth_full by assumption. rewrite repeat_length, vsum_sumf, <- sumf_scal.
  apply sumf_ext. intros j Hj. apply in_seq in Hj. cbn zeta. rewrite keep_zero_term, nth_repeat_lt by lia. reflexivity.
Qed.

(* ------------------------------------------------------------------ cases 0b / 0c: coupling templates *)
Lemma nth_wsum W C i : (i < length W)%nat -> (i < length C)%nat -> nth i (wsum W C) 0 = dot (nth i W []) (nth i C []).
Proof. intros. unfold wsum, vec, mat in *. now apply nth_zipw. Qed.

Lemma nth_coupling_matrix f s t nt i j : (i < nt)%nat -> (i < length t)%nat -> (j < length s)%nat ->
  nth j (nth i (map2m f (broadcast_pre s nt) (broadcast_post t (length s))) []) 0 = f (nth j s 0) (nth i t 0).
Proof.
  intros Hi Ht Hj. unfold map2m, broadcast_pre, broadcast_post, vec, mat in *.
  rewrite (nth_zipw _ _ _ i [] [] []) by (rewrite ?repeat_length, ?map_length; lia).
  rewrite nth_repeat_lt by lia.
  rewrite (nth_map_lt _ _ _ 0) by lia.
  rewrite (nth_zipw _ _ _ j 0 0 0) by (rewrite ?repeat_length; lia).
  now rewrite nth_repeat_lt by lia.
Qed.

Lemma coupling_row_length f s t nt i : (i < nt)%nat -> (i < length t)%nat ->
  length (nth i (map2m f (broadcast_pre s nt) (broadcast_post t (length s))) []) = length s.
Proof.
  intros Hi Ht. unfold map2m, broadcast_pre, broadcast_post, vec, mat in *.
  rewrite (nth_zipw _ _ _ i [] [] []) by (rewrite ?repeat_length, ?map_length; lia).
  rewrite nth_repeat_lt by lia. rewrite (nth_map_lt _ _ _ 0) by lia.
  rewrite zipw_length, repeat_length. lia.
Qed.

(* wsum(W, f(broadcast_pre(s), broadcast_post(t)))[i] = sum_j W[i][j] * f(s_j, t_i) *)
Theorem wsum_broadcast_identity f W s t i :
  (i < length W)%nat -> length t = length W -> length (nth i W []) = length s ->
  nth i (wsum W (map2m f (broadcast_pre s (length W)) (broadcast_post t (length s)))) 0 =
  sumf (fun j => nth j (nth i W []) 0 * f (nth j s 0) (nth i t 0)) (seq 0 (length s)).
Proof.
  intros Hi Ht Hr. unfold vec, mat in *. rewrite nth_wsum; [|assumption|].
  2:{ unfold map2m, broadcast_pre, broadcast_post. rewrite zipw_length, repeat_length, map_length. lia. }
  rewrite dot_sumf. unfold vec, mat in *. rewrite Hr. apply sumf_ext. intros j Hj. apply in_seq in Hj.
  rewrite nth_coupling_matrix by lia. reflexivity.
Qed.

Theorem wsum_broadcast_is_edge_sum f W s t i :
  (i < length W)%nat -> length t = length W -> length (nth i W []) = length s ->
  nth i (wsum W (map2m f (broadcast_pre s (length W)) (broadcast_post t (length s)))) 0 =
  edge_sum (expand_mat 0 W) (fun e => f (nth (e_src e) s 0) (nth (e_tgt e) t 0)) i.
Proof.
  intros Hi Ht Hr. rewrite wsum_broadcast_identity, edge_sum_expand_mat by assumption. unfold vec, mat in *. rewrite Hr.
  apply sumf_ext. intros j _. cbn zeta. rewrite keep_zero_term. reflexivity.
Qed.

(* dynamic coupling: the contribution is the weighted sum of the edge states of the row ... *)
Theorem wsum_states_is_edge_sum W V i : (i < length W)%nat -> (i < length V)%nat ->
  nth i (wsum W V) 0 = edge_sum (expand_mat 0 W) (fun e => nth (e_src e) (nth (e_tgt e) V []) 0) i.
Proof.
  intros Hi Hv. rewrite nth_wsum, dot_sumf, edge_sum_expand_mat by assumption.
  apply sumf_ext. intros j _. cbn zeta. rewrite keep_zero_term. reflexivity.
Qed.

(* ... and the state of pair (i, j) follows v' = g(s_j, t_i, v) *)
Theorem dyn_state_per_pair g s t V nt i j :
  (i < nt)%nat -> (i < length t)%nat -> (i < length V)%nat -> (j < length s)%nat -> (j < length (nth i V []))%nat ->
  nth j (nth i (map3m g (broadcast_pre s nt) (broadcast_post t (length s)) V) []) 0 =
  g (nth j s 0) (nth i t 0) (nth j (nth i V []) 0).
Proof.
  intros Hi Ht HV Hj HjV. unfold map3m, broadcast_pre, broadcast_post, vec, mat in *.
  rewrite (nth_zipw _ _ _ i [] [] []); [| |assumption].
  2:{ rewrite zipw_length, repeat_length, map_length. lia. }
  rewrite (nth_zipw _ _ _ i [] [] []) by (rewrite ?repeat_length, ?map_length; lia).
  rewrite nth_repeat_lt by lia. rewrite (nth_map_lt _ _ _ 0) by lia.
  rewrite (nth_zipw _ _ _ j (0, 0) 0 0); [| |assumption].
  2:{ rewrite zipw_length, repeat_length. lia. }
  rewrite (nth_zipw _ _ _ j 0 0 (0, 0)) by (rewrite ?repeat_length; lia).
  cbn [fst snd]. now rewrite nth_repeat_lt by lia.
Qed.

(* ------------------------------------------------------------------ parameters *)
Theorem params_distribution n pv i : (i < n)%nat ->
  nth i (distribute n pv) 0 = match pv with PScal v => v | PVec l => nth i l 0 end.
Proof. intros Hi. destruct pv as [v|l]; cbn [distribute]; [now apply nth_repeat_lt|reflexivity]. Qed.

Theorem pop_pars_unit P i : (i < psize P)%nat -> map (fun v => nth i v 0) (pop_pars P) = exp_pars P i.
Proof.
  intros Hi. unfold pop_pars, exp_pars. rewrite map_map. apply map_ext. intros pv. now apply params_distribution.
Qed.

(* ------------------------------------------------------------------ several connections onto one target add *)
Lemma vadd_nth a b i : (i < length a)%nat -> (i < length b)%nat -> nth i (vadd a b) 0 = nth i a 0 + nth i b 0.
Proof. intros. unfold vadd. now apply nth_zipw. Qed.

Lemma vadd_length a b : length (vadd a b) = Nat.min (length a) (length b).
Proof. apply zipw_length. Qed.

Lemma vsumv_length n l : Forall (fun v => length v = n) l -> length (vsumv n l) = n.
Proof.
  induction 1 as [|v l Hv _ IH]; cbn [vsumv fold_right]; [apply repeat_length|].
  rewrite vadd_length. unfold vsumv in IH. rewrite IH, Hv. lia.
Qed.

Theorem connections_add n l i : (i < n)%nat -> Forall (fun v => length v = n) l ->
  nth i (vsumv n l) 0 = fold_right Qcplus 0 (map (fun v => nth i v 0) l).
Proof.
  intros Hi H. induction H as [|v l Hv Hl IH]; cbn [vsumv fold_right map]; [now apply nth_repeat_lt|].
  rewrite vadd_nth; [|lia|]. 2:{ change (fold_right vadd (repeat 0 n) l) with (vsumv n l). rewrite vsumv_length; [lia|assumption]. }
  unfold vsumv in IH. now rewrite IH.
Qed.

Theorem edge_lists_add a b term i : edge_sum (a ++ b) term i = edge_sum a term i + edge_sum b term i.
Proof. apply edge_sum_app. Qed.

(* ------------------------------------------------------------------ one Connectivity inside a network *)
Lemma rect_rows nt ns W : rect nt ns W = true ->
  length W = nt /\ forall i, (i < nt)%nat -> length (nth i W []) = ns.
Proof.
  unfold rect. rewrite andb_true_iff, Nat.eqb_eq. intros [HL HR]. split; [exact HL|].
  intros i Hi. rewrite forallb_forall in HR. apply Nat.eqb_eq. apply HR. apply nth_In. lia.
Qed.

Lemma rect_ncols nt ns W : rect nt ns W = true -> forallb (fun r => (length r =? ncols W)%nat) W = true.
Proof.
  intros H. destruct (rect_rows _ _ _ H) as [HL HR]. unfold rect in H. apply andb_true_iff in H. destruct H as [_ H].
  rewrite forallb_forall in *. intros r Hr. specialize (H r Hr). apply Nat.eqb_eq in H. apply Nat.eqb_eq.
  unfold ncols. destruct W as [|r0 W]; [inversion Hr|]. cbn [hd]. rewrite H. symmetry.
  specialize (HR 0%nat). cbn [nth length] in HR, HL. apply HR. lia.
Qed.

(* the guards that concern a single connection *)
Definition conn_guard (N : popnet) (c : conn) : bool :=
  negb (collides N c) &&
  match cw c, ccpl c with
  | WScal w, CPlain => true
  | WScal _, _ => false
  | WMat _, _ => true
  end.

(* the state has the shapes of the network *)
Definition shapes_ok (N : popnet) (hist : list nstate) (c : conn) (V : mat) : Prop :=
  length (src_vec N hist c V) = size_of N (csrc c) /\
  length (post_of N hist c) = size_of N (ctgt c) /\
  (is_dyn (ccpl c) = true -> (size_of N (ctgt c) <= length V)%nat).

Theorem pop_contrib_is_edge_sum N hist c V i :
  wf_conn N c = true -> conn_guard N c = true -> shapes_ok N hist c V -> (i < size_of N (ctgt c))%nat ->
  nth i (pop_contrib N hist c V) 0 = edge_sum (expand_conn 0 N c) (exp_term N hist c V) i.
Proof.
  intros Hwf Hg (Hs & Ht & HV) Hi.
  unfold conn_guard in Hg. apply andb_true_iff in Hg. destruct Hg as [Hcol Hg]. apply negb_true_iff in Hcol.
  unfold wf_conn in Hwf. apply andb_true_iff in Hwf. destruct Hwf as [_ Hrect].
  unfold pop_contrib, expand_conn, pop_source. rewrite Hcol.
  set (s := src_vec N hist c V) in *.
  set (t := post_of N hist c) in *.
  destruct (cw c) as [W|w] eqn:Ew.
  - destruct (rect_rows _ _ _ Hrect) as [HL HR].
    destruct (ccpl c) as [|b f|b g] eqn:Ek.
    + rewrite (case0a_matvec W s (rect_ncols _ _ _ Hrect)), matvec_is_edge_sum.
      unfold exp_term. rewrite Ek. reflexivity.
    + specialize (HR i Hi). rewrite wsum_broadcast_is_edge_sum; [| unfold vec, mat in *; lia ..].
      unfold exp_term. rewrite Ek. reflexivity.
    + specialize (HV eq_refl). rewrite wsum_states_is_edge_sum; [| unfold vec, mat in *; lia ..].
      unfold exp_term. rewrite Ek. reflexivity.
  - destruct (ccpl c) eqn:Ek; try discriminate.
    rewrite nth_repeat_lt by exact Hi. unfold exp_term. rewrite Ek. cbn zeta. fold s. rewrite <- Hs.
    cbn [is_plain]. rewrite <- (scalar_is_edge_sum (elide w) s (size_of N (ctgt c)) i Hi).
    unfold elide. destruct (near_one w); [ring|reflexivity].
Qed.

(* boolean comparison is reflexive: a computed `false` proves a disequality *)
Lemma vec_eqb_refl v : vec_eqb v v = true.
Proof.
  unfold vec_eqb. rewrite Nat.eqb_refl. cbn [andb]. induction v as [|a v IH]; [reflexivity|].
  cbn [combine forallb fst snd]. unfold Qceqb at 1. rewrite Qeq_bool_refl. exact IH.
Qed.
Lemma list_eqb_refl {A} (eqb : A -> A -> bool) : (forall x, eqb x x = true) -> forall l, list_eqb eqb l l = true.
Proof. intros H. induction l as [|x l IH]; [reflexivity|]. cbn [list_eqb]. now rewrite H, IH. Qed.
Lemma pstate_eqb_refl s : pstate_eqb s s = true.
Proof. unfold pstate_eqb. now rewrite !vec_eqb_refl. Qed.
Lemma otraj_neq a b : otraj_eqb a b = false -> a <> b.
Proof.
  intros H E. subst b. destruct a as [t|]; [|discriminate]. cbn [otraj_eqb] in H.
  unfold traj_eqb in H. rewrite list_eqb_refl in H; [discriminate|].
  intros l. apply list_eqb_refl. apply pstate_eqb_refl.
Qed.

(* the full statement is false of the faithful model: computed witnesses, one per guard *)
Definition st1 (x z : vec) : pstate := {| sx := x; sz := z |}.
Definition mkconn s sv t tv w k pv d : conn :=
  {| csrc := s; csv := sv; ctgt := t; ctv := tv; cw := w; ccpl := k; cpv := pv; cdelay := d; cspread := None |}.
Definition two_pops (n0 n1 : nat) : list pop :=
  [ {| psize := n0; ppars := [PScal 0; PScal 0; PScal 0; PScal 0] |}; {| psize := n1; ppars := [PScal 0; PScal 0; PScal 0; PScal 0] |} ].
Definition W22 : mat := [[mkq 1 1; mkq (-2) 1]; [mkq 3 4; mkq (-1) 1]].
Definition units22 : list pstate := [st1 [mkq 1 2; mkq 1 1] [0; 0]; st1 [mkq 1 1; mkq 2 1] [0; 0]].

(* scalar weight + coupling template: the template is ignored *)
Definition N_scalar_coupling : popnet :=
  {| pops := two_pops 2 2; conns := [mkconn 0 0 1 0 (WScal (mkq 2 1)) cpl_diff 0 0] |}.
Lemma scalar_coupling_before_fix : fixed_F3 = false ->
  wf_net N_scalar_coupling = true /\ g_scalar_plain N_scalar_coupling = false /\
  pop_run unit_poly N_scalar_coupling units22 (mkq 1 4) 2 <> Some (exp_run 0 unit_poly N_scalar_coupling units22 (mkq 1 4) 2).
Proof.
  intros Hflag. vm_compute in Hflag.
  first [ discriminate Hflag
        | repeat split; try (vm_compute; reflexivity); apply otraj_neq; vm_compute; reflexivity ].
Qed.

(* a scalar weight within weight_tol of 1 is not applied — in the population circuit and in the explicit network alike *)
Definition N_near_one : popnet :=
  {| pops := two_pops 2 2; conns := [mkconn 0 0 1 0 (WScal (mkq 1073741825 1073741824)) CPlain 0 0] |}.
Lemma near_one_elided_on_both_sides :
  wf_net N_near_one = true /\ near_one (mkq 1073741825 1073741824) = true /\
  pop_run unit_poly N_near_one units22 (mkq 1 4) 2 = Some (exp_run 0 unit_poly N_near_one units22 (mkq 1 4) 2).
Proof. repeat split; vm_compute; reflexivity. Qed.

(* post-synaptic variable named like the source variable, two populations of equal size: the source is lost *)
Definition N_post_name : popnet :=
  {| pops := two_pops 2 2; conns := [mkconn 0 0 1 0 (WMat W22) cpl_diff 0 0] |}.
Lemma post_name_before_fix : fixed_F2 = false ->
  wf_net N_post_name = true /\ g_post_name N_post_name = false /\
  pop_run unit_poly N_post_name units22 (mkq 1 4) 2 <> Some (exp_run 0 unit_poly N_post_name units22 (mkq 1 4) 2).
Proof.
  intros Hflag. vm_compute in Hflag.
  first [ discriminate Hflag
        | repeat split; try (vm_compute; reflexivity); apply otraj_neq; vm_compute; reflexivity ].
Qed.

(* loud classes: the population circuit raises, the explicit network has a value *)
Definition N_dup_sources : popnet :=
  {| pops := two_pops 2 2; conns := [mkconn 0 0 1 0 (WMat W22) CPlain 0 0; mkconn 0 1 1 0 (WScal (mkq 3 1)) CPlain 0 0] |}.
Definition N_coupling_shape : popnet :=
  {| pops := two_pops 2 1; conns := [mkconn 0 0 1 0 (WMat ([mkq 1 1; mkq (-2) 1] :: nil)) cpl_id 0 0] |}.
Definition N_alias : popnet :=
  {| pops := two_pops 2 2; conns := [mkconn 1 0 0 0 (WMat W22) cpl_diff 0 0; mkconn 0 0 0 0 (WMat W22) CPlain 0 0] |}.
Definition N_delay_1x1 : popnet :=
  {| pops := two_pops 1 1; conns := [mkconn 0 0 1 0 (WMat ((mkq 3 1 :: nil) :: nil)) CPlain 0 2] |}.
Lemma dup_sources_before_fix : fixed_F1 = false ->
  wf_net N_dup_sources = true /\ g_distinct_sources N_dup_sources = false /\ pop_run unit_poly N_dup_sources units22 (mkq 1 4) 2 = None.
Proof.
  intros Hflag. vm_compute in Hflag.
  first [ discriminate Hflag | repeat split; vm_compute; reflexivity ].
Qed.
Lemma alias_before_fix : fixed_F6 = false ->
  wf_net N_alias = true /\ g_no_alias N_alias = false /\ pop_run unit_poly N_alias units22 (mkq 1 4) 2 = None.
Proof.
  intros Hflag. vm_compute in Hflag.
  first [ discriminate Hflag | repeat split; vm_compute; reflexivity ].
Qed.
Lemma coupling_shape_before_fix : fixed_F5 = false ->
  wf_net N_coupling_shape = true /\ g_coupling_shape N_coupling_shape = false /\
  pop_run unit_poly N_coupling_shape [st1 [mkq 1 2; mkq 1 1] [0; 0]; st1 (mkq 1 1 :: nil) (0 :: nil)] (mkq 1 4) 2 = None.
Proof.
  intros Hflag. vm_compute in Hflag.
  first [ discriminate Hflag | repeat split; vm_compute; reflexivity ].
Qed.
Lemma delay_1x1_before_fix : fixed_F7 = false ->
  wf_net N_delay_1x1 = true /\ g_delay_shape N_delay_1x1 = false /\
  pop_run unit_poly N_delay_1x1 [st1 (mkq 1 2 :: nil) (0 :: nil); st1 (mkq 1 1 :: nil) (0 :: nil)] (mkq 1 4) 2 = None.
Proof.
  intros Hflag. vm_compute in Hflag.
  first [ discriminate Hflag | repeat split; vm_compute; reflexivity ].
Qed.

(* non-vacuity: a guard-satisfying network with a non-square signed matrix, a scalar weight onto the same target, a
   coupled matrix and per-unit parameters; Impl and Spec agree on a 3-row trajectory and the values move *)
Definition N_example : popnet :=
  {| pops := [ {| psize := 3; ppars := [PVec [mkq 1 4; mkq 1 2; mkq (-1) 4]; PScal (mkq 1 4); PScal (mkq 1 2); PVec [0; mkq 1 2; mkq 1 1]] |};
               {| psize := 2; ppars := [PScal (mkq 1 2); PVec [mkq 1 4; mkq 1 2]; PScal (mkq 1 2); PScal 0] |} ];
     conns := [ mkconn 0 0 1 0 (WMat [[mkq 1 1; mkq (-2) 1; mkq 1 2]; [0; mkq 3 4; mkq (-1) 1]]) CPlain 0 0;
                mkconn 1 1 1 0 (WScal (mkq 3 2)) CPlain 0 0;
                mkconn 1 0 0 1 (WMat [[mkq 1 1; 0]; [mkq 1 2; mkq (-1) 1]; [0; mkq 2 1]]) cpl_prod 1 0 ] |}.
Definition units_example : list pstate :=
  [st1 [mkq 1 2; mkq 1 1; mkq 3 2] [mkq (-1) 4; 0; mkq 1 4]; st1 [mkq 1 1; mkq 2 1] [mkq (-1) 4; mkq 1 2]].
Lemma nonvacuous :
  wf_net N_example = true /\ wf_units N_example units_example = true /\ guards 0 N_example = true /\
  pop_run unit_poly N_example units_example (mkq 1 4) 3 = Some (exp_run 0 unit_poly N_example units_example (mkq 1 4) 3) /\
  list_eqb pstate_eqb (nth 1 (exp_run 0 unit_poly N_example units_example (mkq 1 4) 3) []) units_example = false.
Proof. repeat split; vm_compute; reflexivity. Qed.

(* ------------------------------------------------------------------ all connections of one target variable *)
Lemma pop_contrib_length N hist c V :
  wf_conn N c = true -> shapes_ok N hist c V -> length (pop_contrib N hist c V) = size_of N (ctgt c).
Proof.
  intros Hwf (Hs & Ht & HV). unfold wf_conn in Hwf. apply andb_true_iff in Hwf. destruct Hwf as [_ Hrect].
  unfold pop_contrib. destruct (cw c) as [W|w]; [|apply repeat_length].
  destruct (rect_rows _ _ _ Hrect) as [HL _].
  destruct (ccpl c) as [|b f|b g] eqn:Ek.
  - unfold case0a. destruct (ncols W =? 1)%nat; [now rewrite map_length|].
    destruct (Nat.eqb_spec (length W) 1) as [H1|H1]; [cbn [length]; unfold vec, mat in *; lia|].
    unfold matvec. now rewrite map_length.
  - unfold wsum, map2m, broadcast_pre, broadcast_post. rewrite !zipw_length, repeat_length, map_length.
    unfold vec, mat in *. lia.
  - specialize (HV eq_refl). unfold wsum. rewrite zipw_length. unfold vec, mat in *. lia.
Qed.

Definition conn_ok (N : popnet) (hist : list nstate) (cV : conn * mat) : Prop :=
  wf_conn N (fst cV) = true /\ conn_guard N (fst cV) = true /\ shapes_ok N hist (fst cV) (snd cV).

(* the input that unit i of population p receives in variable tv: the population circuit (sum of the vectors of all
   Connectivity objects onto that variable) = the explicit network (sum over all expanded scalar edges into the unit) *)
Theorem pop_input_is_exp_input N hist p tv i :
  Forall (conn_ok N hist) (combine (conns N) (snd (cur hist) ++ repeat [] (length (conns N)))) ->
  (i < size_of N p)%nat ->
  nth i (pop_input N hist p tv) 0 = exp_input 0 N hist p tv i.
Proof.
  intros Hall Hi. unfold pop_input, exp_input.
  set (L := combine (conns N) (snd (cur hist) ++ repeat [] (length (conns N)))) in *.
  assert (HF : Forall (fun cV => conn_ok N hist cV /\ ctgt (fst cV) = p) (filter (fun cV => into p tv (fst cV)) L)).
  { apply Forall_forall. intros cV Hin. apply filter_In in Hin. destruct Hin as [Hin Hinto].
    rewrite Forall_forall in Hall. split; [now apply Hall|].
    unfold into in Hinto. apply andb_true_iff in Hinto. destruct Hinto as [H _]. now apply Nat.eqb_eq in H. }
  clearbody L. induction HF as [|cV l [(Hwf & Hg & Hsh) Ht] HFl IH].
  - cbn [map vsumv fold_right]. now apply nth_repeat_lt.
  - cbn [map fold_right]. change (vsumv (size_of N p) (?a :: ?l)) with (vadd a (vsumv (size_of N p) l)).
    assert (Hlen : length (map (fun cV0 => pop_contrib N hist (fst cV0) (snd cV0)) l) = length l) by apply map_length.
    rewrite vadd_nth.
    + rewrite IH. f_equal. apply pop_contrib_is_edge_sum; try assumption. now rewrite Ht.
    + rewrite pop_contrib_length by assumption. now rewrite Ht.
    + rewrite vsumv_length; [exact Hi|]. apply Forall_forall. intros v Hv. apply in_map_iff in Hv.
      destruct Hv as (cV' & <- & Hin').
      rewrite Forall_forall in HFl. destruct (HFl cV' Hin') as [(Hwf' & _ & Hsh') Ht'].
      rewrite pop_contrib_length by assumption. now rewrite Ht'.
Qed.

(* ================================================================== whole Euler trajectories *)
(* shape invariant of the unit states *)
Definition good_units (N : popnet) (us : list pstate) : Prop :=
  length us = length (pops N) /\
  forall p, (p < length (pops N))%nat ->
    length (sx (nth p us dps)) = size_of N p /\ length (sz (nth p us dps)) = size_of N p.
Definition good_hist (N : popnet) (h : list nstate) : Prop := Forall (fun st => good_units N (fst st)) h.

Lemma wf_units_good N us : wf_units N us = true -> good_units N us.
Proof.
  unfold wf_units. rewrite andb_true_iff, Nat.eqb_eq. intros [HL HF]. split; [exact HL|].
  intros p Hp. rewrite forallb_forall in HF.
  assert (Hin : In (nth p us dps, nth p (pops N) dpop) (combine us (pops N))).
  { rewrite <- combine_nth by exact HL. apply nth_In. rewrite combine_length, HL. lia. }
  specialize (HF _ Hin). cbn [fst snd] in HF. apply andb_true_iff in HF. destruct HF as [H1 H2].
  apply Nat.eqb_eq in H1. apply Nat.eqb_eq in H2. unfold size_of, pop_of. split; assumption.
Qed.

Lemma pvar_length N us p v : good_units N us -> (p < length (pops N))%nat -> length (pvar (nth p us dps) v) = size_of N p.
Proof. intros [_ H] Hp. destruct (H p Hp) as [H1 H2]. unfold pvar. destruct (v =? 0)%nat; assumption. Qed.

Lemma delayed_length N h d who var : good_hist N h -> (who < length (pops N))%nat ->
  length (delayed N h d who var) = size_of N who.
Proof.
  intros Hh Hw. unfold delayed. destruct (nth_error h d) as [st|] eqn:E; [|apply repeat_length].
  apply nth_error_In in E. unfold good_hist in Hh. rewrite Forall_forall in Hh. apply pvar_length; [now apply Hh|exact Hw].
Qed.

Lemma nth_map_seq {A} (F : nat -> A) n p d : (p < n)%nat -> nth p (map F (seq 0 n)) d = F p.
Proof. intros H. rewrite (nth_map_lt F (seq 0 n) p 0%nat d) by (rewrite seq_length; exact H). now rewrite seq_nth. Qed.

(* a derivative built unit by unit has the shapes of the network *)
Lemma units_of_map_good N (F : nat -> nat -> Qc * Qc) :
  good_units N (map (fun p => let d := map (F p) (seq 0 (psize (pop_of N p))) in {| sx := map fst d; sz := map snd d |})
                    (seq 0 (length (pops N)))).
Proof.
  split; [now rewrite map_length, seq_length|]. intros p Hp.
  rewrite (nth_map_seq _ _ p dps Hp). cbn [sx sz]. rewrite !map_length, seq_length. unfold size_of. split; reflexivity.
Qed.

Lemma vaxpy_length dt x dx : length (vaxpy dt x dx) = Nat.min (length x) (length dx).
Proof. apply zipw_length. Qed.

Lemma euler_good N dt st d : good_units N (fst st) -> good_units N (fst d) -> good_units N (fst (euler dt st d)).
Proof.
  intros [L1 H1] [L2 H2]. unfold euler. cbn [fst]. split; [rewrite zipw_length; lia|].
  intros p Hp. rewrite (nth_zipw _ _ _ p dps dps dps) by lia. cbn [sx sz]. rewrite !vaxpy_length.
  destruct (H1 p Hp) as [A1 A2]. destruct (H2 p Hp) as [B1 B2]. unfold vec in *. rewrite A1, A2, B1, B2. lia.
Qed.

(* ------------------------------------------------------------------ shape invariant of the edge states *)
Definition rectP (n m : nat) (V : mat) : Prop := length V = n /\ forall i, (i < n)%nat -> length (nth i V []) = m.
(* a dynamic coupling keeps one state per (target, source) pair; a gamma-kernel delay keeps chain_order stages per source unit *)
Definition rows_ok (n m : nat) (V : mat) : Prop := (n <= length V)%nat /\ forall i, (i < n)%nat -> length (nth i V []) = m.
Definition edge_ok (N : popnet) (c : conn) (V : mat) : Prop :=
  (is_dyn (ccpl c) = true -> rows_ok (size_of N (ctgt c)) (size_of N (csrc c)) V) /\
  (forall ds, cspread c = Some ds -> rectP (chain_order ds) (size_of N (csrc c)) (chain_rows N c V)).
Definition good_edges (N : popnet) (Vs : list mat) : Prop :=
  length Vs = length (conns N) /\ Forall (fun cV => edge_ok N (fst cV) (snd cV)) (combine (conns N) Vs).

Lemma combine_app_r {A B} : forall (a : list A) (b c : list B), length b = length a -> combine a (b ++ c) = combine a b.
Proof.
  induction a as [|x a IH]; intros b c H; [reflexivity|]. destruct b as [|y b]; cbn [length] in H; [lia|].
  cbn [app combine]. f_equal. apply IH. lia.
Qed.

Lemma rectP_full n m v : rectP n m (full n m v).
Proof.
  unfold full. split; [apply repeat_length|]. intros i Hi. rewrite nth_repeat_lt by exact Hi. apply repeat_length.
Qed.

Lemma rectP_zipw_vaxpy dt n m V D : rectP n m V -> rectP n m D -> rectP n m (zipw (vaxpy dt) V D).
Proof.
  intros [L1 R1] [L2 R2]. unfold rectP, vaxpy, mat, vec in *. split; [rewrite zipw_length; lia|]. intros i Hi.
  rewrite (nth_zipw _ _ _ i [] [] []) by lia. rewrite zipw_length. rewrite R1, R2 by exact Hi. lia.
Qed.

Lemma rows_ok_zipw_vaxpy dt n m V D : rows_ok n m V -> rows_ok n m D -> rows_ok n m (zipw (vaxpy dt) V D).
Proof.
  intros [L1 R1] [L2 R2]. unfold rows_ok, vaxpy, mat, vec in *. split; [rewrite zipw_length; lia|]. intros i Hi.
  rewrite (nth_zipw _ _ _ i [] [] []) by lia. rewrite zipw_length. rewrite R1, R2 by exact Hi. lia.
Qed.

Lemma skipn_zipw {A B C} (f : A -> B -> C) : forall k a b, skipn k (zipw f a b) = zipw f (skipn k a) (skipn k b).
Proof.
  induction k as [|k IH]; intros a b; [reflexivity|]. destruct a as [|x a]; [reflexivity|].
  destruct b as [|y b]; cbn [zipw skipn]; [now destruct (skipn k a)|]. apply IH.
Qed.

Lemma skipn_app_exact {A} : forall (a b : list A), skipn (length a) (a ++ b) = b.
Proof. induction a as [|x a IH]; intros b; [reflexivity|]. cbn [length app skipn]. apply IH. Qed.

Lemma chain_rows_zipw N c (f : vec -> vec -> vec) V D : chain_rows N c (zipw f V D) = zipw f (chain_rows N c V) (chain_rows N c D).
Proof. unfold chain_rows. destruct (is_dyn (ccpl c)); [apply skipn_zipw|reflexivity]. Qed.

Lemma chain_order_pos ds : (1 <= chain_order ds)%nat.
Proof. unfold chain_order. apply Nat.le_max_l. Qed.

Lemma last_is_nth {A} : forall (l : list A) d, last l d = nth (length l - 1) l d.
Proof.
  induction l as [|x [|y l] IH]; intros d; try reflexivity.
  change (last (x :: y :: l) d) with (last (y :: l) d). rewrite IH.
  cbn [length]. replace (S (S (length l)) - 1)%nat with (S (S (length l) - 1)) by lia. reflexivity.
Qed.

Lemma src_vec_length N h c V : good_hist N h -> (csrc c < length (pops N))%nat -> edge_ok N c V ->
  length (src_vec N h c V) = size_of N (csrc c).
Proof.
  intros Hh Hs [_ Hc]. unfold src_vec. destruct (cspread c) as [ds|] eqn:E; [|now apply delayed_length].
  destruct (Hc ds eq_refl) as [HL HR]. pose proof (chain_order_pos ds) as Hpos.
  rewrite last_is_nth. unfold mat, vec in *.
  rewrite (nth_indep (chain_rows N c V) (repeat (Q2Qc 0) (size_of N (csrc c))) []) by (unfold mat, vec in *; lia).
  apply HR. unfold mat, vec in *. lia.
Qed.

Lemma chain_deriv_rect N h c V ds : good_hist N h -> (csrc c < length (pops N))%nat -> cspread c = Some ds ->
  rectP (chain_order ds) (size_of N (csrc c)) (chain_rows N c V) ->
  rectP (chain_order ds) (size_of N (csrc c)) (chain_deriv N h c V).
Proof.
  intros Hh Hs E [HL HR]. unfold chain_deriv. rewrite E. cbv zeta. set (C := chain_rows N c V) in *.
  unfold rectP, mat, vec in *.
  split; [rewrite zipw_length; cbn [length]; lia|]. intros i Hi.
  rewrite (nth_zipw _ _ _ i [] [] []) by (cbn [length]; lia). rewrite zipw_length.
  rewrite (HR i Hi). destruct i as [|i]; cbn [nth].
  - rewrite delayed_length by assumption. lia.
  - rewrite HR by lia. lia.
Qed.

Lemma exp_edge_deriv_ok N h c V : good_hist N h -> (csrc c < length (pops N))%nat -> edge_ok N c V ->
  edge_ok N c (exp_edge_deriv N h c V).
Proof.
  intros Hh Hs [_ Hc]. unfold edge_ok, exp_edge_deriv, chain_rows at 1. destruct (ccpl c) as [|b f|b g] eqn:Ek; cbn [is_dyn] in *.
  - split; [discriminate|]. intros ds E. apply chain_deriv_rect; try assumption. now apply Hc.
  - split; [discriminate|]. intros ds E. apply chain_deriv_rect; try assumption. now apply Hc.
  - cbv zeta.
    set (M := map (fun i => map (fun j => g (nth j (src_vec N h c V) 0) (nth i (post_of N h c) 0) (nth j (nth i V []) 0))
                                (seq 0 (size_of N (csrc c)))) (seq 0 (size_of N (ctgt c)))).
    assert (HM : length M = size_of N (ctgt c)) by (unfold M; now rewrite map_length, seq_length).
    split.
    + intros _. unfold rows_ok, mat, vec in *. split; [rewrite app_length; lia|]. intros i Hi.
      rewrite app_nth1 by lia. unfold M. rewrite (nth_map_seq _ _ i [] Hi). now rewrite map_length, seq_length.
    + intros ds E. rewrite <- HM. rewrite skipn_app_exact. apply chain_deriv_rect; try assumption. now apply Hc.
Qed.

Lemma edge_step_ok N dt c V D : edge_ok N c V -> edge_ok N c D -> edge_ok N c (zipw (vaxpy dt) V D).
Proof.
  intros [A1 A2] [B1 B2]. split.
  - intros Hd. apply rows_ok_zipw_vaxpy; auto.
  - intros ds E. rewrite chain_rows_zipw. apply rectP_zipw_vaxpy; eauto.
Qed.

(* the broadcast form of the pair states = the per-pair form, as whole matrices *)
Lemma map3m_eq g s t V nt ns : length s = ns -> length t = nt -> rows_ok nt ns V ->
  map3m g (broadcast_pre s nt) (broadcast_post t (length s)) V =
  map (fun i => map (fun j => g (nth j s 0) (nth i t 0) (nth j (nth i V []) 0)) (seq 0 ns)) (seq 0 nt).
Proof.
  intros Hs Ht [HL HR].
  assert (Hlen : length (map3m g (broadcast_pre s nt) (broadcast_post t (length s)) V) = nt).
  { unfold map3m, broadcast_pre, broadcast_post, mat, vec in *. rewrite !zipw_length, repeat_length, map_length. lia. }
  assert (Hrow : forall i, (i < nt)%nat -> length (nth i (map3m g (broadcast_pre s nt) (broadcast_post t (length s)) V) []) = ns).
  { intros i Hi. unfold map3m, broadcast_pre, broadcast_post, mat, vec in *.
    rewrite (nth_zipw _ _ _ i [] [] []) by (rewrite ?zipw_length, ?repeat_length, ?map_length; lia).
    rewrite (nth_zipw _ _ _ i [] [] []) by (rewrite ?repeat_length, ?map_length; lia).
    rewrite nth_repeat_lt by lia. rewrite (nth_map_lt _ _ _ (Q2Qc 0)) by lia.
    rewrite !zipw_length, repeat_length. rewrite (HR i Hi). lia. }
  unfold mat, vec in *.
  apply (nth_ext _ _ [] []); [rewrite Hlen, map_length, seq_length; reflexivity|].
  intros i Hi. rewrite Hlen in Hi. rewrite (nth_map_seq _ _ i [] Hi).
  apply (nth_ext _ _ 0 0); [rewrite (Hrow i Hi), map_length, seq_length; reflexivity|].
  intros j Hj. rewrite (Hrow i Hi) in Hj. rewrite (nth_map_seq _ _ j 0 Hj).
  apply dyn_state_per_pair; try lia. rewrite (HR i Hi). lia.
Qed.

Lemma wf_conn_bounds N c : wf_conn N c = true -> (csrc c < length (pops N))%nat /\ (ctgt c < length (pops N))%nat.
Proof.
  unfold wf_conn. intros H. apply andb_true_iff in H. destruct H as [H _]. apply andb_true_iff in H.
  destruct H as [H1 H2]. apply Nat.ltb_lt in H1. apply Nat.ltb_lt in H2. split; assumption.
Qed.

Lemma edge_deriv_eq N h c V : wf_conn N c = true -> conn_guard N c = true -> good_hist N h -> edge_ok N c V ->
  pop_edge_deriv N h c V = exp_edge_deriv N h c V.
Proof.
  intros Hwf Hg Hh Hok. destruct (wf_conn_bounds N c Hwf) as [Hs Ht].
  pose proof (src_vec_length N h c V Hh Hs Hok) as Hlen.
  unfold conn_guard in Hg. apply andb_true_iff in Hg. destruct Hg as [Hcol Hg]. apply negb_true_iff in Hcol.
  unfold wf_conn in Hwf. apply andb_true_iff in Hwf. destruct Hwf as [_ Hrect].
  unfold pop_edge_deriv, exp_edge_deriv, pop_source. rewrite Hcol. destruct Hok as [Hd _].
  destruct (cw c) as [W|w]; destruct (ccpl c) as [|b f|b g]; try reflexivity; try discriminate Hg.
  destruct (rect_rows _ _ _ Hrect) as [HL _]. cbv zeta. rewrite HL. f_equal.
  apply map3m_eq; [exact Hlen| |now apply Hd]. unfold post_of. now apply delayed_length.
Qed.

(* guard of the trajectory theorem: the per-connection guards and none of the loud classes *)
Definition traj_guard (N : popnet) : bool := forallb (conn_guard N) (conns N) && negb (loud N).

Lemma conn_ok_all N h : wf_net N = true -> forallb (conn_guard N) (conns N) = true -> good_hist N h -> good_edges N (snd (cur h)) ->
  Forall (conn_ok N h) (combine (conns N) (snd (cur h) ++ repeat [] (length (conns N)))).
Proof.
  intros Hwf Hg Hh [HLe He]. rewrite combine_app_r by exact HLe. apply Forall_forall. intros [c V] Hin.
  rewrite Forall_forall in He. specialize (He _ Hin). cbn [fst snd] in He. apply in_combine_l in Hin.
  unfold wf_net in Hwf. apply andb_true_iff in Hwf. destruct Hwf as [_ Hwc].
  rewrite forallb_forall in Hwc, Hg. specialize (Hwc c Hin). specialize (Hg c Hin).
  destruct (wf_conn_bounds N c Hwc) as [Hs Ht].
  unfold conn_ok. cbn [fst snd]. repeat split; try assumption.
  - now apply src_vec_length.
  - unfold post_of. now apply delayed_length.
  - intros Hd. destruct He as [He _]. now destruct (He Hd).
Qed.

(* one evaluation of the right-hand side: population circuit = explicit network, as whole states (edge states included) *)
Lemma deriv_eq U N h : wf_net N = true -> forallb (conn_guard N) (conns N) = true -> good_hist N h -> good_edges N (snd (cur h)) ->
  pop_deriv U N h = exp_deriv 0 U N h.
Proof.
  intros Hwf Hg Hh Hge. pose proof (conn_ok_all N h Hwf Hg Hh Hge) as Hok.
  unfold pop_deriv, exp_deriv. f_equal.
  - apply map_ext_in. intros p Hp. apply in_seq in Hp. cbv zeta.
    assert (E : map (fun i => U (map (fun v => nth i v 0) (pop_pars (pop_of N p))) (nth i (sx (nth p (fst (cur h)) dps)) 0)
                                (nth i (sz (nth p (fst (cur h)) dps)) 0) (nth i (pop_input N h p 0) 0) (nth i (pop_input N h p 1) 0))
                    (seq 0 (psize (pop_of N p))) =
                map (fun i => U (exp_pars (pop_of N p) i) (nth i (sx (nth p (fst (cur h)) dps)) 0)
                                (nth i (sz (nth p (fst (cur h)) dps)) 0) (exp_input 0 N h p 0 i) (exp_input 0 N h p 1 i))
                    (seq 0 (psize (pop_of N p)))).
    { apply map_ext_in. intros i Hi. apply in_seq in Hi.
      rewrite pop_pars_unit by lia.
      rewrite !pop_input_is_exp_input by (try exact Hok; unfold size_of; lia). reflexivity. }
    rewrite E. reflexivity.
  - destruct Hge as [HLe He]. rewrite combine_app_r by exact HLe.
    apply map_ext_in. intros [c V] Hin. cbn [fst snd].
    rewrite Forall_forall in He. specialize (He _ Hin). cbn [fst snd] in He. apply in_combine_l in Hin.
    unfold wf_net in Hwf. apply andb_true_iff in Hwf. destruct Hwf as [_ Hwc].
    rewrite forallb_forall in Hwc, Hg. now apply edge_deriv_eq; auto.
Qed.

Lemma deriv_good U N h : good_units N (fst (exp_deriv 0 U N h)).
Proof. unfold exp_deriv. cbn [fst]. apply (units_of_map_good N). Qed.

(* one Euler step keeps the shapes of the edge states *)
Lemma edges_step N (G : mat -> mat -> mat) (F : conn * mat -> mat) : forall cs Vs, length Vs = length cs ->
  (forall c V, In c cs -> edge_ok N c V -> edge_ok N c (G V (F (c, V)))) ->
  Forall (fun cV => edge_ok N (fst cV) (snd cV)) (combine cs Vs) ->
  length (zipw G Vs (map F (combine cs Vs))) = length cs /\
  Forall (fun cV => edge_ok N (fst cV) (snd cV)) (combine cs (zipw G Vs (map F (combine cs Vs)))).
Proof.
  induction cs as [|c cs IH]; intros Vs HL Hstep Hall.
  - destruct Vs; [split; [reflexivity|constructor]|cbn in HL; lia].
  - destruct Vs as [|V Vs]; cbn [length] in HL; [lia|]. cbn [combine map zipw length].
    inversion Hall as [|x l Hx Hl]; subst. cbn [fst snd] in Hx.
    destruct (IH Vs) as [IL IF]; [lia|intros c' V' Hin; apply Hstep; now right|exact Hl|].
    split; [now rewrite IL|]. constructor; [cbn [fst snd]; apply Hstep; [now left|exact Hx]|exact IF].
Qed.

Lemma euler_edges_good U N dt h : wf_net N = true -> good_hist N h -> good_edges N (snd (cur h)) ->
  good_edges N (snd (euler dt (cur h) (exp_deriv 0 U N h))).
Proof.
  intros Hwf Hh [HLe He]. unfold euler, exp_deriv. cbn [snd]. rewrite combine_app_r by exact HLe.
  unfold good_edges. apply (edges_step N (zipw (vaxpy dt)) (fun cV => exp_edge_deriv N h (fst cV) (snd cV))); try assumption.
  intros c V Hin Hok. cbn [fst snd]. apply edge_step_ok; [exact Hok|].
  unfold wf_net in Hwf. apply andb_true_iff in Hwf. destruct Hwf as [_ Hwc]. rewrite forallb_forall in Hwc.
  destruct (wf_conn_bounds N c (Hwc c Hin)) as [Hs _]. now apply exp_edge_deriv_ok.
Qed.

Lemma run_hist_eq U N dt init k :
  wf_net N = true -> forallb (conn_guard N) (conns N) = true -> good_units N (fst init) -> good_edges N (snd init) ->
  run_hist (pop_deriv U N) dt init k = run_hist (exp_deriv 0 U N) dt init k /\
  good_hist N (run_hist (exp_deriv 0 U N) dt init k) /\
  good_units N (fst (cur (run_hist (exp_deriv 0 U N) dt init k))) /\
  good_edges N (snd (cur (run_hist (exp_deriv 0 U N) dt init k))).
Proof.
  intros Hwf Hg Hi He. induction k as [|k (IH1 & IH2 & IH3 & IH4)]; cbn [run_hist].
  - split; [reflexivity|]. split; [constructor; [exact Hi|constructor]|]. split; [exact Hi|exact He].
  - rewrite IH1. rewrite (deriv_eq U N _ Hwf Hg IH2 IH4).
    set (h := run_hist (exp_deriv 0 U N) dt init k) in *.
    assert (Hnew : good_units N (fst (euler dt (cur h) (exp_deriv 0 U N h)))) by (apply euler_good; [exact IH3|apply deriv_good]).
    split; [reflexivity|]. split; [constructor; assumption|]. split; [exact Hnew|].
    cbn [cur hd]. now apply euler_edges_good.
Qed.

Lemma norm_id N : forallb (conn_guard N) (conns N) = true -> norm N = N.
Proof.
  intros Hg. unfold norm. destruct N as [ps cs]. cbn [pops conns] in *. f_equal.
  transitivity (map (fun c : conn => c) cs); [|apply map_id]. apply map_ext_in. intros c Hin. rewrite forallb_forall in Hg. specialize (Hg c Hin).
  unfold conn_guard in Hg. apply andb_true_iff in Hg. destruct Hg as [_ Hg].
  unfold norm_conn. destruct (cw c); [reflexivity|]. destruct (ccpl c); try discriminate Hg.
  cbn [is_plain negb]. now rewrite andb_false_r.
Qed.

Lemma map_const_repeat (r : vec) (v : Qc) : map (fun _ => v) r = repeat v (length r).
Proof. induction r as [|a r IH]; [reflexivity|]. cbn [map length repeat]. now rewrite IH. Qed.

Lemma map_const_full W m (v : Qc) : forallb (fun r : vec => (length r =? m)%nat) W = true ->
  map (fun r : vec => map (fun _ => v) r) W = repeat (repeat v m) (length W).
Proof.
  induction W as [|r W IH]; intros H; [reflexivity|]. cbn [forallb] in H. apply andb_true_iff in H. destruct H as [Hr HW].
  apply Nat.eqb_eq in Hr. cbn [map length repeat]. rewrite map_const_repeat, Hr, IH by exact HW. reflexivity.
Qed.

Lemma init_edges_eq N v0 : wf_net N = true -> forallb (conn_guard N) (conns N) = true -> init_edges N v0 = init_edges_exp N v0.
Proof.
  intros Hwf Hg. unfold init_edges, init_edges_exp. apply map_ext_in. intros c Hin.
  unfold wf_net in Hwf. apply andb_true_iff in Hwf. destruct Hwf as [_ Hwc]. rewrite forallb_forall in Hwc, Hg.
  specialize (Hwc c Hin). specialize (Hg c Hin).
  unfold conn_guard in Hg. apply andb_true_iff in Hg. destruct Hg as [_ Hg].
  unfold wf_conn in Hwc. apply andb_true_iff in Hwc. destruct Hwc as [_ Hrect].
  destruct (cw c) as [W|w]; destruct (ccpl c); cbn [is_dyn]; try reflexivity; try discriminate Hg.
  f_equal. unfold rect in Hrect. apply andb_true_iff in Hrect. destruct Hrect as [HL HR]. apply Nat.eqb_eq in HL.
  unfold full. rewrite <- HL. exact (map_const_full W (size_of N (csrc c)) v0 HR).
Qed.

Lemma Forall_combine_map {A B} (P : A * B -> Prop) (f : A -> B) : forall l, (forall x, In x l -> P (x, f x)) -> Forall P (combine l (map f l)).
Proof. induction l as [|x l IH]; intros H; cbn [map combine]; constructor; [apply H; now left|apply IH; intros y Hy; apply H; now right]. Qed.

Lemma init_edges_good N v0 : good_edges N (init_edges_exp N v0).
Proof.
  unfold good_edges, init_edges_exp. split; [apply map_length|]. apply Forall_combine_map. intros c _. cbn [fst snd].
  unfold edge_ok, chain_rows. destruct (is_dyn (ccpl c)) eqn:Ed; split; try discriminate.
  - intros _. destruct (rectP_full (size_of N (ctgt c)) (size_of N (csrc c)) v0) as [FL FR].
    unfold rows_ok, mat, vec in *. split; [rewrite app_length; lia|]. intros i Hi. rewrite app_nth1 by lia. now apply FR.
  - intros ds E. destruct (rectP_full (size_of N (ctgt c)) (size_of N (csrc c)) v0) as [FL _].
    rewrite <- FL at 1. rewrite skipn_app_exact. unfold init_chain. rewrite E. apply (rectP_full (chain_order ds) (size_of N (csrc c)) 0).
  - intros ds E. unfold init_chain. rewrite E. apply (rectP_full (chain_order ds) (size_of N (csrc c)) 0).
Qed.

(* what `run` returns: for ANY number of rows the population circuit produces the trajectory of the explicit network *)
Theorem pop_run_is_exp_run U N units dt rows :
  wf_net N = true -> wf_units N units = true -> traj_guard N = true ->
  pop_run U N units dt rows = Some (exp_run 0 U N units dt rows).
Proof.
  intros Hwf Hu Hg. unfold traj_guard in Hg.
  apply andb_true_iff in Hg. destruct Hg as [Hg Hl]. apply negb_true_iff in Hl.
  unfold pop_run, exp_run. rewrite (norm_id N Hg). cbv zeta. rewrite Hl. f_equal.
  rewrite (init_edges_eq N 0 Hwf Hg). unfold traj. destruct rows as [|k]; [reflexivity|].
  destruct (run_hist_eq U N dt (units, init_edges_exp N 0) k Hwf Hg (wf_units_good N units Hu) (init_edges_good N 0)) as [E _].
  now rewrite E.
Qed.

(* non-vacuity of the trajectory theorem on the two classes with edge states: a dynamic coupling template (cpl_lpd) and a
   gamma-kernel delayed connection (d = 1, s = 1/2: order 4, rate 4), both onto one target variable *)
Definition N_example_dyn : popnet :=
  {| pops := pops N_example;
     conns := [ mkconn 0 0 1 0 (WMat [[mkq 1 1; mkq (-2) 1; mkq 1 2]; [0; mkq 3 4; mkq (-1) 1]]) cpl_lpd 1 0;
                {| csrc := 1; csv := 1; ctgt := 1; ctv := 0; cw := WMat [[mkq 1 2; mkq 1 1]; [mkq (-1) 1; 0]]; ccpl := CPlain;
                   cpv := 0; cdelay := 4; cspread := Some (mkq 1 1, mkq 1 2) |} ] |}.
Lemma nonvacuous_dyn :
  wf_net N_example_dyn = true /\ wf_units N_example_dyn units_example = true /\ traj_guard N_example_dyn = true /\
  chain_order (mkq 1 1, mkq 1 2) = 4%nat /\
  list_eqb pstate_eqb (nth 3 (exp_run 0 unit_poly N_example_dyn units_example (mkq 1 4) 4) []) units_example = false.
Proof. repeat split; vm_compute; reflexivity. Qed.

(* ================================================================== the full statement, once every repair is in *)
Definition all_fixed : bool := fixed_F1 && fixed_F2 && fixed_F3 && fixed_F5 && fixed_F6 && fixed_F7.

Lemma all_fixed_flags : all_fixed = true ->
  fixed_F1 = true /\ fixed_F2 = true /\ fixed_F3 = true /\ fixed_F5 = true /\ fixed_F6 = true /\ fixed_F7 = true.
Proof. unfold all_fixed. intros H. repeat (apply andb_true_iff in H; destruct H as [H ?]). repeat split; assumption. Qed.

Lemma existsb_const_false {A} (l : list A) : existsb (fun _ => false) l = false.
Proof. induction l; [reflexivity|exact IHl]. Qed.

Lemma collides_fixed N c : all_fixed = true -> collides N c = false.
Proof. intros H. destruct (all_fixed_flags H) as (_ & H2 & _). unfold collides. rewrite H2. reflexivity. Qed.

Lemma loud_fixed N : all_fixed = true -> loud N = false.
Proof.
  intros H. destruct (all_fixed_flags H) as (H1 & H2 & _ & H5 & H6 & H7).
  unfold loud, alias, cpl_bad_shape, delay_1x1, collides. rewrite H1, H2, H5, H6, H7. cbn [negb andb orb].
  apply existsb_const_false.
Qed.

Lemma rect_full nt ns w : rect nt ns (repeat (repeat w ns) nt) = true.
Proof.
  unfold rect. rewrite repeat_length, Nat.eqb_refl. cbn [andb]. apply forallb_forall. intros r Hr.
  apply repeat_spec in Hr. subst r. rewrite repeat_length. apply Nat.eqb_refl.
Qed.

Lemma wf_norm N : wf_net N = true -> wf_net (norm N) = true.
Proof.
  unfold wf_net. intros H. apply andb_true_iff in H. destruct H as [Hp Hc]. apply andb_true_iff. split; [exact Hp|].
  cbn [norm conns]. apply forallb_forall. intros c' Hin. apply in_map_iff in Hin. destruct Hin as (c & <- & Hin).
  rewrite forallb_forall in Hc. specialize (Hc c Hin). unfold wf_conn in *. unfold norm_conn.
  destruct (cw c) as [W|w] eqn:Ew; [rewrite Ew; exact Hc|].
  destruct (fixed_F3 && negb (is_plain (ccpl c))); [|rewrite Ew; exact Hc].
  cbn [csrc ctgt cw]. apply andb_true_iff in Hc. destruct Hc as [Hc _].
  change (pops (norm N)) with (pops N). rewrite Hc. cbn [andb]. apply rect_full.
Qed.

Lemma conn_guard_norm N : all_fixed = true -> forallb (conn_guard (norm N)) (conns (norm N)) = true.
Proof.
  intros H. destruct (all_fixed_flags H) as (_ & _ & H3 & _). apply forallb_forall. intros c' Hin. cbn [norm conns] in Hin.
  apply in_map_iff in Hin. destruct Hin as (c & <- & _). unfold conn_guard. rewrite (collides_fixed _ _ H). cbn [negb andb].
  unfold norm_conn. rewrite H3. destruct (cw c) as [W|w] eqn:Ew; [now rewrite Ew|].
  destruct (ccpl c) eqn:Ek; cbn [is_plain negb andb cw ccpl]; rewrite ?Ew, ?Ek; reflexivity.
Qed.

(* the explicit network does not change when a scalar weight with a template is written as the full matrix *)
Lemma combine_map_l {A B C} (f : A -> C) : forall (a : list A) (b : list B),
  combine (map f a) b = map (fun p => (f (fst p), snd p)) (combine a b).
Proof. induction a as [|x a IH]; intros [|y b]; cbn [map combine]; try reflexivity. cbn [fst snd]. now rewrite IH. Qed.

Lemma filter_map_comm {A B} (g : A -> B) (P : B -> bool) : forall l, filter P (map g l) = map g (filter (fun x => P (g x)) l).
Proof. induction l as [|x l IH]; [reflexivity|]. cbn [map filter]. destruct (P (g x)); cbn [map]; now rewrite IH. Qed.

Lemma edge_sum_ext es t1 t2 i : (forall e, t1 e = t2 e) -> edge_sum es t1 i = edge_sum es t2 i.
Proof. intros H. induction es as [|e es IH]; [reflexivity|]. cbn [edge_sum]. now rewrite H, IH. Qed.

Lemma into_norm N p tv c : into p tv (norm_conn N c) = into p tv c.
Proof. unfold into, norm_conn. destruct (cw c); [reflexivity|]. destruct (fixed_F3 && negb (is_plain (ccpl c))); reflexivity. Qed.

Lemma expand_norm mw N c : expand_conn mw (norm N) (norm_conn N c) = expand_conn mw N c.
Proof.
  unfold expand_conn, norm_conn. destruct (cw c) as [W|w] eqn:Ew; [now rewrite Ew|].
  destruct (is_plain (ccpl c)) eqn:Ep; cbn [negb]; rewrite ?andb_false_r, ?andb_true_r.
  - rewrite Ew, Ep. reflexivity.
  - destruct fixed_F3; cbn [cw ccpl csrc ctgt]; rewrite ?Ew, ?Ep; reflexivity.
Qed.

Lemma exp_term_norm N h c V e : exp_term (norm N) h (norm_conn N c) V e = exp_term N h c V e.
Proof. unfold norm_conn. destruct (cw c); [reflexivity|]. destruct (fixed_F3 && negb (is_plain (ccpl c))); reflexivity. Qed.

Lemma exp_edge_deriv_norm N h c V : exp_edge_deriv (norm N) h (norm_conn N c) V = exp_edge_deriv N h c V.
Proof. unfold norm_conn. destruct (cw c); [reflexivity|]. destruct (fixed_F3 && negb (is_plain (ccpl c))); reflexivity. Qed.

Lemma exp_input_norm mw N h p tv i : exp_input mw (norm N) h p tv i = exp_input mw N h p tv i.
Proof.
  unfold exp_input. cbn [norm conns]. rewrite map_length, combine_map_l.
  rewrite (filter_map_comm (fun p0 : conn * mat => (norm_conn N (fst p0), snd p0)) (fun cV => into p tv (fst cV))).
  rewrite map_map. f_equal.
  transitivity (map (fun cV : conn * mat => edge_sum (expand_conn mw N (fst cV)) (exp_term N h (fst cV) (snd cV)) i)
                    (filter (fun x : conn * mat => into p tv (norm_conn N (fst x))) (combine (conns N) (snd (cur h) ++ repeat [] (length (conns N)))))).
  - apply map_ext. intros [c V]. cbn [fst snd]. rewrite expand_norm. apply edge_sum_ext. intros e. apply exp_term_norm.
  - f_equal. apply filter_ext. intros [c V]. cbn [fst]. apply into_norm.
Qed.

Lemma exp_deriv_norm mw U N h : exp_deriv mw U (norm N) h = exp_deriv mw U N h.
Proof.
  unfold exp_deriv. f_equal.
  - cbn [norm pops]. apply map_ext. intros p. cbv zeta.
    assert (E : forall i, U (exp_pars (pop_of (norm N) p) i) (nth i (sx (nth p (fst (cur h)) dps)) 0) (nth i (sz (nth p (fst (cur h)) dps)) 0)
                            (exp_input mw (norm N) h p 0 i) (exp_input mw (norm N) h p 1 i) =
                          U (exp_pars (pop_of N p) i) (nth i (sx (nth p (fst (cur h)) dps)) 0) (nth i (sz (nth p (fst (cur h)) dps)) 0)
                            (exp_input mw N h p 0 i) (exp_input mw N h p 1 i)).
    { intros i. now rewrite !exp_input_norm. }
    change (psize (pop_of (norm N) p)) with (psize (pop_of N p)).
    rewrite (map_ext _ _ E). reflexivity.
  - cbn [norm conns]. rewrite map_length, combine_map_l, map_map. apply map_ext. intros [c V]. cbn [fst snd]. apply exp_edge_deriv_norm.
Qed.

Lemma init_edges_exp_norm N v0 : init_edges_exp (norm N) v0 = init_edges_exp N v0.
Proof.
  unfold init_edges_exp. cbn [norm conns]. rewrite map_map. apply map_ext. intros c.
  unfold norm_conn. destruct (cw c); [reflexivity|]. destruct (fixed_F3 && negb (is_plain (ccpl c))); reflexivity.
Qed.

Lemma run_hist_ext D1 D2 dt init k : (forall h, D1 h = D2 h) -> run_hist D1 dt init k = run_hist D2 dt init k.
Proof. intros H. induction k as [|k IH]; [reflexivity|]. cbn [run_hist]. now rewrite IH, H. Qed.

Lemma exp_run_norm mw U N units dt rows : exp_run mw U (norm N) units dt rows = exp_run mw U N units dt rows.
Proof.
  unfold exp_run, traj. rewrite init_edges_exp_norm. destruct rows as [|k]; [reflexivity|].
  now rewrite (run_hist_ext _ _ dt (units, init_edges_exp N 0) k (exp_deriv_norm mw U N)).
Qed.

(* with every repair in, NO guard is left: any well-formed population circuit, any unit dynamics, any number of rows *)
Theorem pop_run_full U N units dt rows : all_fixed = true ->
  wf_net N = true -> wf_units N units = true ->
  pop_run U N units dt rows = Some (exp_run 0 U N units dt rows).
Proof.
  intros HF Hwf Hu. rewrite <- exp_run_norm.
  assert (Hg : traj_guard (norm N) = true).
  { unfold traj_guard. rewrite (conn_guard_norm N HF), (loud_fixed (norm N) HF). reflexivity. }
  rewrite <- (pop_run_is_exp_run U (norm N) units dt rows (wf_norm N Hwf) Hu Hg).
  unfold pop_run. rewrite (norm_id (norm N) (conn_guard_norm N HF)). reflexivity.
Qed.

(* scope of the tie to the REAL explicit circuit: its scalar edges do not apply a weight within weight_tol of 1, for matrix
   entries too, whereas the Spec keeps matrix entries as they are.  On the tie domain (no entry within the tolerance of 1
   other than 1 itself: the predicate of g_not_near_one) that elision is the identity, so Spec = real explicit circuit there;
   outside it the two differ by at most weight_tol * |source| per entry. *)
Lemma elide_identity_on_tie_domain (W : mat) :
  forallb (forallb (fun w => negb (near_one w) || Qceqb w 1)) W = true -> map (map elide) W = W.
Proof.
  intros H. transitivity (map (fun r : vec => r) W); [|apply map_id]. apply map_ext_in. intros r Hr.
  rewrite forallb_forall in H. specialize (H r Hr). transitivity (map (fun w : Qc => w) r); [|apply map_id].
  apply map_ext_in. intros w Hw. rewrite forallb_forall in H. specialize (H w Hw). unfold elide.
  destruct (near_one w); [|reflexivity]. cbn [negb orb] in H. unfold Qceqb in H. apply Qeq_bool_eq in H.
  apply Qc_is_canon in H. now subst w.
Qed.
