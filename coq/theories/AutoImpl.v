(* AutoImpl.v — C18 Impl: the emission model of Auto.v with the slot function that harness/py2v.py (E2) regenerates on
   every run from the current text of FortranBackend._auto_param_indices and _AUTO_BLOCKED_PAR_RANGE. *)
From Coq Require Import ZArith List String.
From PV Require Import PyLib Auto.
From PVG Require Import Gen_auto_param_indices.
Definition emit (m : model) : emission :=
  emit_with (fun fargs => auto_param_indices fargs AUTO_BLOCKED_PAR_RANGE) m.
