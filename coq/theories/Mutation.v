(* Mutation.v — C14: read-only and copy-making operations on a template (same object store as C07).

   Impl = what each listed operation of pyrates/frontend/template/circuit.py does to the store and to the bookkeeping
   attributes of the template object it is called on, as the code is now (fix D10a: collect_edges copies the edge list;
   fix D10b: dict.from_operator copies op.variables):
     get_nodes / get_node_template / __getitem__ / get_edge / get_edges / collect_edges   pure reads
     to_yaml                                                                              pure read (after D10b)
     deepcopy                                 copy of the reachable sub-graph to fresh ids (Heap.copy_circ)
     OperatorTemplate.update_template(equations=..) (fix D44: the base's variables dict is copied before unused variables are
                                              popped)  a NEW operator object, nothing else is written
     update_template(edges=..) (no in_place)  a NEW circuit object: children dict rebuilt with the same child objects,
                                              edge list = deep copy of the old one + the new edges
     get_run_func / get_jacobian_func (in_place=False)
                                              net = deepcopy(self) ; compile net ;
                                              `for key, val in self._state_var_values.items(): v.set_value(np.reshape(val, v.shape))`
                                              `self._state_var_indices = ...` ; `if not self.state: self._state_var_values[key] = ...`
     run (in_place=False)                     net = deepcopy(self) (the copy carries self._state_var_indices) ; compile ;
                                              get_variable_positions -> np.arange over self._state_var_indices[v] ;
                                              `self._state_var_values[key] = final state`
   Before fix D74 the bookkeeping was written onto `self` although in_place=False (`book` below, `fixed` = false); since D74
   it stays on the deep copy (`fixed` = true).  `sv` abstracts `_state_var_values`
   (empty / the declared initial values stored by a compile with vectorize=v / the final state of runs, last one with
   vectorize=vlast, `mixed` when runs with both settings wrote into the dictionary); `si` = `_state_var_indices` holds
   integer slots (set by a NON-vectorized get_run_func / get_jacobian_func; a vectorized compile stores ranges, which
   `_get_var_idx` accepts).  Outcomes of a compile: the declared initial values, a
   carried final state, or an exception (np.reshape ValueError / KeyError); of a run: result or TypeError.
   (The vectorize-switch outcomes are those of circuits in which vectorization merges >= 2 nodes.)

   Spec = every operation is a function of the template's denotation (the unshared tree), which never changes:
   reads return what the tree says, every compile starts from the declared initial values, every run succeeds.
   Definitions only. *)
From Coq Require Import List String Arith Bool QArith Qcanon.
From PV Require Import Heap Values.
Import ListNotations.
Open Scope nat_scope.

Inductive svst := SNone | SDecl (v : bool) | SFinal (vlast mixed : bool).
Record book := mkBook { sv : svst; si : bool }.
Definition book0 : book := mkBook SNone false.

Inductive rquery := QNodes (pat : path) | QNodeTemplate (n : path) | QEdges | QEdge (s t : string).
Inductive mop :=
| MRead (q : rquery)
| MSubEdges (p : path)            (* get_edges / collect_edges called on the sub-circuit self.circuits[p1].circuits[p2]... *)
| MToYaml
| MDeepcopy
| MUpdateTemplate (es : list edge)
| MDeriveEdit (s t : string) (upd : vars)   (* d = self.update_template(nodes|circuits = ..) (no edges, no in_place);
                                              d.update_var(edge_vars=[(s, t, upd)]) *)
| MNewObject (o : obj)            (* a derived template object is created: OperatorTemplate.update_template(equations=..) *)
| MCompile (jac vec : bool)
| MRun (vec : bool)
| MObserve.                       (* the measurement of the check: a deep copy with cleared bookkeeping is compiled *)
Inductive yout := YDeclared | YCarried | YErr.
Inductive mout :=
| RPaths (r : option (list path)) | RNode (a : option anode) | REdges (e : option (list edge)) | REdge (a : option vars)
| RDone | RRaised | RCompile (y : yout) | RRun (ok : bool) | RObs (o : hout).

Fixpoint first_edge (es : list edge) (s t : string) : option vars :=
  match es with
  | [] => None
  | (s', t', a) :: r => if String.eqb s s' && String.eqb t t' then Some a else first_edge r s t
  end.
Definition root_edges (t : atree) : list edge := match t with ALeaf _ es => es | AInner _ es => es end.

Definition read (d : nat) (r : id) (h : heap) (q : rquery) : mout :=
  match q with
  | QNodes pat => RPaths (get_nodes d h r pat)
  | QNodeTemplate n => RNode (match get_node_template d h r n with Some nid => node_den h nid | None => None end)
  | QEdges => REdges (collect_edges d h r)
  | QEdge s t => REdge (match lookup h r with Some (OCirc _ es) => first_edge es s t | _ => None end)
  end.
Definition tread (t : atree) (q : rquery) : mout :=
  match q with
  | QNodes pat => RPaths (tget_nodes t pat)
  | QNodeTemplate n => RNode (tget_node t n)
  | QEdges => REdges (Some (tcollect_edges t))
  | QEdge s tg => REdge (first_edge (root_edges t) s tg)
  end.

Definition deepcopy_heap (d : nat) (r : id) (h : heap) : heap :=
  match copy_circ d h [] r with Some (h', _, _) => h' | None => h end.

Definition compile_out (b : book) (vec : bool) : yout :=
  match sv b with
  | SNone => YDeclared
  | SDecl v => if Bool.eqb v vec then YDeclared else YErr
  | SFinal vl mixed => if mixed then (if orb vec vl then YErr else YCarried) else (if Bool.eqb vl vec then YCarried else YErr)
  end.
Definition compile_book (b : book) (vec : bool) : book :=
  match compile_out b vec with
  | YErr => b                                              (* raised before anything is written *)
  | _ => mkBook (match sv b with SNone => SDecl vec | s => s end) (si b || negb vec)
  end.
Definition run_book (b : book) (vec : bool) : book :=
  if si b then b                                            (* TypeError before the simulation *)
  else mkBook (match sv b with
               | SNone => SFinal vec false
               | SDecl v => SFinal vec (negb (Bool.eqb v vec))
               | SFinal vl mixed => SFinal vec (mixed || negb (Bool.eqb vl vec))
               end) false.

(* the sub-circuit object reached by a path of circuit names, with its hierarchy depth / the sub-tree of the denotation *)
Fixpoint sub_circ (d : nat) (h : heap) (c : id) (p : path) {struct p} : option (nat * id) :=
  match p with
  | [] => Some (d, c)
  | k :: rest =>
    match d, lookup h c with
    | S d', Some (OCirc ch _) => match dget k ch with Some cc => sub_circ d' h cc rest | None => None end
    | _, _ => None
    end
  end.
Fixpoint tsub (t : atree) (p : path) : option atree :=
  match p with
  | [] => Some t
  | k :: rest =>
    match t with
    | AInner ss _ => match dget k ss with Some s => tsub s rest | None => None end
    | ALeaf _ _ => None
    end
  end.

Definition mstate := (heap * book)%type.
(* One-line switches, read by harness/c14.py (overridable by VERIF_C14_FIXED / VERIF_C14_EDGES_FIXED).
   fixed_state_carry: true since fix D74 (with in_place=False the state bookkeeping is read from and written to the deep
   copy, `self` keeps the bookkeeping it had); false = the mechanism before D74, kept for the regression lemmas.
   fixed_shared_edge_dicts: true since fix D82 (update_template without `edges` deep-copies the edge list); false = the
   mechanism before D82, kept for the regression lemma: `self.edges` was handed to the constructor, which built new tuples
   around the SAME attribute dictionaries, so an edge update on the derived template was an edge update on its base. *)
Definition fixed_state_carry : bool := true.
Definition fixed_shared_edge_dicts : bool := true.
(* fixed_D98 (overridable by VERIF_C14_D98_FIXED): true since fix D98 (the prefixed attributes go into a new dictionary);
   false = the mechanism before D98, kept for the `_before_fix` statements: collect_edges (also behind get_edges) prefixes the
   variable paths held as string-valued edge attributes IN the attribute dictionaries of the sub-circuits' templates — a
   getter that changed the template, once more on every call. *)
Definition fixed_D98 : bool := true.

(* what collect_edges (before fix D98) does to the store: `for c_scope, c in self.circuits.items(): edges_tmp = c.collect_edges();
   for .. edge_dict in edges_tmp: edge_dict[key] = f"{c_scope}/{val}"` — the dictionaries in edges_tmp ARE the dictionaries of the
   templates below c (once per path that reaches them) *)
Definition prefix_own (n : string) (h : heap) (c : id) : heap :=
  match lookup h c with
  | Some (OCirc ch es) => hset h c (OCirc ch (map (fun e : edge => let '(s, t, a) := e in (s, t, prefix_attrs n a)) es))
  | _ => h
  end.
Fixpoint prefix_all (n : string) (d : nat) (h : heap) (c : id) : heap :=
  let h1 := prefix_own n h c in
  match d, lookup h c with
  | S d', Some (OCirc ch _) => fold_left (fun acc x => prefix_all n d' acc (snd x)) ch h1
  | _, _ => h1
  end.
Fixpoint collect_mut (d : nat) (h : heap) (c : id) : heap :=
  match d, lookup h c with
  | S d', Some (OCirc ch _) => fold_left (fun acc x => prefix_all (fst x) d' (collect_mut d' acc (snd x)) (snd x)) ch h
  | _, _ => h
  end.

Definition mstep_gen (fixed fixed_e f98 : bool) (d : nat) (r : id) (s : mstate) (o : mop) : mstate * mout :=
  let '(h, b) := s in
  match o with
  | MRead q => ((match q with QEdges => if f98 then h else collect_mut d h r | _ => h end, b), read d r h q)
  | MSubEdges p =>
    match sub_circ d h r p with
    | Some (d', c) => ((if f98 then h else collect_mut d' h c, b), REdges (collect_edges d' h c))
    | None => (s, REdges None)                                     (* KeyError *)
    end
  | MToYaml => (s, RDone)
  | MDeepcopy => ((deepcopy_heap d r h, b), RDone)
  | MUpdateTemplate es =>
    match lookup h r with
    | Some (OCirc ch es0) => ((h ++ [OCirc ch (es0 ++ es)], b), RDone)
    | _ => (s, RDone)
    end
  | MDeriveEdit sv tv upd =>
    match lookup h r with
    | Some (OCirc ch es0) =>
      let h1 := h ++ [OCirc ch es0] in                       (* the derived template object *)
      match edges_update es0 sv tv upd with
      | Some es' => ((if fixed_e then h1 else hset h1 r (OCirc ch es'), b), RDone)   (* the base sees the write *)
      | None => ((h1, b), RRaised)                           (* get_edge: KeyError *)
      end
    | _ => (s, RRaised)
    end
  | MNewObject o => ((h ++ [o], b), RDone)
  | MCompile _ vec => ((deepcopy_heap d r h, if fixed then b else compile_book b vec), RCompile (compile_out b vec))
  | MRun vec => ((deepcopy_heap d r h, if fixed then b else run_book b vec), RRun (negb (si b)))
  | MObserve => ((deepcopy_heap d r h, b), RObs (observe d r h [] []))
  end.
Definition mstepS (d : nat) (t : atree) (o : mop) : mout :=
  match o with
  | MRead q => tread t q
  | MSubEdges p => REdges (match tsub t p with Some s => Some (tcollect_edges s) | None => None end)
  | MToYaml | MDeepcopy | MUpdateTemplate _ | MNewObject _ => RDone
  | MDeriveEdit sv tv _ => match first_edge (root_edges t) sv tv with Some _ => RDone | None => RRaised end
  | MCompile _ _ => RCompile YDeclared
  | MRun _ => RRun true
  | MObserve => RObs (tobserve d t [] [])
  end.
Fixpoint mrun_gen (fixed fixed_e f98 : bool) (d : nat) (r : id) (s : mstate) (ops : list mop) : mstate * list mout :=
  match ops with
  | [] => (s, [])
  | o :: rest => let '(s1, out) := mstep_gen fixed fixed_e f98 d r s o in
                 let '(s2, outs) := mrun_gen fixed fixed_e f98 d r s1 rest in (s2, out :: outs)
  end.
Definition mstep := mstep_gen fixed_state_carry fixed_shared_edge_dicts fixed_D98.     (* the code as it is *)
Definition mrun := mrun_gen fixed_state_carry fixed_shared_edge_dicts fixed_D98.

(* guard of the former finding C14-shared-edge-dicts (needed only for fixed_e = false) *)
Definition is_derive_edit (o : mop) : bool := match o with MDeriveEdit _ _ _ => true | _ => false end.
Definition no_derive_edit (ops : list mop) : bool := negb (existsb is_derive_edit ops).
(* guard of finding D98: no collect_edges / get_edges call on the template (needed only for f98 = false) *)
Definition is_collect (o : mop) : bool := match o with MRead QEdges | MSubEdges _ => true | _ => false end.
Definition no_collect (ops : list mop) : bool := negb (existsb is_collect ops).
Definition op_ok (fe f98 : bool) (o : mop) : bool := (fe || negb (is_derive_edit o)) && (f98 || negb (is_collect o)).
Definition ops_ok (fe f98 : bool) (ops : list mop) : bool := forallb (op_ok fe f98) ops.

(* guard of the state-carry defect as it was before fix D74: no bookkeeping written by an earlier call is read by a later one *)
Fixpoint carry_free (seen_run : bool) (seen_c : option bool) (ops : list mop) : bool :=
  match ops with
  | [] => true
  | MCompile _ v :: r =>
    negb seen_run && (match seen_c with None => true | Some v' => Bool.eqb v' v end) && carry_free seen_run (Some v) r
  | MRun _ :: r => (match seen_c with None => true | Some _ => false end) && carry_free true seen_c r
  | _ :: r => carry_free seen_run seen_c r
  end.
Definition no_state_carry (ops : list mop) : bool := carry_free false None ops.

(* ---- comparison glue for the correspondence run ---- *)
Fixpoint paths_eqb (a b : list path) : bool :=
  match a, b with [], [] => true | x :: a', y :: b' => path_eqb x y && paths_eqb a' b' | _, _ => false end.
Definition yout_eqb (a b : yout) : bool :=
  match a, b with YDeclared, YDeclared | YCarried, YCarried | YErr, YErr => true | _, _ => false end.
(* what the real code reported for one operation *)
Inductive pymout :=
| PPaths (r : option (list path)) | PNodeOps (names : option (list string)) | PEdgeCount (n : option nat) | PEdgeW (w : option Qc)
| PDone' | PRaised' | PCompile (y : yout) | PRun (ok : bool) | PObs' (keys : list (okey * val)) (pairs : list (string * string * Qc)).
Definition mout_ok (inputs : list string) (m : mout) (p : pymout) : bool :=
  match m, p with
  | RPaths (Some a), PPaths (Some b) => paths_eqb a b
  | RPaths None, PPaths None => true
  | RNode (Some a), PNodeOps (Some ns) => paths_eqb [map name_of a] [ns]
  | RNode None, PNodeOps None => true
  | REdges (Some es), PEdgeCount (Some n) => Nat.eqb (List.length es) n
  | REdges None, PEdgeCount None => true
  | REdge (Some a), PEdgeW (Some w) => Qc_eqb (weight_of a) w
  | REdge None, PEdgeW None => true
  | RDone, PDone' => true
  | RObs ORaised, PRaised' => true
  | RRaised, PRaised' => true
  | RCompile a, PCompile b => yout_eqb a b
  | RRun a, PRun b => Bool.eqb a b
  | RObs o, PObs' k e => obs_ok inputs o k e
  | _, _ => false
  end.
Fixpoint mouts_ok (inputs : list string) (ms : list mout) (ps : list pymout) : bool :=
  match ms, ps with
  | [], [] => true
  | m :: ms', p :: ps' => mout_ok inputs m p && mouts_ok inputs ms' ps'
  | _, _ => false
  end.
