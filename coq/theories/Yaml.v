(* Yaml.v — C15 part (b): the template store behind to_yaml / from_yaml.
   Impl: `dump` = pyrates.frontend.dict.from_circuit / from_node / from_operator / from_edge / add_to_dict
         (what dump_to_yaml writes, as an insertion-ordered name-keyed store),
         `load` = pyrates.frontend.template.from_yaml over such a store (known template classes only; the
         `base: <parent>` recursion of operator templates is modelled in Replace.v, update_op).
   Spec: `denote` = the flattened model a template stands for (node path / operator / variable |-> kind and
         value, the equations, the edges with their templates and attributes); round trip must not change it.
   Definitions only; proofs in YamlProofs.v.  Numbers (dyadic floats of any magnitude) are represented by an injective
   integer code (harness: zcode); the model only compares them. *)
From Coq Require Import List Ascii Bool Arith ZArith.
From PV Require Import Replace.
Import ListNotations.

(* repair switch (true since fix D104 = 33837bc): before it, to_yaml of values that are numpy scalars (update_var with numpy
   values, add_edges_from_matrix) raised RepresenterError; the writer now converts them to Python numbers *)
Definition fixed_numpy : bool := true.
Definition dump_representable (fx numpy_values : bool) : bool := fx || negb numpy_values.
(* populations / connections have no YAML representation.  Since fix D116 (1e88cab) to_yaml REFUSES such a circuit
   (PyRatesException); before it, from_circuit wrote the population's base node as ONE plain node and no Connectivity, and the
   re-loaded circuit was silently a different model.  The property's equivalence claim for Population/Connectivity circuits
   is therefore decided as "refused loudly": the YAML route does not cover them. *)
Definition fixed_populations_refused : bool := true.
Inductive pop_outcome := PopRefused | PopCollapsed.           (* what to_yaml does with a circuit that has populations *)
Definition dump_populations (fx : bool) : pop_outcome := if fx then PopRefused else PopCollapsed.
(* Spec: the round trip of such a circuit is refused or preserves the dynamics — never a silently different circuit *)
Definition pop_spec_ok (o : pop_outcome) : bool := match o with PopRefused => true | PopCollapsed => false end.

(* ---------- insertion-ordered dictionaries (Python dict) ---------- *)
Fixpoint assoc {V} (k : str) (m : list (str * V)) : option V :=
  match m with [] => None | (k', v) :: m' => if str_eqb k k' then Some v else assoc k m' end.
(* d[k] = v : an existing key keeps its position, a new key is appended *)
Fixpoint set_assoc {V} (k : str) (v : V) (m : list (str * V)) : list (str * V) :=
  match m with
  | [] => [(k, v)]
  | (k', v') :: m' => if str_eqb k k' then (k, v) :: m' else (k', v') :: set_assoc k v m'
  end.
Fixpoint nodupb (l : list str) : bool :=
  match l with [] => true | x :: l' => negb (existsb (str_eqb x) l') && nodupb l' end.

(* ---------- the Python-side objects ---------- *)
Inductive vtype := VConst | VState | VIn | VOut.
Definition vspec := (vtype * Z)%type.                     (* kind and code of the value *)
Definition upd := list (str * Z).                          (* node-level overrides {var: value} *)
Record opT := mkOp { o_name : str; o_eqs : list str; o_vars : list (str * vspec) }.
Record nodeT := mkNode { n_name : str; n_ops : list (opT * upd) }.          (* NodeTemplate / EdgeTemplate *)
Record edgeT := mkEdge { ed_src : str; ed_tgt : str; ed_tpl : option nodeT; ed_attrs : list (str * Z) }.
Record flatC := mkFlat { f_name : str; f_nodes : list (str * nodeT); f_edges : list edgeT }.
(* hierarchy depth 0 (c_subs = []) or 1 *)
Record circ := mkCirc { c_name : str; c_subs : list (str * flatC); c_nodes : list (str * nodeT); c_edges : list edgeT }.

(* ---------- the store (the dict that is dumped to YAML) ---------- *)
Definition sedge := (str * str * option str * list (str * Z))%type.
Inductive entry :=
| EOp (eqs : list str) (vars : list (str * vspec))                              (* base: OperatorTemplate *)
| ENode (is_edge : bool) (ops : list (str * upd))           (* base: NodeTemplate / EdgeTemplate; operator key, values set by the node *)
| ECirc (subs nodes : list (str * str)) (edges : list sedge).                   (* base: CircuitTemplate *)
Definition store := list (str * entry).

(* ---------- equality tests ---------- *)
Fixpoint list_eqb {A} (e : A -> A -> bool) (a b : list A) : bool :=
  match a, b with
  | [], [] => true
  | x :: a', y :: b' => e x y && list_eqb e a' b'
  | _, _ => false
  end.
Definition vtype_eqb (a b : vtype) : bool :=
  match a, b with VConst, VConst | VState, VState | VIn, VIn | VOut, VOut => true | _, _ => false end.
Definition vspec_eqb (a b : vspec) : bool := vtype_eqb (fst a) (fst b) && Z.eqb (snd a) (snd b).
Definition pair_eqb {A B} (ea : A -> A -> bool) (eb : B -> B -> bool) (a b : A * B) : bool := ea (fst a) (fst b) && eb (snd a) (snd b).
Definition opt_eqb {A} (e : A -> A -> bool) (a b : option A) : bool :=
  match a, b with None, None => true | Some x, Some y => e x y | _, _ => false end.
(* Python's dict == dict: same keys, same values, ORDER IGNORED *)
Definition dict_eqb {V} (e : V -> V -> bool) (a b : list (str * V)) : bool :=
  Nat.eqb (List.length a) (List.length b) &&
  forallb (fun kv => match assoc (fst kv) b with Some v' => e (snd kv) v' | None => false end) a.
Definition sedge_eqb (a b : sedge) : bool :=
  let '(s1, t1, k1, at1) := a in let '(s2, t2, k2, at2) := b in
  str_eqb s1 s2 && str_eqb t1 t2 && opt_eqb str_eqb k1 k2 && dict_eqb Z.eqb at1 at2.
(* `operators` of a node is written as a list of keys when the node sets no value at all, else as a dict
   {key: {variable: value}}; list == list is ordered, dict == dict is not, list == dict is False *)
Definition plain_ops (l : list (str * upd)) : bool := forallb (fun p => match snd p with [] => true | _ => false end) l.
Definition node_ops_eqb (a b : list (str * upd)) : bool :=
  if plain_ops a && plain_ops b then list_eqb str_eqb (map fst a) (map fst b)
  else if negb (plain_ops a) && negb (plain_ops b) then dict_eqb (dict_eqb Z.eqb) a b
  else false.
(* `full_dict[temp_key] != template_dict` of add_to_dict *)
Definition entry_eqb (a b : entry) : bool :=
  match a, b with
  | EOp e1 v1, EOp e2 v2 => list_eqb str_eqb e1 e2 && dict_eqb vspec_eqb v1 v2
  | ENode b1 o1, ENode b2 o2 => Bool.eqb b1 b2 && node_ops_eqb o1 o2
  | ECirc s1 n1 e1, ECirc s2 n2 e2 => dict_eqb str_eqb s1 s2 && dict_eqb str_eqb n1 n2 && list_eqb sedge_eqb e1 e2
  | _, _ => false
  end.
(* syntactic equality (order matters) *)
Definition sedge_eqs (a b : sedge) : bool :=
  let '(s1, t1, k1, at1) := a in let '(s2, t2, k2, at2) := b in
  str_eqb s1 s2 && str_eqb t1 t2 && opt_eqb str_eqb k1 k2 && list_eqb (pair_eqb str_eqb Z.eqb) at1 at2.
Definition entry_eqs (a b : entry) : bool :=
  match a, b with
  | EOp e1 v1, EOp e2 v2 => list_eqb str_eqb e1 e2 && list_eqb (pair_eqb str_eqb vspec_eqb) v1 v2
  | ENode b1 o1, ENode b2 o2 => Bool.eqb b1 b2 && list_eqb (pair_eqb str_eqb (list_eqb (pair_eqb str_eqb Z.eqb))) o1 o2
  | ECirc s1 n1 e1, ECirc s2 n2 e2 =>
      list_eqb (pair_eqb str_eqb str_eqb) s1 s2 && list_eqb (pair_eqb str_eqb str_eqb) n1 n2 && list_eqb sedge_eqs e1 e2
  | _, _ => false
  end.

(* ---------- Impl: dump ---------- *)
Definition numpre : str := ["_"; "n"; "u"; "m"]%char.
Fixpoint dec (fuel n : nat) : str :=
  match fuel with
  | O => []
  | S f => (if Nat.ltb n 10 then [] else dec f (Nat.div n 10)) ++ [ascii_of_nat (48 + Nat.modulo n 10)]
  end.
Definition key_k (name : str) (k : nat) : str := match k with O => name | _ => name ++ numpre ++ dec (S k) k end.

(* add_to_dict (as repaired): the key is the template's name; if that key is taken by a DIFFERENT dict, the first key
   <name>_num<k>, k = 1, 2, ..., that is free or already holds this very dict.  `!=` on dicts ignores the order of keys
   (entry_eqb); two structurally identical dicts are equal in particular (entry_eqs).  A store of n entries has a free
   key among n+1 candidates: fuel S (length st) is never exhausted. *)
Fixpoint free_key (name : str) (d : entry) (st : store) (k fuel : nat) : str :=
  match fuel with
  | O => key_k name k
  | S f => match assoc (key_k name k) st with
           | Some d' => if entry_eqs d' d || entry_eqb d' d then key_k name k else free_key name d st (S k) f
           | None => key_k name k
           end
  end.
Definition add_to_dict (name : str) (d : entry) (st : store) : str * store :=
  let key := free_key name d st 0 (S (List.length st)) in (key, set_assoc key d st).

(* from_node / from_operator (as repaired): the operator template is written as it is — one dict per operator template —
   and the values a node sets stay at the node: operators: {<operator key>: {<variable>: <value>}} *)
Definition op_entry (op : opT) (u : upd) : entry := EOp (o_eqs op) (o_vars op).
Definition dump_op (op : opT) (u : upd) (st : store) : str * store := add_to_dict (o_name op) (op_entry op u) st.

Fixpoint dump_ops (l : list (opT * upd)) (st : store) : list (str * upd) * store :=
  match l with
  | [] => ([], st)
  | (op, u) :: l' => let (k, st1) := dump_op op u st in let (ks, st2) := dump_ops l' st1 in ((k, u) :: ks, st2)
  end.
Definition dump_node (is_edge : bool) (nd : nodeT) (st : store) : str * store :=
  let (ks, st1) := dump_ops (n_ops nd) st in add_to_dict (n_name nd) (ENode is_edge ks) st1.

Fixpoint dump_nodes (l : list (str * nodeT)) (st : store) : list (str * str) * store :=
  match l with
  | [] => ([], st)
  | (key, nd) :: l' => let (k, st1) := dump_node false nd st in let (ks, st2) := dump_nodes l' st1 in ((key, k) :: ks, st2)
  end.
Definition dump_edge (e : edgeT) (st : store) : sedge * store :=
  match ed_tpl e with
  | None => ((ed_src e, ed_tgt e, None, ed_attrs e), st)
  | Some t => let (k, st1) := dump_node true t st in ((ed_src e, ed_tgt e, Some k, ed_attrs e), st1)
  end.
Fixpoint dump_edges (l : list edgeT) (st : store) : list sedge * store :=
  match l with
  | [] => ([], st)
  | e :: l' => let (x, st1) := dump_edge e st in let (xs, st2) := dump_edges l' st1 in (x :: xs, st2)
  end.
Definition dump_flat (f : flatC) (st : store) : str * store :=
  let (ns, st1) := dump_nodes (f_nodes f) st in
  let (es, st2) := dump_edges (f_edges f) st1 in
  add_to_dict (f_name f) (ECirc [] ns es) st2.
Fixpoint dump_subs (l : list (str * flatC)) (st : store) : list (str * str) * store :=
  match l with
  | [] => ([], st)
  | (key, f) :: l' => let (k, st1) := dump_flat f st in let (ks, st2) := dump_subs l' st1 in ((key, k) :: ks, st2)
  end.
(* from_circuit: `if circuit.circuits:` sub-circuits, `else:` nodes; then the edges; then the circuit itself *)
Definition dump_circ (c : circ) (st : store) : str * store :=
  let (ss, st1) := dump_subs (c_subs c) st in
  let (ns, st2) := match c_subs c with [] => dump_nodes (c_nodes c) st1 | _ => ([], st1) end in
  let (es, st3) := dump_edges (c_edges c) st2 in
  add_to_dict (c_name c) (ECirc ss ns es) st3.
Definition dump (c : circ) : str * store := dump_circ c [].

(* ---------- Impl: load (from_yaml on the keys of the store; None = from_yaml raises) ---------- *)
Definition load_op (st : store) (k : str) : option opT :=
  match assoc k st with Some (EOp eqs vars) => Some (mkOp k eqs vars) | _ => None end.
Definition load_node (is_edge : bool) (st : store) (k : str) : option nodeT :=
  match assoc k st with
  | Some (ENode e ops) =>
      if Bool.eqb e is_edge then obind (mapM (fun ku => obind (load_op st (fst ku)) (fun o => Some (o, snd ku))) ops) (fun os => Some (mkNode k os)) else None
  | _ => None
  end.
Definition load_keyed {A} (f : str -> option A) (l : list (str * str)) : option (list (str * A)) :=
  mapM (fun kv => obind (f (snd kv)) (fun x => Some (fst kv, x))) l.
Definition load_edge (st : store) (e : sedge) : option edgeT :=
  let '(s, t, k, at_) := e in
  match k with
  | None => Some (mkEdge s t None at_)
  | Some k' => obind (load_node true st k') (fun nd => Some (mkEdge s t (Some nd) at_))
  end.
Definition load_flat (st : store) (k : str) : option flatC :=
  match assoc k st with
  | Some (ECirc [] ns es) =>
      obind (load_keyed (load_node false st) ns) (fun nodes =>
      obind (mapM (load_edge st) es) (fun edges => Some (mkFlat k nodes edges)))
  | _ => None
  end.
Definition load_circ (st : store) (k : str) : option circ :=
  match assoc k st with
  | Some (ECirc ss ns es) =>
      obind (load_keyed (load_flat st) ss) (fun subs =>
      obind (load_keyed (load_node false st) ns) (fun nodes =>
      obind (mapM (load_edge st) es) (fun edges => Some (mkCirc k subs nodes edges))))
  | _ => None
  end.
(* what a user does: c.to_yaml(file); CircuitTemplate.from_yaml(file/<name of c>) *)
Definition roundtrip (c : circ) : option circ := load_circ (snd (dump c)) (c_name c).

(* ---------- Spec: denotation ---------- *)
Definition dvar := (str * vspec)%type.
Definition dop := (str * list str * list dvar)%type.          (* operator name, equations, variables *)
Definition dnode := list dop.
Definition dedge := (str * str * option dnode * list (str * Z))%type.
Definition den := (list (str * dnode) * list dedge)%type.

(* OperatorTemplate.apply(values=overrides): the value comes from the override, the kind from the template *)
Definition override (u : upd) (kv : str * vspec) : dvar :=
  (fst kv, (fst (snd kv), match assoc (fst kv) u with Some y => y | None => snd (snd kv) end)).
Definition denote_op (ou : opT * upd) : dop := (o_name (fst ou), o_eqs (fst ou), map (override (snd ou)) (o_vars (fst ou))).
Definition denote_node (nd : nodeT) : dnode := map denote_op (n_ops nd).
Definition denote_edge (pre : str) (e : edgeT) : dedge :=
  (pre ++ ed_src e, pre ++ ed_tgt e, option_map denote_node (ed_tpl e), ed_attrs e).
Definition slash : str := ["/"%char].
Definition denote_nodes (pre : str) (l : list (str * nodeT)) : list (str * dnode) :=
  map (fun kn => (pre ++ fst kn, denote_node (snd kn))) l.
Definition denote_flat (pre : str) (f : flatC) : den :=
  (denote_nodes pre (f_nodes f), map (denote_edge pre) (f_edges f)).
Definition denote (c : circ) : den :=
  match c_subs c with
  | [] => (denote_nodes [] (c_nodes c), map (denote_edge []) (c_edges c))
  | subs =>
      let ds := map (fun kf => denote_flat (fst kf ++ slash) (snd kf)) subs in
      (List.concat (map fst ds), List.concat (map snd ds) ++ map (denote_edge []) (c_edges c))
  end.

(* ---------- guards ---------- *)
(* the entries a dump writes when no key is ever renamed: child keys = child names *)
Definition node_entries (is_edge : bool) (nd : nodeT) : list (str * entry) :=
  map (fun ou => (o_name (fst ou), op_entry (fst ou) (snd ou))) (n_ops nd) ++
  [(n_name nd, ENode is_edge (map (fun ou => (o_name (fst ou), snd ou)) (n_ops nd)))].
Definition pure_edge (e : edgeT) : sedge := (ed_src e, ed_tgt e, option_map n_name (ed_tpl e), ed_attrs e).
Definition edge_entries (e : edgeT) : list (str * entry) :=
  match ed_tpl e with None => [] | Some t => node_entries true t end.
Definition keyed_names {A} (name : A -> str) (l : list (str * A)) : list (str * str) := map (fun kx => (fst kx, name (snd kx))) l.
Definition flat_entries (f : flatC) : list (str * entry) :=
  flat_map (fun kn => node_entries false (snd kn)) (f_nodes f) ++ flat_map edge_entries (f_edges f) ++
  [(f_name f, ECirc [] (keyed_names n_name (f_nodes f)) (map pure_edge (f_edges f)))].
Definition own_nodes (c : circ) : list (str * nodeT) := match c_subs c with [] => c_nodes c | _ => [] end.
Definition circ_entries (c : circ) : list (str * entry) :=
  flat_map (fun kf => flat_entries (snd kf)) (c_subs c) ++
  flat_map (fun kn => node_entries false (snd kn)) (own_nodes c) ++ flat_map edge_entries (c_edges c) ++
  [(c_name c, ECirc (keyed_names f_name (c_subs c)) (keyed_names n_name (own_nodes c)) (map pure_edge (c_edges c)))].

(* guard 1: templates of one name are written as one and the same dict (no key is renamed) *)
Definition consistent (l : list (str * entry)) : bool :=
  forallb (fun p => forallb (fun q => implb (str_eqb (fst p) (fst q)) (entry_eqs (snd p) (snd q))) l) l.
Definition no_rename (c : circ) : bool := consistent (circ_entries c).
(* renaming a node template or a circuit template is harmless (their names occur in no path); what changes the model is a
   renamed OPERATOR (paths node/<operator>/var) or a renamed EDGE TEMPLATE (its name is the label of the edge node, and
   <name>_num1 collides with the labels the compiler hands out): the class of the remaining finding C15-D10c-rename *)
Definition critical (e : entry) : bool := match e with EOp _ _ => true | ENode true _ => true | _ => false end.
Definition no_critical_rename (c : circ) : bool := consistent (filter (fun p => critical (snd p)) (circ_entries c)).

(* number of distinct dicts written under one name: D33 needs three *)
Fixpoint distinct_count (name : str) (seen : list entry) (l : list (str * entry)) : nat :=
  match l with
  | [] => List.length seen
  | (k, d) :: l' => if str_eqb k name && negb (existsb (entry_eqs d) seen) then distinct_count name (d :: seen) l'
                    else distinct_count name seen l'
  end.
Definition variants_le2 (c : circ) : bool :=
  forallb (fun p => Nat.leb (distinct_count (fst p) [] (circ_entries c)) 2) (circ_entries c).

(* guard 2: node-level overrides only on constants (an override of an output/input/state variable is written
   as a bare number and the variable comes back as a constant) *)
Definition all_nodes (c : circ) : list nodeT :=
  flat_map (fun kf => map snd (f_nodes (snd kf)) ++ flat_map (fun e => match ed_tpl e with Some t => [t] | None => [] end) (f_edges (snd kf))) (c_subs c)
  ++ map snd (own_nodes c) ++ flat_map (fun e => match ed_tpl e with Some t => [t] | None => [] end) (c_edges c).
Definition const_upd (ou : opT * upd) : bool :=
  forallb (fun kv => match assoc (fst kv) (o_vars (fst ou)) with Some _ => true | None => false end) (snd ou).
Definition const_overrides (c : circ) : bool := forallb (fun nd => forallb const_upd (n_ops nd)) (all_nodes c).

(* representation invariant of Python dicts: keys are unique *)
Definition op_wf (ou : opT * upd) : bool := nodupb (map fst (o_vars (fst ou))) && nodupb (map fst (snd ou)).
Definition dicts_wf (c : circ) : bool := forallb (fun nd => forallb op_wf (n_ops nd)) (all_nodes c).

(* D36 (not a defect of dump/load, but exposed by every round trip): from_yaml returns ONE template object per key, and
   two edges between the same source and target variable that carry the same EdgeTemplate OBJECT are compiled into a
   broken run function.  The denotation does not see object identity; this guard delimits where "equal denotation =>
   equal dynamics" was observed to fail. *)
Definition bar : str := ["|"%char].
Definition tpl_edge_keys (pre : str) (l : list edgeT) : list str :=
  flat_map (fun e => match ed_tpl e with Some t => [pre ++ ed_src e ++ bar ++ pre ++ ed_tgt e ++ bar ++ n_name t] | None => [] end) l.
Definition no_parallel_tpl_edges (c : circ) : bool :=
  nodupb (flat_map (fun kf => tpl_edge_keys (fst kf ++ slash) (f_edges (snd kf))) (c_subs c) ++ tpl_edge_keys [] (c_edges c)).

Definition WFy (c : circ) : bool := no_rename c.

(* comparison of denotations (for the correspondence run) *)
Definition dvar_eqb : dvar -> dvar -> bool := pair_eqb str_eqb vspec_eqb.
Definition dop_eqb (a b : dop) : bool :=
  let '(n1, e1, v1) := a in let '(n2, e2, v2) := b in str_eqb n1 n2 && list_eqb str_eqb e1 e2 && list_eqb dvar_eqb v1 v2.
Definition dnode_eqb : dnode -> dnode -> bool := list_eqb dop_eqb.
Definition dedge_eqb (a b : dedge) : bool :=
  let '(s1, t1, k1, at1) := a in let '(s2, t2, k2, at2) := b in
  str_eqb s1 s2 && str_eqb t1 t2 && opt_eqb dnode_eqb k1 k2 && list_eqb (pair_eqb str_eqb Z.eqb) at1 at2.
Definition den_eqb (a b : den) : bool :=
  list_eqb (pair_eqb str_eqb dnode_eqb) (fst a) (fst b) && list_eqb dedge_eqb (snd a) (snd b).
Definition store_eqb (a b : store) : bool := list_eqb (pair_eqb str_eqb entry_eqs) a b.
Definition roundtrip_ok (c : circ) : bool :=
  match roundtrip c with Some c' => den_eqb (denote c') (denote c) | None => false end.

(* ====================================================================================================
   Template sets spread over several files: how from_yaml resolves references (pyrates/frontend/template/_io.py
   _complete_template_path, pyrates/frontend/file.py parse_path, the constructors of Circuit/Node/EdgeTemplate).
   A reference is a bare template name — it is looked up IN THE FILE OF THE TEMPLATE THAT CONTAINS THE REFERENCE,
   whatever the neighbouring references point to — or names a file and a template (written `../file/name` relative to
   the referencing file, or `package.file.name`; the harness maps both spellings to a file identifier).
   ==================================================================================================== *)
Inductive ref := RBare (name : str) | RFile (file name : str).
Definition resolve (cur : str) (r : ref) : str * str := match r with RBare n => (cur, n) | RFile f n => (f, n) end.
Definition medge := (str * str * option ref * list (str * Z))%type.
Inductive mentry :=
| MOp (eqs : list str) (vars : list (str * vspec))
| MNode (is_edge : bool) (ops : list (ref * upd))
| MCirc (subs nodes : list (str * ref)) (edges : list medge).
Definition fileset := list (str * list (str * mentry)).
Definition mlookup (fs : fileset) (fn : str * str) : option mentry := obind (assoc (fst fn) fs) (assoc (snd fn)).

Definition mload_op (fs : fileset) (cur : str) (r : ref) : option opT :=
  match mlookup fs (resolve cur r) with Some (MOp eqs vars) => Some (mkOp (snd (resolve cur r)) eqs vars) | _ => None end.
(* the operators of a node are resolved relative to the NODE's file *)
Definition mload_node (is_edge : bool) (fs : fileset) (cur : str) (r : ref) : option nodeT :=
  let fn := resolve cur r in
  match mlookup fs fn with
  | Some (MNode e ops) =>
      if Bool.eqb e is_edge
      then obind (mapM (fun ru => obind (mload_op fs (fst fn) (fst ru)) (fun o => Some (o, snd ru))) ops) (fun os => Some (mkNode (snd fn) os))
      else None
  | _ => None
  end.
Definition mload_keyed {A} (f : ref -> option A) (l : list (str * ref)) : option (list (str * A)) :=
  mapM (fun kv => obind (f (snd kv)) (fun x => Some (fst kv, x))) l.
Definition mload_edge (fs : fileset) (cur : str) (e : medge) : option edgeT :=
  let '(s, t, k, at_) := e in
  match k with
  | None => Some (mkEdge s t None at_)
  | Some r => obind (mload_node true fs cur r) (fun nd => Some (mkEdge s t (Some nd) at_))
  end.
Definition mload_flat (fs : fileset) (cur : str) (r : ref) : option flatC :=
  let fn := resolve cur r in
  match mlookup fs fn with
  | Some (MCirc [] ns es) =>
      obind (mload_keyed (mload_node false fs (fst fn)) ns) (fun nodes =>
      obind (mapM (mload_edge fs (fst fn)) es) (fun edges => Some (mkFlat (snd fn) nodes edges)))
  | _ => None
  end.
Definition mload_circ (fs : fileset) (file name : str) : option circ :=
  match mlookup fs (file, name) with
  | Some (MCirc ss ns es) =>
      obind (mload_keyed (mload_flat fs file) ss) (fun subs =>
      obind (mload_keyed (mload_node false fs file) ns) (fun nodes =>
      obind (mapM (mload_edge fs file) es) (fun edges => Some (mkCirc name subs nodes edges))))
  | _ => None
  end.
(* Spec for the YAML frontend: the model a template set stands for *)
Definition mdenote (fs : fileset) (file name : str) : option den := option_map denote (mload_circ fs file name).
