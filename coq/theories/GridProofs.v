(* GridProofs.v — proofs about Grid.v (C17). *)
From Coq Require Import List ZArith QArith Qcanon Bool Arith Lia Permutation.
From PV Require Import Grid.
Import ListNotations.
Open Scope nat_scope.

(* ------------------------------------------------------------------------------------------ linearize_grid *)
Lemma flat_map_nil_fun {A B} : forall (l : list A), flat_map (fun _ => @nil B) l = [].
Proof. induction l; cbn; auto. Qed.

Lemma flat_map_app_perm {A B} (g h : A -> list B) : forall l,
  Permutation (flat_map (fun b => g b ++ h b) l) (flat_map g l ++ flat_map h l).
Proof.
  induction l as [|b l IH]; cbn; [constructor|].
  rewrite <- !app_assoc. apply Permutation_app_head.
  eapply Permutation_trans; [apply Permutation_app_head; exact IH|].
  apply Permutation_app_swap_app.
Qed.

Lemma flat_map_swap {A B C} (f : A -> B -> list C) : forall la lb,
  Permutation (flat_map (fun a => flat_map (fun b => f a b) lb) la) (flat_map (fun b => flat_map (fun a => f a b) la) lb).
Proof.
  induction la as [|a la IH]; intro lb; cbn.
  - rewrite flat_map_nil_fun. constructor.
  - eapply Permutation_trans; [apply Permutation_app_head; apply IH|].
    apply Permutation_sym. apply (flat_map_app_perm (fun b => f a b) (fun b => flat_map (fun a0 => f a0 b) la)).
Qed.

Lemma map_flat_map' {A B C} (f : B -> C) (g : A -> list B) : forall l, map f (flat_map g l) = flat_map (fun x => map f (g x)) l.
Proof. induction l as [|c l IH]; cbn; [reflexivity|]. rewrite map_app, IH. reflexivity. Qed.
Lemma flat_map_ext' {A B} (f g : A -> list B) : forall l, (forall x, f x = g x) -> flat_map f l = flat_map g l.
Proof. induction l as [|c l IH]; cbn; intro H; [reflexivity|]. rewrite H, IH; auto. Qed.

Lemma prod_two {V} : forall (a b : list V) r,
  prod_rm (a :: b :: r) = flat_map (fun x => flat_map (fun y => map (fun t => x :: y :: t) (prod_rm r)) b) a.
Proof.
  intros. cbn [prod_rm]. apply flat_map_ext'. intro x. rewrite map_flat_map'. apply flat_map_ext'. intro y.
  rewrite map_map. reflexivity.
Qed.

Lemma swap_prod {V} : forall (a b : list V) r, Permutation (map swap01 (prod_rm (b :: a :: r))) (prod_rm (a :: b :: r)).
Proof.
  intros. rewrite !prod_two. rewrite map_flat_map'.
  rewrite (flat_map_ext' _ (fun y => flat_map (fun x => map (fun t => x :: y :: t) (prod_rm r)) a)).
  - apply (flat_map_swap (fun y x => map (fun t => x :: y :: t) (prod_rm r))).
  - intro y. rewrite map_flat_map'. apply flat_map_ext'. intro x. rewrite map_map. reflexivity.
Qed.

(* permute = True: the rows are a permutation of the full Cartesian product — every combination exactly once,
   for any number of parameters and values *)
Theorem meshgrid_perm {V} : forall vs : list (list V), Permutation (meshgrid_xy vs) (prod_rm vs).
Proof.
  intros vs. unfold meshgrid_xy. destruct vs as [|a [|b r]].
  - cbn. constructor. constructor.
  - cbn [swap01 prod_rm]. induction a as [|x a IH]; cbn; [constructor|]. constructor. exact IH.
  - cbn [swap01]. apply swap_prod.
Qed.

Theorem linearize_permute {V} : forall (d : V) vs, exists rows, linearize d vs true = Some rows /\ Permutation rows (prod_rm vs).
Proof.
  intros. exists (meshgrid_xy vs). split; [|apply meshgrid_perm].
  unfold linearize. rewrite andb_false_r. reflexivity.
Qed.

(* permute = False: row r = (v_1[r], ..., v_m[r]); unequal lengths are refused *)
Theorem linearize_zip {V} : forall (d : V) vs, same_len vs = true ->
  linearize d vs false = Some (zip_rows d vs) /\ length (zip_rows d vs) = length (hd [] vs) /\
  forall r, r < length (hd [] vs) -> nth r (zip_rows d vs) [] = map (fun v => nth r v d) vs.
Proof.
  intros d vs H. unfold linearize. rewrite H. cbn. split; [reflexivity|]. unfold zip_rows. split.
  - rewrite map_length, seq_length. reflexivity.
  - intros r Hr.
    rewrite (nth_indep _ [] (map (fun v => nth 0 v d) vs)) by (rewrite map_length, seq_length; exact Hr).
    rewrite (map_nth (fun r => map (fun v => nth r v d) vs) (seq 0 (length (hd [] vs))) 0 r).
    rewrite seq_nth by exact Hr. reflexivity.
Qed.
Theorem linearize_refuses {V} : forall (d : V) vs, same_len vs = false -> linearize d vs false = None.
Proof. intros d vs H. unfold linearize. rewrite H. reflexivity. Qed.

(* ------------------------------------------------------------------------------------------ disjoint union *)
Open Scope Qc_scope.
Definition dC : circ := {| ks := []; cs := []; x0 := []; edges := []; uin := [] |}.

Lemma ginsum_app : forall a b X blk i, ginsum (a ++ b) X blk i = ginsum a X blk i + ginsum b X blk i.
Proof.
  intros a b X blk i. unfold ginsum. induction a as [|[[[sb si] [tb ti]] w] a IH]; cbn [app fold_right].
  - ring.
  - rewrite IH. destruct (Nat.eqb tb blk && Nat.eqb ti i); ring.
Qed.

Lemma ginsum_tag : forall es off X blk i,
  ginsum (map (tag off) es) X blk i = if Nat.eqb off blk then insum es (nth blk X []) i else 0.
Proof.
  intros es off X blk i. unfold ginsum, insum. induction es as [|[[s t] w] es IH]; cbn [map tag fold_right].
  - destruct (Nat.eqb off blk); reflexivity.
  - rewrite IH. destruct (Nat.eqb off blk) eqn:E; cbn [andb].
    + apply Nat.eqb_eq in E. subst. destruct (Nat.eqb t i); reflexivity.
    + reflexivity.
Qed.

Lemma ginsum_tagged : forall Cs off X blk i,
  ginsum (tagged_from off Cs) X blk i =
  if Nat.leb off blk && Nat.ltb blk (off + length Cs) then insum (edges (nth (blk - off) Cs dC)) (nth blk X []) i else 0.
Proof.
  induction Cs as [|C Cs IH]; intros off X blk i.
  - cbn [tagged_from]. replace (Nat.leb off blk && Nat.ltb blk (off + length (@nil circ))) with false; [reflexivity|].
    symmetry. cbn [length]. destruct (Nat.leb off blk) eqn:E1; [|reflexivity]. cbn [andb].
    apply Nat.leb_le in E1. apply Nat.ltb_ge. lia.
  - cbn [tagged_from]. rewrite ginsum_app, ginsum_tag, IH. cbn [length].
    destruct (Nat.eqb off blk) eqn:E0.
    + apply Nat.eqb_eq in E0. subst blk.
      replace (Nat.leb (S off) off) with false by (symmetry; apply Nat.leb_gt; lia). cbn [andb].
      replace (Nat.leb off off && Nat.ltb off (off + S (length Cs))) with true
        by (symmetry; apply andb_true_iff; split; [apply Nat.leb_le | apply Nat.ltb_lt]; lia).
      rewrite Nat.sub_diag. cbn [nth]. ring.
    + apply Nat.eqb_neq in E0.
      destruct (Nat.leb (S off) blk && Nat.ltb blk (S off + length Cs)) eqn:E.
      * apply andb_true_iff in E as [E1 E2]. apply Nat.leb_le in E1. apply Nat.ltb_lt in E2.
        replace (Nat.leb off blk && Nat.ltb blk (off + S (length Cs))) with true
          by (symmetry; apply andb_true_iff; split; [apply Nat.leb_le | apply Nat.ltb_lt]; lia).
        replace (blk - off)%nat with (S (blk - S off)) by lia. cbn [nth]. ring.
      * replace (Nat.leb off blk && Nat.ltb blk (off + S (length Cs))) with false; [ring|].
        symmetry. apply andb_false_iff. apply andb_false_iff in E as [E|E].
        -- apply Nat.leb_gt in E. left. apply Nat.leb_gt. lia.
        -- apply Nat.ltb_ge in E. right. apply Nat.ltb_ge. lia.
Qed.

(* no edge between sub-circuits: the derivative of every variable of sub-circuit b is that of the stand-alone
   circuit b evaluated on block b of the state — whatever the other blocks contain *)
Theorem disjoint_union : forall Cs j X b i, (b < length Cs)%nat ->
  nderiv (assemble Cs) j X b i = deriv (nth b Cs dC) j (nth b X []) i.
Proof.
  intros Cs j X b i Hb. unfold nderiv, deriv, assemble. cbn [comps gedges]. fold dC.
  rewrite ginsum_tagged. cbn [plus]. rewrite Nat.sub_0_r.
  replace (Nat.leb 0 b && Nat.ltb b (length Cs)) with true; [reflexivity|].
  symmetry. apply andb_true_iff. split; [reflexivity | apply Nat.ltb_lt; exact Hb].
Qed.

Lemma neuler_block : forall dt Cs j X b, length X = length Cs -> (b < length Cs)%nat ->
  nth b (neuler_step dt (assemble Cs) j X) [] = euler_step dt (nth b Cs dC) j (nth b X []).
Proof.
  intros dt Cs j X b HL Hb. unfold neuler_step.
  rewrite (nth_indep _ [] ((fun b0 => map (fun i => nth i (nth b0 X []) 0 + dt * nderiv (assemble Cs) j X b0 i)
                                         (seq 0 (length (nth b0 X [])))) 0%nat))
    by (rewrite map_length, seq_length; lia).
  rewrite (map_nth (fun b0 => map (fun i => nth i (nth b0 X []) 0 + dt * nderiv (assemble Cs) j X b0 i)
                                  (seq 0 (length (nth b0 X [])))) (seq 0 (length X)) 0%nat b).
  rewrite seq_nth by lia. cbn [plus]. unfold euler_step. apply map_ext. intro i.
  rewrite disjoint_union by exact Hb. reflexivity.
Qed.

Lemma neuler_length : forall dt N j X, length (neuler_step dt N j X) = length X.
Proof. intros. unfold neuler_step. rewrite map_length, seq_length. reflexivity. Qed.

(* compositionality over time: block b of the assembled trajectory is the trajectory of circuit b on its own *)
Theorem union_trajectory : forall dt Cs n X j0 j b, length X = length Cs -> (b < length Cs)%nat ->
  nth b (nth j (ntraj dt (assemble Cs) X j0 n) []) [] = nth j (traj dt (nth b Cs dC) (nth b X []) j0 n) [].
Proof.
  intros dt Cs. induction n as [|n IH]; intros X j0 j b HL Hb.
  - cbn. destruct j; destruct b; reflexivity.
  - cbn [ntraj traj]. destruct j as [|j]; [reflexivity|]. cbn [nth].
    rewrite IH by (rewrite ?neuler_length; assumption).
    rewrite neuler_block by assumption. reflexivity.
Qed.

Lemma nth_map_lt {A B} (f : A -> B) : forall l r dA dB, (r < length l)%nat -> nth r (map f l) dB = f (nth r l dA).
Proof.
  induction l as [|a l IH]; intros r dA dB H; cbn in H; [lia|]. destruct r; cbn; [reflexivity|]. apply IH. lia.
Qed.

(* grid_search = every row adapted (as adapt_circuit adapts it) and simulated on its own *)
Theorem grid_impl_gen_spec : forall fx C pmap vals permute dt n rows tr,
  grid_impl_gen fx C pmap vals permute dt n = Some (rows, tr) ->
  linearize 0 vals permute = Some rows /\
  forall r j, (r < length rows)%nat ->
    nth r (nth j tr []) [] = nth j (let C' := adapt_gen fx C pmap (nth r rows []) in traj dt C' (x0 C') 0 n) [].
Proof.
  intros fx C pmap vals permute dt n rows tr H. unfold grid_impl_gen in H.
  destruct (linearize 0 vals permute) as [rows'|]; [|discriminate]. inversion H; subst rows' tr. clear H.
  split; [reflexivity|]. intros r j Hr.
  set (Cs := map (adapt_gen fx C pmap) rows).
  assert (HL : length Cs = length rows) by (unfold Cs; apply map_length).
  rewrite union_trajectory by (rewrite ?map_length; lia). cbn zeta.
  assert (E : nth r Cs dC = adapt_gen fx C pmap (nth r rows [])) by (unfold Cs; apply nth_map_lt; exact Hr).
  rewrite E. rewrite (nth_map_lt x0 Cs r dC []) by lia. rewrite E. reflexivity.
Qed.

(* adapt_circuit: a key's value reaches exactly its targets; everything else keeps the base circuit's value *)
Lemma set_nth_same {A} : forall (l : list A) i a d, (i < length l)%nat -> nth i (set_nth l i a) d = a.
Proof.
  intros l i a d H. unfold set_nth. apply Nat.ltb_lt in H. rewrite H. apply Nat.ltb_lt in H.
  rewrite app_nth2 by (rewrite firstn_length; lia). rewrite firstn_length, Nat.min_l by lia. rewrite Nat.sub_diag. reflexivity.
Qed.
Lemma set_nth_other {A} : forall (l : list A) i j a d, i <> j -> nth j (set_nth l i a) d = nth j l d.
Proof.
  intros l i j a d H. unfold set_nth. destruct (Nat.ltb i (length l)) eqn:E; [|reflexivity]. apply Nat.ltb_lt in E.
  destruct (Nat.lt_ge_cases j i) as [Hj|Hj].
  - rewrite app_nth1 by (rewrite firstn_length; lia). clear E.
    revert l j Hj H. induction i as [|i IH]; intros l j Hj H; [lia|]. destruct l; [destruct j; reflexivity|].
    destruct j; [reflexivity|]. cbn. apply IH; lia.
  - rewrite app_nth2 by (rewrite firstn_length; lia). rewrite firstn_length, Nat.min_l by lia.
    destruct (j - i)%nat as [|m] eqn:Em; [lia|]. cbn [nth].
    rewrite <- (firstn_skipn (S i) l) at 2. rewrite app_nth2 by (rewrite firstn_length; lia).
    rewrite firstn_length, Nat.min_l by lia. f_equal. lia.
Qed.

Theorem write_frame_k : forall C tv i, fst tv <> TK i -> nth i (ks (write C tv)) 0 = nth i (ks C) 0.
Proof.
  intros C [[j|j|j] v] i H; cbn; try reflexivity. apply set_nth_other. intro E. apply H. cbn. congruence.
Qed.
Theorem write_hits_k : forall C i v, (i < length (ks C))%nat -> nth i (ks (write C (TK i, v))) 0 = v.
Proof. intros. cbn. apply set_nth_same. assumption. Qed.

(* ------------------------------------------------------------------------------------------ the ignored edge idx *)
Lemma set_nth_map {A B} (f : A -> B) : forall (l : list A) j a d, f a = f (nth j l d) -> map f (set_nth l j a) = map f l.
Proof.
  intros l j a d H. unfold set_nth. destruct (Nat.ltb j (length l)) eqn:E; [|reflexivity]. apply Nat.ltb_lt in E.
  rewrite <- (firstn_skipn j l) at 3. rewrite !map_app. f_equal.
  revert l E H. induction j as [|j IH]; intros l E H; destruct l as [|x l]; cbn in *; try lia.
  - rewrite H. reflexivity.
  - apply IH; [lia | exact H].
Qed.

Lemma write_st : forall C tv, map st (edges (write C tv)) = map st (edges C).
Proof.
  intros C [[i|i|j] v]; cbn; try reflexivity.
  destruct (nth_error (edges C) j) as [[[s t] w]|] eqn:E; [|reflexivity].
  apply (set_nth_map st _ j _ (s, t, w)). rewrite (nth_error_nth _ _ _ E). reflexivity.
Qed.

Lemma first_same_st : forall es es' j, map st es = map st es' -> first_same es j = first_same es' j.
Proof. intros es es' j H. unfold first_same. rewrite H. reflexivity. Qed.

Lemma write_gen_true : forall C tv, write_gen true C tv = write C tv.
Proof. intros C [[i|i|j] v]; reflexivity. Qed.

Lemma adapt_gen_true : forall C pmap row, adapt_gen true C pmap row = adapt C pmap row.
Proof.
  intros C pmap row. unfold adapt_gen, adapt. generalize (flat_map (fun kv : list target * Qc => map (fun tg => (tg, snd kv)) (fst kv)) (combine pmap row)).
  intro l. revert C. induction l as [|tv l IH]; intro C; [reflexivity|]. cbn [fold_left]. rewrite write_gen_true. apply IH.
Qed.

(* under the guard (every swept edge is parallel edge 0) adapt_circuit writes where it was asked to write *)
Theorem adapt_under_guard : forall C pmap row, idx_guard C pmap = true -> adapt_gen false C pmap row = adapt C pmap row.
Proof.
  intros C pmap row G. unfold adapt_gen, adapt.
  assert (HL : forall tv, In tv (flat_map (fun kv : list target * Qc => map (fun tg => (tg, snd kv)) (fst kv)) (combine pmap row)) ->
                     In (fst tv) (concat pmap)).
  { intros tv H. apply in_flat_map in H as [[tgs v] [H1 H2]]. apply in_map_iff in H2 as [tg [E H2]]. subst tv. cbn [fst snd] in *.
    apply in_combine_l in H1. apply in_concat. exists tgs. split; assumption. }
  revert HL. generalize (flat_map (fun kv : list target * Qc => map (fun tg => (tg, snd kv)) (fst kv)) (combine pmap row)).
  intro l. unfold idx_guard in G. rewrite forallb_forall in G.
  assert (K : forall C', map st (edges C') = map st (edges C) -> (forall tv, In tv l -> In (fst tv) (concat pmap)) ->
              fold_left (write_gen false) l C' = fold_left write l C').
  { induction l as [|tv l IH]; intros C' HS HL; [reflexivity|]. cbn [fold_left].
    assert (E : write_gen false C' tv = write C' tv).
    { destruct tv as [[i|i|j] v]; try reflexivity. unfold write_gen. cbn [fst snd].
      specialize (G (TW j) (HL _ (or_introl eq_refl))). cbn in G. apply Nat.eqb_eq in G.
      rewrite (first_same_st _ _ j HS), G. reflexivity. }
    rewrite E. apply IH; [rewrite write_st; exact HS | intros tv' H'; apply HL; right; exact H']. }
  intro HL. apply K; [reflexivity | exact HL].
Qed.

(* the sweep as the code performs it equals every row on its own — when no swept edge has a parallel predecessor *)
Theorem grid_impl_spec_partial : forall C pmap vals permute dt n rows tr, idx_guard C pmap = true ->
  grid_impl_gen false C pmap vals permute dt n = Some (rows, tr) ->
  linearize 0 vals permute = Some rows /\
  forall r j, (r < length rows)%nat -> nth r (nth j tr []) [] = nth j (nth r (grid_spec C pmap rows dt n) []) [].
Proof.
  intros C pmap vals permute dt n rows tr G H. destruct (grid_impl_gen_spec false _ _ _ _ _ _ _ _ H) as [H1 H2].
  split; [exact H1|]. intros r j Hr. rewrite (H2 r j Hr). cbn zeta. rewrite (adapt_under_guard C pmap _ G).
  unfold grid_spec. rewrite (nth_map_lt _ rows r [] []) by exact Hr. reflexivity.
Qed.

(* ... and for every circuit, map and grid once idx is passed through (proposed repair) *)
Theorem grid_impl_spec_repaired : forall C pmap vals permute dt n rows tr,
  grid_impl_gen true C pmap vals permute dt n = Some (rows, tr) ->
  linearize 0 vals permute = Some rows /\
  forall r j, (r < length rows)%nat -> nth r (nth j tr []) [] = nth j (nth r (grid_spec C pmap rows dt n) []) [].
Proof.
  intros C pmap vals permute dt n rows tr H. destruct (grid_impl_gen_spec true _ _ _ _ _ _ _ _ H) as [H1 H2].
  split; [exact H1|]. intros r j Hr. rewrite (H2 r j Hr). cbn zeta. rewrite adapt_gen_true.
  unfold grid_spec. rewrite (nth_map_lt _ rows r [] []) by exact Hr. reflexivity.
Qed.

(* refutation of the unguarded statement for the code as it is: two parallel edges 0 -> 1, the sweep addresses the second *)
Definition qz (z : Z) : Qc := Q2Qc (inject_Z z).
Definition par_circ : circ :=
  {| ks := [qz 0; qz 0]; cs := [qz 0; qz 0]; x0 := [qz 1; qz 0]; edges := [(0%nat, 1%nat, qz 1); (0%nat, 1%nat, qz 2)]; uin := [] |}.
Lemma idx_ignored_refuted :
  idx_guard par_circ [[TW 1]] = false /\
  edges (adapt_gen false par_circ [[TW 1]] [qz 5]) = [(0%nat, 1%nat, qz 5); (0%nat, 1%nat, qz 2)] /\
  edges (adapt par_circ [[TW 1]] [qz 5]) = [(0%nat, 1%nat, qz 1); (0%nat, 1%nat, qz 5)] /\
  (match grid_impl_gen false par_circ [[TW 1]] [[qz 5]] false (qz 1) 2 with Some (_, tr) => nth 1 (nth 0 (nth 1 tr []) []) (qz 0) | None => qz 0 end) = qz 7 /\
  nth 1 (nth 1 (nth 0 (grid_spec par_circ [[TW 1]] [[qz 5]] (qz 1) 2) []) []) (qz 0) = qz 6.
Proof. vm_compute. repeat split. Qed.
