(* Auto.v — C18: model of what the Fortran backend writes for auto-07p.  Definitions only (proofs: AutoProofs.v).

   Impl follows the code (pyrates/backend/fortran/fortran_backend.py as it is now):
     register_vars (305-308)            -> `register`      (idempotent append to _var_declaration_info)
     generate_func_head (121-182)       -> `head_args`     (np.unique + first-index sort = order-preserving dedupe;
                                                           declared parameters first, return variable pinned in front)
     _generate_auto_files (444-687)     -> `auto_order`, `emit` (parnames, STPNT, forwarding call, DFDP columns, NDIM/NPAR)
     _auto_param_indices (998-1009)     -> NOT modelled by hand: `emit_with` takes it as an argument and AutoImpl.emit
                                           instantiates it with the definition that py2v.py regenerates from the
                                           current source (Gen_auto_param_indices) and the current _AUTO_BLOCKED_PAR_RANGE
                                           (this file does not depend on coq/gen, so the Spec stays available when the
                                           translation fails closed)
     _build_auto_constants_file (1011-) -> `consts_of` (NDIM/NPAR, then user overrides win)
   Spec is the property as the user reads it: one slot per parameter, `slot (position in declaration order)`,
   and every view (signature, call, STPNT, parnames, DFDP column) is a map over the declared parameters with
   that one slot function. *)
From Coq Require Import ZArith List Bool String QArith Qcanon.
From PV Require Import PyLib.
Import ListNotations.
Open Scope Z_scope.

(* closed form of the slot function: 0-based position i among the parameters -> 1-based PAR slot *)
Definition slot (i : Z) : Z := if i <? 9 then i + 1 else i + 6.
Definition slots (n : nat) : list Z := map (fun k => slot (Z.of_nat k)) (seq 0 n).

Definition mem (x : string) (l : list string) : bool := py_in_str x l.

(* ------------------------------------------------------------------------------------------------ Impl *)
(* FortranBackend.register_vars: _var_declaration_info is a dict, a name that is present is skipped *)
Fixpoint register (d : list string) (vs : list string) : list string :=
  match vs with
  | [] => d
  | v :: vs' => register (if mem v d then d else d ++ [v]) vs'
  end.
(* [func_args[i] for i in sort(np.unique(func_args, return_index=True)[1])] : first occurrences, order kept *)
Definition dedupe (l : list string) : list string := register [] l.

(* generate_func_head: `decl` = keys of _var_declaration_info after register_vars(func_args) *)
Definition head_args (decl : list string) (ret : string) (args : list string) : list string :=
  let args := dedupe args in
  match decl, args with
  | _ :: _, _ :: _ =>
      let params := filter (fun n => negb (String.eqb n ret)) args in
      let declared := filter (fun n => mem n params) decl in
      let other := filter (fun n => negb (mem n declared)) params in
      let reordered := (declared ++ other)%list in
      if mem ret args then ret :: reordered else reordered
  | _, _ => args
  end.

(* _generate_auto_files, "Reorder func_args to match _var_declaration_info's order" *)
Definition auto_order (decl : list string) (args : list string) : list string :=
  match args with
  | [] => []
  | _ => let d := filter (fun a => mem a args) decl in (d ++ filter (fun a => negb (mem a d)) args)%list
  end.

Fixpoint lookupq (env : list (string * Qc)) (k : string) : Qc :=
  match env with [] => 0%Qc | (k', v) :: e => if String.eqb k' k then v else lookupq e k end.
(* Python dict built from zip(keys, values): the last binding of a key wins *)
Fixpoint lookup_last (l : list (string * Z)) (k : string) : option Z :=
  match l with
  | [] => None
  | (k', v) :: l' => match lookup_last l' k with Some w => Some w | None => if String.eqb k' k then Some v else None end
  end.
Fixpoint lookupz (l : list (string * Z)) (k : string) : option Z :=
  match l with [] => None | (k', v) :: l' => if String.eqb k' k then Some v else lookupz l' k end.

Record emission := {
  e_sig : list string;                   (* subroutine <name>(t, y, dy, ...) *)
  e_call : list Z;                       (* call <name>(args(14), y, dy, args(i) ...) : the i's *)
  e_stpnt : list (Z * Qc * string);      (* args(i) = value  ! name ; value = the binary64 that the printed literal denotes *)
  e_stpnt_y : list (Z * Qc * string);    (* y(i) = value  ! name *)
  e_parnames : list (Z * string);
  e_unames : list (Z * string);
  e_dfdp : list (Z * Z);                 (* dfdp(row, column) for the requested (row, parameter) entries *)
  e_bvp : list Z;                        (* args(i) read by the BCND / ICND residuals, one per `par_<name>` token *)
  e_ndim : Z;
  e_npar : Z
}.

Record model := {
  m_events : list string;                (* names passed to register_vars before generate_func_head, in order *)
  m_args : list string;                  (* func_args handed to generate_func_head (equation-walk order, return var included) *)
  m_ret : string;                        (* name of the return variable ("dy") *)
  m_states : list string;                (* state variables in state-vector order *)
  m_val : list (string * Qc);            (* values of parameters and initial values of state variables *)
  m_dfdp : list (nat * string);          (* (row, parameter) pairs with a non-zero derivative, in emission order *)
  m_over : list (string * Z);            (* user overrides of integer auto constants *)
  m_bvp : list string                    (* the `par_<name>` tokens of boundary_conditions / integral_constraints, in order *)
}.

Definition max_list (l : list Z) : Z := fold_right Z.max 0 l.
Definition number_from_1 (l : list string) : list (Z * string) := map (fun p => (fst p + 1, snd p)) (py_enumerate l).

(* The theorem content of Impl = Spec is the PARAMETER side: e_sig, e_call, e_stpnt, e_parnames, e_dfdp, e_bvp, e_npar (registration,
   reordering, slot function, extras).  The STATE side (e_stpnt_y, e_unames, e_ndim) is the same term in emit_with and spec_emit
   (number_from_1 over m_states): it is shared, not proved; its tie to the code is the correspondence run only. *)
Definition emit_with (param_indices : list string -> list Z) (m : model) : emission :=
  let decl := register (register [] (m_events m)) (m_args m) in
  let sig := "t"%string :: "y"%string :: head_args decl (m_ret m) (m_args m) in
  let rhs_args := auto_order decl (skipn 3 sig) in
  (* _collect_bvp_extra_params (deduplicated, order of first mention), kept when declared and not a vector-field argument;
     the PAR-slot vector is rhs_args + bvp_extras, the forwarding call passes the first |rhs_args| slots *)
  let extras := filter (fun p => mem p decl && negb (mem p rhs_args)) (dedupe (m_bvp m)) in
  let fargs := (rhs_args ++ extras)%list in
  let idx := param_indices fargs in
  let rhs_idx := firstn (List.length rhs_args) idx in
  let name_to_idx := combine fargs idx in
  {| e_sig := sig;
     e_call := rhs_idx;
     e_stpnt := map (fun p => (fst p, lookupq (m_val m) (snd p), snd p)) (combine idx fargs);
     e_stpnt_y := map (fun p => (fst p, lookupq (m_val m) (snd p), snd p)) (number_from_1 (m_states m));
     e_parnames := combine idx fargs;
     e_unames := number_from_1 (m_states m);
     e_dfdp := flat_map (fun rp => match lookup_last name_to_idx (snd rp) with
                                    | Some c => [(Z.of_nat (fst rp) + 1, c)] | None => [] end) (m_dfdp m);
     e_bvp := flat_map (fun p => match lookup_last name_to_idx p with Some c => [c] | None => [] end) (m_bvp m);
     e_ndim := Z.of_nat (List.length (m_states m));
     e_npar := match idx with [] => 1 | _ => max_list idx end |}.

(* _build_auto_constants_file: consts['NDIM'] = ndim; consts['NPAR'] = npar; consts.update(overrides).
   consts_of occurs in NO theorem: the c.<scenario> files (which scenarios are written, NDIM/NPAR after user overrides, the other
   overridden constants) are tied by the correspondence run only (harness/c18.py `finalize` and `harness_side`). *)
Definition consts_of (m : model) (e : emission) : Z * Z :=
  (match lookupz (m_over m) "NDIM" with Some v => v | None => e_ndim e end,
   match lookupz (m_over m) "NPAR" with Some v => v | None => e_npar e end).

(* ------------------------------------------------------------------------------------------------ Spec *)
(* vars = the model's variables in declaration order; its parameters = those that are arguments of the vector field *)
Definition spec_params (vars args : list string) (ret : string) : list string :=
  filter (fun v => mem v args && negb (String.eqb v ret)) vars.
Fixpoint index_of (x : string) (l : list string) : option nat :=
  match l with
  | [] => None
  | y :: l' => if String.eqb y x then Some 0%nat else option_map S (index_of x l')
  end.
(* THE slot of a parameter: closed form of its position among the parameters in declaration order *)
Definition slot_of (ps : list string) (p : string) : Z :=
  match index_of p ps with Some i => slot (Z.of_nat i) | None => 0 end.

(* parameters that only the boundary / integral constraints mention: they get the slots behind the vector-field parameters,
   in the order in which the constraints mention them *)
Definition spec_extras (vars : list string) (ps bvp : list string) : list string :=
  filter (fun p => mem p vars && negb (mem p ps)) (dedupe bvp).
Definition spec_all (vars : list string) (m : model) : list string :=
  let ps := spec_params vars (m_args m) (m_ret m) in (ps ++ spec_extras vars ps (m_bvp m))%list.

Definition spec_emit (vars : list string) (m : model) : emission :=
  let ps := spec_params vars (m_args m) (m_ret m) in
  let all := spec_all vars m in
  let s := slot_of all in
  {| e_sig := "t"%string :: "y"%string :: m_ret m :: ps;
     e_call := map s ps;
     e_stpnt := map (fun p => (s p, lookupq (m_val m) p, p)) all;
     e_stpnt_y := map (fun p => (fst p, lookupq (m_val m) (snd p), snd p)) (number_from_1 (m_states m));
     e_parnames := map (fun p => (s p, p)) all;
     e_unames := number_from_1 (m_states m);
     e_dfdp := flat_map (fun rp => if mem (snd rp) all then [(Z.of_nat (fst rp) + 1, s (snd rp))] else []) (m_dfdp m);
     e_bvp := flat_map (fun p => if mem p all then [s p] else []) (m_bvp m);
     e_ndim := Z.of_nat (List.length (m_states m));
     e_npar := match all with [] => 1 | _ => max_list (map s all) end |}.

(* hypotheses of the refinement theorem (guard of the correspondence): the declared variables are registered first
   (declaration-order pre-registration in parser.parse_equations), they are distinct, every argument of the vector
   field other than the return variable is one of them, the return variable is an argument and not a model variable *)
Fixpoint nodupb (l : list string) : bool :=
  match l with [] => true | x :: l' => negb (mem x l') && nodupb l' end.
Fixpoint prefixb (a b : list string) : bool :=
  match a, b with
  | [], _ => true
  | x :: a', y :: b' => String.eqb x y && prefixb a' b'
  | _ :: _, [] => false
  end.
Definition wf (vars : list string) (m : model) : bool :=
  nodupb vars && prefixb vars (m_events m) && mem (m_ret m) (m_args m) && negb (mem (m_ret m) vars) &&
  forallb (fun a => String.eqb a (m_ret m) || mem a vars) (m_args m) &&
  forallb (fun p => mem p vars) (m_bvp m).          (* every par_<name> token names a declared variable of the model *)

(* ------------------------------------------------------------------------------------------------ exported vector field *)
(* polynomial right-hand sides: a term = coefficient * product of parameters * product of state components *)
Definition term := (Qc * list string * list nat)%type.
Definition eval_term (pv : string -> Qc) (y : list Qc) (t : term) : Qc :=
  let '(c, ps, ys) := t in
  fold_left Qcmult (map (fun i => nth i y 0%Qc) ys) (fold_left Qcmult (map pv ps) c).
Definition vfield (pv : string -> Qc) (y : list Qc) (eqs : list (list term)) : list Qc :=
  map (fun ts => fold_left Qcplus (map (eval_term pv y) ts) 0%Qc) eqs.
(* PAR(i), 1-based *)
Definition par_at (par : list Qc) (i : Z) : Qc := if i <=? 0 then 0%Qc else nth (Z.to_nat (i - 1)) par 0%Qc.
(* what the emitted `func` computes from PAR: formal parameter number k of the subroutine (k-th name of the signature
   after t, y, dy) receives PAR(k-th index of the call) *)
Definition exported_pv (e : emission) (par : list Qc) (p : string) : Qc :=
  match index_of p (skipn 3 (e_sig e)) with
  | Some k => par_at par (nth k (e_call e) 0)
  | None => 0%Qc
  end.
Definition exported_vf (e : emission) (par y : list Qc) (eqs : list (list term)) : list Qc :=
  vfield (exported_pv e par) y eqs.
(* what it should compute: every parameter read from its own slot *)
Definition spec_vf (ps all : list string) (par y : list Qc) (eqs : list (list term)) : list Qc :=
  vfield (fun p => if mem p ps then par_at par (slot_of all p) else 0%Qc) y eqs.

(* ------------------------------------------------------------------------------------------------ STPNT as compiled *)
(* The literals are written without a kind suffix (`args(1) = 0.1`): gfortran reads them as default REAL
   (binary32) and widens.  round-to-nearest-even to a 24-bit significand, normal range only. *)
Definition pow2 (k : Z) : Qc := if 0 <=? k then Q2Qc (inject_Z (2 ^ k)) else (/ Q2Qc (inject_Z (2 ^ (- k))))%Qc.
Definition round_half_even (q : Qc) : Z :=
  let n := Qnum (this q) in let d := Zpos (Qden (this q)) in
  let fl := n / d in let r := n mod d in
  if 2 * r <? d then fl else if d <? 2 * r then fl + 1 else if Z.even fl then fl else fl + 1.
Definition Qcabs (q : Qc) : Qc := if Qle_bool (this q) 0 then (- q)%Qc else q.
Definition f32_round (q : Qc) : Qc :=
  if Qeq_bool (this q) 0 then q else
  let a := Qcabs q in
  let e0 := Z.log2 (Qnum (this a)) - Z.log2 (Zpos (Qden (this a))) in
  let e := if Qle_bool (this (pow2 e0)) (this a) then e0 else e0 - 1 in
  let r := (Q2Qc (inject_Z (round_half_even (a * pow2 (23 - e))%Qc)) * pow2 (e - 23))%Qc in
  if Qle_bool (this q) 0 then (- r)%Qc else r.
Definition f32_exact (q : Qc) : bool := Qeq_bool (this (f32_round q)) (this q).
(* model switch (read by harness/c18.py as well): true = the code as it is since repair D65 (dc98fd9: double-precision literals,
   0.1d0); false = the code before D65 (literals without kind suffix, read as binary32).  With the switch on, `stpnt_value` is the
   identity, so `compiled_stpnt = spec_stpnt` holds by definition (C18_stpnt_full is a definitional statement: it records which
   model is in force, it does not prove anything about the printer).  What decides "STPNT holds the model's values" is the
   correspondence run: the printed literal is parsed back, the compiled stpnt output is read, and both are compared bit-exactly
   with the model's binary64 values over all magnitudes (harness/c18.py, stream (e)). *)
Definition fixed_stpnt : bool := true.
Definition stpnt_value (q : Qc) : Qc := if fixed_stpnt then q else f32_round q.
(* values that `stpnt` leaves in PAR / U when called *)
Definition compiled_stpnt (e : emission) : list (Z * Qc) * list (Z * Qc) :=
  (map (fun t => (fst (fst t), stpnt_value (snd (fst t)))) (e_stpnt e),
   map (fun t => (fst (fst t), stpnt_value (snd (fst t)))) (e_stpnt_y e)).
Definition spec_stpnt (e : emission) : list (Z * Qc) * list (Z * Qc) :=
  (map (fun t => (fst (fst t), snd (fst t))) (e_stpnt e), map (fun t => (fst (fst t), snd (fst t))) (e_stpnt_y e)).
(* guard of the partial theorem / of known finding C18-stpnt-single-precision *)
Definition all_values_f32_exact (m : model) : bool := forallb (fun kv => f32_exact (snd kv)) (m_val m).

(* ------------------------------------------------------------------------------------------------ comparison glue *)
Definition mkq (num : Z) (den : positive) : Qc := Q2Qc (num # den).
Definition qeqb (a b : Qc) : bool := Qeq_bool (this a) (this b).
Fixpoint list_eqb {A} (f : A -> A -> bool) (a b : list A) : bool :=
  match a, b with
  | [], [] => true
  | x :: a', y :: b' => f x y && list_eqb f a' b'
  | _, _ => false
  end.
Definition zs_eqb (a b : Z * string) := Z.eqb (fst a) (fst b) && String.eqb (snd a) (snd b).
Definition zqs_eqb (a b : Z * Qc * string) :=
  Z.eqb (fst (fst a)) (fst (fst b)) && qeqb (snd (fst a)) (snd (fst b)) && String.eqb (snd a) (snd b).
Definition zq_eqb (a b : Z * Qc) := Z.eqb (fst a) (fst b) && qeqb (snd a) (snd b).
Definition zz_eqb (a b : Z * Z) := Z.eqb (fst a) (fst b) && Z.eqb (snd a) (snd b).
Definition emission_eqb (a b : emission) : bool :=
  list_eqb String.eqb (e_sig a) (e_sig b) && list_eqb Z.eqb (e_call a) (e_call b) &&
  list_eqb zqs_eqb (e_stpnt a) (e_stpnt b) && list_eqb zqs_eqb (e_stpnt_y a) (e_stpnt_y b) &&
  list_eqb zs_eqb (e_parnames a) (e_parnames b) && list_eqb zs_eqb (e_unames a) (e_unames b) &&
  list_eqb zz_eqb (e_dfdp a) (e_dfdp b) && list_eqb Z.eqb (e_bvp a) (e_bvp b) && Z.eqb (e_ndim a) (e_ndim b) && Z.eqb (e_npar a) (e_npar b).
Definition stpnt_eqb (a b : list (Z * Qc) * list (Z * Qc)) : bool :=
  list_eqb zq_eqb (fst a) (fst b) && list_eqb zq_eqb (snd a) (snd b).
