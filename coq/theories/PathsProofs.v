(* PathsProofs.v — proofs about Paths.v (C06). *)
From Coq Require Import List String Ascii Bool Arith Lia Permutation.
From PV Require Import Paths.
Import ListNotations.
Open Scope string_scope.
Open Scope list_scope.

(* ------------------------------------------------------------------------------------------ basics *)
Lemma path_eqb_eq : forall a b, path_eqb a b = true <-> a = b.
Proof.
  induction a as [|x a IH]; destruct b as [|y b]; cbn; split; intro H; try congruence; try discriminate.
  - apply andb_true_iff in H as [H1 H2]. apply String.eqb_eq in H1. apply IH in H2. congruence.
  - inversion H; subst. rewrite String.eqb_refl. cbn. apply IH. reflexivity.
Qed.

Lemma mem_In : forall s l, mem s l = true <-> In s l.
Proof.
  intros s l. unfold mem. rewrite existsb_exists. split.
  - intros [x [H1 H2]]. apply String.eqb_eq in H2. subst. exact H1.
  - intro H. exists s. split; [exact H | apply String.eqb_refl].
Qed.
Lemma mem_false : forall s l, mem s l = false <-> ~ In s l.
Proof. intros. rewrite <- mem_In. destruct (mem s l); split; intro H; congruence. Qed.

Lemma pmem_In : forall p l, pmem p l = true <-> In p l.
Proof.
  intros p l. unfold pmem. rewrite existsb_exists. split.
  - intros [x [H1 H2]]. apply path_eqb_eq in H2. subst. exact H1.
  - intro H. exists p. split; [exact H | apply path_eqb_eq; reflexivity].
Qed.
Lemma pmem_false : forall p l, pmem p l = false <-> ~ In p l.
Proof. intros. rewrite <- pmem_In. destruct (pmem p l); split; intro H; congruence. Qed.

Lemma nodupb_NoDup : forall l, nodupb l = true -> NoDup l.
Proof.
  induction l as [|x l IH]; cbn; intro H; constructor.
  - apply andb_true_iff in H as [H _]. apply negb_true_iff in H. apply mem_false in H. exact H.
  - apply IH. apply andb_true_iff in H as [_ H]. exact H.
Qed.

Lemma assoc_In {B} : forall (l : list (string * B)) n s, NoDup (map fst l) -> In (n, s) l -> assoc n l = Some s.
Proof.
  induction l as [|[k b] l IH]; cbn; intros n s ND H; [contradiction|].
  inversion ND as [|? ? Hk ND']; subst. destruct H as [H|H].
  - inversion H; subst. rewrite String.eqb_refl. reflexivity.
  - destruct (String.eqb n k) eqn:E.
    + apply String.eqb_eq in E. subst. exfalso. apply Hk. apply in_map_iff. exists (k, s). split; [reflexivity|exact H].
    + apply IH; assumption.
Qed.
Lemma assoc_Some_In {B} : forall (l : list (string * B)) n s, assoc n l = Some s -> In (n, s) l.
Proof.
  induction l as [|[k b] l IH]; cbn; intros n s H; [discriminate|].
  destruct (String.eqb n k) eqn:E.
  - apply String.eqb_eq in E. inversion H; subst. left. reflexivity.
  - right. apply IH. exact H.
Qed.
Lemma assoc_None {B} : forall (l : list (string * B)) n, assoc n l = None <-> ~ In n (map fst l).
Proof.
  induction l as [|[k b] l IH]; cbn; intros n; [tauto|].
  destruct (String.eqb n k) eqn:E.
  - apply String.eqb_eq in E. subst. split; [discriminate | intro H; exfalso; apply H; left; reflexivity].
  - apply String.eqb_neq in E. rewrite IH. split; intro H; [intros [H1|H1]; [congruence|tauto] | tauto].
Qed.
Lemma assoc_map {B C} (f : B -> C) : forall (l : list (string * B)) n,
  assoc n (map (fun c => (fst c, f (snd c))) l) = option_map f (assoc n l).
Proof.
  induction l as [|[k b] l IH]; cbn; intros n; [reflexivity|]. destruct (String.eqb n k); [reflexivity | apply IH].
Qed.

(* induction principle for the nested type *)
Fixpoint tree_ind' (P : tree -> Prop) (HL : forall nd, P (Leaf nd))
  (HC : forall ch, Forall (fun c => P (snd c)) ch -> P (Circ ch)) (t : tree) : P t :=
  match t with
  | Leaf nd => HL nd
  | Circ ch => HC ch ((fix go (l : list (string * tree)) : Forall (fun c => P (snd c)) l :=
                         match l with
                         | [] => Forall_nil _
                         | c :: l' => Forall_cons c (tree_ind' P HL HC (snd c)) (go l')
                         end) ch)
  end.

Definition WF (t : tree) : Prop := wfb t = true.
Lemma WF_circ : forall ch, WF (Circ ch) ->
  NoDup (map fst ch) /\ ~ In all (map fst ch) /\ (forall c, In c ch -> WF (snd c)).
Proof.
  unfold WF. cbn. intros ch H. apply andb_true_iff in H as [H H3]. apply andb_true_iff in H as [H1 H2].
  split; [apply nodupb_NoDup; exact H1|]. split.
  - apply negb_true_iff in H2. apply mem_false. exact H2.
  - rewrite forallb_forall in H3. exact H3.
Qed.

(* ------------------------------------------------------------------------------------------ list lemmas *)
Lemma flat_map_nil {A B} (f : A -> list B) : forall l, (forall c, In c l -> f c = []) -> flat_map f l = [].
Proof. induction l as [|c l IH]; cbn; intro H; [reflexivity|]. rewrite (H c), IH; auto. Qed.

Lemma flat_map_single {B C} (f : string * B -> list C) : forall l n s,
  NoDup (map fst l) -> In (n, s) l -> (forall c, In c l -> fst c <> n -> f c = []) -> flat_map f l = f (n, s).
Proof.
  induction l as [|c l IH]; cbn; intros n s ND H Hf; [contradiction|].
  inversion ND as [|? ? Hk ND']; subst. destruct H as [H|H].
  - subst c. rewrite (flat_map_nil f l); [apply app_nil_r|].
    intros c Hc. apply Hf; [right; exact Hc|]. intro E. apply Hk. cbn. rewrite <- E. apply in_map. exact Hc.
  - rewrite (Hf c); [|left; reflexivity|].
    + cbn. apply IH; auto.
    + intro E. apply Hk. rewrite E. apply in_map_iff. exists (n, s). split; [reflexivity|exact H].
Qed.

Lemma flat_map_ext_in {A B} (f g : A -> list B) : forall l, (forall c, In c l -> f c = g c) -> flat_map f l = flat_map g l.
Proof. induction l as [|c l IH]; cbn; intro H; [reflexivity|]. rewrite (H c), IH; auto. Qed.

Lemma filter_ext_in' {A} (f g : A -> bool) : forall l, (forall c, In c l -> f c = g c) -> filter f l = filter g l.
Proof. induction l as [|c l IH]; cbn; intro H; [reflexivity|]. rewrite (H c), IH; auto. Qed.

Lemma filter_map_comm {A B} (f : B -> bool) (g : A -> B) : forall l, filter f (map g l) = map g (filter (fun x => f (g x)) l).
Proof. induction l as [|c l IH]; cbn; [reflexivity|]. destruct (f (g c)); cbn; rewrite IH; reflexivity. Qed.

Lemma filter_flat_map {A B} (f : B -> bool) (g : A -> list B) : forall l,
  filter f (flat_map g l) = flat_map (fun x => filter f (g x)) l.
Proof. induction l as [|c l IH]; cbn; [reflexivity|]. rewrite filter_app, IH. reflexivity. Qed.

Lemma map_flat_map {A B C} (f : B -> C) (g : A -> list B) : forall l,
  map f (flat_map g l) = flat_map (fun x => map f (g x)) l.
Proof. induction l as [|c l IH]; cbn; [reflexivity|]. rewrite map_app, IH. reflexivity. Qed.

Lemma NoDup_map_cons : forall (n : string) (l : list path), NoDup l -> NoDup (map (cons n) l).
Proof.
  intros n l H. apply FinFun.Injective_map_NoDup; [|exact H]. intros a b E. inversion E. reflexivity.
Qed.

Lemma NoDup_flat_map_heads {B} (f : string * B -> list path) : forall l,
  NoDup (map fst l) -> (forall c, In c l -> NoDup (f c)) ->
  (forall c q, In c l -> In q (f c) -> exists q', q = fst c :: q') -> NoDup (flat_map f l).
Proof.
  induction l as [|c l IH]; cbn; intros ND H1 H2; [constructor|].
  inversion ND as [|? ? Hk ND']; subst.
  assert (Hl : NoDup (flat_map f l)) by (apply IH; auto).
  assert (Hc : NoDup (f c)) by (apply H1; left; reflexivity).
  revert Hc. generalize (H2 c). induction (f c) as [|q fc IHfc]; cbn; intros Hq Hc; [exact Hl|].
  inversion Hc; subst. constructor.
  - intro Hin. apply in_app_or in Hin as [Hin|Hin]; [contradiction|].
    apply in_flat_map in Hin as [c' [Hc' Hq']].
    destruct (Hq q (or_introl eq_refl) (or_introl eq_refl)) as [q1 E1].
    destruct (H2 c' q (or_intror Hc') Hq') as [q2 E2].
    rewrite E1 in E2. inversion E2 as [[E3 E4]]. apply Hk. rewrite E3. apply in_map. exact Hc'.
  - apply IHfc; [|assumption]. intros q0 Hc0 Hq0. apply Hq; [exact Hc0 | right; exact Hq0].
Qed.

Lemma NoDup_app_l {A} : forall (a b : list A), NoDup (a ++ b) -> NoDup a.
Proof.
  induction a as [|x a IH]; cbn; intros b H; [constructor|]. inversion H; subst. constructor.
  - intro Hin. apply H2. apply in_or_app. left. exact Hin.
  - apply (IH b). assumption.
Qed.

Lemma add_new_app : forall new acc, NoDup (acc ++ new) -> add_new acc new = acc ++ new.
Proof.
  unfold add_new. induction new as [|k new IH]; cbn; intros acc H; [symmetry; apply app_nil_r|].
  assert (Hk : ~ In k acc).
  { apply NoDup_remove_2 in H. intro Hin. apply H. apply in_or_app. left. exact Hin. }
  apply pmem_false in Hk. rewrite Hk. rewrite IH; rewrite <- app_assoc; cbn; [reflexivity | exact H].
Qed.
Lemma add_new_nil : forall l, NoDup l -> add_new [] l = l.
Proof. intros. apply (add_new_app l []). exact H. Qed.

Lemma seq_concat_ok {A B} (F : A -> res (list B)) (G : A -> list B) : forall l,
  (forall c, In c l -> F c = Ok (G c)) -> seq_concat (map F l) = Ok (flat_map G l).
Proof.
  induction l as [|c l IH]; cbn; intro H; [reflexivity|]. rewrite (H c), IH; cbn; auto.
Qed.

(* ------------------------------------------------------------------------------------------ the recursive denotation *)
Fixpoint den (t : tree) (v : varid) (pat : list string) : list path :=
  match t with
  | Leaf _ => []
  | Circ ch =>
      match pat with
      | [] => []
      | p :: rest =>
          flat_map (fun c : string * tree => let '(n, s) := c in
            if String.eqb p all || String.eqb p n then
              match s with
              | Leaf nd => match rest with [] => if has_var v nd then [[n]] else [] | _ => [] end
              | Circ _ => match rest with
                          | [] => if String.eqb p all then map (cons n) (den s v [all]) else []
                          | _ => map (cons n) (den s v rest)
                          end
              end
            else []) ch
      end
  end.

Definition test (v : varid) (pat : list string) (q : path * node) : bool := matches pat (fst q) && has_var v (snd q).

Lemma pd_circ : forall ch v pat,
  path_denotation (Circ ch) v pat =
  flat_map (fun c : string * tree => let '(n, s) := c in
              map (cons n) (map fst (filter (fun q => test v pat (n :: fst q, snd q)) (leaves s)))) ch.
Proof.
  intros. unfold path_denotation. cbn [leaves]. fold (test v pat).
  rewrite filter_flat_map, map_flat_map. apply flat_map_ext_in. intros [n s] _.
  rewrite filter_map_comm, !map_map. reflexivity.
Qed.

Lemma leaves_circ_nonempty : forall ch q nd, In (q, nd) (leaves (Circ ch)) -> exists n q', q = n :: q'.
Proof.
  intros ch q nd H. cbn in H. apply in_flat_map in H as [[n s] [_ H]]. apply in_map_iff in H as [[q' nd'] [E _]].
  inversion E. eauto.
Qed.

Lemma matches_all_nonempty : forall n q, matches [all] (n :: q) = true.
Proof. intros. cbn. reflexivity. Qed.

Lemma matches_cons_nil : forall a pat, matches (a :: pat) [] = false.
Proof. intros. destruct pat; reflexivity. Qed.
Lemma matches_cons2 : forall p r rest n q,
  matches (p :: r :: rest) (n :: q) = (String.eqb p all || String.eqb p n) && matches (r :: rest) q.
Proof. intros. destruct q; reflexivity. Qed.
Lemma matches_last_deep : forall p n n' q, matches [p] (n :: n' :: q) = String.eqb p all.
Proof. intros. cbn. destruct (String.eqb p all); [reflexivity | apply andb_false_r]. Qed.

Lemma den_spec : forall t v pat, is_circ t = true -> den t v pat = path_denotation t v pat.
Proof.
  induction t as [nd|ch IH] using tree_ind'; intros v pat IC.
  - discriminate.
  - clear IC. rewrite pd_circ. destruct pat as [|p rest].
    + cbn [den]. symmetry. apply flat_map_nil. intros [n s] _.
      rewrite (filter_ext_in' _ (fun _ => false)); [|intros [q nd] _; reflexivity].
      clear. induction (leaves s); cbn; auto.
    + cbn [den]. apply flat_map_ext_in. intros [n s] Hin.
      rewrite Forall_forall in IH. specialize (IH _ Hin). cbn [snd] in IH.
      destruct s as [nd|ch'].
      * cbn [leaves filter map]. unfold test. cbn [fst snd].
        destruct rest as [|r rest'].
        -- cbn [matches]. destruct (String.eqb p all) eqn:E1; cbn [orb].
           ++ destruct (has_var v nd); reflexivity.
           ++ destruct (String.eqb p n); cbn; [destruct (has_var v nd); reflexivity | reflexivity].
        -- rewrite matches_cons2, matches_cons_nil, andb_false_r.
           cbn. destruct (String.eqb p all || String.eqb p n); reflexivity.
      * destruct rest as [|r rest'].
        -- (* last pattern element at a circuit *)
           destruct (String.eqb p all) eqn:E1; cbn [orb].
           ++ apply String.eqb_eq in E1. subst p. rewrite IH by reflexivity. unfold path_denotation. f_equal. f_equal.
              apply filter_ext_in'. intros [q nd] Hq. unfold test. cbn [fst snd].
              destruct (leaves_circ_nonempty _ _ _ Hq) as [n' [q' E]]. subst q. reflexivity.
           ++ rewrite (filter_ext_in' _ (fun _ => false)).
              ** assert (E : forall l : list (path * node), filter (fun _ => false) l = []) by (induction l; auto).
                 rewrite E. destruct (String.eqb p n); reflexivity.
              ** intros [q nd] Hq. unfold test. cbn [fst snd].
                 destruct (leaves_circ_nonempty _ _ _ Hq) as [n' [q' E]]. subst q. rewrite matches_last_deep, E1.
                 reflexivity.
        -- destruct (String.eqb p all || String.eqb p n) eqn:E.
           ++ rewrite IH by reflexivity. unfold path_denotation. f_equal. f_equal. apply filter_ext_in'. intros [q nd] Hq.
              unfold test. cbn [fst snd]. rewrite matches_cons2, E. reflexivity.
           ++ rewrite (filter_ext_in' _ (fun _ => false)).
              ** assert (E0 : forall l : list (path * node), filter (fun _ => false) l = []) by (induction l; auto).
                 rewrite E0. reflexivity.
              ** intros [q nd] Hq. unfold test. cbn [fst snd]. rewrite matches_cons2, E. reflexivity.
Qed.

(* every denoted path resolves to a node that has the variable *)
Lemma den_gnt : forall t v, WF t -> forall pat q, In q (den t v pat) ->
  exists nd, gnt q t = Ok nd /\ has_var v nd = true.
Proof.
  induction t as [nd|ch IH] using tree_ind'; intros v W pat q H; [cbn in H; contradiction|].
  destruct (WF_circ _ W) as [ND [_ Wc]]. rewrite Forall_forall in IH.
  destruct pat as [|p rest]; [cbn in H; contradiction|].
  cbn [den] in H. apply in_flat_map in H as [[n s] [Hin H]].
  destruct (String.eqb p all || String.eqb p n); [|contradiction].
  pose proof (assoc_In _ _ _ ND Hin) as Ha.
  destruct s as [nd|ch'].
  - destruct rest; [|contradiction]. destruct (has_var v nd) eqn:Ev; [|contradiction].
    destruct H as [H|[]]. subst q. exists nd. cbn. rewrite Ha. auto.
  - assert (Hq : exists pat', In q (map (cons n) (den (Circ ch') v pat'))).
    { destruct rest; [destruct (String.eqb p all); [eauto|contradiction] | eauto]. }
    destruct Hq as [pat' Hq]. apply in_map_iff in Hq as [q' [E Hq']]. subst q.
    destruct (IH _ Hin v (Wc _ Hin) pat' q' Hq') as [nd [G Hv]].
    exists nd. split; [|exact Hv]. cbn [gnt]. rewrite Ha. exact G.
Qed.

Lemma den_heads : forall ch v pat c q, In c ch ->
  In q ((fun c : string * tree => let '(n, s) := c in
            if String.eqb (hd "" pat) all || String.eqb (hd "" pat) n then
              match s with
              | Leaf nd => match tl pat with [] => if has_var v nd then [[n]] else [] | _ => [] end
              | Circ _ => match tl pat with
                          | [] => if String.eqb (hd "" pat) all then map (cons n) (den s v [all]) else []
                          | _ => map (cons n) (den s v (tl pat))
                          end
              end
            else []) c) -> exists q', q = fst c :: q'.
Proof.
  intros ch v pat [n s] q _ H. cbn [fst].
  destruct (String.eqb (hd "" pat) all || String.eqb (hd "" pat) n); [|contradiction].
  destruct s as [nd|ch'].
  - destruct (tl pat); [|contradiction]. destruct (has_var v nd); [|contradiction]. destruct H as [H|[]]. subst. eauto.
  - destruct (tl pat).
    + destruct (String.eqb (hd "" pat) all); [|contradiction]. apply in_map_iff in H as [q' [E _]]. eauto.
    + apply in_map_iff in H as [q' [E _]]. eauto.
Qed.

Lemma den_NoDup : forall t v, WF t -> forall pat, NoDup (den t v pat).
Proof.
  induction t as [nd|ch IH] using tree_ind'; intros v W pat; [constructor|].
  destruct (WF_circ _ W) as [ND [_ Wc]]. rewrite Forall_forall in IH.
  destruct pat as [|p rest]; [constructor|]. cbn [den].
  apply NoDup_flat_map_heads; [exact ND| |].
  - intros [n s] Hin. destruct (String.eqb p all || String.eqb p n); [|constructor].
    destruct s as [nd|ch'].
    + destruct rest; [|constructor]. destruct (has_var v nd); [|constructor]. constructor; [intros []|constructor].
    + destruct rest.
      * destruct (String.eqb p all); [|constructor]. apply NoDup_map_cons. apply (IH _ Hin v (Wc _ Hin)).
      * apply NoDup_map_cons. apply (IH _ Hin v (Wc _ Hin)).
  - intros c q Hc Hq. apply (den_heads ch v (p :: rest) c q Hc). exact Hq.
Qed.

(* ------------------------------------------------------------------------------------------ the filter *)
Lemma gnwv_id : forall t v l, (forall q, In q l -> exists nd, gnt q t = Ok nd /\ has_var v nd = true) -> gnwv t v l = Ok l.
Proof.
  intros t v l H. unfold gnwv. destruct v as [ov|]; [|reflexivity].
  induction l as [|q l IH]; [reflexivity|]. cbn [gnwv_some].
  destruct (H q (or_introl eq_refl)) as [nd [G Hv]]. rewrite G. cbn [bind]. rewrite IH; [|intros; apply H; right; assumption].
  cbn [bind]. rewrite Hv. reflexivity.
Qed.

Lemma gnwv_leaf : forall ch v n nd, assoc n ch = Some (Leaf nd) ->
  gnwv (Circ ch) v [[n]] = Ok (if has_var v nd then [[n]] else []).
Proof.
  intros ch v n nd Ha. unfold gnwv. destruct v as [ov|]; [|reflexivity]. cbn [gnwv_some gnt]. rewrite Ha. reflexivity.
Qed.

Lemma gnwv_leaves : forall ch v, NoDup (map fst ch) -> existsb (fun c => is_circ (snd c)) ch = false ->
  gnwv (Circ ch) v (map (fun c => [fst c]) ch) =
  Ok (flat_map (fun c : string * tree => match snd c with Leaf nd => if has_var v nd then [[fst c]] else [] | Circ _ => [] end) ch).
Proof.
  intros ch v ND NC. unfold gnwv. destruct v as [ov|].
  - assert (G : forall l, incl l ch ->
       gnwv_some (Circ ch) (Some ov) (map (fun c => [fst c]) l) =
       Ok (flat_map (fun c : string * tree => match snd c with Leaf nd => if has_var (Some ov) nd then [[fst c]] else [] | Circ _ => [] end) l)).
    { induction l as [|[n s] l IH]; intro Hi; [reflexivity|].
      assert (Hin : In (n, s) ch) by (apply Hi; left; reflexivity).
      assert (Hs : is_circ s = false).
      { destruct (is_circ s) eqn:E; [|reflexivity]. exfalso.
        assert (X : existsb (fun c => is_circ (snd c)) ch = true) by (apply existsb_exists; exists (n, s); auto). congruence. }
      destruct s as [nd|]; [|discriminate].
      cbn [map fst gnwv_some gnt]. rewrite (assoc_In _ _ _ ND Hin). cbn [bind].
      rewrite IH; [|intros x Hx; apply Hi; right; exact Hx]. cbn [bind flat_map snd fst].
      destruct (has_var (Some ov) nd); reflexivity. }
    apply G. apply incl_refl.
  - f_equal. induction ch as [|[n s] ch IH]; [reflexivity|].
    cbn in NC. apply orb_false_iff in NC as [N1 N2]. inversion ND; subst.
    destruct s; [|discriminate]. cbn. f_equal. apply IH; assumption.
Qed.

(* ------------------------------------------------------------------------------------------ get_nodes = den *)
Section Fix.
Variable F : fixes.

Definition sub_res (v : varid) (ch : list (string * tree)) (pat' : list string) : list (string * (bool * res (list path))) :=
  map (fun c : string * tree => let '(n, s) := c in (n, (is_circ s, get_nodes_gen F s v pat'))) ch.
Definition named (v : varid) (ch : list (string * tree)) (n : string) (isc : bool) (r : res (list path)) : res (list path) :=
  if isc then bind r (fun l => gnwv (Circ ch) v (add_new [] (map (cons n) l))) else gnwv (Circ ch) v [[n]].
Definition all_step (acc : res (list path)) (x : string * (bool * res (list path))) : res (list path) :=
  let '(n, (isc, r)) := x in
  bind acc (fun nodes => if isc then bind r (fun l => Ok (add_new nodes (map (cons n) l))) else Ok (nodes ++ [[n]])).

Lemma get_nodes_circ : forall ch v pat,
  get_nodes_gen F (Circ ch) v pat =
  match pat with
  | [] => Err IndexError
  | [p] =>
      if mem p (map fst ch) then
        (if fix_short F && match assoc p ch with Some s => is_circ s | None => false end then Ok []
         else gnwv (Circ ch) v [[p]])
      else if String.eqb p all then
        if existsb (fun c => is_circ (snd c)) ch
        then seq_concat (map (fun x : string * (bool * res (list path)) => let '(n, (isc, r)) := x in named v ch n isc r) (sub_res v ch [all]))
        else gnwv (Circ ch) v (map (fun c => [fst c]) ch)
      else Ok []
  | p :: rest =>
      if String.eqb p all then bind (fold_left all_step (sub_res v ch rest) (Ok [])) (gnwv (Circ ch) v)
      else match assoc p (sub_res v ch rest) with
           | None => if fix_D31 F then Ok [] else Err KeyError
           | Some (isc, r) => named v ch p isc r
           end
  end.
Proof. intros. destruct pat as [|p [|r rest]]; reflexivity. Qed.

Lemma assoc_sub_res : forall v ch pat' n,
  assoc n (sub_res v ch pat') = option_map (fun s => (is_circ s, get_nodes_gen F s v pat')) (assoc n ch).
Proof.
  intros. unfold sub_res. induction ch as [|[k s] ch IH]; cbn; [reflexivity|].
  destruct (String.eqb n k); [reflexivity | apply IH].
Qed.

Lemma resolvable_all : forall ch, WF (Circ ch) -> resolvable_gen F (Circ ch) [all] = true.
Proof.
  intros ch W. destruct (WF_circ _ W) as [_ [NA _]]. unfold resolvable_gen. cbn.
  apply assoc_None in NA. rewrite NA. reflexivity.
Qed.

Lemma named_circ : forall ch v n ch' D, WF (Circ ch) -> In (n, Circ ch') ch -> NoDup D ->
  (forall q, In q D -> exists nd, gnt q (Circ ch') = Ok nd /\ has_var v nd = true) ->
  named v ch n true (Ok D) = Ok (map (cons n) D).
Proof.
  intros ch v n ch' D W Hin ND HD. destruct (WF_circ _ W) as [NDn _].
  unfold named. cbn [bind]. rewrite add_new_nil by (apply NoDup_map_cons; exact ND).
  apply gnwv_id. intros q Hq. apply in_map_iff in Hq as [q' [E Hq']]. subst q.
  destruct (HD q' Hq') as [nd [G Hv]]. exists nd. split; [|exact Hv].
  cbn [gnt]. rewrite (assoc_In _ _ _ NDn Hin). exact G.
Qed.

Theorem get_nodes_den : forall t v, WF t -> forall pat, resolvable_gen F t pat = true -> get_nodes_gen F t v pat = Ok (den t v pat).
Proof.
  induction t as [nd|ch IH] using tree_ind'; intros v W pat R; [cbn in R; discriminate|].
  destruct (WF_circ _ W) as [ND [NA Wc0]]. rewrite Forall_forall in IH.
  assert (Wc : forall n s, In (n, s) ch -> WF s) by (intros n s Hin; apply (Wc0 _ Hin)).
  assert (IH' : forall n s, In (n, s) ch -> forall pat, resolvable_gen F s pat = true -> get_nodes_gen F s v pat = Ok (den s v pat))
    by (intros n s Hin; apply (IH _ Hin v (Wc0 _ Hin))).
  clear IH Wc0.
  rewrite get_nodes_circ. destruct pat as [|p [|r rest]].
  - cbn in R. discriminate.
  - (* one level left *)
    unfold resolvable_gen in R. cbn [chk] in R.
    destruct (mem p (map fst ch)) eqn:M.
    + apply mem_In in M. apply in_map_iff in M as [[n s] [E Hin]]. cbn in E. subst n.
      rewrite (assoc_In _ _ _ ND Hin) in R. rewrite (assoc_In _ _ _ ND Hin).
      assert (E1 : String.eqb p all = false).
      { apply String.eqb_neq. intro E. subst p. apply NA. apply in_map_iff. exists (all, s). auto. }
      assert (OTH : forall c : string * tree, In c ch -> fst c <> p ->
                (let '(n, s0) := c in if String.eqb p all || String.eqb p n then
                   match s0 with
                   | Leaf nd => if has_var v nd then [[n]] else []
                   | Circ _ => if String.eqb p all then map (cons n) (den s0 v [all]) else []
                   end else []) = []).
      { intros [n s0] Hc Hn. cbn in Hn. assert (E2 : String.eqb p n = false) by (apply String.eqb_neq; congruence).
        rewrite E1, E2. reflexivity. }
      destruct s as [nd|ch'].
      * cbn [is_circ]. rewrite andb_false_r.
        rewrite (gnwv_leaf ch v p nd (assoc_In _ _ _ ND Hin)). f_equal. cbn [den].
        rewrite (flat_map_single _ ch p (Leaf nd) ND Hin OTH).
        rewrite String.eqb_refl, orb_true_r. reflexivity.
      * (* proposed repair: the last name is a sub-circuit and denotes no node *)
        cbn [is_circ] in *. rewrite R. cbn [andb]. f_equal. cbn [den].
        rewrite (flat_map_single _ ch p (Circ ch') ND Hin OTH).
        rewrite String.eqb_refl, orb_true_r, E1. reflexivity.
    + apply mem_false in M. destruct (String.eqb p all) eqn:E1.
      * apply String.eqb_eq in E1. subst p.
        destruct (existsb (fun c => is_circ (snd c)) ch) eqn:EC.
        -- unfold sub_res. rewrite map_map. cbn [den].
           apply seq_concat_ok. intros [n s] Hin. rewrite String.eqb_refl. cbn [orb].
           destruct s as [nd|ch'].
           ++ cbn [is_circ named]. unfold named. apply gnwv_leaf. apply (assoc_In _ _ _ ND Hin).
           ++ cbn [is_circ]. rewrite (IH' _ _ Hin [all] (resolvable_all _ (Wc _ _ Hin))).
              apply (named_circ ch v n ch'); [exact W | exact Hin | apply den_NoDup; apply (Wc _ _ Hin) |].
              intros q Hq. apply (den_gnt _ v (Wc _ _ Hin) _ _ Hq).
        -- rewrite (gnwv_leaves ch v ND EC). f_equal. cbn [den]. apply flat_map_ext_in. intros [n s] Hin.
           rewrite String.eqb_refl. cbn [orb fst snd].
           destruct s as [nd|ch']; [reflexivity|]. exfalso.
           assert (X : existsb (fun c => is_circ (snd c)) ch = true) by (apply existsb_exists; exists (n, Circ ch'); auto).
           congruence.
      * f_equal. cbn [den]. symmetry. apply flat_map_nil. intros [n s] Hin.
        assert (E2 : String.eqb p n = false).
        { apply String.eqb_neq. intro E. subst n. apply M. apply in_map_iff. exists (p, s). auto. }
        rewrite E1, E2. reflexivity.
  - (* at least two levels left *)
    unfold resolvable_gen in R. cbn [chk] in R. 
    destruct (String.eqb p all) eqn:E1.
    + (* wildcard level: every child is a resolvable_gen F circuit *)
      rewrite forallb_forall in R.
      set (G := fun c : string * tree => map (cons (fst c)) (den (snd c) v (r :: rest))).
      assert (FL : forall l acc, incl l ch -> NoDup (acc ++ flat_map G l) ->
                  fold_left all_step (sub_res v l (r :: rest)) (Ok acc) = Ok (acc ++ flat_map G l)).
      { induction l as [|[n s] l IHl]; intros acc Hi NDa; [cbn; rewrite app_nil_r; reflexivity|].
        assert (Hin : In (n, s) ch) by (apply Hi; left; reflexivity).
        specialize (R _ Hin). cbn [snd] in R. destruct (is_circ s) eqn:Es; [|discriminate].
        cbn [sub_res map fold_left all_step]. rewrite Es. fold (sub_res v l (r :: rest)).
        rewrite (IH' _ _ Hin (r :: rest) R). cbn [bind].
        cbn [flat_map] in NDa. unfold G at 1 in NDa. cbn [fst snd] in NDa. rewrite app_assoc in NDa.
        rewrite add_new_app by (apply NoDup_app_l in NDa; exact NDa).
        rewrite IHl; [|intros x Hx; apply Hi; right; exact Hx | exact NDa].
        cbn [flat_map]. unfold G at 2. cbn [fst snd]. rewrite app_assoc. reflexivity. }
      assert (EQ : flat_map G ch = den (Circ ch) v (p :: r :: rest)).
      { cbn [den]. apply flat_map_ext_in. intros [n s] Hin. rewrite E1. cbn [orb]. unfold G. cbn [fst snd].
        specialize (R _ Hin). cbn [snd] in R. destruct s as [nd|ch']; [cbn in R; discriminate | reflexivity]. }
      assert (F0 := FL ch [] (incl_refl _)). cbn [app] in F0. rewrite EQ in F0.
      unfold path in *. rewrite F0 by (apply den_NoDup; exact W).
      cbn [bind]. apply gnwv_id. intros q Hq. apply (den_gnt _ v W _ _ Hq).
    + (* named level *)
      rewrite assoc_sub_res. rewrite (assoc_map (fun s => (is_circ s, chk (fix_D31 F) false (fix_short F) s (r :: rest)))) in R.
      destruct (assoc p ch) as [s|] eqn:Ea; cbn [option_map] in *.
      2:{ (* proposed repair of D31: the level is missing and nothing is denoted *)
          rewrite R. f_equal. cbn [den]. symmetry. apply flat_map_nil. intros [n s] Hin.
          apply assoc_None in Ea.
          assert (E2 : String.eqb p n = false).
          { apply String.eqb_neq. intro E. subst n. apply Ea. apply in_map_iff. exists (p, s). auto. }
          rewrite E1, E2. reflexivity. }
      apply assoc_Some_In in Ea. destruct s as [nd|ch']; cbn [is_circ] in *; [discriminate|].
      rewrite (IH' _ _ Ea (r :: rest) R).
      rewrite (named_circ ch v p ch' _ W Ea (den_NoDup _ v (Wc _ _ Ea) _) (fun q Hq => den_gnt _ v (Wc _ _ Ea) _ _ Hq)).
      f_equal. cbn [den]. rewrite (flat_map_single _ ch p (Circ ch') ND Ea).
      * rewrite String.eqb_refl, orb_true_r. reflexivity.
      * intros [n s] Hc Hn. cbn in Hn. assert (E2 : String.eqb p n = false) by (apply String.eqb_neq; congruence).
        rewrite E1, E2. reflexivity.
Qed.

(* Core theorem of C06, first half: on every well-formed circuit tree and every resolvable_gen F pattern the recursion
   of get_nodes_gen F returns exactly the denotation of the path. *)
Theorem get_nodes_correct : forall t v pat, wfb t = true -> resolvable_gen F t pat = true ->
  get_nodes_gen F t v pat = Ok (path_denotation t v pat).
Proof.
  intros t v pat W R. rewrite <- den_spec; [apply get_nodes_den; assumption|].
  destruct t; [cbn in R; discriminate | reflexivity].
Qed.

Theorem path_denotation_NoDup : forall t v pat, wfb t = true -> NoDup (path_denotation t v pat).
Proof.
  intros t v pat W. destruct t as [nd|ch].
  - unfold path_denotation. cbn. destruct (matches pat [] && has_var v nd); cbn; repeat constructor. intros [].
  - rewrite <- den_spec by reflexivity. apply den_NoDup. assumption.
Qed.

Theorem get_nodes_NoDup : forall t v pat l, wfb t = true -> resolvable_gen F t pat = true -> get_nodes_gen F t v pat = Ok l -> NoDup l.
Proof. intros t v pat l W R H. rewrite (get_nodes_correct t v pat W R) in H. inversion H. apply path_denotation_NoDup. exact W. Qed.

(* every returned key is the address of a node of the tree that carries the variable *)
Theorem path_denotation_sound : forall t v pat q, In q (path_denotation t v pat) ->
  exists nd, In (q, nd) (leaves t) /\ matches pat q = true /\ has_var v nd = true.
Proof.
  intros t v pat q H. unfold path_denotation in H. apply in_map_iff in H as [[q' nd] [E H]]. cbn in E. subst q'.
  apply filter_In in H as [H1 H2]. apply andb_true_iff in H2 as [H2 H3]. exists nd. auto.
Qed.
Theorem path_denotation_complete : forall t v pat q nd, In (q, nd) (leaves t) -> matches pat q = true -> has_var v nd = true ->
  In q (path_denotation t v pat).
Proof.
  intros. unfold path_denotation. apply in_map_iff. exists (q, nd). split; [reflexivity|].
  apply filter_In. split; [assumption|]. cbn. rewrite H0, H1. reflexivity.
Qed.

(* D31 and its relatives: outside the guard the recursion raises or reads the path leniently *)
Theorem get_nodes_keyerror : forall ch v p r rest, fix_D31 F = false -> String.eqb p all = false -> ~ In p (map fst ch) ->
  get_nodes_gen F (Circ ch) v (p :: r :: rest) = Err KeyError.
Proof.
  intros ch v p r rest NF E H. rewrite get_nodes_circ, E, assoc_sub_res. apply assoc_None in H. rewrite H. cbn. rewrite NF. reflexivity.
Qed.

(* ------------------------------------------------------------------------------------------ declaration order *)
Theorem denotation_perm : forall t t' v pat, Permutation (leaves t) (leaves t') ->
  Permutation (path_denotation t v pat) (path_denotation t' v pat).
Proof.
  intros t t' v pat H. unfold path_denotation. apply Permutation_map.
  induction H; cbn; try (repeat match goal with |- context [if ?b then _ else _] => destruct b end); eauto using Permutation.
Qed.

Lemma leaves_perm_top : forall ch ch', Permutation ch ch' -> Permutation (leaves (Circ ch)) (leaves (Circ ch')).
Proof.
  intros ch ch' H. cbn [leaves]. induction H; cbn [flat_map].
  - constructor.
  - apply Permutation_app_head. exact IHPermutation.
  - rewrite !app_assoc. apply Permutation_app_tail. apply Permutation_app_comm.
  - eapply Permutation_trans; eassumption.
Qed.

(* reordering the children at any level *)
Inductive tperm : tree -> tree -> Prop :=
| tperm_leaf : forall nd, tperm (Leaf nd) (Leaf nd)
| tperm_circ : forall ch ch1 ch', Forall2 (fun c c1 => fst c = fst c1 /\ tperm (snd c) (snd c1)) ch ch1 ->
                 Permutation ch1 ch' -> tperm (Circ ch) (Circ ch').

Lemma tperm_leaves : forall t t', tperm t t' -> Permutation (leaves t) (leaves t').
Proof.
  fix IH 3. intros t t' H. destruct H as [nd|ch ch1 ch' FA P].
  - apply Permutation_refl.
  - eapply Permutation_trans; [|apply leaves_perm_top; exact P]. clear P.
    cbn [leaves]. induction FA as [|[n s] [n1 s1] l l1 [E T] F' IHF]; [constructor|].
    cbn [flat_map fst snd] in *. subst n1. apply Permutation_app; [|exact IHF].
    apply Permutation_map. apply IH. exact T.
Qed.

Theorem denotation_order_invariant : forall t t' v pat, tperm t t' ->
  Permutation (path_denotation t v pat) (path_denotation t' v pat).
Proof. intros. apply denotation_perm. apply tperm_leaves. assumption. Qed.

(* ------------------------------------------------------------------------------------------ output stage *)
Definition entries_of (t : tree) (r : request) : list (string * entry) :=
  let '(key, (pat, (o, x))) := r in
  match path_denotation t (Some (o, x)) pat with
  | [] => []
  | [n] => [(key, Single (var_key n o x))]
  | ns => [(key, Multi (map (fun n => var_key n o x) ns))]
  end.

(* dict form: every key is resolved to the denotation of its path (one entry per key, in request order) *)
Theorem positions_dict_spec : forall t reqs, wfb t = true -> reqs_resolvable_gen F t reqs = true -> all_found t reqs = true ->
  positions_dict_gen F t reqs = Ok (flat_map (entries_of t) reqs).
Proof.
  intros t reqs W. induction reqs as [|[key [pat [o x]]] reqs IH]; intros R A; [reflexivity|].
  unfold reqs_resolvable_gen in R. cbn [forallb fst snd] in R. apply andb_true_iff in R as [R1 R2].
  unfold all_found in A. cbn [forallb] in A. apply andb_true_iff in A as [A1 A2].
  cbn [positions_dict_gen]. rewrite (get_nodes_correct t (Some (o, x)) pat W R1). cbn [bind].
  cbn [flat_map entries_of].
  destruct (path_denotation t (Some (o, x)) pat) as [|n [|n' ns]]; [discriminate| |]; rewrite (IH R2 A2); reflexivity.
Qed.

(* fix D48: a key whose path denotes nothing is refused, not dropped *)
Theorem positions_dict_missing : forall t key pat o x rest, wfb t = true -> resolvable_gen F t pat = true ->
  path_denotation t (Some (o, x)) pat = [] -> positions_dict_gen F t ((key, (pat, (o, x))) :: rest) = Err PyRatesException.
Proof.
  intros t key pat o x rest W R E. cbn [positions_dict_gen]. rewrite (get_nodes_correct t (Some (o, x)) pat W R), E. reflexivity.
Qed.

Lemma var_key_length : forall n o x, List.length (var_key n o x) = List.length n + 2.
Proof. intros. unfold var_key. rewrite app_length. reflexivity. Qed.

Lemma var_key_split : forall n o x,
  firstn (List.length (var_key n o x) - 2) (var_key n o x) = n /\
  nth (List.length (var_key n o x) - 2) (var_key n o x) "" = o /\ nth (List.length (var_key n o x) - 1) (var_key n o x) "" = x.
Proof.
  intros. rewrite var_key_length. replace (List.length n + 2 - 2) with (List.length n) by lia.
  replace (List.length n + 2 - 1) with (S (List.length n)) by lia. unfold var_key. repeat split.
  - rewrite firstn_app, Nat.sub_diag, firstn_all. cbn [firstn]. apply app_nil_r.
  - rewrite app_nth2 by lia. rewrite Nat.sub_diag. reflexivity.
  - rewrite app_nth2 by lia. replace (S (List.length n) - List.length n) with 1 by lia. reflexivity.
Qed.

(* the MultiIndex label built from a resolved variable key is (key, node levels..., "op/var") *)
Theorem multi_label : forall (key : string) n o x,
  key :: firstn (List.length (var_key n o x) - 2) (var_key n o x) ++ [last2 (var_key n o x)] = key :: n ++ [opvar o x].
Proof.
  intros. destruct (var_key_split n o x) as [E1 [E2 E3]]. unfold last2. rewrite E1, E2, E3. reflexivity.
Qed.

(* on a fresh template the source of a variable is the vector of its representative and its own unit indices *)
Theorem source_of_fresh : forall L v vec idxs, tsvi L = [] -> source_of L v = Ok (vec, idxs) ->
  passoc v (vidx L) = Some idxs /\ passoc (relabel L v) (f2b L) = Some vec /\ exists sl, assoc vec (svi L) = Some sl.
Proof.
  intros L v vec idxs Hf H. unfold source_of, get_var_idx in H. rewrite Hf in H. cbn [assoc] in H.
  destruct (passoc v (vidx L)) as [j|]; [|discriminate]. cbn [bind] in H.
  destruct (passoc (relabel L v) (f2b L)) as [w|]; [|discriminate].
  destruct (assoc w (svi L)) as [sl|] eqn:E; [|discriminate]. inversion H; subst. eauto.
Qed.

Lemma nth_error_slice {V} : forall (row : list V) start len i, i < len ->
  nth_error (firstn len (skipn start row)) i = nth_error row (start + i).
Proof.
  intros row start len i Hi.
  assert (FN : forall (l : list V) n j, j < n -> nth_error (firstn n l) j = nth_error l j).
  { induction l as [|a l IHl]; intros n j Hj; [rewrite firstn_nil; reflexivity|].
    destruct n as [|n]; [lia|]. destruct j as [|j]; [reflexivity|]. cbn. apply IHl. lia. }
  rewrite FN by exact Hi.
  revert row. induction start as [|s IH]; intros row; [reflexivity|].
  destruct row as [|a row]; cbn [skipn plus]; [destruct i; reflexivity | apply IH].
Qed.

(* outputs.pop(key)[:, idx] reads the state slot pos(var, unit) *)
Theorem column_value_slot {V} : forall (d : V) L row v vec idxs j i k, source_of L v = Ok (vec, idxs) ->
  nth_error idxs j = Some i -> pos L v j = Some k -> column_value d L row (vec, i) = nth_error row k.
Proof.
  intros d L row v vec idxs j i k Hs Hj Hp. unfold pos in Hp. rewrite Hs, Hj in Hp. unfold column_value. cbn [fst snd].
  destruct (assoc vec (svi L)) as [[start len]|]; [|discriminate].
  destruct (Nat.ltb i len) eqn:E; [|discriminate]. inversion Hp; subst. apply Nat.ltb_lt in E.
  apply nth_error_slice. exact E.
Qed.

(* ---- composition: what run() returns ---- *)
Definition the_src (L : layout) (v : path) : string * list nat := match source_of L v with Ok s => s | Err _ => ("", []) end.
(* the backend source of unit j of variable v *)
Definition col_of (L : layout) (c : label * (path * nat)) : label * (string * nat) :=
  (fst c, (fst (the_src L (fst (snd c))), nth (snd (snd c)) (snd (the_src L (fst (snd c)))) 0)).
Definition cr_lab (x : colreq) : label := fst (fst x).
Definition cr_var (x : colreq) : path := snd (fst x).
Definition cr_cols (U : list (path * nat)) (x : colreq) : list (label * (path * nat)) :=
  unit_cols (cr_lab x) (cr_var x) (units U (cr_var x)).

Lemma map_res_ok {A B} (f : A -> res B) (g : A -> B) : forall l, (forall a, In a l -> f a = Ok (g a)) -> map_res f l = Ok (map g l).
Proof. induction l as [|a l IH]; cbn; intro H; [reflexivity|]. rewrite (H a), IH; cbn; auto. Qed.

Lemma combine_map_self {A B} (g : A -> B) : forall l, combine l (map g l) = map (fun x => (x, g x)) l.
Proof. induction l; cbn; congruence. Qed.

Lemma expand_unit : forall L lab v vec idxs n, the_src L v = (vec, idxs) -> List.length idxs = n ->
  expand_cols lab vec idxs = map (col_of L) (unit_cols lab v n).
Proof.
  intros L lab v vec idxs n Hs Hn. unfold unit_cols.
  assert (C : forall c : label * (path * nat), fst (snd c) = v -> col_of L c = (fst c, (vec, nth (snd (snd c)) idxs 0))).
  { intros c E. unfold col_of. rewrite E, Hs. reflexivity. }
  destruct idxs as [|i [|i' r]].
  - subst n. reflexivity.
  - subst n. cbn. rewrite C by reflexivity. reflexivity.
  - assert (E : Nat.eqb n 1 = false) by (apply Nat.eqb_neq; cbn in Hn; lia). rewrite E.
    unfold expand_cols. rewrite Hn, map_map. apply map_ext. intro j. rewrite C by reflexivity. reflexivity.
Qed.

Lemma covers_src : forall L U vs v, covers L U vs = true -> In v vs ->
  source_of L v = Ok (the_src L v) /\ List.length (snd (the_src L v)) = units U v.
Proof.
  intros L U vs v H Hin. unfold covers in H. rewrite forallb_forall in H. specialize (H v Hin). unfold the_src.
  destruct (source_of L v) as [[vec idxs]|]; [|discriminate]. apply Nat.eqb_eq in H. auto.
Qed.

(* from the resolved requests to the DataFrame *)
Lemma finish_ok : forall pw L U lv, lv <> [] -> covers L U (map cr_var lv) = true ->
  (pw = false -> forall x, In x lv -> snd x = false -> units U (cr_var x) = 1) ->
  finish pw L false lv = Ok (map (col_of L) (flat_map (cr_cols U) lv)).
Proof.
  intros pw L U lv NE C NP. unfold finish.
  rewrite (map_res_ok _ (fun x => the_src L (cr_var x))).
  2:{ intros x Hx. apply (proj1 (covers_src L U _ (cr_var x) C (in_map cr_var _ _ Hx))). }
  cbn [bind]. destruct lv as [|x0 lv0] eqn:Elv; [congruence|]. rewrite <- Elv in *. clear NE.
  unfold build_cols. rewrite combine_map_self, map_map, map_flat_map.
  apply seq_concat_ok. intros [[lab v] ex] Hx.
  destruct (covers_src L U _ v C) as [_ HL]; [apply (in_map cr_var _ _ Hx)|].
  unfold cr_var, cr_cols, cr_lab in *. cbn [fst snd] in *.
  destruct (the_src L v) as [vec idxs] eqn:Es. cbn [snd] in HL.
  destruct ex; [|destruct pw]; cbn [orb].
  - f_equal. apply (expand_unit L lab v vec idxs _ Es HL).
  - f_equal. apply (expand_unit L lab v vec idxs _ Es HL).
  - specialize (NP eq_refl _ Hx eq_refl). cbn [fst snd] in NP. rewrite NP in *.
    destruct idxs as [|i [|i' r]]; cbn in HL; try lia. f_equal.
    unfold cr_var. cbn [fst snd]. rewrite NP. rewrite <- (expand_unit L lab v vec [i] 1 Es eq_refl). reflexivity.
Qed.

Lemma flat_map_cons' {A B} (f : A -> list B) a l : flat_map f (a :: l) = f a ++ flat_map f l.
Proof. reflexivity. Qed.

(* the dict form's column requests written directly in terms of the denotations *)
Definition dict_lv (t : tree) (reqs : list request) : list colreq :=
  flat_map (fun r => let '(key, (pat, (o, x))) := r in
              match path_denotation t (Some (o, x)) pat with
              | [] => []
              | [n] => [([key], var_key n o x, true)]
              | ns => map (fun n => (key :: n ++ [opvar o x], var_key n o x, false)) ns
              end) reqs.

Lemma dict_colreqs_lv : forall t reqs, dict_colreqs (flat_map (entries_of t) reqs) = dict_lv t reqs.
Proof.
  intros t reqs. unfold dict_colreqs, dict_lv. induction reqs as [|[key [pat [o x]]] reqs IH]; [reflexivity|].
  rewrite !flat_map_cons', flat_map_app, IH. f_equal.
  cbn [entries_of]. destruct (path_denotation t (Some (o, x)) pat) as [|n [|n' ns]]; [reflexivity|reflexivity|].
  cbn [flat_map snd fst]. rewrite app_nil_r, map_map. apply map_ext. intro m. rewrite multi_label. reflexivity.
Qed.

Lemma multi_vars_wild : forall t reqs, multi_vars (flat_map (entries_of t) reqs) = wild_vars t reqs.
Proof.
  intros t reqs. unfold multi_vars, wild_vars. induction reqs as [|[key [pat [o x]]] reqs IH]; [reflexivity|].
  rewrite !flat_map_cons', flat_map_app, IH. f_equal.
  cbn [entries_of]. destruct (path_denotation t (Some (o, x)) pat) as [|n [|n' ns]]; cbn; try reflexivity.
  rewrite app_nil_r. reflexivity.
Qed.

Lemma dict_lv_spec : forall t U reqs, flat_map (cr_cols U) (dict_lv t reqs) = spec_columns t U DictForm reqs.
Proof.
  intros t U reqs. unfold dict_lv, spec_columns. induction reqs as [|[key [pat [o x]]] reqs IH]; [reflexivity|].
  rewrite !flat_map_cons', flat_map_app. f_equal; [|exact IH].
  destruct (path_denotation t (Some (o, x)) pat) as [|n [|n' ns]]; [reflexivity| |].
  - cbn. rewrite app_nil_r. reflexivity.
  - rewrite flat_map_concat_map, map_map, <- flat_map_concat_map. reflexivity.
Qed.

Lemma dict_lv_vars : forall t reqs, map cr_var (dict_lv t reqs) = requested t DictForm reqs.
Proof.
  intros t reqs. unfold dict_lv, requested. induction reqs as [|[key [pat [o x]]] reqs IH]; [reflexivity|].
  rewrite !flat_map_cons', map_app. f_equal; [|exact IH].
  destruct (path_denotation t (Some (o, x)) pat) as [|n [|n' ns]]; [reflexivity|reflexivity|].
  rewrite map_map. reflexivity.
Qed.

Lemma dict_lv_wild : forall t reqs x, In x (dict_lv t reqs) -> snd x = false -> In (cr_var x) (wild_vars t reqs).
Proof.
  intros t reqs x H E. unfold dict_lv in H. apply in_flat_map in H as [[key [pat [o y]]] [Hr H]].
  unfold wild_vars. apply in_flat_map. exists (key, (pat, (o, y))). split; [exact Hr|].
  destruct (path_denotation t (Some (o, y)) pat) as [|n [|n' ns]]; [contradiction| |].
  - destruct H as [H|[]]. subst x. discriminate.
  - apply in_map_iff in H as [m [Hm Hin]]. subst x. unfold cr_var. cbn [fst snd]. apply (in_map (fun n0 => var_key n0 o y)). exact Hin.
Qed.

Lemma dict_lv_nonempty : forall t reqs, reqs <> [] -> all_found t reqs = true -> dict_lv t reqs <> [].
Proof.
  intros t [|[key [pat [o x]]] reqs] NE A; [congruence|]. unfold all_found in A. cbn [forallb] in A.
  apply andb_true_iff in A as [A _]. unfold dict_lv. cbn [flat_map].
  destruct (path_denotation t (Some (o, x)) pat) as [|n [|n' ns]]; [discriminate| |]; cbn; discriminate.
Qed.

(* list form *)
Lemma positions_list_spec : forall t L reqs acc, wfb t = true -> reqs_resolvable_gen F t reqs = true -> all_found t reqs = true ->
  positions_list_gen F t L false reqs acc =
  Ok (fold_left (fun acc r => let '(_, (pat, (o, x))) := r in
                   add_new acc (map (fun n => var_key n o x) (path_denotation t (Some (o, x)) pat))) reqs acc).
Proof.
  intros t L reqs. induction reqs as [|[key [pat [o x]]] reqs IH]; intros acc W R A; [reflexivity|].
  unfold reqs_resolvable_gen in R. cbn [forallb fst snd] in R. apply andb_true_iff in R as [R1 R2].
  unfold all_found in A. cbn [forallb] in A. apply andb_true_iff in A as [A1 A2].
  cbn [positions_list_gen fold_left]. fold (var_key pat o x). destruct (var_key_split pat o x) as [E1 [E2 E3]].
  rewrite E1, E2, E3. rewrite (get_nodes_correct t (Some (o, x)) pat W R1). cbn [bind].
  destruct (path_denotation t (Some (o, x)) pat) as [|n ns] eqn:E; [discriminate|].
  unfold upd_keys. apply IH; assumption.
Qed.

Lemma add_new_grows : forall new acc, exists l, add_new acc new = acc ++ l /\ (acc = [] -> new <> [] -> l <> []).
Proof.
  unfold add_new. induction new as [|k new IH]; intros acc.
  - exists []. split; [symmetry; apply app_nil_r | congruence].
  - cbn [fold_left]. destruct (pmem k acc) eqn:E.
    + destruct (IH acc) as [l [H1 H2]]. exists l. split; [exact H1|]. intros Ea _. subst acc. discriminate.
    + destruct (IH (acc ++ [k])) as [l [H1 _]]. exists (k :: l). split; [rewrite H1, <- app_assoc; reflexivity | discriminate].
Qed.

Lemma requested_list_nonempty : forall t reqs, reqs <> [] -> all_found t reqs = true -> requested t ListForm reqs <> [].
Proof.
  intros t [|[key [pat [o x]]] reqs] NE A; [congruence|]. unfold all_found in A. cbn [forallb] in A.
  apply andb_true_iff in A as [A _]. unfold requested. cbn [fold_left].
  destruct (path_denotation t (Some (o, x)) pat) as [|n ns] eqn:E; [discriminate|].
  destruct (add_new_grows (map (fun n0 => var_key n0 o x) (n :: ns)) []) as [l [H1 H2]]. cbn [app] in H1. rewrite H1.
  assert (Hl : l <> []) by (apply H2; [reflexivity | discriminate]).
  assert (G : forall (rs : list request) (a : list path), a <> [] ->
            fold_left (fun acc r => let '(_, (pat, (o, x))) := r in
                         add_new acc (map (fun n => var_key n o x) (path_denotation t (Some (o, x)) pat))) rs a <> []).
  { induction rs as [|[k' [p' [o' x']]] rs IHr]; intros a Ha; [exact Ha|]. cbn [fold_left]. apply IHr.
    destruct (add_new_grows (map (fun n0 => var_key n0 o' x') (path_denotation t (Some (o', x')) p')) a) as [l' [H' _]].
    rewrite H'. destruct a; [congruence | discriminate]. }
  apply G. exact Hl.
Qed.

(* What run() returns (C06, second half).  For every circuit tree, every layout left by apply(), every set of
   requests in dict form (single-variable keys, wildcard keys, several keys) or list form, under the stated guards:
   the DataFrame has exactly the columns of the specification, in its order, and the column labelled l is read from
   the backend source of the unit that l names (col_of); column_value_slot turns that source into state slot pos. *)
Theorem run_columns_spec : forall t L U f reqs, f <> ListFormOld ->
  wfb t = true -> reqs_resolvable_gen F t reqs = true -> all_found t reqs = true -> reqs <> [] ->
  (f = DictForm -> (fix_overlap F = false -> no_overlap t reqs = true) /\
                   (fix_popwild F = false -> no_pop_in_wildcard t U reqs = true)) ->
  covers L U (requested t f reqs) = true ->
  run_columns_gen F t L f reqs = Ok (map (col_of L) (spec_columns t U f reqs)).
Proof.
  intros t L U f reqs NF W R A NE G C. destruct f; [| |congruence].
  - destruct (G eq_refl) as [NO NP]. unfold run_columns_gen. rewrite (positions_dict_spec t reqs W R A). cbn [bind].
    rewrite dict_colreqs_lv, multi_vars_wild.
    assert (OV : negb (fix_overlap F) && negb (dupfree (wild_vars t reqs)) = false).
    { destruct (fix_overlap F) eqn:EF; [reflexivity|]. cbn. unfold no_overlap in NO. rewrite (NO eq_refl). reflexivity. }
    rewrite OV.
    rewrite <- dict_lv_spec. apply finish_ok.
    + apply dict_lv_nonempty; assumption.
    + rewrite dict_lv_vars. exact C.
    + intros PW x Hx Ex. specialize (NP PW). unfold no_pop_in_wildcard in NP. rewrite forallb_forall in NP.
      apply Nat.eqb_eq. apply NP. apply dict_lv_wild; assumption.
  - unfold run_columns_gen. rewrite (positions_list_spec t L reqs [] W R A). cbn [bind].
    fold (requested t ListForm reqs). unfold spec_columns. fold (requested t ListForm reqs).
    set (vs := requested t ListForm reqs) in *.
    rewrite (finish_ok (fix_popwild F) L U (map (fun v => ([join "/" v], v, true)) vs)).
    + f_equal. f_equal. rewrite flat_map_concat_map, map_map, <- flat_map_concat_map. reflexivity.
    + intro E. apply map_eq_nil in E. revert E. apply requested_list_nonempty; assumption.
    + rewrite map_map. unfold cr_var. cbn [fst snd]. rewrite map_id. exact C.
    + intros _ x Hx Ex. apply in_map_iff in Hx as [v [Ev _]]. subst x. discriminate.
Qed.

(* ... and with an injective index map (C04's theorem, here a hypothesis) two different requested units are read
   from two different state slots: a column cannot carry another unit's trajectory *)
Theorem distinct_units_distinct_slots : forall L,
  (forall v j v' j' k, pos L v j = Some k -> pos L v' j' = Some k -> v = v' /\ j = j') ->
  forall v j v' j' k k', pos L v j = Some k -> pos L v' j' = Some k' -> (v, j) <> (v', j') -> k <> k'.
Proof.
  intros L Inj v j v' j' k k' H1 H2 NE E. subst k'. destruct (Inj _ _ _ _ _ H1 H2). subst. congruence.
Qed.

End Fix.

(* the code as it is (repairs D73, D77, D87, D88 landed): the only guard left is `pattern not too long` *)
Theorem run_columns_spec_asis : forall t L U f reqs, f <> ListFormOld ->
  wfb t = true -> reqs_resolvable t reqs = true -> all_found t reqs = true -> reqs <> [] ->
  covers L U (requested t f reqs) = true ->
  run_columns t L f reqs = Ok (map (col_of L) (spec_columns t U f reqs)).
Proof.
  intros t L U f reqs NF W R A NE C. apply (run_columns_spec asis); try assumption.
  intro E. split; intro X; discriminate X.
Qed.

(* the code before those repairs *)
Theorem run_columns_spec_before : forall t L U f reqs, f <> ListFormOld ->
  wfb t = true -> reqs_resolvable_gen nofix t reqs = true -> all_found t reqs = true -> reqs <> [] ->
  (f = DictForm -> no_overlap t reqs = true /\ no_pop_in_wildcard t U reqs = true) ->
  covers L U (requested t f reqs) = true ->
  run_columns_gen nofix t L f reqs = Ok (map (col_of L) (spec_columns t U f reqs)).
Proof.
  intros t L U f reqs NF W R A NE G C. apply (run_columns_spec nofix); try assumption.
  intro E. destruct (G E). split; auto.
Qed.

(* ------------------------------------------------------------------------------------------ witnesses *)
Definition opn : node := [("op", ["x"; "k"])].
Definition flat3 : tree := Circ [("A", Leaf opn); ("B", Leaf opn); ("C", Leaf opn)].
Definition two_branches : tree :=
  Circ [("a", Circ [("c1", Circ [("n0", Leaf opn)])]); ("b", Circ [("c2", Circ [("n0", Leaf opn)])])].
(* what apply(vectorize=True) leaves behind for flat3: B and C merged into A's vector *)
Definition L3 : layout :=
  {| labels := [(["B"; "op"], ["A"; "op"]); (["B"], ["A"]); (["C"; "op"], ["A"; "op"]); (["C"], ["A"])];
     vidx := [(["A"; "op"; "x"], [0]); (["B"; "op"; "x"], [1]); (["C"; "op"; "x"], [2])];
     f2b := [(["A"; "op"; "x"], "x")]; svi := [("x", (0, 3))]; tsvi := [] |}.
Definition ox : string * string := ("op", "x").

Definition full_statement : Prop :=
  forall t v pat, wfb t = true -> get_nodes t v pat = Ok (path_denotation t v pat).

(* D31 (repaired, D73): before the fix the missing child raised; now the branch is skipped *)
Lemma D31_before_fix : wfb two_branches = true /\
  get_nodes_gen nofix two_branches (Some ox) ["all"; "c1"; "n0"] = Err KeyError /\
  get_nodes two_branches (Some ox) ["all"; "c1"; "n0"] = Ok [["a"; "c1"; "n0"]] /\
  path_denotation two_branches (Some ox) ["all"; "c1"; "n0"] = [["a"; "c1"; "n0"]] /\
  names_resolve two_branches ["all"; "c1"; "n0"] = false /\ resolvable two_branches ["all"; "c1"; "n0"] = true.
Proof. vm_compute. repeat split. Qed.

Lemma refuted_too_long : wfb flat3 = true /\
  get_nodes flat3 (Some ox) ["B"; "zzz"] = Ok [["B"]] /\ path_denotation flat3 (Some ox) ["B"; "zzz"] = [] /\
  not_too_long flat3 ["B"; "zzz"] = false.
Proof. vm_compute. repeat split. Qed.

(* a pattern ending at a sub-circuit (repaired, D87): before the fix the circuit name / IndexError, now nothing *)
Lemma too_short_before_fix :
  get_nodes_gen nofix two_branches None ["a"] = Ok [["a"]] /\ get_nodes_gen nofix two_branches (Some ox) ["a"] = Err IndexError /\
  get_nodes two_branches None ["a"] = Ok [] /\ get_nodes two_branches (Some ox) ["a"] = Ok [] /\
  path_denotation two_branches None ["a"] = [] /\ not_too_short two_branches ["a"] = false /\ resolvable two_branches ["a"] = true.
Proof. vm_compute. repeat split. Qed.

Lemma full_statement_refuted : ~ full_statement.
Proof.
  intro H. specialize (H flat3 (Some ox) ["B"; "zzz"] eq_refl).
  destruct refuted_too_long as [_ [E [E' _]]]. rewrite E, E' in H. discriminate.
Qed.

(* D06 (repaired): the list form relabelled the path BEFORE resolving it — B's column came back as A's *)
Lemma list_old_refuted :
  run_columns flat3 L3 ListFormOld [("", (["B"], ox))] = Ok [(["A/op/x"], ("x", 0))] /\
  run_columns flat3 L3 ListForm [("", (["B"], ox))] = Ok [(["B/op/x"], ("x", 1))] /\
  spec_columns flat3 [] ListForm [("", (["B"], ox))] = [(["B/op/x"], (["B"; "op"; "x"], 0))] /\
  pos L3 ["B"; "op"; "x"] 0 = Some 1.
Proof. vm_compute. repeat split. Qed.

(* regression for D43 (repaired): a plain key next to a wildcard key keeps its label *)
Lemma plain_key_regression :
  map fst (match run_columns flat3 L3 DictForm [("ab", (["B"], ox)); ("a", (["all"], ox))] with Ok l => l | Err _ => [] end) =
  map fst (spec_columns flat3 [] DictForm [("ab", (["B"], ox)); ("a", (["all"], ox))]) /\
  run_columns flat3 L3 DictForm [("ab", (["B"], ox)); ("a", (["all"], ox))] =
    Ok [(["ab"], ("x", 1)); (["a"; "A"; "op/x"], ("x", 0)); (["a"; "B"; "op/x"], ("x", 1)); (["a"; "C"; "op/x"], ("x", 2))].
Proof. vm_compute. repeat split. Qed.

(* overlapping wildcard keys (repaired, D77): before the fix KeyError, now all six columns *)
Lemma overlap_before_fix :
  run_columns_gen nofix flat3 L3 DictForm [("a", (["all"], ox)); ("b", (["all"], ox))] = Err KeyError /\
  List.length (spec_columns flat3 [] DictForm [("a", (["all"], ox)); ("b", (["all"], ox))]) = 6 /\
  no_overlap flat3 [("a", (["all"], ox)); ("b", (["all"], ox))] = false /\
  map fst (match run_columns flat3 L3 DictForm [("a", (["all"], ox)); ("b", (["all"], ox))] with Ok l => l | Err _ => [] end) =
  map fst (spec_columns flat3 [] DictForm [("a", (["all"], ox)); ("b", (["all"], ox))]).
Proof. vm_compute. repeat split. Qed.

(* get_run_func then run on one template: the stale map sends unit 1 of x to absolute position 3 + 1 = unit 4 *)
Definition stale_tree : tree :=
  Circ [("U0", Leaf [("ou", ["u"; "k"])]); ("U1", Leaf [("ou", ["u"; "k"])]); ("U2", Leaf [("ou", ["u"; "k"])]);
        ("N0", Leaf opn); ("N1", Leaf opn); ("N2", Leaf opn); ("N3", Leaf opn); ("N4", Leaf opn)].
Definition L_stale (stale : bool) : layout :=
  {| labels := []; vidx := [(["N1"; "op"; "x"], [1]); (["N4"; "op"; "x"], [4])];
     f2b := [(["N1"; "op"; "x"], "x"); (["N4"; "op"; "x"], "x")]; svi := [("u", (0, 3)); ("x", (3, 5))];
     tsvi := if stale then [("u", Some (0, 3)); ("x", Some (3, 5))] else [] |}.
Lemma stale_indices_refuted :
  source_of (L_stale true) ["N1"; "op"; "x"] = Ok ("x", [4]) /\ source_of (L_stale false) ["N1"; "op"; "x"] = Ok ("x", [1]) /\
  source_of (L_stale false) ["N4"; "op"; "x"] = Ok ("x", [4]).
Proof. vm_compute. repeat split. Qed.

(* non-vacuity: a depth-2 tree, wildcard in the middle, the guard holds and two nodes are denoted *)
Definition nv_tree : tree :=
  Circ [("c1", Circ [("A", Leaf opn); ("B", Leaf [("oq", ["x"; "z"; "k"])])]);
        ("c2", Circ [("B", Leaf opn); ("A", Leaf opn)])].
Lemma nonvacuous : wfb nv_tree = true /\ resolvable nv_tree ["all"; "A"] = true /\
  get_nodes nv_tree (Some ox) ["all"; "A"] = Ok [["c1"; "A"]; ["c2"; "A"]] /\
  get_nodes nv_tree (Some ox) ["all"] = Ok [["c1"; "A"]; ["c2"; "B"]; ["c2"; "A"]].
Proof. vm_compute. repeat split. Qed.

(* populations: A, B scalar nodes merged into one vector, P a PopulationTemplate of 3 units *)
Definition pop_tree : tree := Circ [("A", Leaf opn); ("B", Leaf opn); ("P", Leaf opn)].
Definition L_pop : layout :=
  {| labels := [(["B"; "op"], ["A"; "op"]); (["B"], ["A"])];
     vidx := [(["A"; "op"; "x"], [0]); (["B"; "op"; "x"], [1]); (["P"; "op"; "x"], [0; 1; 2])];
     f2b := [(["A"; "op"; "x"], "x"); (["P"; "op"; "x"], "x_v1")]; svi := [("x", (0, 2)); ("x_v1", (2, 3))]; tsvi := [] |}.
Definition U_pop : list (path * nat) := [(["P"], 3)].
Lemma population_columns :
  run_columns pop_tree L_pop DictForm [("p", (["P"], ox)); ("a", (["B"], ox))] =
    Ok [(["p"; "0"], ("x_v1", 0)); (["p"; "1"], ("x_v1", 1)); (["p"; "2"], ("x_v1", 2)); (["a"], ("x", 1))] /\
  spec_columns pop_tree U_pop DictForm [("p", (["P"], ox)); ("a", (["B"], ox))] =
    [(["p"; "0"], (["P"; "op"; "x"], 0)); (["p"; "1"], (["P"; "op"; "x"], 1)); (["p"; "2"], (["P"; "op"; "x"], 2));
     (["a"], (["B"; "op"; "x"], 0))] /\
  pos L_pop ["P"; "op"; "x"] 2 = Some 4 /\
  run_columns pop_tree L_pop ListForm [("", (["all"], ox))] =
    Ok [(["A/op/x"], ("x", 0)); (["B/op/x"], ("x", 1)); (["P/op/x"; "0"], ("x_v1", 0)); (["P/op/x"; "1"], ("x_v1", 1));
        (["P/op/x"; "2"], ("x_v1", 2))].
Proof. vm_compute. repeat split. Qed.

(* a population among the variables of a dict-form wildcard key: ValueError (2-D array among 1-D ones) *)
Lemma population_in_wildcard_before_fix :
  run_columns_gen nofix pop_tree L_pop DictForm [("w", (["all"], ox))] = Err ValueError /\
  List.length (spec_columns pop_tree U_pop DictForm [("w", (["all"], ox))]) = 5 /\
  no_pop_in_wildcard pop_tree U_pop [("w", (["all"], ox))] = false /\
  run_columns pop_tree L_pop DictForm [("w", (["all"], ox))] =
    Ok [(["w"; "A"; "op/x"], ("x", 0)); (["w"; "B"; "op/x"], ("x", 1)); (["w"; "P"; "op/x"; "0"], ("x_v1", 0));
        (["w"; "P"; "op/x"; "1"], ("x_v1", 1)); (["w"; "P"; "op/x"; "2"], ("x_v1", 2))].
Proof. vm_compute. repeat split. Qed.

(* non-vacuity of run_columns_spec: all its hypotheses hold on a request with a population, a wildcard and a plain key *)
Lemma run_returns_nonvacuous :
  let reqs := [("p", (["P"], ox)); ("a", (["B"], ox))] in
  wfb pop_tree = true /\ reqs_resolvable pop_tree reqs = true /\ all_found pop_tree reqs = true /\
  covers L_pop U_pop (requested pop_tree DictForm reqs) = true.
Proof. vm_compute. repeat split. Qed.

(* ------------------------------------------------------------------------------------------ paths inside edges *)
(* when the state row holds every variable at its slot pos (the layout is C04's), the derivative the edges produce
   reads exactly the variables their paths name: source, target and the path-mapped extra source *)
Theorem edge_paths_same_variable : forall (V : Type) (vadd vmul : V -> V -> V) (vzero : V) L row (val : path -> V) es tv,
  (forall e, In e es -> let '(s, t, w, r) := e in read_slot V vzero L row s = val s /\ read_slot V vzero L row r = val r) ->
  edge_deriv_impl V vadd vmul vzero L row es tv = edge_deriv_spec V vadd vmul vzero val es tv.
Proof.
  intros V vadd vmul vzero L row val es tv. unfold edge_deriv_impl, edge_deriv_spec, edge_deriv.
  induction es as [|[[[s t] w] r] es IH]; intro H; [reflexivity|]. cbn [fold_right].
  destruct (H (s, t, w, r) (or_introl eq_refl)) as [Hs Hr]. rewrite Hs, Hr.
  rewrite IH by (intros e He; apply H; right; exact He). reflexivity.
Qed.
