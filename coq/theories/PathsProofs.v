From Coq Require Import List String Bool Arith.
From PV Require Import Paths.
Import ListNotations.
