(* IndexedEquiv.v — E2 tie for the helper pyrates.ir.circuit._get_indexed_var_str (LIST branch: idx is a list of ints).
   The definition that harness/py2v.py regenerates from the current source on every run (coq/gen/Gen_get_indexed_var_str.v:
   the zip/break loop is a fold with a break flag, `arg_dict[idx_str] = {...}` is the pair (idx_str, idx) appended to the
   returned arg_dict, idx[0] on an empty list is None) equals the hand model `indexed_hand` for EVERY input:

     the variable is returned UNCHANGED  iff  len(idx) = var_length and idx = [0, 1, ..., var_length-1]   (idx non-empty)

   and otherwise `index(var, idx_str)` (recording idx under idx_str) resp. `index(var, <printed idx>)`.  The shortcut is
   semantically right exactly then: gathering a vector of length var_length at the identity index list gives the vector
   back (`gather_identity`), and an end-point test instead of the element-wise test (seeded six times) changes the
   generated text and breaks `fold_identity` / `gen_indexed_equiv`. *)
From Coq Require Import ZArith List Bool String Ascii Lia.
From PV Require Import PyLib.
From PVG Require Import Gen_get_indexed_var_str.
Import ListNotations.
Open Scope Z_scope.

Definition all_eq (ps : list (Z * Z)) : bool := forallb (fun p => fst p =? snd p) ps.
(* the element-wise identity test of the code *)
Definition identity_idx (idx : list Z) (n : Z) : bool :=
  (Z.of_nat (List.length idx) =? n) && all_eq (combine idx (py_range 0 n)).

Definition indexed_hand (d : list (string * list Z)) (var : string) (idx : list Z) (n : Z) (reduce : bool) (s : string)
  : option (string * list (string * list Z)) :=
  match idx with
  | [] => if reduce then None                               (* idx[0] on an empty list raises *)
          else Some (var, d)
  | _ => if identity_idx idx n then Some (var, d)
         else if negb (String.eqb s "") then Some (("index(" ++ var ++ ", " ++ s ++ ")")%string, (d ++ [(s, idx)])%list)
         else Some (("index(" ++ var ++ ", " ++ py_str_list_Z idx ++ ")")%string, d)
  end.

(* the fold with the break flag computes the element-wise test *)
Lemma fold_broken ps : fold_left get_indexed_var_str_step1 ps (false, true) = (false, true).
Proof. induction ps as [|[a b] ps IH]; [reflexivity|]. cbn [fold_left get_indexed_var_str_step1]. exact IH. Qed.
Lemma step_fresh a b : get_indexed_var_str_step1 (true, false) (a, b) = if a =? b then (true, false) else (false, true).
Proof. unfold get_indexed_var_str_step1. destruct (a =? b); reflexivity. Qed.
Lemma fold_identity ps :
  fold_left get_indexed_var_str_step1 ps (true, false) = if all_eq ps then (true, false) else (false, true).
Proof.
  induction ps as [|[a b] ps IH]; [reflexivity|].
  cbn [fold_left all_eq forallb fst snd]. rewrite step_fresh.
  destruct (a =? b) eqn:E; cbn [andb]; [exact IH|apply fold_broken].
Qed.

(* the regenerated function equals the hand model *)
Theorem gen_indexed_equiv d var idx n reduce s :
  get_indexed_var_str d var idx n reduce s = indexed_hand d var idx n reduce s.
Proof.
  unfold get_indexed_var_str, indexed_hand. destruct idx as [|i0 idx'].
  - cbn. destruct reduce; reflexivity.
  - set (idx := i0 :: idx').
    replace (Z.of_nat (List.length idx) >? 0) with true by (symmetry; apply Z.gtb_lt; unfold idx; cbn [List.length]; lia).
    unfold identity_idx. destruct (Z.of_nat (List.length idx) =? n) eqn:E; cbn [andb].
    + rewrite fold_identity. destruct (all_eq (combine idx (py_range 0 n))); reflexivity.
    + reflexivity.
Qed.

(* ---------------------------------------------------------------------------------------------- what the test means *)
Lemma py_range_0 n : py_range 0 n = map Z.of_nat (seq 0 (Z.to_nat n)).
Proof. unfold py_range. rewrite Z.sub_0_r. apply map_ext. intros k. lia. Qed.

Lemma all_eq_combine : forall a b, List.length a = List.length b -> (all_eq (combine a b) = true <-> a = b).
Proof.
  induction a as [|x a IH]; intros [|y b] H; cbn in *; try discriminate; [tauto|].
  rewrite andb_true_iff, Z.eqb_eq, IH by lia. split; [intros [-> ->]; reflexivity|intros E; injection E; auto].
Qed.

Theorem identity_idx_iff idx n :
  identity_idx idx n = true <-> Z.of_nat (List.length idx) = n /\ idx = map Z.of_nat (seq 0 (List.length idx)).
Proof.
  unfold identity_idx. rewrite andb_true_iff, Z.eqb_eq, py_range_0. split.
  - intros [Hn H]. split; [exact Hn|]. subst n. rewrite Nat2Z.id in H.
    apply all_eq_combine in H; [exact H|now rewrite map_length, seq_length].
  - intros [Hn H]. split; [exact Hn|]. subst n. rewrite Nat2Z.id.
    apply all_eq_combine; [now rewrite map_length, seq_length|exact H].
Qed.

(* gathering a vector at the identity index list gives the vector back ... *)
Lemma map_nth_seq {A} (l : list A) d : map (fun i => nth i l d) (seq 0 (List.length l)) = l.
Proof.
  induction l as [|x l IH]; [reflexivity|]. cbn [List.length seq map nth]. f_equal.
  rewrite <- seq_shift, map_map. exact IH.
Qed.
Definition gather {A} (l : list A) (d : A) (idx : list Z) : list A := map (fun i => nth (Z.to_nat i) l d) idx.
Theorem gather_identity {A} (l : list A) d idx :
  identity_idx idx (Z.of_nat (List.length l)) = true -> gather l d idx = l.
Proof.
  intros H. apply identity_idx_iff in H as [Hn ->]. apply Nat2Z.inj in Hn. rewrite Hn.
  unfold gather. rewrite map_map. rewrite <- (map_nth_seq l d) at 2. apply map_ext. intros k. now rewrite Nat2Z.id.
Qed.
(* ... and ONLY then, for index lists of the vector's length with non-negative entries (a negative entry wraps in numpy):
   any other index list changes the vector [0, 1, ..., n-1] *)
Theorem gather_not_identity idx n : (0 <= n) -> Forall (fun i => 0 <= i) idx -> Z.of_nat (List.length idx) = n -> identity_idx idx n = false ->
  gather (map Z.of_nat (seq 0 (Z.to_nat n))) (-1) idx <> map Z.of_nat (seq 0 (Z.to_nat n)).
Proof.
  intros Hn0 Hpos Hlen Hid Heq. assert (Hc : identity_idx idx n = true); [|congruence].
  apply identity_idx_iff. split; [exact Hlen|].
  assert (Hl : List.length idx = Z.to_nat n) by lia. rewrite Hl.
  (* every entry of idx is the value gathered at it, i.e. the entry of the identity list at the same position *)
  apply nth_ext with (d := -1) (d' := -1); [now rewrite map_length, seq_length|].
  intros k Hk. apply (f_equal (fun v => nth k v (-1))) in Heq. unfold gather in Heq.
  rewrite (nth_indep _ (-1) (nth (Z.to_nat (-1)) (map Z.of_nat (seq 0 (Z.to_nat n))) (-1))) in Heq by (rewrite map_length; exact Hk).
  rewrite (map_nth (fun i => nth (Z.to_nat i) (map Z.of_nat (seq 0 (Z.to_nat n))) (-1)) idx (-1) k) in Heq.
  set (v := nth k idx (-1)) in *.
  assert (Hr : nth k (map Z.of_nat (seq 0 (Z.to_nat n))) (-1) = Z.of_nat k).
  { rewrite nth_indep with (d' := Z.of_nat 0) by (rewrite map_length, seq_length; lia).
    rewrite map_nth, seq_nth by lia. reflexivity. }
  rewrite Hr in Heq. rewrite Hr.
  (* nth (to_nat v) identity = of_nat k  forces v = of_nat k *)
  destruct (Z_lt_le_dec v 0) as [Hv|Hv].
  - exfalso. rewrite Forall_forall in Hpos. specialize (Hpos v). assert (In v idx) by (apply nth_In; lia). specialize (Hpos H). lia.
  - destruct (Nat.lt_ge_cases (Z.to_nat v) (Z.to_nat n)) as [Hlt|Hge].
    + rewrite nth_indep with (d' := Z.of_nat 0) in Heq by (rewrite map_length, seq_length; lia).
      rewrite map_nth, seq_nth in Heq by lia. lia.
    + rewrite nth_overflow in Heq by (rewrite map_length, seq_length; lia). lia.
Qed.

(* the statement referenced from coq/properties/C04.v *)
Theorem indexed_identity_generated : forall d var idx n reduce s,
  get_indexed_var_str d var idx n reduce s = indexed_hand d var idx n reduce s /\
  (identity_idx idx n = true <-> Z.of_nat (List.length idx) = n /\ idx = map Z.of_nat (seq 0 (List.length idx))) /\
  (forall (A : Type) (l : list A) (dflt : A), Z.of_nat (List.length l) = n -> identity_idx idx n = true -> gather l dflt idx = l) /\
  (0 <= n -> Forall (fun i => 0 <= i) idx -> Z.of_nat (List.length idx) = n -> identity_idx idx n = false ->
   gather (map Z.of_nat (seq 0 (Z.to_nat n))) (-1) idx <> map Z.of_nat (seq 0 (Z.to_nat n))).
Proof.
  intros d var idx n reduce s. split; [apply gen_indexed_equiv|]. split; [apply identity_idx_iff|]. split.
  - intros A l dflt Hl H. subst n. now apply gather_identity.
  - apply gather_not_identity.
Qed.
