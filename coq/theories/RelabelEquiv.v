(* RelabelEquiv.v — E2 tie for CircuitTemplate._relabel_var (pyrates/frontend/template/circuit.py): the definition that
   harness/py2v.py regenerates from the current source (coq/gen/Gen_relabel_var.v) equals the hand model `relabel_hand`
   for EVERY path string and EVERY map; it never raises (the `[-2]` index is only reached when the path has at least two
   components), and it is the identity on paths whose operator prefix and node prefix are not keys of the map. *)
From Coq Require Import ZArith List Bool String Ascii Lia.
From PV Require Import PyLib.
From PVG Require Import Gen_relabel_var.
Import ListNotations.
Open Scope Z_scope.

(* hand model: cs = components of the path; operator prefix = all but the last, node prefix = all but the last two *)
Definition relabel_hand (var : string) (m : sdict) : string :=
  let cs := py_split_char var "/"%char in
  let n := List.length cs in
  let last1 := nth (n - 1) cs ""%string in
  let last2 := nth (n - 2) cs ""%string in
  match py_sget m (py_join "/" (firstn (n - 1) cs)) with
  | Some o => (o ++ "/" ++ last1)%string
  | None =>
    match py_sget m (py_join "/" (firstn (n - 2) cs)) with
    | Some nd => (nd ++ "/" ++ last2 ++ "/" ++ last1)%string
    | None => var
    end
  end.

Lemma la_split_nonempty c : forall s cur, la_split c cur s <> [].
Proof. induction s as [|x s IH]; intros cur; cbn; [discriminate|]. destruct (Ascii.eqb x c); [discriminate|apply IH]. Qed.
Lemma split_length s c : (1 <= List.length (py_split_char s c))%nat.
Proof.
  unfold py_split_char. rewrite map_length. pose proof (la_split_nonempty c (la s) []) as H.
  destruct (la_split c [] (la s)); [contradiction|cbn; lia].
Qed.

Lemma lslice_neg {A} (l : list A) (k : nat) : (0 < k)%nat ->
  py_lslice l None (Some (- Z.of_nat k)) = firstn (List.length l - k) l.
Proof.
  intros Hk. unfold py_lslice, py_norm. replace (- Z.of_nat k <? 0) with true by (symmetry; apply Z.ltb_lt; lia).
  cbn [skipn]. rewrite Nat.sub_0_r. f_equal. lia.
Qed.
Lemma lindex_neg {A} (l : list A) (k : nat) d : (0 < k <= List.length l)%nat ->
  py_lindex l (- Z.of_nat k) = Some (nth (List.length l - k) l d).
Proof.
  intros Hk. unfold py_lindex. replace (- Z.of_nat k <? 0) with true by (symmetry; apply Z.ltb_lt; lia).
  replace (- Z.of_nat k + Z.of_nat (List.length l) <? 0) with false by (symmetry; apply Z.ltb_ge; lia).
  replace (Z.to_nat (- Z.of_nat k + Z.of_nat (List.length l))) with (List.length l - k)%nat by lia.
  apply nth_error_nth'. lia.
Qed.

(* the regenerated function equals the hand model and never fails *)
Theorem gen_relabel_equiv var m : relabel_var var m = Some (relabel_hand var m).
Proof.
  unfold relabel_var, relabel_hand. set (cs := py_split_char var "/"%char).
  pose proof (split_length var "/"%char) as Hn. fold cs in Hn.
  change (- (1))%Z with (- Z.of_nat 1). change (- (2))%Z with (- Z.of_nat 2).
  rewrite !lslice_neg by lia. unfold py_sin.
  destruct (py_sget m (py_join "/" (firstn (List.length cs - 1) cs))) as [o|] eqn:E1; cbn [py_bind].
  - rewrite (lindex_neg cs 1 ""%string) by lia. reflexivity.
  - destruct (py_sget m (py_join "/" (firstn (List.length cs - 2) cs))) as [nd|] eqn:E2; cbn [py_bind]; [|reflexivity].
    assert (H2 : (2 <= List.length cs)%nat).
    { destruct (Nat.le_gt_cases 2 (List.length cs)) as [H|H]; [exact H|]. exfalso.
      replace (List.length cs - 2)%nat with (List.length cs - 1)%nat in E2 by lia. congruence. }
    rewrite (lindex_neg cs 2 ""%string), (lindex_neg cs 1 ""%string) by lia. reflexivity.
Qed.

(* relabelling is the identity on every path whose operator prefix and node prefix are not keys of the map *)
Theorem relabel_identity var m :
  let cs := py_split_char var "/"%char in
  py_sget m (py_join "/" (firstn (List.length cs - 1) cs)) = None ->
  py_sget m (py_join "/" (firstn (List.length cs - 2) cs)) = None ->
  relabel_var var m = Some var.
Proof. intros cs H1 H2. rewrite gen_relabel_equiv. unfold relabel_hand. fold cs. now rewrite H1, H2. Qed.
Corollary relabel_empty_map var : relabel_var var [] = Some var.
Proof. now apply relabel_identity. Qed.
