(* Solver.v — executable model (Impl) of the fixed-step solvers and of the result assembly of run():
     pyrates/backend/base/base_backend.py : BaseBackend.run (time axis), _solve_euler, _solve_heun
     pyrates/backend/computegraph.py      : ComputeGraph.run (results[-1], column slices)
     pyrates/frontend/template/circuit.py : CircuitTemplate.run (DataFrame construction, .loc[cutoff:, :])
   and the specification (Spec) "row k is the k*store_step-th iterate of the Euler/Heun map, at time k*dts".
   Definitions only; proofs are in SolverProofs.v.

   Impl mirrors the code line by line:
     steps       = int(np.round(T/dt));  store_steps = int(np.round(T/dts));  store_step = int(np.round(dts/dt))
     state_rec   = np.empty((store_steps, n))
     for i in range(steps):
         if i % store_step == 0: state_rec[idx,:] = y; idx += 1      (IndexError when idx = store_steps;
                                                                       ZeroDivisionError when store_step = 0)
         step = i + t0;  rhs = func(step, y, *args)
         euler:  y += dt*rhs
         heun :  rhs = np.array(func(step, y, *args));  y_0 = y + dt*rhs;  y += dt/2*(rhs + func(step, y_0, *args))
   The right-hand side is a *stateful* function  f : C -> nat -> row -> row * C  (C = whatever the compiled
   function keeps between calls: ring buffers, a call counter ...).  The generated function of the default backend
   writes into the caller's `dy` buffer and returns that same buffer; since fix D36 the Heun loop copies the first
   result, so the value of `rhs` no longer depends on the second call (`heun_step_before_D36` records what the loop
   computed before: `rhs` was an alias of the buffer the second call overwrites).
   Rows of state_rec that are never written are np.empty garbage: outcome `Short`. *)
From Coq Require Import List ZArith QArith Qcanon Qround Bool Arith Lia.
From PV Require Import History.
Import ListNotations.

(* ------------------------------------------------------------------------------------------------ *)
(* the loop, generic in the state type and in a stateful step function *)
Section Loop.
  Variable Y : Type.
  Variable C : Type.
  Variable step : C -> nat -> Y -> Y * C.

  (* for i in range(steps): if i % store_step == 0: rec.append(y);  (y, c) = step c (i + t0) y
     -- without the bound of the pre-allocated record *)
  Fixpoint loop (ss t0 : nat) (i todo : nat) (y : Y) (c : C) (rec : list Y) : list Y * Y * C :=
    match todo with
    | O => (rec, y, c)
    | S todo' =>
        let rec' := if (i mod ss =? 0)%nat then rec ++ [y] else rec in
        let '(y', c') := step c (i + t0) y in
        loop ss t0 (S i) todo' y' c' rec'
    end.

  (* as coded: the record has `cap` rows; writing row number `cap` raises IndexError (None) *)
  Fixpoint loopE (ss cap t0 : nat) (i todo : nat) (y : Y) (c : C) (rec : list Y) : option (list Y) :=
    match todo with
    | O => Some rec
    | S todo' =>
        if (i mod ss =? 0)%nat then
          if (length rec <? cap)%nat then
            let '(y', c') := step c (i + t0) y in loopE ss cap t0 (S i) todo' y' c' (rec ++ [y])
          else None
        else
          let '(y', c') := step c (i + t0) y in loopE ss cap t0 (S i) todo' y' c' rec
    end.

  (* the trajectory itself: state after k steps, the first of which is step number i *)
  Fixpoint traj (t0 : nat) (i : nat) (y : Y) (c : C) (k : nat) : Y * C :=
    match k with
    | O => (y, c)
    | S k' => let '(y', c') := step c (i + t0) y in traj t0 (S i) y' c' k'
    end.

  (* indices at which the loop stores *)
  Definition stored (ss i todo : nat) : list nat := filter (fun j => (j mod ss =? 0)%nat) (seq i todo).
End Loop.
Arguments loop {Y C}.
Arguments loopE {Y C}.
Arguments traj {Y C}.

(* ceil(a/b) *)
Definition cdiv (a b : nat) : nat := ((a + b - 1) / b)%nat.

(* ------------------------------------------------------------------------------------------------ *)
(* numpy round / Python round: to nearest, ties to even *)
Definition half : Qc := Q2Qc (1 # 2).
Definition ZtoQc (z : Z) : Qc := Q2Qc (inject_Z z).
Definition NtoQc (n : nat) : Qc := ZtoQc (Z.of_nat n).

Definition round_half_even (q : Qc) : Z :=
  let fl := Qfloor (this q) in
  match ((q - ZtoQc fl) ?= half)%Qc with
  | Lt => fl
  | Gt => (fl + 1)%Z
  | Eq => if Z.even fl then fl else (fl + 1)%Z
  end.

Definition rnd (q : Qc) : nat := Z.to_nat (round_half_even q).

(* ------------------------------------------------------------------------------------------------ *)
(* Euler and Heun around a stateful right-hand side *)
Inductive solver := Euler | Heun.
Definition solver_eqb (a b : solver) : bool :=
  match a, b with Euler, Euler => true | Heun, Heun => true | _, _ => false end.

Section Steps.
  Variable C : Type.
  Variable f : C -> nat -> row -> row * C.

  (* rhs = func(step, y);  y += dt*rhs *)
  Definition euler_step (dt : Qc) (c : C) (t : nat) (y : row) : row * C :=
    let '(r, c1) := f c t y in (vadd y (vscale dt r), c1).

  (* rhs = np.array(func(step, y));  y_0 = y + dt*rhs;  y += dt/2*(rhs + func(step, y_0)); both stages get `step` *)
  Definition heun_step (dt : Qc) (c : C) (t : nat) (y : row) : row * C :=
    let '(r1, c1) := f c t y in
    let y_0 := vadd y (vscale dt r1) in
    let '(r2, c2) := f c1 t y_0 in
    (vadd y (vscale (dt / (Q2Qc 2))%Qc (vadd r1 r2)), c2).

  (* before fix D36 (rhs = func(step, y) without the copy) with a right-hand side that returns its own buffer:
     `rhs + func(...)` evaluates the name `rhs` (a reference), then the call (which overwrites the buffer), then
     adds: both operands are the second result.  Only used to state what the fix changed. *)
  Definition heun_step_before_D36 (dt : Qc) (c : C) (t : nat) (y : row) : row * C :=
    let '(r1, c1) := f c t y in
    let y_0 := vadd y (vscale dt r1) in
    let '(r2, c2) := f c1 t y_0 in
    (vadd y (vscale (dt / (Q2Qc 2))%Qc (vadd r2 r2)), c2).

  Definition step_of (s : solver) (dt : Qc) : C -> nat -> row -> row * C :=
    match s with Euler => euler_step dt | Heun => heun_step dt end.
End Steps.
Arguments euler_step {C}.
Arguments heun_step {C}.
Arguments heun_step_before_D36 {C}.
Arguments step_of {C}.

Inductive outcome :=
| Rows (l : list row)                     (* a fully written record *)
| Short (l : list row) (missing : nat)    (* fewer rows written than allocated: the rest is np.empty garbage *)
| ErrIndex                                (* IndexError *)
| ErrZeroDiv                              (* ZeroDivisionError: i % 0 *)
| ErrShape                                (* ValueError (DataFrame constructor; sequence assigned to a scalar) *)
| ErrAttribute.                           (* AttributeError *)

Definition finish (rec : list row) (store_steps : nat) : outcome :=
  if (length rec =? store_steps)%nat then Rows rec else Short rec (store_steps - length rec).

(* BaseBackend._solve_euler / _solve_heun *)
Definition solve {C} (f : C -> nat -> row -> row * C) (s : solver)
           (T dt dts : Qc) (y0 : row) (c0 : C) (t0 : nat) : outcome :=
  let steps := rnd (T / dt) in
  let store_steps := rnd (T / dts) in
  let ss := rnd (dts / dt) in
  if (ss =? 0)%nat then (if (steps =? 0)%nat then finish [] store_steps else ErrZeroDiv)
  else match loopE (step_of f s dt) ss store_steps t0 0 steps y0 c0 [] with
       | None => ErrIndex
       | Some rec => finish rec store_steps
       end.

(* BaseBackend.run after fix D05: times = np.arange(n_time_points) * step *)
Definition times (n : nat) (d : Qc) : list Qc := map (fun k => (NtoQc k * d)%Qc) (seq 0 n).
(* before fix D05: np.linspace(0, T, n, endpoint=False) = k * (T/n) (only used to state what the fix changed) *)
Definition times_linspace (n : nat) (T : Qc) : list Qc := map (fun k => (NtoQc k * (T / NtoQc n))%Qc) (seq 0 n).

Definition pick (cols : list nat) (y : row) : row := map (fun j => nth j y 0%Qc) cols.

(* DataFrame rows: time :: values of the requested columns;  results.loc[cutoff:, :] keeps index >= cutoff *)
Definition frame (cutoff : Qc) (ts : list Qc) (cols : list nat) (rec : list row) : list row :=
  map (fun p => fst p :: pick cols (snd p)) (filter (fun p => Qcleb cutoff (fst p)) (combine ts rec)).

(* CircuitTemplate.run with solver euler/heun (t0 = 0: the compiled `t` starts at 0).
   dts = None: `dts = dt` (ComputeGraph.run) and `step = dts if dts else dt` (BaseBackend.run).
   ComputeGraph.run reads results[-1]: IndexError on an empty record.
   Since fix D62 (`_squeeze_units`: unit axes are squeezed, never the time axis) a single stored row is returned as a
   1-row frame whatever the number of columns (before: ValueError from the DataFrame constructor for >= 2 columns). *)
Definition run_model {C} (f : C -> nat -> row -> row * C) (s : solver)
           (T dt : Qc) (dts : option Qc) (cutoff : Qc) (cols : list nat) (y0 : row) (c0 : C) : outcome :=
  let d := match dts with Some d => d | None => dt end in
  let n := rnd (T / d) in
  match solve f s T dt d y0 c0 0 with
  | Rows rec =>
      if (n =? 0)%nat then ErrIndex
      else Rows (frame cutoff (times n d) cols rec)
  | o => o
  end.

(* ------------------------------------------------------------------------------------------------ *)
(* Spec *)
Definition spec_rows {C} (f : C -> nat -> row -> row * C) (s : solver) (T dt dts : Qc) (y0 : row) (c0 : C) (t0 : nat)
  : list row :=
  map (fun k => fst (traj (step_of f s dt) t0 0 y0 c0 (k * rnd (dts / dt)))) (seq 0 (rnd (T / dts))).

Definition spec_run {C} (f : C -> nat -> row -> row * C) (s : solver) (T dt : Qc) (dts : option Qc) (cutoff : Qc)
           (cols : list nat) (y0 : row) (c0 : C) : list row :=
  let d := match dts with Some d => d | None => dt end in
  map (fun k => (NtoQc k * d)%Qc :: pick cols (fst (traj (step_of f s dt) 0 0 y0 c0 (k * rnd (d / dt)))))
      (filter (fun k => Qcleb cutoff (NtoQc k * d)%Qc) (seq 0 (rnd (T / d)))).

(* ------------------------------------------------------------------------------------------------ *)
(* guards (decidable) *)
(* the record is exactly filled: no IndexError, no unwritten row *)
Definition rows_fit (T dt dts : Qc) : bool :=
  (1 <=? rnd (dts / dt))%nat && (cdiv (rnd (T / dt)) (rnd (dts / dt)) =? rnd (T / dts))%nat.
(* the property's quantifier: the sampling step is a positive integer multiple of the step *)
Definition sampling_multiple (dt dts : Qc) : bool :=
  (1 <=? rnd (dts / dt))%nat && Qeq_bool (this (NtoQc (rnd (dts / dt)) * dt)%Qc) (this dts).
(* at least one stored sample (with none, ComputeGraph.run fails on results[-1]) *)
Definition frame_ok (T d : Qc) : bool := (1 <=? rnd (T / d))%nat.

(* ------------------------------------------------------------------------------------------------ *)
(* a concrete family of right-hand sides for the correspondence run: affine in y, in the time argument and in
   the number of calls made so far (hidden state = call counter) *)
Record lin_rhs := { mA : list row; vb : row; vn : row; vt : row }.
Definition dot (a b : row) : Qc := fold_right Qcplus 0%Qc (map (fun p => (fst p * snd p)%Qc) (combine a b)).
Definition lin_f (p : lin_rhs) (n : nat) (t : nat) (y : row) : row * nat :=
  (vadd (vadd (vadd (map (fun r => dot r y) (mA p)) (vb p)) (vscale (NtoQc n) (vn p))) (vscale (NtoQc t) (vt p)), S n).

Definition rows_eqb (a b : list row) : bool :=
  (length a =? length b)%nat && forallb (fun p => row_eqb (fst p) (snd p)) (combine a b).
Definition outcome_eqb (a b : outcome) : bool :=
  match a, b with
  | Rows x, Rows y => rows_eqb x y
  | Short x m, Short y m' => rows_eqb x y && (m =? m')%nat
  | ErrIndex, ErrIndex => true
  | ErrZeroDiv, ErrZeroDiv => true
  | ErrShape, ErrShape => true
  | ErrAttribute, ErrAttribute => true
  | _, _ => false
  end.
