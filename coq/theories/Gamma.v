(* Gamma.v — executable model (Impl) of the distributed-delay (gamma kernel) branch of _add_edge_buffer and its
   specification (Spec).  Definitions only; proofs are in GammaProofs.v.

   Mirrors pyrates/ir/circuit.py 509-593 (ODE branch) and 311-353 (_collect_delays_from_edges), as the code is now:
     per slot (edge)   with spread v > 0 : n = int(np.round((m/v)**2)); order = n if n > dde_approx else dde_approx;
                                           rate = order/m              (m = delay in TIME units: not discretised)
                       without spread    : m = discretised delay in STEPS (None -> 1);
                                           order = dde_approx if m else 0; rate = order/m
     grouping          slots are grouped by key (order, round(rate, 12)) in first-appearance order; one chain per
                       group, its rate constant is the rate of the FIRST slot of the group; chain input = the source
                       units of the member slots; chain output is written back to the member slots of `buffered`
     chain             z_1' = a (u - z_1), z_k' = a (z_{k-1} - z_k); order 0 = pass-through
     add_delay         with spreads: max delay > step_size
   Circuits of the correspondence run are those of Ring.v (sources x' = k, targets x' = r_in). *)
From Coq Require Import List ZArith QArith Qcanon Qround Bool Arith.
From PV Require Import Ring.
Import ListNotations.

(* gamma chain (from the design spike): stages z, input u *)
Definition chain_rhs (a u : Qc) (z : list Qc) : list Qc :=
  map (fun p => (a * (fst p - snd p))%Qc) (combine (u :: z) z).
Definition chain_out (u : Qc) (z : list Qc) : Qc := last z u.
Definition of_nat (k : nat) : Qc := Q2Qc (inject_Z (Z.of_nat k)).

(* delay specification of an edge: None = no delay entry; Some (d, None) = plain delay; Some (d, Some s) = delay d, spread s *)
Record gedge := mkG { gsrc : nat; gtgt : nat; gw : Qc; gd : option (Qc * option Qc) }.
Record gcircuit := mkGC { gdt : Qc; gvec : bool; gdde : nat; gnodes : list node; gedges : list gedge }.

Definition gnode (c : gcircuit) (i : nat) : node := nth i (gnodes c) dnode.
Definition gkey (c : gcircuit) (i : nat) : nat := if gvec c then ncls (gnode c i) else i.
Definition has_spread (e : gedge) : bool := match gd e with Some (_, Some _) => true | _ => false end.
Definition ggroup (c : gcircuit) (g : nat) : list gedge := filter (fun e => Nat.eqb (gkey c (gsrc e)) g) (gedges c).
Definition group_spread (c : gcircuit) (g : nat) : bool := existsb has_spread (ggroup c g).

(* delay `m` of a slot as _collect_delays_from_edges hands it on: time units when the edge has a spread, steps otherwise *)
(* model switch of fix D71 (landed, on; false = the code before it): with dde_approx > 0 a delay without
   spread is no longer discretised before rate = n/m.  Ring.fixed_D15 (placeholder 0 instead of 1 for an edge without delay)
   acts here too: order = dde_approx if m else 0. *)
Definition fixed_dde_steps : bool := true.
Definition continuous (c : gcircuit) : bool := fixed_dde_steps && Nat.ltb 0 (gdde c).
Definition slot_m (c : gcircuit) (e : gedge) : Qc :=
  match gd e with
  | None => of_nat nokey_steps
  | Some (d, Some _) => d
  | Some (d, None) => if continuous c then d else of_nat (steps_of d (gdt c))
  end.
Definition sq (q : Qc) : Qc := (q * q)%Qc.
Definition slot_order (c : gcircuit) (e : gedge) : nat :=
  match gd e with
  | Some (d, Some s) => let n := Z.to_nat (round_half_even (sq (d / s))) in
                        if Nat.ltb (gdde c) n then n else gdde c
  | _ => if Qceqb (slot_m c e) 0%Qc then O else gdde c
  end.
Definition slot_rate (c : gcircuit) (e : gedge) : Qc :=
  if Qceqb (slot_m c e) 0%Qc then 0%Qc else (of_nat (slot_order c e) / slot_m c e)%Qc.

Definition g_has_delay (e : gedge) : bool := match gd e with Some _ => true | None => false end.
(* add_delay for the KERNEL (ODE-branch) buffer of a (merged) source variable.  Since D114 the edges with a spread and the edges without
   one are two partitions, each with its own _collect_delays_from_edges call and its own add_delay decision:
     dde_approx = 0 : the spread partition is implemented iff SOME edge of it has a delay above the step size (floats: max > step_size;
                      there is no per-edge neglect for spread edges, so a sub-step spread delay keeps its kernel when a sibling spread
                      edge is above the step, and loses it — pass-through — when none is, whatever the plain siblings do);
                      the partition of the spread-less edges decides on its discrete step counts: see impl_step;
     dde_approx > 0 : one partition, every delay a kernel in time units (D119: no per-edge neglect), max over all delays > step_size. *)
Definition gadd_delay (c : gcircuit) (g : nat) : bool :=
  if continuous c
  then existsb g_has_delay (ggroup c g) && existsb (fun e => negb (Qle_bool (this (slot_m c e)) (this (gdt c)))) (ggroup c g)
  else existsb (fun e => has_spread e && negb (Qle_bool (this (slot_m c e)) (this (gdt c)))) (ggroup c g).

(* round(rate, 12) *)
Definition ten12 : Qc := Q2Qc (inject_Z 1000000000000).
Definition round12 (q : Qc) : Z := round_half_even (q * ten12)%Qc.
(* the chain a slot belongs to: first slot of its group with the same (order, round(rate,12)); its rate is used *)
Definition same_chain (c : gcircuit) (e e' : gedge) : bool :=
  Nat.eqb (slot_order c e) (slot_order c e') && Z.eqb (round12 (slot_rate c e)) (round12 (slot_rate c e')).
Definition chain_rate (c : gcircuit) (e : gedge) : Qc :=
  match find (same_chain c e) (ggroup c (gkey c (gsrc e))) with
  | Some e' => slot_rate c e'
  | None => slot_rate c e
  end.

(* (order, rate) of the chain behind every edge; (0, 0) = the edge reads the source directly *)
Definition impl_params (c : gcircuit) : list (nat * Qc) :=
  map (fun e => if gadd_delay c (gkey c (gsrc e)) then (slot_order c e, chain_rate c e) else (O, 0%Qc)) (gedges c).
(* Spec: an edge with delay d and spread s has its own chain of n = max(round((d/s)^2), dde_approx) stages of rate n/d;
   an edge without delay reads the source *)
Definition spec_params (c : gcircuit) : list (nat * Qc) :=
  map (fun e => match gd e with
                | Some (d, Some s) => let n := Nat.max (Z.to_nat (round_half_even (sq (d / s)))) (gdde c) in (n, (of_nat n / d)%Qc)
                | Some (d, None) => (gdde c, (of_nat (gdde c) / d)%Qc)
                | None => (O, 0%Qc)
                end) (gedges c).

(* vectorize=True, a source variable with a single unit (scalar), two slots in one chain (also the order-0 pass-through chain of
   two undelayed edges): the chain input index(x, x_src) indexes a scalar -> IndexError at the first call *)
Definition units (c : gcircuit) (g : nat) : nat := length (filter (fun n => nsrc n && Nat.eqb (ncls n) g) (gnodes c)).
Fixpoint shared_chain (c : gcircuit) (l : list gedge) : bool :=
  match l with
  | [] => false
  | e :: l' => existsb (same_chain c e) l' || shared_chain c l'
  end.
(* model switch of fix D95 (landed, on; false = the code before it): a scalar source variable is broadcast *)
Definition fixed_scalar_chain : bool := true.
Definition gcrashes (c : gcircuit) : bool :=
  negb fixed_scalar_chain && gvec c && existsb (fun e => let g := gkey c (gsrc e) in
                              gadd_delay c g && Nat.eqb (units c g) 1 && shared_chain c (ggroup c g)) (gedges c).

(* slots of the group of a (merged) source variable in the order the code enumerates them (see Ring.gslots): by target (merged) node,
   then by graph edge = (delayed?, with spread? [since D114]) in first-appearance order, then the order the user wrote them *)
Definition g_is_delayed (e : gedge) : bool := match gd e with Some _ => true | None => false end.
Definition gslots' (c : gcircuit) (g : nat) : list gedge :=
  flat_map (fun b => concat (map snd (bucket (fun e => (if g_is_delayed e then 2 else 0) + (if has_spread e then 1 else 0))%nat (snd b))))
           (bucket (fun e => gkey c (gtgt e)) (ggroup c g)).
(* chain input: the code gathers index(var, src_indices) where src_indices[j] is the source unit of member slot j (and takes
   the whole vector when src_indices == range(n_src_var), which is the same gather; fix D45 removed the `sorted` that made
   a permuted full cover read the vector unpermuted): every chain is driven by the source of its own edge *)
Definition impl_srcs (c : gcircuit) : list nat := map gsrc (gedges c).
Definition spec_srcs (c : gcircuit) : list nat := map gsrc (gedges c).

(* Connectivity(weights, delays, spread) — _add_matrix_delay, ODE cascade: one cascade per source unit with
   n = max(1, int(round((delay/spread)**2))), a = n/delay (dde_approx is not consulted when a spread is given); target = W . z_n.
   A population circuit is represented by its expansion: one edge per matrix entry, all with the same (delay, spread). *)
Definition conn_params (c : gcircuit) : list (nat * Qc) :=
  map (fun e => match gd e with
                | Some (d, Some s) => let n := Nat.max 1 (Z.to_nat (round_half_even (sq (d / s)))) in (n, (of_nat n / d)%Qc)
                | _ => (O, 0%Qc)
                end) (gedges c).
Definition g_conn (c : gcircuit) : bool :=
  Nat.eqb (gdde c) 0 &&
  forallb (fun e => match gd e with
                    | Some (d, Some s) => Nat.leb 1 (Z.to_nat (round_half_even (sq (d / s))))
                    | Some (_, None) => false
                    | None => true      (* a tap: an undelayed edge inside the source node *)
                    end) (gedges c).

(* discrete delays inside this model (an edge with a plain delay and no spread, dde_approx = 0, is a ring-buffer delay of
   round(d/dt) steps: C09).  plain_steps: the step count of a spread-less edge; the buffer is added when the largest one among the
   spread-less edges that are buffered together exceeds 1 (Ring.gadd). *)
Definition plain_steps (c : gcircuit) (e : gedge) : nat :=
  match gd e with Some (d, None) => steps_of d (gdt c) | _ => O end.
(* D114 (repaired in /repo, switch on): before the fix ALL scalar edges leaving a (merged) source variable share one _add_edge_buffer call; as soon as one of
   them has a spread the ODE branch is taken for all, and a spread-less edge gets the kernel of order `dde_approx if m else 0` = 0: a
   pass-through, its discrete delay is silently dropped (vectorize=True: whenever ANY unit of the merged source vector has a spread edge).
   fixed_mixed_kinds (on): false = the code before the fix; true = fix D114 (fixes/round8/05_D114.diff) (the two kinds are buffered separately). *)
Definition fixed_mixed_kinds : bool := true.
(* D118: a discrete delay of at most one step is neglected per edge (Ring.neglect); time-unit delays <= step_size of spread-less edges
   under dde_approx are neglected per edge as well — that case is not generated and not modelled (slot_m keeps them) *)
Definition impl_plain_steps (c : gcircuit) (e : gedge) : nat := neglect (plain_steps c e).
Definition impl_step (c : gcircuit) (e : gedge) : nat :=
  let g := gkey c (gsrc e) in
  if continuous c then O                                    (* dde_approx: every delay is a kernel *)
  else if group_spread c g && negb fixed_mixed_kinds then O (* the defect: order-0 pass-through *)
  else if Nat.ltb 1 (list_max (map (impl_plain_steps c) (filter (fun e' => negb (has_spread e')) (ggroup c g)))) then impl_plain_steps c e
  else O.
Definition spec_step (c : gcircuit) (e : gedge) : nat := if Nat.ltb 0 (gdde c) then O else plain_steps c e.
Definition impl_steps (c : gcircuit) : list nat := map (impl_step c) (gedges c).
Definition spec_steps (c : gcircuit) : list nat := map (spec_step c) (gedges c).

(* the augmented ODE system: state = node values xs ++ one chain per edge (zs, in edge order); `older` = earlier rows, newest first;
   ps = (order, rate) per edge, srcs = the node each edge's chain is driven by, steps = the discrete delay in front of it *)
Definition edge_in (xs : list Qc) (older : list (list Qc)) (src step : nat) : Qc := past (xs :: older) step src.
Definition edge_dz (u : Qc) (p : nat * Qc) (z : list Qc) : list Qc := chain_rhs (snd p) u z.
Definition edge_out (u : Qc) (z : list Qc) : Qc := chain_out u z.
Definition zip3 {A B C D} (f : A -> B -> C -> D) (a : list A) (b : list B) (c : list C) : list D :=
  map (fun t => f (fst (fst t)) (snd (fst t)) (snd t)) (combine (combine a b) c).
Definition inputs_of (xs : list Qc) (older : list (list Qc)) (srcs steps : list nat) : list Qc :=
  map (fun p => edge_in xs older (fst p) (snd p)) (combine srcs steps).
Definition node_dy (c : gcircuit) (us : list Qc) (zs : list (list Qc)) (j : nat) (n : node) : Qc :=
  if nsrc n then (nfac n * nk n)%Qc
  else (nfac n * qsum (zip3 (fun e u z => if Nat.eqb (gtgt e) j then (gw e * edge_out u z)%Qc else 0%Qc)
                            (gedges c) us zs))%Qc.
Definition field (c : gcircuit) (ps : list (nat * Qc)) (us : list Qc) (st : list Qc * list (list Qc)) : list Qc * list (list Qc) :=
  let '(xs, zs) := st in
  (mapi (node_dy c us zs) (gnodes c), zip3 edge_dz us ps zs).
Definition euler_step (c : gcircuit) (ps : list (nat * Qc)) (srcs steps : list nat) (older : list (list Qc))
  (st : list Qc * list (list Qc)) : list Qc * list (list Qc) :=
  let '(dx, dz) := field c ps (inputs_of (fst st) older srcs steps) st in
  (axpy (gdt c) (fst st) dx, map (fun p => axpy (gdt c) (fst p) (snd p)) (combine (snd st) dz)).
Definition st0 (c : gcircuit) (ps : list (nat * Qc)) : list Qc * list (list Qc) :=
  (map nx0 (gnodes c), map (fun p => repeat 0%Qc (fst p)) ps).
Fixpoint gruns (c : gcircuit) (ps : list (nat * Qc)) (srcs steps : list nat) (n : nat) (older : list (list Qc))
  (st : list Qc * list (list Qc)) : list (list Qc) :=
  match n with O => [] | S n' => fst st :: gruns c ps srcs steps n' (fst st :: older) (euler_step c ps srcs steps older st) end.
Definition run_params (c : gcircuit) (ps : list (nat * Qc)) (srcs steps : list nat) (n : nat) : list (list Qc) :=
  gruns c ps srcs steps n [] (st0 c ps).
Definition gimpl_run (c : gcircuit) (n : nat) : res :=
  if gcrashes c then ErrIndex else Ok (run_params c (impl_params c) (impl_srcs c) (impl_steps c) n).
Definition gspec_run (c : gcircuit) (n : nat) : list (list Qc) := run_params c (spec_params c) (spec_srcs c) (spec_steps c) n.
Definition gconn_run (c : gcircuit) (n : nat) : list (list Qc) := run_params c (conn_params c) (spec_srcs c) (spec_steps c) n.

(* ---- explicit grouping bookkeeping (slot indices and source indices of every chain; write-back) ---- *)
(* slots: (key, source unit) per slot index; chains: first-appearance buckets of slot indices *)
Definition chains (keys : list nat) : list (nat * list nat) := bucket (fun j => nth j keys O) (seq 0 (length keys)).
Definition set_at (l : list Qc) (i : nat) (x : Qc) : list Qc := firstn i l ++ x :: skipn (S i) l.
(* every chain gathers its inputs u[src[j]] for its member slots j, applies its own map F_key, and writes the result
   back to its member slots of `buffered` *)
Definition write_back (F : nat -> Qc -> Qc) (u : list Qc) (src : list nat) (buffered : list Qc) (ch : nat * list nat) : list Qc :=
  fold_left (fun b j => set_at b j (F (fst ch) (nth (nth j src O) u 0%Qc))) (snd ch) buffered.
Definition buffered_of (F : nat -> Qc -> Qc) (u : list Qc) (keys src : list nat) : list Qc :=
  fold_left (write_back F u src) (chains keys) (repeat 0%Qc (length keys)).

(* ---- well-formedness and guards ---- *)
Definition gwf (c : gcircuit) : bool :=
  Qcpos (gdt c) &&
  forallb (fun e => Nat.ltb (gsrc e) (length (gnodes c)) && Nat.ltb (gtgt e) (length (gnodes c)) &&
                    nsrc (gnode c (gsrc e)) && negb (nsrc (gnode c (gtgt e))) &&
                    match gd e with
                    | Some (d, Some s) => Qcpos d && Qcpos s
                    | Some (d, None) => Qcpos d
                    | None => true
                    end) (gedges c).
(* every delayed edge carries a spread, or (repaired) dde_approx > 0 keeps its delay continuous.  As the code is, a plain delay
   next to a spread loses its delay, and with dde_approx under a fixed step its delay is taken in steps *)
Definition g_all_spread (c : gcircuit) : bool :=
  forallb (fun e => match gd e with Some (_, None) => continuous c | _ => true end) (gedges c).
(* an undelayed edge on a buffered source must be a pass-through (order 0); as the code is, dde_approx > 0 turns it into a
   kernel of mean 1 (holds of every circuit once Ring.fixed_D15 is on) *)
Definition g_no_undelayed_kernel (c : gcircuit) : bool :=
  forallb (fun e => match gd e with None => Nat.eqb (slot_order c e) 0 || negb (gadd_delay c (gkey c (gsrc e))) | _ => true end) (gedges c).
(* scope: every kernel edge is actually implemented — its PARTITION has a delay above the step size (a kernel edge whose partition stays
   at or below the step is deliberately neglected: pass-through).  A spread-less edge under dde_approx = 0 is a discrete delay; its scope
   condition is g_plain_ge2. *)
Definition g_above_step (c : gcircuit) : bool :=
  forallb (fun e => match gd e with
                    | Some (_, Some _) => gadd_delay c (gkey c (gsrc e))
                    | Some (_, None) => negb (continuous c) || gadd_delay c (gkey c (gsrc e))
                    | None => true end) (gedges c).
(* slots that share a chain have the same rate (round(rate,12) does not merge different rates) *)
Definition g_rates_exact (c : gcircuit) : bool :=
  forallb (fun e => Qceqb (chain_rate c e) (slot_rate c e)) (gedges c).
Definition g_no_scalar_shared_chain (c : gcircuit) : bool := negb (gcrashes c).
(* D101 (repaired in /repo, switch on; see Ring.g_no_tap_on_buffered): a sibling operator of a buffered source operator reads `x_buffered`.  A tap is modelled
   as an edge without delay of weight 1 to an extra integrator node; the defective read is not modelled, the guard delimits the class. *)
Definition dgedge : gedge := mkG 0 0 0%Qc None.
Definition g_no_tap_on_buffered (taps : list nat) (c : gcircuit) : bool :=
  fixed_tap || forallb (fun i => negb (gadd_delay c (gkey c (gsrc (nth i (gedges c) dgedge))))) taps.
(* D102 (repaired in /repo, switch on): before the fix a delay that stays in time units (spread, or dde_approx) but is written as a Python int takes the integer branch of
   the add_delay test (max_delay > 1, meant for step counts): `delay: 1, spread: 0.5` is silently ignored unless a float-valued or
   larger delay shares the source variable.  `ints` = positions of the edges whose delay is passed as an int.  Not modelled by Impl;
   the guard (conservative: no int-passed delay <= 1) delimits the class; repaired by fixes/fix_D102.diff (float(delay)). *)
Definition fixed_int_delay : bool := true.
Definition g_no_int_unit_delay (ints : list nat) (c : gcircuit) : bool :=
  fixed_int_delay || forallb (fun i => match gd (nth i (gedges c) dgedge) with
                                       | Some (d, _) => negb (Qle_bool (this d) 1)
                                       | None => true end) ints.
(* D103 (repaired in /repo, switch on; see Ring.g_uniform_keys): in one vectorized edge group an edge with a `spread` entry next to one without leaves the
   group's delay / spread lists out of step (silently wrong kernels).  Not modelled; the guard delimits the class. *)
Definition g_uniform_keys (c : gcircuit) : bool :=
  fixed_group_keys || negb (gvec c) ||
  forallb (fun e => forallb (fun e' => negb (Nat.eqb (gkey c (gsrc e)) (gkey c (gsrc e')) && Nat.eqb (gkey c (gtgt e)) (gkey c (gtgt e')) &&
                                              Bool.eqb (g_is_delayed e) (g_is_delayed e')) ||
                                       Bool.eqb (has_spread e) (has_spread e')) (gedges c)) (gedges c).
(* D110 (repaired in /repo, switch on; see Ring.g_no_twin_collision): delayed edges leaving two variables of one operator do not compile *)
Definition g_no_twin_collision (twins : list (nat * nat)) (c : gcircuit) : bool :=
  fixed_twin_names || forallb (fun p => negb (gadd_delay c (gkey c (fst p)) && gadd_delay c (gkey c (snd p)))) twins.
(* the discrete delays of the spread-less edges are the specified ones.  False exactly on D114 (a plain delay that shares its (merged)
   source variable with a spread edge, dde_approx = 0) and on the property's scope boundary (plain delays below two steps are neglected) *)
Definition g_steps_exact (c : gcircuit) : bool :=
  forallb (fun e => Nat.eqb (impl_step c e) (spec_step c e)) (gedges c).
Definition g_no_plain_in_spread_group (c : gcircuit) : bool :=
  fixed_mixed_kinds || Nat.ltb 0 (gdde c) ||
  forallb (fun e => match gd e with Some (_, None) => negb (group_spread c (gkey c (gsrc e))) | _ => true end) (gedges c).
Definition g_plain_ge2 (c : gcircuit) : bool :=
  Nat.ltb 0 (gdde c) || forallb (fun e => match gd e with Some (_, None) => Nat.leb 2 (plain_steps c e) | _ => true end) (gedges c).
(* D115 (repaired in /repo, switch on; adaptive step sizes only, where a plain delay is a past() term: the DDE branch of _add_edge_buffer).  vectorize=True: the
   branch writes `index(buffered, sidx) = index(past(var, d), sidx)` — slot number = SOURCE UNIT instead of the slot's own position — and
   declares `buffered` with one entry per slot.  It is right only when the spread-less slots of a merged source variable are exactly its
   units 0..U-1 in this order; otherwise: a (1,) array where the edge equation expects a scalar (ValueError at the first call), an index out
   of range, or slots that are never written.  Not modelled (the adaptive solvers are outside this model); the guard delimits the class for
   the adaptive correspondence stream.  fixed_dde_slots (on): false = the code before the fix (repaired by fix D115, fixes/round9/01_D115.diff). *)
Definition fixed_dde_slots : bool := true.
Definition same_class (a b : node) : bool := Bool.eqb (nsrc a) (nsrc b) && Nat.eqb (ncls a) (ncls b).
Definition unit_of (c : gcircuit) (i : nat) : nat := length (filter (same_class (gnode c i)) (firstn i (gnodes c))).
Fixpoint list_nat_eqb (a b : list nat) : bool :=
  match a, b with [], [] => true | x :: a', y :: b' => Nat.eqb x y && list_nat_eqb a' b' | _, _ => false end.
Definition g_dde_slots_aligned (c : gcircuit) : bool :=
  fixed_dde_slots || negb (gvec c) ||
  forallb (fun e => match gd e with
                    | Some (_, None) =>
                        let g := gkey c (gsrc e) in
                        list_nat_eqb (map (fun e' => unit_of c (gsrc e')) (filter (fun e' => negb (has_spread e')) (gslots' c g)))
                                     (seq 0 (units c g))
                    | _ => true end) (gedges c).
Definition gguards (c : gcircuit) : bool :=
  g_all_spread c && g_no_undelayed_kernel c && g_above_step c && g_rates_exact c && g_steps_exact c && g_no_scalar_shared_chain c.
