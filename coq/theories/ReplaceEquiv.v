(* ReplaceEquiv.v — E2 tie for pyrates.backend.parser.replace: the definition that harness/py2v.py regenerates on every
   run from the current source text (coq/gen/Gen_replace.v: Python str = Coq string, find / slicing / indexing with
   Python's wrap-and-clamp rules from PyLib, IndexError = None, `while` = Fixpoint on fuel len(eq)+2) equals the hand
   model Replace.replace_flags (owned by C15; strings as character lists) on EVERY input:

     gen_replace_equiv : Gen_replace.replace (sla eq) (sla term) (sla rep) rhs lhs
                         = option_map sla (Replace.replace_flags is_delim term rep rhs lhs eq)

   including term = "" (both sides None: the Python loop does not terminate).  No hypothesis on the strings.
   If the Python text changes, the generated definition changes and `step` below either still goes through or breaks. *)
From Coq Require Import ZArith List Bool String Ascii Lia.
From PV Require Import PyLib Replace.
From PVG Require Import Gen_replace.
Import ListNotations.
Open Scope Z_scope.

Lemma la_sla l : la (sla l) = l.
Proof. apply list_ascii_of_string_of_list_ascii. Qed.
Lemma sla_app a b : sla (a ++ b) = (sla a ++ sla b)%string.
Proof. induction a as [|c a IH]; cbn; [reflexivity|]. now rewrite IH. Qed.
Lemma length_sla l : String.length (sla l) = List.length l.
Proof. induction l as [|c l IH]; cbn; congruence. Qed.

(* ---------------------------------------------------------------------------------------------- PyLib ops on sla-images *)
Lemma prefixb_same p s : la_prefixb p s = Replace.prefixb p s.
Proof. revert s. induction p as [|a p IH]; intros [|b s]; cbn; try reflexivity. Qed.
Lemma find_same t s : la_find t s = Replace.find t s.
Proof. induction s as [|c s IH]; cbn; rewrite prefixb_same; [reflexivity|]. rewrite IH. reflexivity. Qed.

Definition enc (o : option nat) : Z := match o with Some i => Z.of_nat i | None => -1 end.
Definition encp (o : option ascii) : string := match o with Some c => sla [c] | None => ""%string end.

Lemma py_find_sla s t : py_find (sla s) (sla t) = enc (Replace.find t s).
Proof. unfold py_find. now rewrite !la_sla, find_same. Qed.

Lemma firstn_min {A} (l : list A) i : firstn (Nat.min (List.length l) i) l = firstn i l.
Proof.
  destruct (Nat.le_ge_cases i (List.length l)) as [H|H].
  - now rewrite Nat.min_r.
  - rewrite Nat.min_l by exact H. rewrite firstn_all. symmetry. now apply firstn_all2.
Qed.
Lemma skipn_min {A} (l : list A) i : skipn (Nat.min (List.length l) i) l = skipn i l.
Proof.
  destruct (Nat.le_ge_cases i (List.length l)) as [H|H].
  - now rewrite Nat.min_r.
  - rewrite Nat.min_l by exact H. rewrite skipn_all. symmetry. now apply skipn_all2.
Qed.

Lemma norm_nat n i : py_norm n (Z.of_nat i) = Nat.min n i.
Proof. unfold py_norm. destruct (Z.of_nat i <? 0) eqn:E; [apply Z.ltb_lt in E; lia|]. now rewrite Nat2Z.id. Qed.

Lemma slice_to s i : py_slice (sla s) None (Some (Z.of_nat i)) = sla (firstn i s).
Proof. unfold py_slice. rewrite la_sla, norm_nat. cbn [skipn]. now rewrite Nat.sub_0_r, firstn_min. Qed.
Lemma slice_from s i : py_slice (sla s) (Some (Z.of_nat i)) None = sla (skipn i s).
Proof.
  unfold py_slice. rewrite la_sla, norm_nat, skipn_min. f_equal.
  apply firstn_all2. rewrite skipn_length. destruct (Nat.le_ge_cases i (List.length s)); lia.
Qed.
Lemma firstn1_skipn {A} (l : list A) k : firstn 1 (skipn k l) = match nth_error l k with Some c => [c] | None => [] end.
Proof.
  revert k. induction l as [|x l IH]; intros [|k]; cbn; try reflexivity. apply IH.
Qed.
(* prev = eq[f-1:f] *)
Lemma slice_prev s f : (f <= List.length s)%nat ->
  py_slice (sla s) (Some (Z.of_nat f - 1)) (Some (Z.of_nat f)) = encp (match f with O => None | S k => nth_error s k end).
Proof.
  intros Hf. unfold py_slice. rewrite la_sla, norm_nat. destruct f as [|k].
  - rewrite Nat.min_0_r. cbn [Nat.sub firstn]. reflexivity.
  - replace (Z.of_nat (S k) - 1) with (Z.of_nat k) by lia. rewrite norm_nat.
    rewrite (Nat.min_r _ (S k)) by lia. rewrite (Nat.min_r _ k) by lia.
    replace (S k - k)%nat with 1%nat by lia. rewrite firstn1_skipn.
    destruct (nth_error s k) as [c|] eqn:E; [reflexivity|]. apply nth_error_None in E. lia.
Qed.
Lemma index_nat s i : py_index (sla s) (Z.of_nat i) = option_map (fun c => sla [c]) (nth_error s i).
Proof.
  unfold py_index. rewrite la_sla. destruct (Z.of_nat i <? 0) eqn:E; [apply Z.ltb_lt in E; lia|]. rewrite E, Nat2Z.id.
  destruct (nth_error s i); reflexivity.
Qed.
Lemma contains_char c l : py_contains (sla [c]) (sla l) = memc c l.
Proof.
  unfold py_contains, memc. rewrite !la_sla. induction l as [|x l IH]; cbn; [reflexivity|].
  rewrite IH. now rewrite andb_true_r.
Qed.
Lemma contains_empty s : py_contains ""%string s = true.
Proof. unfold py_contains. cbn. destruct (la s); reflexivity. Qed.

Lemma nth_error_skipn_hd {A} (l : list A) k : nth_error l k = match skipn k l with c :: _ => Some c | [] => None end.
Proof. revert k. induction l as [|x l IH]; intros [|k]; cbn; try reflexivity. apply IH. Qed.

Lemma prefixb_len p s : Replace.prefixb p s = true -> (List.length p <= List.length s)%nat.
Proof.
  revert s. induction p as [|a p IH]; intros [|b s] H; cbn in *; try lia; try discriminate.
  apply andb_true_iff in H as [_ H]. apply IH in H. lia.
Qed.
Lemma find_bound t : forall s i, Replace.find t s = Some i -> (i + List.length t <= List.length s)%nat.
Proof.
  induction s as [|c s IH]; intros i H; cbn [Replace.find] in H.
  - destruct (Replace.prefixb t []) eqn:E; [|discriminate]. injection H as <-. apply prefixb_len in E. cbn in *. lia.
  - destruct (Replace.prefixb t (c :: s)) eqn:E.
    + injection H as <-. apply prefixb_len in E. lia.
    + destruct (Replace.find t s) as [j|]; [|discriminate]. injection H as <-. specialize (IH j eq_refl). cbn. lia.
Qed.

(* ---------------------------------------------------------------------------------------------- the loop *)
(* the literal of the regenerated text; it follows the repair switch Replace.fixed_prime (the derivative mark ' joins the set) *)
Definition ops : string := sla Replace.allowed_follow_ops.
Lemma ops_sla : ops = sla Replace.allowed_follow_ops.
Proof. reflexivity. Qed.
Lemma eq_char : "="%string = sla ["="%char].
Proof. reflexivity. Qed.

Definition fin (st : string * string * bool * string * Z) : string :=
  let '(eq_new, _, _, eq, _) := st in (eq_new ++ eq)%string.

Section Loop.
  Variables term rep : str.
  Variables rhs lhs : bool.
  Notation gloop := (fun fuel => replace_loop1 fuel ops lhs (sla rep) rhs (sla term)).
  Notation find := (Replace.find term).

  Lemma pd_before (b : option ascii) :
    (String.eqb (encp b) "" || py_contains (encp b) ops) = pd_of is_delim b.
  Proof.
    destruct b as [c|]; cbn [encp pd_of]; [|reflexivity].
    rewrite ops_sla, contains_char. reflexivity.
  Qed.

  Lemma loop_equiv : forall f acc prev seen s,
    option_map fin (gloop (S f) (sla acc, encp prev, seen, sla s, enc (find s)))
    = option_map sla (loopA is_delim term rep rhs lhs f acc prev seen s).
  Proof.
    induction f as [|f IH]; intros acc prev seen s.
    - (* one unit of fuel on the generated side, none on the model side *)
      destruct (find s) as [idx|] eqn:Ef.
      + cbn [loopA]. rewrite Ef. cbn [option_map].
        cbn [replace_loop1 enc].
        replace (negb (Z.of_nat idx =? - (1))) with true by (symmetry; apply negb_true_iff, Z.eqb_neq; lia).
        (* every path ends in the recursive call with fuel 0 = None, or in None earlier *)
        repeat match goal with
        | |- context [py_bind ?x _] => destruct x; cbn [py_bind]
        | |- context [if ?c then _ else _] => destruct c
        end; reflexivity.
      + cbn [loopA]. rewrite Ef. cbn. now rewrite sla_app.
    - destruct (find s) as [idx|] eqn:Ef.
      2:{ cbn [loopA]. rewrite Ef. cbn. now rewrite sla_app. }
      pose proof (find_bound term s idx Ef) as Hb.
      set (n := List.length term) in *.
      change (loopA is_delim term rep rhs lhs (S f) acc prev seen s) with
        (match find s with
         | None => Some (acc ++ s)%list
         | Some idx =>
           let follow := (idx + n)%nat in
           let before := match idx with O => prev | S i => nth_error s i end in
           let bound_ok := follow_ok is_delim (skipn follow s) && pd_of is_delim before in
           let eq_part := firstn idx s in
           let in_rhs := seen || has_eq eq_part in
           let side_ok := (rhs && in_rhs) || (lhs && negb in_rhs) || (negb rhs && negb lhs) in
           let acc' := if bound_ok && side_ok then (acc ++ eq_part ++ rep)%list else (acc ++ firstn follow s)%list in
           let prev' := match follow with O => None | S k => nth_error s k end in
           loopA is_delim term rep rhs lhs f acc' prev' (seen || has_eq (firstn follow s)) (skipn follow s)
         end).
      rewrite Ef. cbv zeta.
      remember (S f) as f1 eqn:Hf1.
      cbn [replace_loop1 enc].
      replace (negb (Z.of_nat idx =? - (1))) with true by (symmetry; apply negb_true_iff, Z.eqb_neq; lia).
      rewrite !length_sla. fold n.
      replace (Z.of_nat idx + Z.of_nat n) with (Z.of_nat (idx + n)) by lia.
      (* before *)
      assert (Hbefore : (if Z.of_nat idx >? 0 then py_bind (py_index (sla s) (Z.of_nat idx - 1)) (fun t => Some t) else Some (encp prev))
                        = Some (encp (match idx with O => prev | S i => nth_error s i end))).
      { destruct idx as [|i]; [reflexivity|].
        replace (Z.of_nat (S i) >? 0) with true by (symmetry; apply Z.gtb_lt; lia).
        replace (Z.of_nat (S i) - 1) with (Z.of_nat i) by lia. rewrite index_nat.
        destruct (nth_error s i) as [c|] eqn:E; [reflexivity|]. apply nth_error_None in E. lia. }
      rewrite Hbefore. cbn [py_bind].
      (* follow *)
      assert (Hfollow : (if Z.of_nat (idx + n) =? Z.of_nat (List.length s) then Some true
                         else py_bind (py_index (sla s) (Z.of_nat (idx + n))) (fun t => Some (py_contains t ops)))
                        = Some (follow_ok is_delim (skipn (idx + n) s))).
      { destruct (Z.of_nat (idx + n) =? Z.of_nat (List.length s)) eqn:E.
        - apply Z.eqb_eq in E. rewrite skipn_all2 by lia. reflexivity.
        - apply Z.eqb_neq in E. rewrite index_nat, nth_error_skipn_hd.
          destruct (skipn (idx + n) s) as [|c r] eqn:Es.
          + exfalso. apply (f_equal (@List.length ascii)) in Es. rewrite skipn_length in Es. cbn in Es. lia.
          + cbn [option_map py_bind follow_ok]. now rewrite ops_sla, contains_char. }
      rewrite Hfollow. cbn [py_bind].
      rewrite pd_before, slice_to, eq_char, contains_char, slice_to, slice_from, contains_char, (slice_prev s (idx + n) Hb).
      change (memc "="%char) with has_eq.
      rewrite py_find_sla.
      set (bound_ok := follow_ok is_delim (skipn (idx + n) s) && pd_of is_delim match idx with O => prev | S i => nth_error s i end).
      set (in_rhs := seen || has_eq (firstn idx s)).
      destruct bound_ok; cbn [andb negb].
      + destruct ((rhs && in_rhs) || (lhs && negb in_rhs) || (negb rhs && negb lhs)); cbn [negb].
        * rewrite <- !sla_app. rewrite <- (IH (acc ++ firstn idx s ++ rep)%list). reflexivity.
        * rewrite <- !sla_app. rewrite <- (IH (acc ++ firstn (idx + n) s)%list). reflexivity.
      + rewrite <- !sla_app. rewrite <- (IH (acc ++ firstn (idx + n) s)%list). reflexivity.
  Qed.
End Loop.

(* the regenerated function equals the hand model of C15 on every input *)
Theorem gen_replace_equiv (eq term rep : str) (rhs lhs : bool) :
  Gen_replace.replace (sla eq) (sla term) (sla rep) rhs lhs = option_map sla (replace_flags is_delim term rep rhs lhs eq).
Proof.
  unfold Gen_replace.replace, replace_flags. rewrite py_find_sla, length_sla.
  pose proof (loop_equiv term rep rhs lhs (S (List.length eq)) [] None false eq) as H.
  cbn [sla string_of_list_ascii encp] in H.
  match goal with |- context [replace_loop1 _ ?lit _ _ _ _ _] => change lit with ops end.
  destruct (replace_loop1 _ _ _ _ _ _ _) as [[[[[a b] c] d] e]|]; cbn [py_bind option_map fin] in *; exact H.
Qed.
