(* Paths.v — executable model of how PyRates resolves variable paths (C06).
   Definitions only; proofs are in PathsProofs.v.

   Impl mirrors pyrates/frontend/template/circuit.py:
     get_node_template   (1022-1044)  gnt
     _get_nodes_with_var (1451-1467)  gnwv        (filter by (operator, variable); evaluated at EVERY level)
     get_nodes           (908-973)    get_nodes   (wildcard 'all' at any level, KeyError / IndexError included)
     _relabel_var        (1598-1607)  relabel
     get_variable_positions (1144-1201) + run() 473-539 : var_positions / run_columns
   Spec: path_denotation = the leaves of the circuit tree whose address matches the pattern (a trailing 'all'
   stands for every leaf below), depth first in declaration order; spec_columns = one column per denoted
   variable, labelled with what the user wrote.

   A node key is a list of names (Python joins them with '/'; names never contain '/'). *)
From Coq Require Import List String Ascii Bool Arith.
Import ListNotations.
Open Scope string_scope.
Open Scope list_scope.

(* ------------------------------------------------------------------------------------------ circuits *)
Inductive err := KeyError | IndexError | ValueError | TypeError | PyRatesException.
Inductive res (A : Type) := Ok (a : A) | Err (e : err).
Arguments Ok {A} a.
Arguments Err {A} e.
Definition bind {A B} (r : res A) (f : A -> res B) : res B := match r with Ok a => f a | Err e => Err e end.

Definition node := list (string * list string).          (* operators in declaration order: (name, variables) *)
Inductive tree := Leaf (nd : node) | Circ (ch : list (string * tree)).   (* children in declaration order *)
Definition path := list string.
Definition varid := option (string * string).             (* var_identifier = (operator, variable) or None *)
Definition all : string := "all".

Definition is_circ (t : tree) : bool := match t with Circ _ => true | Leaf _ => false end.
Definition mem (s : string) (l : list string) : bool := existsb (String.eqb s) l.
Fixpoint path_eqb (a b : path) : bool :=
  match a, b with
  | [], [] => true
  | x :: a', y :: b' => String.eqb x y && path_eqb a' b'
  | _, _ => false
  end.
Definition pmem (p : path) (l : list path) : bool := existsb (path_eqb p) l.

Fixpoint assoc {B} (s : string) (l : list (string * B)) : option B :=
  match l with
  | [] => None
  | (k, b) :: l' => if String.eqb s k then Some b else assoc s l'
  end.

(* op_keys.index(op_key): the first operator of that name *)
Definition has_var (v : varid) (nd : node) : bool :=
  match v with
  | None => true
  | Some (o, x) => match assoc o nd with Some vs => mem x vs | None => false end
  end.

(* ------------------------------------------------------------------------------------------ Impl *)
(* get_node_template: net[node[0]] (KeyError), recursion into sub-circuits, node[0] of [] (IndexError) *)
Fixpoint gnt (p : path) (t : tree) : res node :=
  match t with
  | Leaf nd => Ok nd
  | Circ ch =>
      match p with
      | [] => Err IndexError
      | n :: rest =>
          match assoc n ch with
          | None => Err KeyError
          | Some (Leaf nd) => Ok nd
          | Some s => gnt rest s
          end
      end
  end.

(* _get_nodes_with_var: sequential, the first exception aborts *)
Fixpoint gnwv_some (t : tree) (v : varid) (nodes : list path) : res (list path) :=
  match nodes with
  | [] => Ok []
  | n :: rest =>
      bind (gnt n t) (fun nd =>
      bind (gnwv_some t v rest) (fun l => Ok (if has_var v nd then n :: l else l)))
  end.
Definition gnwv (t : tree) (v : varid) (nodes : list path) : res (list path) :=
  match v with None => Ok nodes | Some _ => gnwv_some t v nodes end.

(* `if node_key not in nodes: nodes.append(node_key)` *)
Definition add_new (acc new : list path) : list path :=
  fold_left (fun a k => if pmem k a then a else a ++ [k]) new acc.

Fixpoint seq_concat {A} (l : list (res (list A))) : res (list A) :=
  match l with
  | [] => Ok []
  | r :: l' => bind r (fun a => bind (seq_concat l') (fun b => Ok (a ++ b)))
  end.

(* Model switches for two repairs that have landed in /repo (D73 = D31, D77 = overlap).  The code as it is = asis;
   nofix is the code before them (kept for the before-fix notes and the revert tests).
     fix_D31     : a named level that the circuit lacks yields no node instead of KeyError
     fix_overlap : run() reads the backend columns of a wildcard key without popping them
     fix_short   : (landed, D87) a pattern whose last name is a sub-circuit denotes no node
     fix_popwild : (landed, D88) a population inside a dict-form wildcard key is split into one column per unit *)
Record fixes := { fix_D31 : bool; fix_overlap : bool; fix_short : bool; fix_popwild : bool }.
Definition nofix : fixes := {| fix_D31 := false; fix_overlap := false; fix_short := false; fix_popwild := false |}.
Definition asis : fixes := {| fix_D31 := true; fix_overlap := true; fix_short := true; fix_popwild := true |}.
Definition allfixes : fixes := {| fix_D31 := true; fix_overlap := true; fix_short := true; fix_popwild := true |}.

Fixpoint get_nodes_gen (F : fixes) (t : tree) (v : varid) (pat : list string) {struct t} : res (list path) :=
  match t with
  | Leaf _ => Ok []
  | Circ ch =>
      (* the recursive calls on the children, for the remaining pattern pat' *)
      let sub_res (pat' : list string) : list (string * (bool * res (list path))) :=
          map (fun c => let '(n, s) := c in (n, (is_circ s, get_nodes_gen F s v pat'))) ch in
      (* the branch `node_lvl != 'all'` of a pattern [n] ++ pat', given the child's answer *)
      let named (n : string) (isc : bool) (r : res (list path)) : res (list path) :=
          if isc then bind r (fun l => gnwv (Circ ch) v (add_new [] (map (cons n) l)))
          else gnwv (Circ ch) v [[n]] in
      match pat with
      | [] => Err IndexError
      | [p] =>
          if mem p (map fst ch) then
            (if fix_short F && match assoc p ch with Some s => is_circ s | None => false end then Ok []
             else gnwv (Circ ch) v [[p]])
          else if String.eqb p all then
            if existsb (fun c => is_circ (snd c)) ch
            then (* for n in net: nodes.extend(self.get_nodes(f"{n}/all")) *)
                 seq_concat (map (fun x : string * (bool * res (list path)) => let '(n, (isc, r)) := x in named n isc r) (sub_res [all]))
            else gnwv (Circ ch) v (map (fun c => [fst c]) ch)
          else Ok []
      | p :: rest =>
          if String.eqb p all then
            bind (fold_left (fun acc (x : string * (bool * res (list path))) => let '(n, (isc, r)) := x in
                               bind acc (fun nodes =>
                                 if isc then bind r (fun l => Ok (add_new nodes (map (cons n) l)))
                                 else Ok (nodes ++ [[n]])))
                            (sub_res rest) (Ok []))
                 (gnwv (Circ ch) v)
          else match assoc p (sub_res rest) with
               | None => if fix_D31 F then Ok [] else Err KeyError
               | Some (isc, r) => named p isc r
               end
      end
  end.
Definition get_nodes := get_nodes_gen asis.

(* ------------------------------------------------------------------------------------------ Spec *)
Fixpoint leaves (t : tree) : list (path * node) :=
  match t with
  | Leaf nd => [([], nd)]
  | Circ ch => flat_map (fun c => let '(n, s) := c in map (fun q => (n :: fst q, snd q)) (leaves s)) ch
  end.

(* element-wise match; 'all' matches any name; a trailing 'all' matches any non-empty rest of the address *)
Fixpoint matches (pat : list string) (p : path) : bool :=
  match pat, p with
  | [], [] => true
  | [a], x :: xs => if String.eqb a all then true else String.eqb a x && match xs with [] => true | _ => false end
  | a :: pat', x :: xs => (String.eqb a all || String.eqb a x) && matches pat' xs
  | _, _ => false
  end.

Definition path_denotation (t : tree) (v : varid) (pat : list string) : list path :=
  map fst (filter (fun q => matches pat (fst q) && has_var v (snd q)) (leaves t)).

(* well-formed circuit: child names are unique (they are dict keys) and none is called 'all' *)
Fixpoint nodupb (l : list string) : bool :=
  match l with [] => true | x :: l' => negb (mem x l') && nodupb l' end.
Fixpoint wfb (t : tree) : bool :=
  match t with
  | Leaf _ => true
  | Circ ch => nodupb (map fst ch) && negb (mem all (map fst ch)) && forallb (fun c => wfb (snd c)) ch
  end.

(* guard: the pattern resolves without exception and without the two lenient readings.  Three defect classes,
   each with its own tolerance flag (true = that class is tolerated):
     km  a named non-final level is missing in a branch that is reached: KeyError (D31 when under a wildcard)
     kl  a node is met before the pattern ends: the rest of the pattern is ignored (`A/zzz/op/x` reads `A/op/x`)
     ks  the last name names a circuit: the circuit name is returned as if it were a node / IndexError *)
Fixpoint chk (km kl ks : bool) (t : tree) (pat : list string) : bool :=
  match t with
  | Leaf _ => false
  | Circ ch =>
      match pat with
      | [] => false
      | [p] => match assoc p ch with Some s => if is_circ s then ks else true | None => true end
      | p :: rest =>
          if String.eqb p all then forallb (fun c => if is_circ (snd c) then chk km kl ks (snd c) rest else kl) ch
          else match assoc p (map (fun c => (fst c, (is_circ (snd c), chk km kl ks (snd c) rest))) ch) with
               | Some (true, b) => b
               | Some (false, _) => kl
               | None => km
               end
      end
  end.
Definition resolvable_gen (F : fixes) := chk (fix_D31 F) false (fix_short F).
Definition resolvable := chk true false true.     (* = not_too_long: the only guard left *)
Definition names_resolve := chk false true true.
Definition not_too_long := chk true false true.
Definition not_too_short := chk true true false.

(* ------------------------------------------------------------------------------------------ output stage *)
(* What apply() leaves behind (taken as given here; how it is computed is C04):
     labels : _vectorization_labels   node/op ↦ representative node/op, node ↦ representative node
     vidx   : _vectorization_indices  frontend variable ↦ indices inside its backend vector (one per unit: a scalar node
              has one, a PopulationTemplate of n units has n)
     f2b    : CircuitIR._front_to_back frontend variable (of the representative) ↦ backend vector name
     svi    : ComputeGraph._state_var_indices  backend vector ↦ (start, length) in the state vector *)
(*   tsvi   : CircuitTemplate._state_var_indices — empty on a fresh template; get_run_func stores the graph's map
              (backend name ↦ (start, stop) | int) there and _get_var_idx looks it up by the BARE variable name *)
Record layout := { labels : list (path * path); vidx : list (path * list nat); f2b : list (path * string);
                   svi : list (string * (nat * nat)); tsvi : list (string * option (nat * nat)) }.

Fixpoint passoc {B} (p : path) (l : list (path * B)) : option B :=
  match l with
  | [] => None
  | (k, b) :: l' => if path_eqb p k then Some b else passoc p l'
  end.

(* _relabel_var: var = node.../op/var; first the key node/op, then the key node *)
Definition relabel (L : layout) (var : path) : path :=
  let n := List.length var in
  let var_op := firstn (n - 1) var in
  let var_node := firstn (n - 2) var in
  match passoc var_op (labels L) with
  | Some m => m ++ skipn (n - 1) var
  | None => match passoc var_node (labels L) with
            | Some m => m ++ skipn (n - 2) var
            | None => var
            end
  end.

(* where a frontend variable is read from: (backend vector, unit indices in it);  KeyError when a map lacks the key *)
(* _get_var_idx: idx = _vectorization_indices[var]; try: arange of the range stored under the bare name, indexed by idx; except KeyError: idx *)
Definition get_var_idx (L : layout) (var : path) : res (list nat) :=
  match passoc var (vidx L) with
  | None => Err KeyError
  | Some idxs => match assoc (last var "") (tsvi L) with
                 | None => Ok idxs
                 | Some None => Err TypeError
                 | Some (Some (start, len)) =>
                     if forallb (fun i => Nat.ltb i len) idxs then Ok (map (Nat.add start) idxs) else Err IndexError
                 end
  end.
Definition source_of (L : layout) (var : path) : res (string * list nat) :=
  bind (get_var_idx L var) (fun idxs =>
  match passoc (relabel L var) (f2b L) with
  | Some vec => match assoc vec (svi L) with Some _ => Ok (vec, idxs) | None => Err KeyError end
  | None => Err KeyError
  end).

(* outputs.pop(key)[:, idx] for one time point: slice the backend vector out of the state row, take entry idx *)
Definition column_value {V} (d : V) (L : layout) (row : list V) (src : string * nat) : option V :=
  match assoc (fst src) (svi L) with
  | Some (start, len) => nth_error (firstn len (skipn start row)) (snd src)
  | None => None
  end.
(* the state slot of unit j of a frontend variable (j = 0 for a scalar node) *)
Definition pos (L : layout) (var : path) (j : nat) : option nat :=
  match source_of L var with
  | Ok (vec, idxs) =>
      match nth_error idxs j, assoc vec (svi L) with
      | Some i, Some (start, len) => if Nat.ltb i len then Some (start + i) else None
      | _, _ => None
      end
  | Err _ => None
  end.

Definition label := list string.     (* a column label: a plain key [k], or the MultiIndex tuple (nan padding dropped) *)
Definition request := (string * (list string * (string * string)))%type.   (* key, node pattern, operator, variable *)
Inductive form := DictForm | ListForm | ListFormOld.   (* ListFormOld: relabel before resolving (before fix D06) *)

Definition var_key (n : path) (o x : string) : path := n ++ [o; x].
Definition opvar (o x : string) : string := (o ++ "/" ++ x)%string.

(* output_map of get_variable_positions: key ↦ single index | dict(var_key ↦ index); insertion ordered *)
Inductive entry := Single (v : path) | Multi (vs : list path).

Fixpoint join (sep : string) (l : list string) : string :=
  match l with [] => "" | [x] => x | x :: l' => (x ++ sep ++ join sep l')%string end.

(* decimal text of a unit number (the second level of a population's column label) *)
Definition digit (n : nat) : string := String (ascii_of_nat (48 + n)) EmptyString.
Fixpoint nat_str_fuel (fuel n : nat) : string :=
  match fuel with
  | O => ""
  | S f => if Nat.ltb n 10 then digit n else (nat_str_fuel f (n / 10) ++ digit (n mod 10))%string
  end.
Definition nat_str (n : nat) : string := nat_str_fuel (S n) n.

(* dict form *)
Fixpoint positions_dict_gen (F : fixes) (t : tree) (reqs : list request) : res (list (string * entry)) :=
  match reqs with
  | [] => Ok []
  | (key, (pat, (o, x))) :: rest =>
      bind (get_nodes_gen F t (Some (o, x)) pat) (fun nodes =>
      (* fix D48: `if not target_nodes: raise PyRatesException` *)
      match nodes with [] => Err PyRatesException | _ =>
      bind (positions_dict_gen F t rest) (fun l =>
        Ok (match nodes with
            | [] => l
            | [n] => (key, Single (var_key n o x)) :: l
            | _ => (key, Multi (map (fun n => var_key n o x) nodes)) :: l
            end)) end)
  end.
Definition positions_dict := positions_dict_gen asis.

(* dict.update: a key that is already present keeps its place *)
Definition upd_keys (acc new : list path) : list path := add_new acc new.

(* list form: get_variable_positions(str) per entry, the results merged with dict.update.
   old = true: `outputs = self._relabel_var(outputs, labels)` before the path is split (reverted fix D06) *)
Fixpoint positions_list_gen (F : fixes) (t : tree) (L : layout) (old : bool) (reqs : list request) (acc : list path) : res (list path) :=
  match reqs with
  | [] => Ok acc
  | (_, (pat, (o, x))) :: rest =>
      let full := if old then relabel L (pat ++ [o; x]) else pat ++ [o; x] in
      let n := List.length full in
      let pat' := firstn (n - 2) full in
      let o' := nth (n - 2) full "" in
      let x' := nth (n - 1) full "" in
      bind (get_nodes_gen F t (Some (o', x')) pat') (fun nodes =>
        match nodes with [] => Err PyRatesException | _ =>
        positions_list_gen F t L old rest (upd_keys acc (map (fun nd => var_key nd o' x') nodes)) end)
  end.
Definition positions_list := positions_list_gen asis.

Definition multi_vars (es : list (string * entry)) : list path :=
  flat_map (fun e => match snd e with Multi vs => vs | Single _ => [] end) es.
Fixpoint dupfree (l : list path) : bool :=
  match l with [] => true | p :: l' => negb (pmem p l') && dupfree l' end.

Definition last2 (v : path) : string :=
  let n := List.length v in opvar (nth (n - 2) v "") (nth (n - 1) v "").

Fixpoint map_res {A B} (f : A -> res B) (l : list A) : res (list B) :=
  match l with
  | [] => Ok []
  | a :: l' => bind (f a) (fun b => bind (map_res f l') (fun bs => Ok (b :: bs)))
  end.

(* one requested variable: its label, its frontend key, and whether run() may split it into one column per unit
   (`hasattr(out_info, '__len__') and len(out_info) > 1`: only an entry of its own — a single-variable key of the
   dict form, every entry of the list form; inside a wildcard key's dict the array is np.squeeze'd instead) *)
Definition colreq := (label * path * bool)%type.

Definition expand_cols (lab : label) (vec : string) (idxs : list nat) : list (label * (string * nat)) :=
  match idxs with
  | [i] => [(lab, (vec, i))]
  | _ => map (fun j => (lab ++ [nat_str j], (vec, nth j idxs 0))) (seq 0 (List.length idxs))
  end.

(* DataFrame construction: a population inside a wildcard key leaves a 2-D array among 1-D ones: np.asarray raises
   ValueError *)
Definition build_cols (pw : bool) (lv : list colreq) (srcs : list (string * list nat)) : res (list (label * (string * nat))) :=
  seq_concat (map (fun x : colreq * (string * list nat) =>
                     let '((lab, v, ex), (vec, idxs)) := x in
                     if ex || pw then Ok (expand_cols lab vec idxs)
                     else match idxs with [i] => Ok [(lab, (vec, i))] | _ => Err ValueError end)
                  (combine lv srcs)).

Definition dict_colreqs (es : list (string * entry)) : list colreq :=
  flat_map (fun e => match snd e with
                     | Single v => [([fst e], v, true)]
                     | Multi vs => map (fun v => (fst e :: firstn (List.length v - 2) v ++ [last2 v], v, false)) vs
                     end) es.

(* the DataFrame columns: (label, source in the backend state) in column order.
   Order of the failures as in run(): resolving the paths and the indices (get_variable_positions), then
   outputs.pop (several wildcard keys that expand to a common variable: the second pop raises KeyError), then the
   DataFrame (no column at all: ValueError).  Since fix D43 a plain key inside a MultiIndex frame keeps its label. *)
Definition finish (pw : bool) (L : layout) (overlap : bool) (lv : list colreq) : res (list (label * (string * nat))) :=
  bind (map_res (fun x : colreq => source_of L (snd (fst x))) lv) (fun srcs =>
    if overlap then Err KeyError else
    match lv with [] => Err ValueError | _ => build_cols pw lv srcs end).

Definition run_columns_gen (F : fixes) (t : tree) (L : layout) (f : form) (reqs : list request) : res (list (label * (string * nat))) :=
  match f with
  | DictForm =>
      bind (positions_dict_gen F t reqs) (fun es =>
        finish (fix_popwild F) L (negb (fix_overlap F) && negb (dupfree (multi_vars es))) (dict_colreqs es))
  | ListForm | ListFormOld =>
      bind (positions_list_gen F t L (match f with ListFormOld => true | _ => false end) reqs []) (fun vs =>
        finish (fix_popwild F) L false (map (fun v => ([join "/" v], v, true)) vs))
  end.
Definition run_columns := run_columns_gen asis.

(* Spec: one column per unit of every variable denoted by each request, in request order, in unit order.
   U gives the number of units of the population nodes (a node that is not listed is a scalar node).
   dict form: the key alone when the request denotes one variable, else key, node levels, "op/var";
   list form: the variable's own path, a variable requested twice appears once;
   a population adds the unit number as a further level. *)
Definition node_of (v : path) : path := firstn (List.length v - 2) v.
Definition units (U : list (path * nat)) (v : path) : nat := match passoc (node_of v) U with Some n => n | None => 1 end.
Definition unit_cols (lab : label) (v : path) (n : nat) : list (label * (path * nat)) :=
  if Nat.eqb n 1 then [(lab, (v, 0))] else map (fun j => (lab ++ [nat_str j], (v, j))) (seq 0 n).

Definition spec_columns (t : tree) (U : list (path * nat)) (f : form) (reqs : list request) : list (label * (path * nat)) :=
  match f with
  | DictForm =>
      flat_map (fun r => let '(key, (pat, (o, x))) := r in
                  match path_denotation t (Some (o, x)) pat with
                  | [] => []
                  | [n] => unit_cols [key] (var_key n o x) (units U (var_key n o x))
                  | ns => flat_map (fun n => unit_cols (key :: n ++ [opvar o x]) (var_key n o x) (units U (var_key n o x))) ns
                  end) reqs
  | _ =>
      flat_map (fun v => unit_cols [join "/" v] v (units U v))
          (fold_left (fun acc r => let '(_, (pat, (o, x))) := r in
                        add_new acc (map (fun n => var_key n o x) (path_denotation t (Some (o, x)) pat))) reqs [])
  end.

(* a request that denotes no variable is refused (PyRatesException, fix D48); so is requesting nothing
   (pandas: "Empty data passed with indices specified") *)
Definition all_found (t : tree) (reqs : list request) : bool :=
  forallb (fun r => let '(_, (pat, (o, x))) := r in
             match path_denotation t (Some (o, x)) pat with [] => false | _ => true end) reqs.
Definition spec_result (t : tree) (U : list (path * nat)) (f : form) (reqs : list request) : res (list (label * (path * nat))) :=
  if negb (all_found t reqs) then Err PyRatesException
  else match spec_columns t U f reqs with [] => Err ValueError | l => Ok l end.

(* guards of the output stage *)
Definition wild_vars (t : tree) (reqs : list request) : list path :=
  flat_map (fun r => let '(_, (pat, (o, x))) := r in
              match path_denotation t (Some (o, x)) pat with
              | (_ :: _ :: _) as ns => map (fun n => var_key n o x) ns
              | _ => []
              end) reqs.
Definition no_overlap (t : tree) (reqs : list request) : bool := dupfree (wild_vars t reqs).
(* no population among the >= 2 variables of a dict-form wildcard key *)
Definition no_pop_in_wildcard (t : tree) (U : list (path * nat)) (reqs : list request) : bool :=
  forallb (fun v => Nat.eqb (units U v) 1) (wild_vars t reqs).
Definition reqs_resolvable_gen (F : fixes) (t : tree) (reqs : list request) : bool :=
  forallb (fun r => resolvable_gen F t (fst (snd r))) reqs.
Definition reqs_resolvable := reqs_resolvable_gen asis.
(* the layout knows the requested variables as state variables (a constant such as op/k is in no state vector:
   KeyError in ComputeGraph.run) with as many unit indices as the node has units *)
Definition covers (L : layout) (U : list (path * nat)) (vs : list path) : bool :=
  forallb (fun v => match source_of L v with Ok (_, idxs) => Nat.eqb (List.length idxs) (units U v) | Err _ => false end) vs.
(* the requested variables, once each request *)
Definition requested (t : tree) (f : form) (reqs : list request) : list path :=
  match f with
  | DictForm => flat_map (fun r => let '(_, (pat, (o, x))) := r in
                            map (fun n => var_key n o x) (path_denotation t (Some (o, x)) pat)) reqs
  | _ => fold_left (fun acc r => let '(_, (pat, (o, x))) := r in
                      add_new acc (map (fun n => var_key n o x) (path_denotation t (Some (o, x)) pat))) reqs []
  end.

(* ------------------------------------------------------------------------------------------ paths inside edges *)
(* An edge whose EdgeTemplate has an extra input mapped to a node variable BY PATH in the edge attributes
   ('ce/co/u_t': 'C/po/u'; the Kuramoto sin_edge feature), coupling m = u_s*u_t + u_s, target  u_t' = sum of w*m.
   Impl: source, target and the path-mapped extra source are all resolved through the same maps as an output
   (relabel for the backend vector, _vectorization_indices of the USER's path for the unit — _extract_sources_from_edge_dict).
   Spec: the values of the variables the paths name. *)
Section EdgeSources.
  Variable V : Type.
  Variables (vadd vmul : V -> V -> V) (vzero : V).
  Definition pedge := (path * path * V * path)%type.     (* source var, target state var, weight, extra source var *)
  Definition read_slot (L : layout) (row : list V) (v : path) : V :=
    match pos L v 0 with Some k => nth k row vzero | None => vzero end.
  Definition edge_deriv (rd : path -> V) (es : list pedge) (tv : path) : V :=
    fold_right (fun (e : pedge) acc => let '(s, t, w, r) := e in
                  if path_eqb t tv then vadd (vmul w (vadd (vmul (rd s) (rd r)) (rd s))) acc else acc) vzero es.
  Definition edge_deriv_impl (L : layout) (row : list V) := edge_deriv (read_slot L row).
  Definition edge_deriv_spec (val : path -> V) := edge_deriv val.
End EdgeSources.
