(* Values.v — C07: parameter / initial-value overrides on templates with shared objects.

   Impl (functions on the object store of Heap.v, mirroring pyrates/frontend/template/circuit.py and operator_graph.py
   as the code is now, i.e. with fix D17):
     get_nodes            circuit.py  get_nodes           (the `_get_nodes_with_var` filter is applied once to the result:
                                                            it is idempotent and commutes with concatenation; the
                                                            `if node_key not in nodes` de-duplication never fires for dict keys)
     get_node_template    circuit.py  get_node_template
     add_node_template    circuit.py  add_node_template   (with fix D47: every sub-circuit on the path is deep-copied and the copy
                                                            re-registered under its name before it is written into; only
                                                            the root object and fresh copies are ever written)
     node_update_var      operator_graph.py update_var    (`self.operators[self._op_map[op]][var] = val`)
     update_var           circuit.py  update_var, node_vars part: for i, n in enumerate(targets):
                                         deepcopy(get_node_template(n)) ; update_var ; add_node_template(n, copy)
     update_edge          circuit.py  update_var, edge_vars part: `_edge_map[(s, t, 0)]` is the first own edge (s, t);
                                         `base_dict.update(edge_dict)`
     update_template      circuit.py  update_template (nodes / edges, with and without in_place)
     observe              what `apply(node_values=nv, edge_values=ev)` hands to the compiler: per node path the operator values
                                         (variations copied, overridden by nv, defaults filled in) and collect_edges()
   `d` is `CircuitTemplate._depth`; patterns / node paths must have d+1 components (anything else: not modelled, `None`).
   A Python exception is `None`; a history step that raises leaves the state as it was (single-key calls).

   Spec: the same operations on the UNSHARED tree (`atree`, the store content with object identity forgotten):
   pattern resolution, then a functional update at each addressed path.  On a tree "nothing else changes" holds by
   construction (ValuesProofs, lemmas tget_tset); the refinement theorem says the store with its shared objects behaves like
   the tree.  Definitions only. *)
From Coq Require Import List String Arith Bool QArith Qcanon.
From PV Require Import Heap.
Import ListNotations.
Open Scope nat_scope.

Definition path := list string.
Definition aop := (string * list string * vars * vars)%type.      (* name, equations, defaults, variations *)
Definition anode := list aop.
Inductive atree :=
| ALeaf (nodes : list (string * anode)) (edges : list edge)
| AInner (subs : list (string * atree)) (edges : list edge).

Definition all : string := "all"%string.

(* ---------------------------------------------------------------- abstraction: store -> tree *)
Definition op_den (h : heap) (e : id * vars) : option aop :=
  match lookup h (fst e) with Some (OOp n eqs d) => Some (n, eqs, d, snd e) | _ => None end.
Definition node_den (h : heap) (nid : id) : option anode :=
  match lookup h nid with Some (ONode ops) => mapM (op_den h) ops | _ => None end.
Definition lift {A B} (f : A -> option B) (x : string * A) : option (string * B) :=
  match f (snd x) with Some y => Some (fst x, y) | None => None end.
Fixpoint abs (d : nat) (h : heap) (c : id) : option atree :=
  match lookup h c with
  | Some (OCirc ch es) =>
    match d with
    | O => match mapM (lift (node_den h)) ch with Some ns => Some (ALeaf ns es) | None => None end
    | S d' => match mapM (lift (abs d' h)) ch with Some ss => Some (AInner ss es) | None => None end
    end
  | _ => None
  end.

(* ---------------------------------------------------------------- shared helpers (both sides) *)
Definition name_of (o : aop) : string := fst (fst (fst o)).
Fixpoint anode_find (a : anode) (op : string) : option aop :=
  match a with [] => None | o :: r => if String.eqb (name_of o) op then Some o else anode_find r op end.
Definition anode_has (a : anode) (op var : string) : bool :=
  match anode_find a op with Some (_, _, d, _) => dhas var d | None => false end.
Fixpoint anode_update (a : anode) (op var : string) (v : val) : option anode :=
  match a with
  | [] => None
  | (n, e, d, vs) :: r =>
    if String.eqb n op then Some ((n, e, d, dset var v vs) :: r)
    else match anode_update r op var v with Some r' => Some ((n, e, d, vs) :: r') | None => None end
  end.
(* `val[i] if hasattr(val, 'shape') and sum(val.shape) == n_nodes else val` (1-d arrays) *)
Definition pick (v : val) (i n : nat) : val :=
  match v with Arr l => if Nat.eqb (List.length l) n then Sc (nth i l 0%Qc) else v | _ => v end.
Fixpoint edges_update (es : list edge) (s t : string) (upd : vars) : option (list edge) :=
  match es with
  | [] => None
  | (s', t', a) :: r =>
    if String.eqb s s' && String.eqb t t' then Some ((s', t', dupdate a upd) :: r)
    else match edges_update r s t upd with Some r' => Some ((s', t', a) :: r') | None => None end
  end.
Definition prefix_str (n p : string) : string := String.append n (String.append "/" p).
(* collect_edges lifts an edge of a sub-circuit into the caller's scope: source, target and every variable path held as a
   string-valued attribute get the sub-circuit's name in front ('source' is a keyword, it is not modelled as a Ref) *)
Definition prefix_attrs (n : string) (a : vars) : vars :=
  map (fun kv => (fst kv, match snd kv with Ref p => Ref (prefix_str n p) | v => v end)) a.
Definition prefix_edge (n : string) (e : edge) : edge :=
  let '(s, t, a) := e in (prefix_str n s, prefix_str n t, prefix_attrs n a).

(* ---------------------------------------------------------------- Impl: on the store *)
Fixpoint get_nodes (d : nat) (h : heap) (c : id) (pat : path) : option (list path) :=
  match lookup h c with
  | Some (OCirc ch _) =>
    match d, pat with
    | O, [p] => if dhas p ch then Some [[p]]
                else if String.eqb p all then Some (map (fun x => [fst x]) ch) else Some []
    | S d', p :: rest =>
      if String.eqb p all then
        match mapM (fun x => match get_nodes d' h (snd x) rest with
                             | Some l => Some (map (cons (fst x)) l) | None => None end) ch with
        | Some ls => Some (List.concat ls) | None => None end
      else match dget p ch with
           | Some cc => match get_nodes d' h cc rest with Some l => Some (map (cons p) l) | None => None end
           | None => Some []          (* fix D73: `if node_lvl not in net: return list()` *)
           end
    | _, _ => None
    end
  | _ => None
  end.

Fixpoint get_node_template (d : nat) (h : heap) (c : id) (n : path) : option id :=
  match lookup h c, n with
  | Some (OCirc ch _), p :: rest =>
    match dget p ch with
    | None => None
    | Some x => match d with O => Some x | S d' => get_node_template d' h x rest end
    end
  | _, _ => None
  end.

Fixpoint add_node_template (d : nat) (h : heap) (c : id) (n : path) (nid : id) : option heap :=
  match lookup h c, n with
  | Some (OCirc ch es), p :: rest =>
    match dget p ch with
    | None => None
    | Some x => match d with
                | O => Some (hset h c (OCirc (dset p nid ch) es))
                | S d' =>
                  (* fix D47: net_node = deepcopy(net_node); net[node[0]] = net_node; net_node.add_node_template(...) *)
                  match copy_circ d' h [] x with
                  | Some (h1, _, x') => add_node_template d' (hset h1 c (OCirc (dset p x' ch) es)) x' rest nid
                  | None => None
                  end
                end
    end
  | _, _ => None
  end.

Definition has_var (d : nat) (h : heap) (r : id) (n : path) (op var : string) : bool :=
  match get_node_template d h r n with
  | Some nid => match node_den h nid with Some a => anode_has a op var | None => false end
  | None => false
  end.

Fixpoint ops_update (h : heap) (ops : list (id * vars)) (op var : string) (v : val) : option (list (id * vars)) :=
  match ops with
  | [] => None
  | (oid, vs) :: r =>
    match lookup h oid with
    | Some (OOp n _ _) =>
      if String.eqb n op then Some ((oid, dset var v vs) :: r)
      else match ops_update h r op var v with Some r' => Some ((oid, vs) :: r') | None => None end
    | _ => None
    end
  end.
Definition node_update_var (h : heap) (nid : id) (op var : string) (v : val) : option heap :=
  match lookup h nid with
  | Some (ONode ops) =>
    match ops_update h ops op var v with Some ops' => Some (hset h nid (ONode ops')) | None => None end
  | _ => None
  end.

Definition upd_one (d : nat) (r : id) (h : heap) (n : path) (op var : string) (v : val) : option heap :=
  match get_node_template d h r n with
  | Some nid =>
    match copy_node h nid with
    | Some (h1, nid') =>
      match node_update_var h1 nid' op var v with
      | Some h2 => add_node_template d h2 r n nid'
      | None => None
      end
    | None => None
    end
  | None => None
  end.
Fixpoint upd_all (d : nat) (r : id) (h : heap) (targets : list path) (i ntot : nat) (op var : string) (v : val)
  : option heap :=
  match targets with
  | [] => Some h
  | n :: rest =>
    match upd_one d r h n op var (pick v i ntot) with
    | Some h' => upd_all d r h' rest (S i) ntot op var v
    | None => None
    end
  end.
Definition update_var (d : nat) (r : id) (h : heap) (pat : path) (op var : string) (v : val) : option heap :=
  match get_nodes d h r pat with
  | Some ns => let ts := filter (fun n => has_var d h r n op var) ns in
               upd_all d r h ts 0 (List.length ts) op var v
  | None => None
  end.

Definition update_edge (r : id) (h : heap) (s t : string) (upd : vars) : option heap :=
  match lookup h r with
  | Some (OCirc ch es) =>
    match edges_update es s t upd with Some es' => Some (hset h r (OCirc ch es')) | None => None end
  | _ => None
  end.

Fixpoint collect_edges (d : nat) (h : heap) (c : id) : option (list edge) :=
  match lookup h c with
  | Some (OCirc ch es) =>
    match d with
    | O => Some es
    | S d' =>
      match mapM (fun x => match collect_edges d' h (snd x) with
                           | Some l => Some (map (prefix_edge (fst x)) l) | None => None end) ch with
      | Some ls => Some (es ++ List.concat ls) | None => None end
    end
  | _ => None
  end.

(* ---------------------------------------------------------------- Spec: on the tree *)
Fixpoint tget_nodes (t : atree) (pat : path) : option (list path) :=
  match pat with
  | [] => None
  | p :: rest =>
    match t with
    | ALeaf ns _ =>
      match rest with
      | [] => if dhas p ns then Some [[p]]
              else if String.eqb p all then Some (map (fun x => [fst x]) ns) else Some []
      | _ => None
      end
    | AInner ss _ =>
      if String.eqb p all then
        match mapM (fun x => match tget_nodes (snd x) rest with
                             | Some l => Some (map (cons (fst x)) l) | None => None end) ss with
        | Some ls => Some (List.concat ls) | None => None end
      else match dget p ss with
           | Some s => match tget_nodes s rest with Some l => Some (map (cons p) l) | None => None end
           | None => Some []
           end
    end
  end.

Fixpoint tget_node (t : atree) (n : path) : option anode :=
  match n with
  | [] => None
  | p :: rest =>
    match t with
    | ALeaf ns _ => dget p ns
    | AInner ss _ => match dget p ss with Some s => tget_node s rest | None => None end
    end
  end.

Fixpoint tset_node (t : atree) (n : path) (a : anode) : option atree :=
  match n with
  | [] => None
  | p :: rest =>
    match t with
    | ALeaf ns es => if dhas p ns then Some (ALeaf (dset p a ns) es) else None
    | AInner ss es =>
      match dget p ss with
      | Some s => match tset_node s rest a with Some s' => Some (AInner (dset p s' ss) es) | None => None end
      | None => None
      end
    end
  end.

Definition thas_var (t : atree) (n : path) (op var : string) : bool :=
  match tget_node t n with Some a => anode_has a op var | None => false end.

Definition tupd_one (t : atree) (n : path) (op var : string) (v : val) : option atree :=
  match tget_node t n with
  | Some a => match anode_update a op var v with Some a' => tset_node t n a' | None => None end
  | None => None
  end.
Fixpoint tupd_all (t : atree) (targets : list path) (i ntot : nat) (op var : string) (v : val) : option atree :=
  match targets with
  | [] => Some t
  | n :: rest =>
    match tupd_one t n op var (pick v i ntot) with
    | Some t' => tupd_all t' rest (S i) ntot op var v
    | None => None
    end
  end.
Definition tupdate_var (t : atree) (pat : path) (op var : string) (v : val) : option atree :=
  match tget_nodes t pat with
  | Some ns => let ts := filter (fun n => thas_var t n op var) ns in
               tupd_all t ts 0 (List.length ts) op var v
  | None => None
  end.
Definition tupdate_edge (t : atree) (s tg : string) (upd : vars) : option atree :=
  match t with
  | ALeaf ns es => match edges_update es s tg upd with Some es' => Some (ALeaf ns es') | None => None end
  | AInner ss es => match edges_update es s tg upd with Some es' => Some (AInner ss es') | None => None end
  end.
Fixpoint tcollect_edges (t : atree) : list edge :=
  match t with
  | ALeaf _ es => es
  | AInner ss es => es ++ flat_map (fun x => map (prefix_edge (fst x)) (tcollect_edges (snd x))) ss
  end.

(* ---------------------------------------------------------------- observation (what the compiler receives) *)
Definition okey := (path * string * string)%type.
Fixpoint path_eqb (a b : path) : bool :=
  match a, b with
  | [], [] => true
  | x :: a', y :: b' => String.eqb x y && path_eqb a' b'
  | _, _ => false
  end.
Definition okey_eqb (a b : okey) : bool :=
  let '(p, o, v) := a in let '(p', o', v') := b in path_eqb p p' && String.eqb o o' && String.eqb v v'.
(* values[n]["op/var"] = val : the last assignment wins *)
Definition ov_get (ovs : list (okey * val)) (k : okey) : option val :=
  fold_left (fun acc kv => if okey_eqb (fst kv) k then Some (snd kv) else acc) ovs None.
Definition nv_entry := (path * string * string * val)%type.
Definition overrides (resolve : path -> option (list path)) (nv : list nv_entry) : option (list (okey * val)) :=
  match mapM (fun e : nv_entry =>
                let '(pat, op, var, v) := e in
                match resolve pat with
                | Some ns => Some (map (fun iv => ((snd iv, op, var), pick v (fst iv) (List.length ns)))
                                       (combine (seq 0 (List.length ns)) ns))
                | None => None
                end) nv with
  | Some ls => Some (List.concat ls)
  | None => None
  end.
(* OperatorGraphTemplate.apply + OperatorTemplate.apply: variations (copied), overridden by the passed values,
   every remaining variable of the operator from its defaults *)
(* fix D97: a variable declared by a bare integer (ScI) has dtype 'int'; before the fix (fx = false) every value that
   reaches it is cast to that dtype when the backend variable is created (numpy: truncation toward zero); since the fix
   the dtype follows the value (fx = true) *)
Definition trunc_q (q : Qc) : Qc := Q2Qc (inject_Z (Z.quot (Qnum (this q)) (Zpos (Qden (this q))))).
Definition cast_val (fx : bool) (dflt v : val) : val :=
  let v' := match v with ScI z => Sc (Q2Qc (inject_Z z)) | _ => v end in
  match dflt with
  | ScI _ => if fx then v' else match v' with Sc q => Sc (trunc_q q) | Arr l => Arr (map trunc_q l) | _ => v' end
  | _ => v'
  end.
Definition render_node (fx : bool) (ovs : list (okey * val)) (n : path) (a : anode) : list (okey * val) :=
  flat_map (fun o : aop =>
              let '(opn, _, defs, vs) := o in
              map (fun dv => ((n, opn, fst dv),
                              cast_val fx (snd dv)
                                (match ov_get ovs (n, opn, fst dv) with
                                 | Some v => v
                                 | None => match dget (fst dv) vs with Some v => v | None => snd dv end
                                 end))) defs) a.
Definition render (fx : bool) (ovs : list (okey * val)) (nodes : list (path * anode)) : list (okey * val) :=
  flat_map (fun na => render_node fx ovs (fst na) (snd na)) nodes.
Definition all_pat (d : nat) : path := repeat all (S d).

Definition nodes_of (d : nat) (r : id) (h : heap) : option (list (path * anode)) :=
  match get_nodes d h r (all_pat d) with
  | Some ns => mapM (fun n => match get_node_template d h r n with
                              | Some nid => match node_den h nid with Some a => Some (n, a) | None => None end
                              | None => None end) ns
  | None => None
  end.
Definition tnodes_of (d : nat) (t : atree) : option (list (path * anode)) :=
  match tget_nodes t (all_pat d) with
  | Some ns => mapM (fun n => match tget_node t n with Some a => Some (n, a) | None => None end) ns
  | None => None
  end.

(* ---------------------------------------------------------------- update_template (circuit.py 192-263, 1627-1649) *)
(* update_template(nodes=adds, edges=es, in_place=..): `nodes = update_dict(self.nodes, nodes)` deep-copies the whole
   dict of node templates (one memo: sharing among the copies is preserved) and then registers the passed NodeTemplate
   objects under their names; `edges = update_edges(self.edges, edges)` copies the edge list and appends; without
   in_place a new CircuitTemplate object is constructed (its `_edge_map` is rebuilt), with in_place the attributes of
   `self` are overwritten and (fix D75) `self._edge_map` is rebuilt.  Passing nodes to a hierarchical
   template raises.  `adds` names the passed objects by the node paths they are fetched from (get_node_template). *)
Definition resolve_adds (d : nat) (h : heap) (r : id) (adds : list (string * path)) : option (list (string * id)) :=
  mapM (fun a => match get_node_template d h r (snd a) with Some nid => Some (fst a, nid) | None => None end) adds.
Definition tresolve_adds (t : atree) (adds : list (string * path)) : option (list (string * anode)) :=
  mapM (fun a => match tget_node t (snd a) with Some x => Some (fst a, x) | None => None end) adds.
Definition is_nil {A} (l : list A) : bool := match l with [] => true | _ => false end.

Definition update_template (d : nat) (r : id) (h : heap) (inpl : bool) (adds : list (string * path)) (es : list edge)
  : option (heap * id) :=
  match lookup h r, resolve_adds d h r adds with
  | Some (OCirc ch es0), Some news =>
    let copied := if is_nil adds then Some (h, ch)
                  else match d with
                       | O => match copy_children copy_node_m h [] ch with
                              | Some (h1, _, ch1) => Some (h1, dupdate ch1 news) | None => None end
                       | S _ => None
                       end in
    match copied with
    | Some (h1, ch') =>
      if inpl then Some (hset h1 r (OCirc ch' (es0 ++ es)), r)
      else Some (h1 ++ [OCirc ch' (es0 ++ es)], List.length h1)
    | None => None
    end
  | _, _ => None
  end.
Definition tupdate_template (t : atree) (adds : list (string * path)) (es : list edge) : option atree :=
  match tresolve_adds t adds with
  | Some news =>
    match t with
    | ALeaf ns es0 => Some (ALeaf (dupdate ns news) (es0 ++ es))
    | AInner ss es0 => if is_nil adds then Some (AInner ss (es0 ++ es)) else None
    end
  | None => None
  end.

(* ---------------------------------------------------------------- histories *)
Definition ev_entry := (string * string * vars)%type.
Inductive hop :=
| UpdVar (pat : path) (op var : string) (v : val)
| UpdEdge (s t : string) (upd : vars)
| UpdTemplate (inpl : bool) (adds : list (string * path)) (es : list edge)   (* c = c.update_template(...) / in_place *)
| Observe (nv : list nv_entry) (ev : list ev_entry)                         (* apply(node_values=nv, edge_values=ev) *)
| ObserveBase (k : nat).            (* compile the k-th template left behind by `c = c.update_template(...)` (newest first) *)
Inductive hout := ODone | ORaised | OObs (nodes : list (okey * val)) (edges : list edge).

(* apply(edge_values={(source, target): attrs}): every edge between the two variables gets the passed attributes *)
Definition ev_apply (ev : list ev_entry) (e : edge) : edge :=
  let '(s, t, a) := e in
  match find (fun x : ev_entry => let '(s', t', _) := x in String.eqb s s' && String.eqb t t') ev with
  | Some (_, _, upd) => (s, t, dupdate a upd)
  | None => e
  end.
(* a value that is still an array of >= 2 elements (its length did not match the number of addressed nodes) makes the
   compilation raise ("Shapes of state variable ... do not match") *)
Definition bad_val (v : val) : bool := match v with Arr l => Nat.leb 2 (List.length l) | _ => false end.
(* a variable path held by an edge attribute must name a variable of the compiled circuit ("Could not find object with path") *)
Definition key_str (k : okey) : string := let '(p, o, v) := k in String.concat "/" (p ++ [o; v]).
Definition bad_ref (vals : list (okey * val)) (e : edge) : bool :=
  let '(_, _, a) := e in
  existsb (fun kv => match snd kv with
                     | Ref p => negb (existsb (fun x => String.eqb (key_str (fst x)) p) vals)
                     | _ => false end) a.
Definition finish (vals : list (okey * val)) (es : list edge) (ev : list ev_entry) : hout :=
  if existsb (fun kv => bad_val (snd kv)) vals || existsb (bad_ref vals) es then ORaised else OObs vals (map (ev_apply ev) es).

Definition observe_gen (fx : bool) (d : nat) (r : id) (h : heap) (nv : list nv_entry) (ev : list ev_entry) : hout :=
  match nodes_of d r h, overrides (get_nodes d h r) nv, collect_edges d h r with
  | Some ns, Some ovs, Some es => finish (render fx ovs ns) es ev
  | _, _, _ => ORaised
  end.
Definition tobserve_gen (fx : bool) (d : nat) (t : atree) (nv : list nv_entry) (ev : list ev_entry) : hout :=
  match tnodes_of d t, overrides (tget_nodes t) nv with
  | Some ns, Some ovs => finish (render fx ovs ns) (tcollect_edges t) ev
  | _, _ => ORaised
  end.
(* One-line switch, read by harness/c07.py (overridable by VERIF_C07_D97_FIXED): true since fix D97 (the dtype of an
   int-declared variable follows the value it is given); false = the mechanism before D97 (values truncated to int), kept
   for the `_before_fix` statements. *)
Definition fixed_D97 : bool := true.
Definition observe := observe_gen true.      (* the measurement used by C14 (its templates declare floats) *)
Definition tobserve := tobserve_gen true.

(* Impl state: the store, the template object the user's variable holds (update_template without in_place returns a
   new object) and the base templates that were left behind: they can still be compiled (ObserveBase) and must be unchanged.
   Since fix D75 update_template(edges=.., in_place=True) rebuilds `_edge_map` from the new edge list
   (`self._edge_map = {}; self.edges = self._load_edge_templates(edges)`), so get_edge always finds the first own edge. *)
Definition istate := (heap * id * list id)%type.    (* store, current template, the base templates left behind (newest first) *)
Definition sstate := (atree * list atree)%type.

Definition stepI_gen (fx : bool) (d : nat) (st : istate) (o : hop) : istate * hout :=
  let '(h, r, olds) := st in
  match o with
  | UpdVar pat op var v => match update_var d r h pat op var v with Some h' => ((h', r, olds), ODone) | None => (st, ORaised) end
  | UpdEdge s t upd => match update_edge r h s t upd with Some h' => ((h', r, olds), ODone) | None => (st, ORaised) end
  | UpdTemplate inpl adds es =>
    match update_template d r h inpl adds es with
    | Some (h', r') => ((h', r', if inpl then olds else r :: olds), ODone)
    | None => (st, ORaised)
    end
  | Observe nv ev => (st, observe_gen fx d r h nv ev)
  | ObserveBase k => (st, match nth_error olds k with Some b => observe_gen fx d b h [] [] | None => ORaised end)
  end.
Definition stepS_gen (fx : bool) (d : nat) (st : sstate) (o : hop) : sstate * hout :=
  let '(t, olds) := st in
  match o with
  | UpdVar pat op var v => match tupdate_var t pat op var v with Some t' => ((t', olds), ODone) | None => (st, ORaised) end
  | UpdEdge s tg upd => match tupdate_edge t s tg upd with Some t' => ((t', olds), ODone) | None => (st, ORaised) end
  | UpdTemplate inpl adds es =>
    match tupdate_template t adds es with
    | Some t' => ((t', if inpl then olds else t :: olds), ODone)
    | None => (st, ORaised)
    end
  | Observe nv ev => (st, tobserve_gen fx d t nv ev)
  | ObserveBase k => (st, match nth_error olds k with Some b => tobserve_gen fx d b [] [] | None => ORaised end)
  end.
Fixpoint runI_gen (fx : bool) (d : nat) (st : istate) (ops : list hop) : istate * list hout :=
  match ops with
  | [] => (st, [])
  | o :: rest => let '(s1, out) := stepI_gen fx d st o in let '(s2, outs) := runI_gen fx d s1 rest in (s2, out :: outs)
  end.
Fixpoint runS_gen (fx : bool) (d : nat) (st : sstate) (ops : list hop) : sstate * list hout :=
  match ops with
  | [] => (st, [])
  | o :: rest => let '(s1, out) := stepS_gen fx d st o in let '(s2, outs) := runS_gen fx d s1 rest in (s2, out :: outs)
  end.
(* the code as it is / the specification: an override reaches its target exactly *)
Definition runI := runI_gen fixed_D97.
Definition runS' := runS_gen true.
Definition runS (d : nat) (t : atree) (ops : list hop) : sstate * list hout := runS' d (t, []) ops.
Definition init_state (h : heap) (r : id) : istate := (h, r, []).

(* ---------------------------------------------------------------- comparison glue for the correspondence run *)
Definition val_eqb (a b : val) : bool :=
  match a, b with
  | Sc x, Sc y => Qc_eqb x y
  | Arr x, Arr y => Nat.eqb (List.length x) (List.length y) && forallb (fun p => Qc_eqb (fst p) (snd p)) (combine x y)
  | ScI x, ScI y => Z.eqb x y
  | Ref x, Ref y => String.eqb x y
  | _, _ => false
  end.
Definition ol_get (l : list (okey * val)) (k : okey) : option val :=
  match find (fun kv => okey_eqb (fst kv) k) l with Some kv => Some (snd kv) | None => None end.
(* the real code's observation: values of the listed keys (every non-input variable of every node) and, for each
   (source variable, target variable) pair with a non-zero coefficient in the compiled vector field, that coefficient =
   the summed weight of the model's edges between them; every model edge must be among the listed pairs *)
Definition weight_of (a : vars) : Qc := match dget "weight"%string a with Some (Sc q) => q | _ => 1%Qc end.
(* an edge through an edge template with an extra input `t_ref` (a Ref attribute) computes weight * (source + referenced
   variable): the referenced variable is a second source of the same weight *)
Definition edge_mult (e : edge) (s : string) : nat :=
  let '(s', _, a) := e in
  (if String.eqb s s' then 1 else 0) +
  List.length (filter (fun kv : string * val => match snd kv with Ref p => String.eqb s p | _ => false end) a).
Definition edge_sum (es : list edge) (s t : string) : Qc :=
  fold_left (fun acc e => let '(_, t', a) := e in
                          if String.eqb t t' then (acc + Q2Qc (inject_Z (Z.of_nat (edge_mult e s))) * weight_of a)%Qc else acc) es 0%Qc.
Definition is_input (inputs : list string) (k : okey) : bool := existsb (String.eqb (snd k)) inputs.
Definition obs_ok (inputs : list string) (model : hout) (keys : list (okey * val)) (pairs : list (string * string * Qc)) : bool :=
  match model with
  | OObs ns es =>
    forallb (fun kv => match ol_get ns (fst kv) with Some v => val_eqb v (snd kv) | None => false end) keys
    && Nat.eqb (List.length (filter (fun kv => negb (is_input inputs (fst kv))) ns)) (List.length keys)
    && forallb (fun p => let '(s, t, w) := p in Qc_eqb (edge_sum es s t) w) pairs
    && forallb (fun e => let '(s, t, _) := e in
                         existsb (fun p => let '(s', t', _) := p in String.eqb s s' && String.eqb t t') pairs) es
  | _ => false
  end.
Inductive pyout := PDone | PRaised | PObs (keys : list (okey * val)) (pairs : list (string * string * Qc)).
Definition out_ok (inputs : list string) (m : hout) (p : pyout) : bool :=
  match m, p with
  | ODone, PDone => true
  | ORaised, PRaised => true
  | OObs _ _, PObs k e => obs_ok inputs m k e
  | _, _ => false
  end.
Fixpoint outs_ok (inputs : list string) (ms : list hout) (ps : list pyout) : bool :=
  match ms, ps with
  | [], [] => true
  | m :: ms', p :: ps' => out_ok inputs m p && outs_ok inputs ms' ps'
  | _, _ => false
  end.
